\* generator: pseudo-random registries / presets, sampling bytes enumerated over the acceptance boundaries
CONSTANTS
  MaxV = 12
  GenSeed = 1
  NCases = 4
  Emit = FALSE
  MinV = 1
  TwoStatus = FALSE
INIT InitB
NEXT NextB
INVARIANT InvB
CHECK_DEADLOCK FALSE
