\* behaviour export (spec -> code): one history per explored transition
CONSTANTS
  NKeys = 4
  MaxIndex = 4
  MaxHandles = 4
  MaxCalls = 4
  InPlaceOnly = TRUE
  GenLookups = FALSE
  KnownDeviations = {}
INIT Init
NEXT Next
VIEW absView
ACTION_CONSTRAINT EmitTransitions
CHECK_DEADLOCK FALSE
