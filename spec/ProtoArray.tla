--------------------------- MODULE ProtoArray ---------------------------
(* Implementation-shaped specification of eth2/forkchoice/proto (ProtoArray + ProtoVoteStore) and of    *)
(* the wrapper's bookkeeping in eth2/forkchoice/forkchoice.go, transcribed call by call: the node array *)
(* with its index offset, the first-slot table, weights, best-child / best-descendant links, the        *)
(* current/next vote trackers with lazily applied deltas, and OnPrune's prefix removal.                 *)
(* It runs in lock-step with the abstract specification ForkChoice.tla (same calls applied to both);    *)
(* MC_ProtoArray checks that every reply of this layer equals the abstract reply (refinement of C09 -   *)
(* C11 at the level of the algorithm), for all histories within the bound.                              *)
EXTENDS ForkChoice

VARIABLES arr,      \* sequence of [root, slot, tpar, fpar, parent, je, fe, w, bc, bd]; links are absolute indices, NONE = -1
          off,      \* index of arr[1]
          bslots,   \* first known slot per root: [roots -> slot]
          pje, pfe, \* the array's copy of the store's justified / finalized epoch
          upd,      \* "updatedConnections"
          trk,      \* vote trackers: [validator -> [cur, next, curE, nextE]] (refs are <<root, slot>>, NoRef = none)
          chg       \* vote store "changed" flag

pvars == <<arr, off, bslots, pje, pfe, upd, trk, chg>>
NONE == -1

PN == Len(arr)
Pos(i) == i - off + 1                       \* absolute index -> position in arr
Abs(p) == off + p - 1
Valid(i) == i # NONE /\ i >= off /\ Pos(i) <= PN
PIdx(ref) == LET S == {p \in 1..PN : arr[p].root = ref[1] /\ arr[p].slot = ref[2]} IN
             IF S = {} THEN NONE ELSE Abs(CHOOSE p \in S : TRUE)
PNode(r, s, tp, fp, par, je, fe) ==
    [root |-> r, slot |-> s, tpar |-> tp, fpar |-> fp, parent |-> par, je |-> je, fe |-> fe, w |-> 0, bc |-> NONE, bd |-> NONE]

\* viability relative to store epochs ep = <<justified epoch, finalized epoch>>
PViable(ep, n) == (n.je = ep[1] \/ ep[1] = 0) /\ (n.fe = ep[2] \/ ep[2] = 0)
Ep == <<pje, pfe>>
PLeads(ep, a, n) == IF n.bd # NONE THEN PViable(ep, a[Pos(n.bd)]) ELSE PViable(ep, n)

\* maybeUpdateBestChildAndDescendant(parent, child) on array a
MaybeUpdate(ep, a, pi, ci) ==
    LET par == a[Pos(pi)]
        ch == a[Pos(ci)]
        chLeads == PLeads(ep, a, ch)
        toNone == [a EXCEPT ![Pos(pi)].bc = NONE, ![Pos(pi)].bd = NONE]
        toChild == [a EXCEPT ![Pos(pi)].bc = ci, ![Pos(pi)].bd = IF ch.bd = NONE THEN ci ELSE ch.bd]
    IN IF par.bc # NONE
       THEN IF par.bc = ci
            THEN (IF ~chLeads THEN toNone ELSE toChild)
            ELSE LET best == a[Pos(par.bc)]
                     bestLeads == PLeads(ep, a, best)
                 IN IF chLeads /\ ~bestLeads THEN toChild
                    ELSE IF ~chLeads /\ bestLeads THEN a
                    ELSE IF ~chLeads /\ ~bestLeads THEN toNone
                    ELSE IF ch.w = best.w THEN (IF ch.root > best.root THEN toChild ELSE a)
                    ELSE IF ch.w >= best.w THEN toChild ELSE a
       ELSE IF chLeads THEN toChild ELSE a

\* for p = PN down to 1: if fpar # NONE then MaybeUpdate(fpar, p)
RECURSIVE Connect(_, _, _)
Connect(ep, a, p) == IF p = 0 THEN a
                     ELSE Connect(ep, IF a[p].fpar # NONE THEN MaybeUpdate(ep, a, a[p].fpar, Abs(p)) ELSE a, p - 1)

\* ApplyScoreChanges: first pass adds deltas and propagates them to the fork-choice parents
RECURSIVE AddDeltas(_, _, _)
AddDeltas(a, d, p) ==
    IF p = 0 THEN a
    ELSE LET a2 == [a EXCEPT ![p].w = @ + d[p]]
             d2 == IF a[p].fpar # NONE THEN [d EXCEPT ![Pos(a[p].fpar)] = @ + d[p]] ELSE d
         IN AddDeltas(a2, d2, p - 1)
ApplyScores(ep, a, d) == Connect(ep, AddDeltas(a, d, Len(a)), Len(a))

\* ProtoVoteStore.ComputeDeltas over validators 0..NV-1 in order; returns <<deltas, trackers>>
TrkOf(t, v) == IF v \in DOMAIN t THEN t[v] ELSE [cur |-> NoRef, next |-> NoRef, curE |-> 0, nextE |-> 0]
BalIn(b, v) == IF v + 1 <= Len(b) THEN b[v + 1] ELSE 0
RECURSIVE Deltas(_, _, _, _, _, _)
Deltas(v, nv, d, t, oldB, newB) ==
    IF v = nv THEN <<d, t>>
    ELSE LET k == TrkOf(t, v) IN
         IF k.cur = NoRef /\ k.next = NoRef THEN Deltas(v + 1, nv, d, t, oldB, newB)
         ELSE LET ob == BalIn(oldB, v)
                  nb == BalIn(newB, v) IN
              IF k.cur = NoRef \/ k.curE < k.nextE \/ ob # nb
              THEN LET ci == PIdx(k.cur)
                       ni == PIdx(k.next)
                       d1 == IF ci # NONE THEN [d EXCEPT ![Pos(ci)] = @ - ob] ELSE d
                       d2 == IF ni # NONE THEN [d1 EXCEPT ![Pos(ni)] = @ + nb] ELSE d1
                       k2 == IF ni # NONE THEN [k EXCEPT !.cur = k.next, !.curE = k.nextE] ELSE k
                   IN Deltas(v + 1, nv, d2, [x \in DOMAIN t \cup {v} |-> IF x = v THEN k2 ELSE t[x]], oldB, newB)
              ELSE Deltas(v + 1, nv, d, t, oldB, newB)
MaxVoter == IF DOMAIN trk = {} THEN 0 ELSE 1 + (CHOOSE v \in DOMAIN trk : \A u \in DOMAIN trk : v >= u)
ZeroDeltas == [p \in 1..PN |-> 0]

---------------------------------------------------------------------------
(* calls                                                                   *)

\* ProcessSlot(parent, slot): fills <<parent, u>> for blockSlots[parent] < u <= slot that do not exist yet
RECURSIVE FillFrom(_, _, _, _, _, _, _)
FillFrom(a, parent, u, slot, last, je, fe) ==
    IF u > slot THEN a
    ELSE LET S == {p \in 1..Len(a) : a[p].root = parent /\ a[p].slot = u} IN
         IF S # {} THEN FillFrom(a, parent, u + 1, slot, off + (CHOOSE p \in S : TRUE) - 1, je, fe)
         ELSE FillFrom(Append(a, PNode(parent, u, last, last, parent, je, fe)), parent, u + 1, slot, off + Len(a), je, fe)
PSlotArr(parent, slot, je, fe) ==
    IF PIdx(<<parent, slot>>) # NONE THEN arr
    ELSE FillFrom(arr, parent, bslots[parent] + 1, slot, PIdx(<<parent, bslots[parent]>>), je, fe)

PProcessSlot(parent, slot, je, fe) ==
    /\ arr' = PSlotArr(parent, slot, je, fe)
    /\ upd' = (IF arr' = arr THEN upd ELSE FALSE)
    /\ UNCHANGED <<off, bslots, pje, pfe, trk, chg>>

PBlockReply(parent, root, slot) ==
    IF root \in DOMAIN bslots THEN TRUE ELSE parent \in DOMAIN bslots /\ bslots[parent] < slot
PProcessBlock(parent, root, slot, je, fe) ==
    IF root \in DOMAIN bslots \/ ~(parent \in DOMAIN bslots /\ bslots[parent] < slot)
    THEN UNCHANGED pvars
    ELSE LET a1 == PSlotArr(parent, slot, je, fe)
             fp == PIdx(<<parent, bslots[parent]>>)
             S == {p \in 1..Len(a1) : a1[p].root = parent /\ a1[p].slot = slot}
             tp == off + (CHOOSE p \in S : TRUE) - 1
         IN /\ arr' = Append(a1, PNode(root, slot, tp, fp, parent, je, fe))
            /\ bslots' = [r \in DOMAIN bslots \cup {root} |-> IF r = root THEN slot ELSE bslots[r]]
            /\ upd' = FALSE
            /\ UNCHANGED <<off, pje, pfe, trk, chg>>

\* wrapper ProcessAttestation: node must exist; vote store replaces on a newer target epoch (or first epoch-0 vote)
PAttReply(root, slot) == PIdx(<<root, slot>>) # NONE
PProcessAttestation(v, root, slot) ==
    IF PIdx(<<root, slot>>) = NONE THEN UNCHANGED pvars
    ELSE LET k == TrkOf(trk, v)
             e == EpochOf(slot)
             zero == k = [cur |-> NoRef, next |-> NoRef, curE |-> 0, nextE |-> 0]
         IN IF e > k.nextE \/ (e = 0 /\ zero)
            THEN /\ trk' = [x \in DOMAIN trk \cup {v} |-> IF x = v THEN [k EXCEPT !.next = <<root, slot>>, !.nextE = e] ELSE trk[x]]
                 /\ chg' = TRUE
                 /\ UNCHANGED <<arr, off, bslots, pje, pfe, upd>>
            ELSE /\ trk' = [x \in DOMAIN trk \cup {v} |-> IF x = v THEN k ELSE trk[x]]
                 /\ UNCHANGED <<arr, off, bslots, pje, pfe, upd, chg>>

\* FindHead on array a (connections fresh): <<ok, ref>>
PFindHead(ep, a, ref) ==
    LET S == {p \in 1..Len(a) : a[p].root = ref[1] /\ a[p].slot = ref[2]} IN
    IF S = {} THEN <<FALSE, NoRef>>
    ELSE LET n == a[CHOOSE p \in S : TRUE]
             b == IF n.bd = NONE THEN n ELSE a[Pos(n.bd)]
         IN IF PViable(ep, b) THEN <<TRUE, <<b.root, b.slot>>>> ELSE <<FALSE, NoRef>>

\* the array after updateVotesMaybe + the lazy updateConnections that every head-dependent query performs
Settled(b) ==
    LET dt == IF chg THEN Deltas(0, MaxVoter, ZeroDeltas, trk, b, b) ELSE <<ZeroDeltas, trk>>
        a1 == IF chg THEN ApplyScores(Ep, arr, dt[1]) ELSE (IF upd THEN arr ELSE Connect(Ep, arr, PN))
    IN <<a1, dt[2]>>

\* Head()/FindHead(): reply plus the state change (pending votes applied, connections refreshed)
PHeadStep(b, start, reply) ==
    LET st == Settled(b) IN
    /\ reply = PFindHead(Ep, st[1], start)
    /\ arr' = st[1] /\ trk' = st[2] /\ chg' = FALSE /\ upd' = TRUE
    /\ UNCHANGED <<off, bslots, pje, pfe>>

\* InSubtree(anchorRoot, root) on a settled array: <<unknown, in>>
RECURSIVE WalkUp(_, _, _)
WalkUp(a, i, ai) == IF i = NONE \/ i < ai THEN FALSE
                    ELSE IF i = ai THEN TRUE
                    ELSE LET t == a[Pos(i)]
                             an == a[Pos(ai)] IN
                         IF an.bd # NONE /\ t.bd = an.bd THEN TRUE ELSE WalkUp(a, t.tpar, ai)
PInSub(a, ai, li) ==
    IF ai = li THEN TRUE
    ELSE LET an == a[Pos(ai)]
             ln == a[Pos(li)] IN
         IF an.slot > ln.slot THEN FALSE
         ELSE IF ai >= li THEN FALSE
         ELSE IF an.bd = li \/ (an.bd # NONE /\ an.bd = ln.bd) THEN TRUE
         ELSE WalkUp(a, ln.tpar, ai)
PInSubtreeRoots(a, anchor, root) ==
    IF anchor = root THEN <<FALSE, TRUE>>
    ELSE IF anchor \notin DOMAIN bslots \/ root \notin DOMAIN bslots THEN <<TRUE, FALSE>>
    ELSE LET ai == PIdx(<<anchor, bslots[anchor]>>)
             li == PIdx(<<root, bslots[root]>>) IN
         IF ai = NONE \/ li = NONE THEN <<TRUE, FALSE>> ELSE <<FALSE, PInSub(a, ai, li)>>

\* OnPrune(anchor) with a sink that never fails: prefix before the anchor is removed
RECURSIVE CanonSet(_, _)
CanonSet(i, acc) == IF i = NONE \/ i < off THEN acc ELSE CanonSet(arr[Pos(i)].tpar, acc \cup {i})
PPruned(anchor) == LET ai == PIdx(anchor) IN
                   IF ai = NONE \/ ai = off THEN <<>>
                   ELSE LET canon == CanonSet(arr[Pos(ai)].tpar, {}) IN
                        [p \in 1..(Pos(ai) - 1) |-> <<arr[p].root, arr[p].slot, IF Abs(p) \in canon THEN 1 ELSE 0>>]
POnPrune(a, anchor) ==
    LET S == {p \in 1..Len(a) : a[p].root = anchor[1] /\ a[p].slot = anchor[2]} IN
    IF S = {} THEN <<a, off, bslots>>
    ELSE LET ap == CHOOSE p \in S : TRUE
             k == ap - 1
             newOff == off + k
             kept == SubSeq(a, ap, Len(a))
             gone == {<<a[p].root, a[p].slot>> : p \in 1..k}
             relink(n) == LET tp == IF n.tpar # NONE /\ n.tpar < newOff THEN NONE ELSE n.tpar
                              fp == IF n.fpar # NONE /\ n.fpar < newOff
                                    THEN (IF n.parent = anchor[1] /\ n.root # anchor[1] /\ n.slot > anchor[2] THEN newOff ELSE NONE)
                                    ELSE n.fpar
                          IN [n EXCEPT !.tpar = tp, !.fpar = fp]
             roots == {n.root : n \in {kept[p] : p \in 1..Len(kept)}}
             bs == [r \in {x \in DOMAIN bslots : x \in roots} |->
                      LET ss == {kept[p].slot : p \in {q \in 1..Len(kept) : kept[q].root = r}} IN
                      CHOOSE s \in ss : \A t \in ss : s <= t]
         IN IF k = 0 THEN <<a, off, bslots>>
            ELSE <<[p \in 1..Len(kept) |-> relink(kept[p])], newOff, bs>>
=============================================================================
