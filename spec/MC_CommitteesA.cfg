\* exhaustive: partition / count / size theorems of the committee computation
CONSTANTS
  MaxV = 5
  GenSeed = 1
  NCases = 0
  Emit = FALSE
  MinV = 1
  TwoStatus = FALSE
INIT InitA
NEXT NextA
INVARIANT InvA
CHECK_DEADLOCK FALSE
