---------------------------- MODULE PubkeyCacheCode ----------------------------
(***************************************************************************)
(* Model checking of the code-shaped layer of PubkeyCache.tla against the  *)
(* abstract layer: every AddValidator call is executed by CodeOutcome (the *)
(* transcription of validator_pubkeys.go) and must produce one of the      *)
(* outcomes the statement allows; afterwards the parent-delegating lookups *)
(* must answer exactly the history of every handle.                        *)
(*   KnownDeviations = {}                  the repaired design: must pass. *)
(*   KnownDeviations = {"IndexDelegation"} the code as found: TLC reports  *)
(*       a counterexample, which the runner replays on the real code.      *)
(***************************************************************************)
EXTENDS PubkeyCache

VARIABLE ok    \* "ok" or the reason why the last step is not allowed by the abstract layer

cvars == <<nh, parent, trusted, own, built, reply, calls, hist, ok>>
codeView == <<nh, parent, trusted, own, built, ok>>

CodeInit == Init /\ ok = "ok"

Verdict(h, i, p, r) ==
  LET N == NormalOutcomes(St, h, i, p, FALSE) IN
  IF r.kind = "diverge" THEN "does not terminate"
  ELSE IF ~ \E o \in N : o.kind = r.kind THEN "reply " \o r.kind \o " not allowed for class " \o Class(St, h, i, p)
  ELSE IF \E o \in N :
            /\ o.kind = r.kind
            /\ r.kind = "same" => r.h2 = h
            /\ r.kind = "new"  => r.h2 > nh /\ ViewS(r.S2, r.h2) = ViewS(o.S2, o.h2)
            /\ \A x \in 1..nh : ViewS(r.S2, x) = ViewS(o.S2, x)
       THEN "ok"
       ELSE "wrong view after the call"

CodeAdd(h, i, p) ==
  /\ calls < MaxCalls
  /\ LET r == CodeOutcome(St, h, i, p, KnownDeviations)
         c == Class(St, h, i, p)
     IN  /\ r.S2.nh <= MaxHandles
         /\ SetSt(r.S2)
         /\ ok' = Verdict(h, i, p, r)
         /\ built' = [x \in 1..r.S2.nh |->
                        IF x <= nh
                        THEN (IF x = h /\ c = "append" /\ r.kind = "same" THEN Append(built[h], p) ELSE built[x])
                        ELSE IF x = r.h2 /\ c # "repeat" THEN SubSeq(built[h], 1, i) \o <<p>>
                        ELSE ViewS(r.S2, x)]      \* intermediate handle created by a nested fork-out
         /\ reply' = [op |-> "add", h |-> h, i |-> i, p |-> p, kind |-> r.kind, h2 |-> r.h2, class |-> c]
         /\ hist' = Append(hist, [h |-> h, i |-> i, p |-> p, kind |-> r.kind, h2 |-> r.h2, class |-> c])
  /\ calls' = calls + 1

CodeNext == \E h \in 1..nh, i \in 0..MaxIndex, p \in Offered : CodeAdd(h, i, p)

StepAllowed == ok = "ok"

(* the delegating lookups answer exactly the history the handle was built along *)
CodeLookupsMatch ==
  \A h \in 1..nh :
    /\ \A k \in Keys : CodeIndex(St, h, k, KnownDeviations) = IndexOf(built[h], k)
    /\ \A i \in 0..MaxIndex : CodePubkey(St, h, i) = KeyAt(built[h], i)

(* printed when an invariant fails, so that the runner can replay the behaviour on the real code *)
CodeAlias == [hist |-> ToJson(hist), ok |-> ok]
=============================================================================
