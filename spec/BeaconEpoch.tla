---------------------------- MODULE BeaconEpoch ----------------------------
(***************************************************************************)
(* process_epoch of the consensus specification for phase0, altair,        *)
(* bellatrix, capella and deneb, every sub-transition in specification     *)
(* order.  `orc` is the per-epoch-boundary oracle record supplied by the   *)
(* environment:                                                            *)
(*   comm_start, comms : beacon committees of the previous and current     *)
(*                       epoch (phase0 pending attestations only)          *)
(*   hist : [batch, br, sr]  hash_tree_root of HistoricalBatch /           *)
(*                       block_roots / state_roots at this boundary        *)
(*   sync : [indices, agg]  get_next_sync_committee_indices(state) and the *)
(*                       aggregate pubkey id (altair+)                     *)
(***************************************************************************)
EXTENDS BeaconHelpers

\* ======================================================================
\* justification and finalization (shared by all forks)
\* ======================================================================
WeighJustificationAndFinalization(st, totalActive, prevTarget, curTarget) ==
    LET prevE == PrevEpoch(st)
        curE  == CurEpoch(st)
        oldPrev == st.prev_just
        oldCur  == st.cur_just
        b0 == st.just_bits
        \* shift: bits[1:] = bits[:3]; bits[0] = 0
        b1 == <<FALSE, b0[1], b0[2], b0[3]>>
        jPrev == prevTarget * 3 >= totalActive * 2
        jCur  == curTarget * 3 >= totalActive * 2
        b2 == IF jPrev THEN [b1 EXCEPT ![2] = TRUE] ELSE b1
        b3 == IF jCur THEN [b2 EXCEPT ![1] = TRUE] ELSE b2
        cj1 == IF jPrev THEN [epoch |-> prevE, root |-> BlockRoot(st, prevE)] ELSE oldCur
        cj2 == IF jCur THEN [epoch |-> curE, root |-> BlockRoot(st, curE)] ELSE cj1
        f0 == st.fin
        f1 == IF b3[2] /\ b3[3] /\ b3[4] /\ oldPrev.epoch + 3 = curE THEN oldPrev ELSE f0
        f2 == IF b3[2] /\ b3[3] /\ oldPrev.epoch + 2 = curE THEN oldPrev ELSE f1
        f3 == IF b3[1] /\ b3[2] /\ b3[3] /\ oldCur.epoch + 2 = curE THEN oldCur ELSE f2
        f4 == IF b3[1] /\ b3[2] /\ oldCur.epoch + 1 = curE THEN oldCur ELSE f3
    IN [st EXCEPT !.prev_just = oldCur, !.cur_just = cj2, !.just_bits = b3, !.fin = f4]

\* ======================================================================
\* phase0: pending-attestation based accounting
\* ======================================================================
\* get_matching_source_attestations
MatchingSource(st, epoch) == IF epoch = CurEpoch(st) THEN st.cur_atts ELSE st.prev_atts
\* get_matching_target_attestations
MatchingTarget(st, epoch) ==
    SelectSeq(MatchingSource(st, epoch), LAMBDA a : a.data.tgt.root = BlockRoot(st, epoch))
\* get_matching_head_attestations
MatchingHead(st, epoch) ==
    SelectSeq(MatchingTarget(st, epoch), LAMBDA a : a.data.bbr = BlockRootAtSlot(st, a.data.slot))

\* get_unslashed_attesting_indices
UnslashedAttesting(st, atts, orc) ==
    {i \in UNION {AttestingIndices(orc, atts[k].data, atts[k].bits) : k \in 1..Len(atts)} :
        ~V(st, i).slashed}

Phase0Justification(st, orc) ==
    IF CurEpoch(st) <= GENESIS_EPOCH + 1 THEN st
    ELSE LET prevT == UnslashedAttesting(st, MatchingTarget(st, PrevEpoch(st)), orc)
             curT  == UnslashedAttesting(st, MatchingTarget(st, CurEpoch(st)), orc)
         IN WeighJustificationAndFinalization(st, TotalActiveBalance(st),
                TotalBalance(st, prevT), TotalBalance(st, curT))

FinalityDelay(st) == PrevEpoch(st) - st.fin.epoch
IsInInactivityLeak(st) == FinalityDelay(st) > P.MIN_EPOCHS_TO_INACTIVITY_PENALTY

\* get_eligible_validator_indices
IsEligible(st, i) ==
    LET v == V(st, i) pe == PrevEpoch(st)
    IN IsActive(v, pe) \/ (v.slashed /\ pe + 1 < v.wd)

Phase0RewardsAndPenalties(st, orc) ==
    IF CurEpoch(st) = GENESIS_EPOCH THEN st
    ELSE
    LET n     == NVal(st)
        prevE == PrevEpoch(st)
        total == TotalActiveBalance(st)
        sqrtT == ISqrt(total)
        leak  == IsInInactivityLeak(st)
        fdelay == FinalityDelay(st)
        \* get_base_reward / get_proposer_reward, by position p = index + 1
        BR == TLCEval([p \in 1..n |->
                 ((st.validators[p].eff * P.BASE_REWARD_FACTOR) \div sqrtT) \div BASE_REWARDS_PER_EPOCH])
        PR == TLCEval([p \in 1..n |-> BR[p] \div P.PROPOSER_REWARD_QUOTIENT])
        elig == TLCEval({i \in AllIndices(st) : IsEligible(st, i)})
        srcAtts == MatchingSource(st, prevE)
        tgtAtts == MatchingTarget(st, prevE)
        headAtts == MatchingHead(st, prevE)
        srcSet  == TLCEval(UnslashedAttesting(st, srcAtts, orc))
        tgtSet  == TLCEval(UnslashedAttesting(st, tgtAtts, orc))
        headSet == TLCEval(UnslashedAttesting(st, headAtts, orc))
        \* get_attestation_component_deltas: reward and penalty of validator i for one component
        CompReward(i, S, attBal) ==
            IF i \in elig /\ i \in S
            THEN IF leak THEN BR[i + 1]
                 ELSE (BR[i + 1] * (attBal \div INCR)) \div (total \div INCR)
            ELSE 0
        CompPenalty(i, S) == IF i \in elig /\ i \notin S THEN BR[i + 1] ELSE 0
        srcBal  == TotalBalance(st, srcSet)
        tgtBal  == TotalBalance(st, tgtSet)
        headBal == TotalBalance(st, headSet)
        \* get_inclusion_delay_deltas: the earliest-included attestation of each attester
        \* (first one in list order among those of minimal inclusion delay)
        srcSets == TLCEval([k \in 1..Len(srcAtts) |-> AttestingIndices(orc, srcAtts[k].data, srcAtts[k].bits)])
        Earliest(i) ==
            LET ks == {k \in 1..Len(srcAtts) : i \in srcSets[k]}
                md == MinOfSet({srcAtts[k].delay : k \in ks})
            IN srcAtts[MinOfSet({k \in ks : srcAtts[k].delay = md})]
        inclAcc == FoldSet(LAMBDA i, acc :
                       LET a == Earliest(i)
                           acc1 == [acc EXCEPT ![a.proposer + 1] = @ + PR[i + 1]]
                       IN [acc1 EXCEPT ![i + 1] = @ + ((BR[i + 1] - PR[i + 1]) \div a.delay)],
                     ConstSeq(n, 0), srcSet)
        \* get_inactivity_penalty_deltas
        InactPenalty(i) ==
            IF leak /\ i \in elig
            THEN (BASE_REWARDS_PER_EPOCH * BR[i + 1] - PR[i + 1])
                 + (IF i \notin tgtSet
                      THEN (V(st, i).eff * fdelay) \div InactivityPenaltyQuotient("phase0")
                      ELSE 0)
            ELSE 0
        rewards == [p \in 1..n |->
                      CompReward(p - 1, srcSet, srcBal) + CompReward(p - 1, tgtSet, tgtBal)
                      + CompReward(p - 1, headSet, headBal) + inclAcc[p]]
        penalties == [p \in 1..n |->
                      CompPenalty(p - 1, srcSet) + CompPenalty(p - 1, tgtSet)
                      + CompPenalty(p - 1, headSet) + InactPenalty(p - 1)]
        newBal == [p \in 1..n |->
                      LET up == st.balances[p] + rewards[p]
                      IN IF penalties[p] > up THEN 0 ELSE up - penalties[p]]
    IN [st EXCEPT !.balances = TLCEval(newBal)]

\* ======================================================================
\* altair+: participation-flag based accounting
\* ======================================================================
\* get_unslashed_participating_indices
UnslashedParticipating(st, flag, epoch) ==
    LET part == IF epoch = CurEpoch(st) THEN st.cur_part ELSE st.prev_part
    IN {i \in ActiveIndices(st, epoch) : HasFlag(part[i + 1], flag) /\ ~V(st, i).slashed}

\* Known deviation of zrnt (known_findings.d/beacon.json, "cur_target_stake_over_prev_active"):
\* altair.ComputeEpochAttesterData sums the CURRENT-epoch target stake over the validators active in the
\* PREVIOUS epoch, so validators activated in the current epoch that attested are not counted (the
\* specification's get_unslashed_participating_indices(state, TIMELY_TARGET, current_epoch) ranges over
\* the validators active in the current epoch).
AltairJustification(st, dv) ==
    IF CurEpoch(st) <= GENESIS_EPOCH + 1 THEN st
    ELSE LET prevT == UnslashedParticipating(st, TIMELY_TARGET, PrevEpoch(st))
             curT  == IF "cur_target_stake_over_prev_active" \in dv
                        THEN {i \in ActiveIndices(st, PrevEpoch(st)) :
                                 HasFlag(st.cur_part[i + 1], TIMELY_TARGET) /\ ~V(st, i).slashed}
                        ELSE UnslashedParticipating(st, TIMELY_TARGET, CurEpoch(st))
         IN WeighJustificationAndFinalization(st, TotalActiveBalance(st),
                TotalBalance(st, prevT), TotalBalance(st, curT))

\* process_inactivity_updates
AltairInactivityUpdates(st) ==
    IF CurEpoch(st) = GENESIS_EPOCH THEN st
    ELSE
    LET tgt  == TLCEval(UnslashedParticipating(st, TIMELY_TARGET, PrevEpoch(st)))
        leak == IsInInactivityLeak(st)
        New(i) ==
            LET s0 == st.inactivity[i + 1]
                s1 == IF i \in tgt THEN s0 - Min2(1, s0) ELSE s0 + P.INACTIVITY_SCORE_BIAS
            IN IF ~leak THEN s1 - Min2(P.INACTIVITY_SCORE_RECOVERY_RATE, s1) ELSE s1
    IN [st EXCEPT !.inactivity =
           TLCEval([p \in 1..NVal(st) |-> IF IsEligible(st, p - 1) THEN New(p - 1) ELSE st.inactivity[p]])]

\* process_rewards_and_penalties (altair): the four delta pairs are applied one after the other,
\* each with a saturating decrease, exactly as the specification's loop does.
AltairRewardsAndPenalties(st) ==
    IF CurEpoch(st) = GENESIS_EPOCH THEN st
    ELSE
    LET n     == NVal(st)
        prevE == PrevEpoch(st)
        total == TotalActiveBalance(st)
        brpi  == (INCR * P.BASE_REWARD_FACTOR) \div ISqrt(total)   \* get_base_reward_per_increment
        BR    == TLCEval([p \in 1..n |-> (st.validators[p].eff \div INCR) * brpi])
        elig  == TLCEval({i \in AllIndices(st) : IsEligible(st, i)})
        leak  == IsInInactivityLeak(st)
        activeIncr == total \div INCR
        part  == TLCEval([f \in 0..2 |-> UnslashedParticipating(st, f, prevE)])
        partIncr == TLCEval([f \in 0..2 |-> TotalBalance(st, part[f]) \div INCR])
        FlagReward(i, f) ==
            IF i \in elig /\ i \in part[f] /\ ~leak
            THEN (BR[i + 1] * FlagWeight(f) * partIncr[f]) \div (activeIncr * WEIGHT_DENOMINATOR)
            ELSE 0
        FlagPenalty(i, f) ==
            IF i \in elig /\ i \notin part[f] /\ f # TIMELY_HEAD
            THEN (BR[i + 1] * FlagWeight(f)) \div WEIGHT_DENOMINATOR
            ELSE 0
        InactPenalty(i) ==
            IF i \in elig /\ i \notin part[TIMELY_TARGET]
            THEN (V(st, i).eff * st.inactivity[i + 1])
                 \div (P.INACTIVITY_SCORE_BIAS * InactivityPenaltyQuotient(st.fork))
            ELSE 0
        Apply(b, r, pen) == LET up == b + r IN IF pen > up THEN 0 ELSE up - pen
        newBal == [p \in 1..n |->
                     LET i  == p - 1
                         b1 == Apply(st.balances[p], FlagReward(i, 0), FlagPenalty(i, 0))
                         b2 == Apply(b1, FlagReward(i, 1), FlagPenalty(i, 1))
                         b3 == Apply(b2, FlagReward(i, 2), FlagPenalty(i, 2))
                     IN Apply(b3, 0, InactPenalty(i))]
    IN [st EXCEPT !.balances = TLCEval(newBal)]

\* ======================================================================
\* registry updates
\* ======================================================================
\* Known deviation of zrnt (known_findings.d/beacon.json, "exit_queue_churn_not_reset"):
\* phase0.ComputeRegistryProcessData scans the registry once in index order keeping a running maximum of
\* the exit epochs and a churn counter that is NOT reset when a later exit epoch is found; ejections are
\* then queued in a batch from that (end, churn) pair.  The specification instead counts, per ejection,
\* the validators whose exit epoch EQUALS the queue end.  DevEjectAll is zrnt's computation; it is used
\* only to classify an observed mismatch as this known finding, never as the expected behaviour.
DevEjectAll(st, curE) ==
    LET n == NVal(st)
        limit == ChurnLimit(st)
        scan == FoldLeft(LAMBDA acc, p :
                    LET x == st.validators[p].exit
                    IN IF x = FAR THEN acc
                       ELSE LET e == Max2(acc[1], x) IN <<e, IF x = e THEN acc[2] + 1 ELSE acc[2]>>,
                  <<ActivationExitEpoch(curE), 0>>, [p \in 1..n |-> p])
        start == IF scan[2] >= limit THEN <<scan[1] + 1, 0>> ELSE scan
        res == FoldLeft(LAMBDA acc, p :
                    LET v == st.validators[p]
                    IN IF IsActive(v, curE) /\ v.eff <= P.EJECTION_BALANCE /\ v.exit = FAR
                         THEN LET c1 == acc.churn + 1
                              IN [vals |-> [acc.vals EXCEPT ![p].exit = acc.end,
                                                            ![p].wd = acc.end + P.MIN_VALIDATOR_WITHDRAWABILITY_DELAY],
                                  end |-> IF c1 >= limit THEN acc.end + 1 ELSE acc.end,
                                  churn |-> IF c1 >= limit THEN 0 ELSE c1]
                         ELSE acc,
                  [vals |-> st.validators, end |-> start[1], churn |-> start[2]], [p \in 1..n |-> p])
    IN [st EXCEPT !.validators = res.vals]

ProcessRegistryUpdates(st, dv) ==
    LET curE == CurEpoch(st)
        \* activation eligibility and ejections, in index order (ejections read the exit queue
        \* left by the earlier ones)
        step(acc, p) ==
            LET v  == acc.validators[p]
                a1 == IF IsEligibleForActivationQueue(v)
                        THEN [acc EXCEPT !.validators[p].elig = curE + 1] ELSE acc
            IN IF IsActive(v, curE) /\ v.eff <= P.EJECTION_BALANCE /\ "exit_queue_churn_not_reset" \notin dv
                 THEN InitiateValidatorExit(a1, p - 1) ELSE a1
        s0 == IF "exit_queue_churn_not_reset" \in dv THEN DevEjectAll(st, curE) ELSE st
        s1 == FoldLeft(step, s0, [p \in 1..NVal(st) |-> p])
        \* activation queue ordered by (eligibility epoch, index); dequeue up to the churn limit
        queue == {i \in AllIndices(s1) : IsEligibleForActivation(s1, V(s1, i))}
        Before(i, j) == \/ V(s1, i).elig < V(s1, j).elig
                        \/ (V(s1, i).elig = V(s1, j).elig /\ i < j)
        limit == IF AtLeast(st, "deneb") THEN ActivationChurnLimit(s1) ELSE ChurnLimit(s1)
        chosen == {i \in queue : Cardinality({j \in queue : Before(j, i)}) < limit}
    IN [s1 EXCEPT !.validators =
           TLCEval([p \in 1..NVal(s1) |->
               IF (p - 1) \in chosen
                 THEN [s1.validators[p] EXCEPT !.act = ActivationExitEpoch(curE)]
                 ELSE s1.validators[p]])]

\* ======================================================================
\* slashings, resets, effective balances, accumulators
\* ======================================================================
ProcessSlashings(st) ==
    LET epoch == CurEpoch(st)
        total == TotalActiveBalance(st)
        adj   == Min2(SumSeq(st.slashings) * ProportionalSlashingMultiplier(st.fork), total)
        Pen(v) == (((v.eff \div INCR) * adj) \div total) * INCR
    IN [st EXCEPT !.balances =
           TLCEval([p \in 1..NVal(st) |->
               LET v == st.validators[p]
               IN IF v.slashed /\ epoch + (EPSV \div 2) = v.wd
                    THEN (IF Pen(v) > st.balances[p] THEN 0 ELSE st.balances[p] - Pen(v))
                    ELSE st.balances[p]])]

ProcessEth1DataReset(st) ==
    IF (CurEpoch(st) + 1) % P.EPOCHS_PER_ETH1_VOTING_PERIOD = 0
      THEN [st EXCEPT !.eth1_votes = <<>>] ELSE st

ProcessEffectiveBalanceUpdates(st) ==
    LET hInc == INCR \div P.HYSTERESIS_QUOTIENT
        down == hInc * P.HYSTERESIS_DOWNWARD_MULTIPLIER
        up   == hInc * P.HYSTERESIS_UPWARD_MULTIPLIER
    IN [st EXCEPT !.validators =
           TLCEval([p \in 1..NVal(st) |->
               LET v == st.validators[p] b == st.balances[p]
               IN IF b + down < v.eff \/ v.eff + up < b
                    THEN [v EXCEPT !.eff = Min2(b - (b % INCR), P.MAX_EFFECTIVE_BALANCE)]
                    ELSE v])]

ProcessSlashingsReset(st) ==
    [st EXCEPT !.slashings[((CurEpoch(st) + 1) % EPSV) + 1] = 0]

ProcessRandaoMixesReset(st) ==
    [st EXCEPT !.randao[((CurEpoch(st) + 1) % EPHV) + 1] = RandaoMix(st, CurEpoch(st))]

ProcessHistoricalRootsUpdate(st, orc) ==
    IF (CurEpoch(st) + 1) % (SPHR \div SPE) = 0
      THEN [st EXCEPT !.historical_roots = Append(@, orc.hist.batch)] ELSE st

\* capella
ProcessHistoricalSummariesUpdate(st, orc) ==
    IF (CurEpoch(st) + 1) % (SPHR \div SPE) = 0
      THEN [st EXCEPT !.hist_summaries = Append(@, [br |-> orc.hist.br, sr |-> orc.hist.sr])] ELSE st

ProcessParticipationRecordUpdates(st) ==
    [st EXCEPT !.prev_atts = st.cur_atts, !.cur_atts = <<>>]

ProcessParticipationFlagUpdates(st) ==
    [st EXCEPT !.prev_part = st.cur_part, !.cur_part = ConstSeq(NVal(st), 0)]

\* get_next_sync_committee: members from the oracle's indices, pubkeys from the registry
NextSyncCommittee(st, sync) ==
    [pks |-> [k \in 1..Len(sync.indices) |-> V(st, sync.indices[k]).pk], agg |-> sync.agg]

ProcessSyncCommitteeUpdates(st, orc) ==
    IF (CurEpoch(st) + 1) % P.EPOCHS_PER_SYNC_COMMITTEE_PERIOD = 0
      THEN [st EXCEPT !.sync_cur = st.sync_next, !.sync_next = NextSyncCommittee(st, orc.sync)]
      ELSE st

\* ======================================================================
\* process_epoch
\* ======================================================================
ProcessEpochPhase0(st, orc, dv) ==
    LET s1 == Phase0Justification(st, orc)
        s2 == Phase0RewardsAndPenalties(s1, orc)
        s3 == ProcessRegistryUpdates(s2, dv)
        s4 == ProcessSlashings(s3)
        s5 == ProcessEth1DataReset(s4)
        s6 == ProcessEffectiveBalanceUpdates(s5)
        s7 == ProcessSlashingsReset(s6)
        s8 == ProcessRandaoMixesReset(s7)
        s9 == ProcessHistoricalRootsUpdate(s8, orc)
    IN ProcessParticipationRecordUpdates(s9)

ProcessEpochAltair(st, orc, dv) ==
    LET s1 == AltairJustification(st, dv)
        s2 == AltairInactivityUpdates(s1)
        s3 == AltairRewardsAndPenalties(s2)
        s4 == ProcessRegistryUpdates(s3, dv)
        s5 == ProcessSlashings(s4)
        s6 == ProcessEth1DataReset(s5)
        s7 == ProcessEffectiveBalanceUpdates(s6)
        s8 == ProcessSlashingsReset(s7)
        s9 == ProcessRandaoMixesReset(s8)
        s10 == IF AtLeast(st, "capella") THEN ProcessHistoricalSummariesUpdate(s9, orc)
                                         ELSE ProcessHistoricalRootsUpdate(s9, orc)
        s11 == ProcessParticipationFlagUpdates(s10)
    IN ProcessSyncCommitteeUpdates(s11, orc)

\* dv: set of known-deviation names to follow instead of the specification ({} = the specification)
ProcessEpochD(st, orc, dv) ==
    IF st.fork = "phase0" THEN ProcessEpochPhase0(st, orc, dv) ELSE ProcessEpochAltair(st, orc, dv)
ProcessEpoch(st, orc) == ProcessEpochD(st, orc, {})
=============================================================================
