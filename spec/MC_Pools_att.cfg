\* exhaustive check of the att pool rules
CONSTANTS
  KnownDeviations = {}
  Which = "att"
  MaxCalls = 4
INIT Init
NEXT Next
VIEW stateView
INVARIANTS AttTypeOK OneSinglePerEpoch SearchSound KeyedOK SyncWindow
PROPERTIES StoredUntilPruned PruneExact KeyedKept SyncRotationKeeps
CHECK_DEADLOCK FALSE
