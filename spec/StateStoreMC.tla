---------------------------- MODULE StateStoreMC ----------------------------
(* The exhaustive tiny instance of StateStore (see StateStoreSim for the per-fork simulation instance). *)
EXTENDS StateStore

TwoHandles == <<"h1", "h2">>
ThreeHandles == <<"h1", "h2", "h3">>

TinyFields == <<
    [name |-> "slot", kind |-> "scalar", len |-> 0, cap |-> 0, ops |-> <<"set", "bump", "copyfield", "rotatecur">>],
    [name |-> "next", kind |-> "scalar", len |-> 0, cap |-> 0, ops |-> <<"set", "rotatenext">>],
    [name |-> "roots", kind |-> "vec", len |-> 2, cap |-> 2, ops |-> <<"setelem", "fill", "touch">>],
    [name |-> "votes", kind |-> "list", len |-> 1, cap |-> 2, ops |-> <<"append", "reset", "setelem", "setall", "addvalidator">>] >>

=============================================================================
