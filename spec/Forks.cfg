INIT Init
NEXT Next
INVARIANT Agreement
CHECK_DEADLOCK FALSE
