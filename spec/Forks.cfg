INIT Init
NEXT Next
INVARIANT Agreement
INVARIANT DomainAgreement
CHECK_DEADLOCK FALSE
