--------------------------- MODULE EpochsContext ---------------------------
(***************************************************************************)
(* C08 - the incrementally maintained epochs context always matches the    *)
(* state.                                                                  *)
(*                                                                         *)
(* Part 1 (constant operators, shared with EpochsContextTrace.tla): what   *)
(* the context of a state IS, as a function of the abstract registry:      *)
(* active index sets per epoch, effective balances, total active stake     *)
(* (floored at one increment), its integer square root, sync-committee     *)
(* indices (= registry indices of the pubkeys in the state's committees),  *)
(* pubkey <-> index lookups (= the registry), committee-count formula and  *)
(* the partition property of committees. Shuffling order and proposer      *)
(* selection are UNINTERPRETED functions of their arguments (active set,   *)
(* seed, effective balances, slot): their correctness is C06/C07.          *)
(*                                                                         *)
(* Part 2 (MC_EpochsContext.tla): a state machine that maintains the       *)
(* context INCREMENTALLY the way zrnt's API does (RotateEpochs at the      *)
(* epoch boundary, LoadSyncCommittees at the altair upgrade, pubkey cache  *)
(* extended by deposits) while the registry changes (activations, exits,   *)
(* slashings, balance changes, deposits, randao reveals); TLC checks       *)
(* epc = FromScratch(st) after every action.                               *)
(***************************************************************************)
EXTENDS Integers, Sequences, FiniteSets, TLC

FAR == 1000000      \* FAR_FUTURE_EPOCH sentinel (as in every /verif trace)

Max(a, b) == IF a > b THEN a ELSE b
Min(a, b) == IF a < b THEN a ELSE b

\* integer square root: the largest r with r*r <= n (Newton iteration of the consensus specification)
RECURSIVE ISqrtIter(_, _, _)
ISqrtIter(n, x, y) == IF y < x THEN ISqrtIter(n, y, (y + n \div y) \div 2) ELSE x
ISqrt(n) == IF n = 0 THEN 0 ELSE ISqrtIter(n, n, (n + 1) \div 2)

\* A registry is a sequence of records [a |-> activation epoch, x |-> exit epoch, e |-> effective
\* balance, s |-> slashed (0/1), k |-> pubkey id]; validator index i (0-based) is entry i+1.
IsActive(v, ep) == v.a <= ep /\ ep < v.x

\* ascending 0-based indices of the validators active in epoch ep
RECURSIVE ActiveFrom(_, _, _)
ActiveFrom(reg, ep, i) ==
    IF i > Len(reg) THEN <<>>
    ELSE IF IsActive(reg[i], ep) THEN <<i - 1>> \o ActiveFrom(reg, ep, i + 1)
    ELSE ActiveFrom(reg, ep, i + 1)
ActiveIndices(reg, ep) == ActiveFrom(reg, ep, 1)

EffBalances(reg) == [i \in 1..Len(reg) |-> reg[i].e]

RECURSIVE SumActive(_, _, _)
SumActive(reg, ep, i) ==
    IF i > Len(reg) THEN 0
    ELSE (IF IsActive(reg[i], ep) THEN reg[i].e ELSE 0) + SumActive(reg, ep, i + 1)
\* get_total_active_balance: at least one EFFECTIVE_BALANCE_INCREMENT
TotalActive(reg, ep, inc) == Max(inc, SumActive(reg, ep, 1))

\* first registry index (0-based) holding pubkey k; -1 if none
RECURSIVE IndexFrom(_, _, _)
IndexFrom(reg, k, i) == IF i > Len(reg) THEN -1 ELSE IF reg[i].k = k THEN i - 1 ELSE IndexFrom(reg, k, i + 1)
IndexOfKey(reg, k) == IndexFrom(reg, k, 1)
SyncIndices(reg, keys) == [j \in 1..Len(keys) |-> IndexOfKey(reg, keys[j])]

PrevEpochOf(ep) == IF ep = 0 THEN 0 ELSE ep - 1

\* get_committee_count_per_slot
CommitteeCount(nActive, spe, target, maxc) == Max(1, Min(maxc, (nActive \div spe) \div target))

Range(s) == {s[i] : i \in DOMAIN s}
RECURSIVE Flatten(_)
Flatten(ss) == IF ss = <<>> THEN <<>> ELSE Head(ss) \o Flatten(Tail(ss))
\* comms: slot -> committee -> members. The committees of an epoch partition its active set.
IsPartition(comms, active) ==
    LET flat == Flatten(Flatten(comms))
    IN Len(flat) = Len(active) /\ Range(flat) = Range(active)
=============================================================================
