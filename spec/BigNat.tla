------------------------------- MODULE BigNat -------------------------------
(***************************************************************************)
(* Natural numbers beyond TLC's 32-bit integers.                           *)
(*                                                                         *)
(* A BigNat is a little-endian sequence of limbs in 0..B-1 with B = 2^15,  *)
(* in CANONICAL form: no most-significant zero limb; zero is <<>>.         *)
(* Canonical form makes TLA+ equality the numeric equality.                *)
(* B = 2^15 keeps every intermediate (limb*limb + carry) below 2^31.       *)
(*                                                                         *)
(* Used by Helpers.tla (C19) to state postconditions over the full uint64  *)
(* domain.  Checked against native TLC integers on the small domain        *)
(* (HelpersEnum.tla) and against an independent bignum (Python) on random  *)
(* 64/128-bit vectors (BigNatSelfTest.tla).                                *)
(***************************************************************************)
EXTENDS Integers, Sequences

B == 32768
LB == 15            \* log2(B)

Zero == <<>>
One == <<1>>

IsBig(a) == /\ \A i \in DOMAIN a : a[i] \in 0..(B - 1)
            /\ (Len(a) > 0 => a[Len(a)] # 0)

RECURSIVE Norm(_)
Norm(a) == IF Len(a) = 0 THEN a
           ELSE IF a[Len(a)] = 0 THEN Norm(SubSeq(a, 1, Len(a) - 1)) ELSE a

RECURSIVE FromInt(_)
FromInt(n) == IF n = 0 THEN <<>> ELSE <<n % B>> \o FromInt(n \div B)

\* only for values known to be < 2^31
RECURSIVE ToInt(_)
ToInt(a) == IF Len(a) = 0 THEN 0 ELSE a[1] + B * ToInt(Tail(a))

\* a BigNat that certainly fits a TLC integer (two limbs: < 2^30)
IsSmall(a) == Len(a) <= 2

Limb(a, i) == IF i <= Len(a) THEN a[i] ELSE 0
MaxI(x, y) == IF x >= y THEN x ELSE y

(* ---------------- comparison ---------------- *)
RECURSIVE LtFrom(_, _, _)
\* both of equal length n; compare from limb i downwards
LtFrom(a, b, i) == IF i = 0 THEN FALSE
                   ELSE IF a[i] < b[i] THEN TRUE
                   ELSE IF a[i] > b[i] THEN FALSE
                   ELSE LtFrom(a, b, i - 1)

Lt(a, b) == IF Len(a) # Len(b) THEN Len(a) < Len(b) ELSE LtFrom(a, b, Len(a))
Le(a, b) == a = b \/ Lt(a, b)
Gt(a, b) == Lt(b, a)
Ge(a, b) == Le(b, a)
MaxB(a, b) == IF Lt(a, b) THEN b ELSE a
MinB(a, b) == IF Lt(b, a) THEN b ELSE a

(* ---------------- addition / subtraction ---------------- *)
RECURSIVE AddR(_, _, _, _, _)
AddR(a, b, i, c, n) ==
    IF i > n THEN (IF c = 0 THEN <<>> ELSE <<c>>)
    ELSE LET s == Limb(a, i) + Limb(b, i) + c
         IN  <<s % B>> \o AddR(a, b, i + 1, s \div B, n)

Add(a, b) == AddR(a, b, 1, 0, MaxI(Len(a), Len(b)))
Succ(a) == Add(a, One)

RECURSIVE SubR(_, _, _, _)
\* a >= b required; borrow c in {0,1}
SubR(a, b, i, c) ==
    IF i > Len(a) THEN <<>>
    ELSE LET d == a[i] - Limb(b, i) - c
         IN  IF d < 0 THEN <<d + B>> \o SubR(a, b, i + 1, 1)
                      ELSE <<d>> \o SubR(a, b, i + 1, 0)

\* truncated subtraction is NOT provided: callers must establish Le(b, a)
Sub(a, b) == Norm(SubR(a, b, 1, 0))
Pred(a) == Sub(a, One)

(* ---------------- multiplication ---------------- *)
RECURSIVE MulSmallR(_, _, _, _)
\* a * m, 0 <= m < B
MulSmallR(a, m, i, c) ==
    IF i > Len(a) THEN (IF c = 0 THEN <<>> ELSE <<c>>)
    ELSE LET p == a[i] * m + c
         IN  <<p % B>> \o MulSmallR(a, m, i + 1, p \div B)

MulSmall(a, m) == IF m = 0 \/ Len(a) = 0 THEN <<>> ELSE MulSmallR(a, m, 1, 0)

ShiftLimbs(a, k) == IF Len(a) = 0 THEN <<>> ELSE [i \in 1..k |-> 0] \o a

RECURSIVE MulR(_, _, _)
MulR(a, b, j) == IF j > Len(b) THEN <<>>
                 ELSE Add(ShiftLimbs(MulSmall(a, b[j]), j - 1), MulR(a, b, j + 1))

Mul(a, b) == IF Len(a) = 0 \/ Len(b) = 0 THEN <<>> ELSE MulR(a, b, 1)

(* ---------------- powers of two, bits ---------------- *)
RECURSIVE Pow2Int(_)
Pow2Int(k) == IF k = 0 THEN 1 ELSE 2 * Pow2Int(k - 1)     \* k <= 30

\* 2^k as a BigNat: 2^(k mod 15) in limb (k div 15)+1
Pow2(k) == [i \in 1..((k \div LB) + 1) |-> IF i = (k \div LB) + 1 THEN Pow2Int(k % LB) ELSE 0]

\* a is a power of two iff all limbs below the top are zero and the top limb is one
IsPow2(a) == /\ Len(a) > 0
             /\ \A i \in 1..(Len(a) - 1) : a[i] = 0
             /\ \E k \in 0..(LB - 1) : a[Len(a)] = Pow2Int(k)

\* bit i (0 = least significant) of a
Bit(a, i) == (Limb(a, (i \div LB) + 1) \div Pow2Int(i % LB)) % 2

TwoTo64 == Pow2(64)
U64Max == Pred(TwoTo64)
FitsU64(a) == Lt(a, TwoTo64)

(* ---------------- quotient postcondition ---------------- *)
\* q = floor(n / d), d > 0, stated without computing a division
IsQuot(n, d, q) == /\ d # Zero
                   /\ Le(Mul(q, d), n)
                   /\ Lt(n, Mul(Succ(q), d))

=============================================================================
