------------------------------- MODULE Beacon -------------------------------
(***************************************************************************)
(* state_transition / process_slots / process_slot of the consensus        *)
(* specification, composed from BeaconEpoch, BeaconForks and BeaconBlock.  *)
(*                                                                         *)
(* Slot oracle `so` (one record per processed slot, in order):             *)
(*   state_root : id of hash_tree_root(state) at the start of the slot     *)
(*   block_root : id of hash_tree_root(state.latest_block_header) after    *)
(*                the header's state_root has been filled                  *)
(*   ep         : epoch-boundary oracle (BeaconEpoch, BeaconForks), present*)
(*                on the last slot of an epoch                             *)
(***************************************************************************)
EXTENDS BeaconBlock

ProcessSlot(st, so) ==
    LET i  == (st.slot % SPHR) + 1
        s1 == [st EXCEPT !.state_roots[i] = so.state_root]
        s2 == IF s1.lbh.state_root = ZERO THEN [s1 EXCEPT !.lbh.state_root = so.state_root] ELSE s1
    IN [s2 EXCEPT !.block_roots[i] = so.block_root]

RECURSIVE ProcessSlotsFrom(_, _, _, _, _)
ProcessSlotsFrom(st, to, slots, k, dv) ==
    IF st.slot >= to THEN st
    ELSE IF k > Len(slots) THEN Bad       \* the event's oracle does not cover the slots to process
    ELSE
      LET so == slots[k]
          s1 == ProcessSlot(st, so)
          boundary == (s1.slot + 1) % SPE = 0
          s2 == IF boundary THEN ProcessEpochD(s1, so.ep, dv) ELSE s1
          s3 == [s2 EXCEPT !.slot = @ + 1]
          s4 == IF boundary THEN UpgradeMaybe(s3, so.ep) ELSE s3
      IN ProcessSlotsFrom(s4, to, slots, k + 1, dv)

\* process_slots(state, slot); defined only for state.slot < slot
ProcessSlotsDefined(st, to) == st.slot < to
ProcessSlots(st, to, slots) == ProcessSlotsFrom(st, to, slots, 1, {})
\* the same with the known deviations dv of zrnt followed (used only to classify mismatches)
ProcessSlotsD(st, to, slots, dv) == ProcessSlotsFrom(st, to, slots, 1, dv)

\* state_transition(state, signed_block, validate_result=True) WITHOUT the final state-root comparison
\* (hash_tree_root is an oracle: the trace specification conjoins the harness' root_ok).
\* Block oracle orc: slots (process_slots), proposer, comm_start/comms, mix.
StateTransitionD(st, blk, orc, dv) ==
    IF ~ProcessSlotsDefined(st, blk.slot) THEN Bad
    ELSE LET s1 == ProcessSlotsD(st, blk.slot, orc.slots, dv)
         IN IF IsBad(s1) THEN Bad
            ELSE IF ~VerifyBlockSignature(s1, blk) THEN Bad ELSE ProcessBlock(s1, blk, orc, dv)
StateTransition(st, blk, orc) == StateTransitionD(st, blk, orc, {})
\* the specification accepts the block on this state
BlockValid(st, blk, orc) == ~IsBad(StateTransition(st, blk, orc)) /\ blk.state_root_ok
\* the state the specification defines for an accepted block
Apply(st, blk, orc) == StateTransition(st, blk, orc)
=============================================================================
