\* exhaustive check of the sync pool rules
CONSTANTS
  KnownDeviations = {}
  Which = "sync"
  MaxCalls = 4
INIT Init
NEXT Next
VIEW stateView
INVARIANTS AttTypeOK OneSinglePerEpoch SearchSound KeyedOK SyncWindow
PROPERTIES StoredUntilPruned PruneExact KeyedKept SyncRotationKeeps
CHECK_DEADLOCK FALSE
