INIT Init
NEXT Next
INVARIANT Laws
CHECK_DEADLOCK FALSE
