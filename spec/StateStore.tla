----------------------------- MODULE StateStore -----------------------------
(***************************************************************************)
(* C15 (and the history half of C05): a beacon state handle is a record    *)
(* store of its fields.  Every public way of changing a state is one named *)
(* action; the model says which (handle, field) an action may change and,  *)
(* where the property statement determines it, what the new content is.    *)
(*                                                                         *)
(* CONTENT TOKENS.  The model never looks inside field contents:           *)
(*    v > 0   the value with id v of that field's (element) type - the     *)
(*            replayer derives a concrete value from (field, v)            *)
(*    t < 0   content the model cannot predict: what was in the state when *)
(*            it was loaded (InitTok), or what an opaque step (Advance =   *)
(*            a real ProcessSlots, Touch, Bump) left there (Fresh).  The   *)
(*            replayer BINDS such a token to the content observed the      *)
(*            first time it appears; afterwards every occurrence of the    *)
(*            same token - on any handle, at any later step - must show    *)
(*            exactly that content.                                        *)
(* A scalar field holds one token.  A collection field (vector / list)     *)
(* holds [o |-> 0, s |-> sequence of tokens] when its length is known and  *)
(* [o |-> t, s |-> <<>>] when only a whole-content token is known (a list  *)
(* after an opaque step).                                                  *)
(*                                                                         *)
(* The property: a step on handle h changes store[h] in the named field    *)
(* only (Advance: any field of h), and no other handle (Copy: exactly the  *)
(* target handle, which becomes equal to the source).                      *)
(***************************************************************************)
EXTENDS Integers, Sequences, FiniteSets, TLC

CONSTANTS HandleSeq,    \* e.g. <<"h1", "h2", "h3">>
          Fields,       \* sequence of [name, kind \in {"scalar","vec","list"}, len, cap, ops]
          NVals,        \* value ids 1..NVals
          MaxSteps,
          MaxAdvance

VARIABLES store, live, nadv, hist
vars == <<store, live, nadv, hist>>

Handles == {HandleSeq[k] : k \in 1..Len(HandleSeq)}
NF == Len(Fields)
FIdx == 1..NF
Vals == 1..NVals

Has(f, op) == \E k \in 1..Len(Fields[f].ops) : Fields[f].ops[k] = op
IsColl(f) == Fields[f].kind # "scalar"
IsList(f) == Fields[f].kind = "list"

InitTok(f, i) == -(f * 1000 + i)
Fresh(c, f, i) == -(1000000 * c + f * 1000 + i)

Explicit(s) == [o |-> 0, s |-> s]
Opaque(t) == [o |-> t, s |-> <<>>]
IsExplicit(x) == x.o = 0

InitField(f) == IF IsColl(f) THEN Explicit([i \in 1..Fields[f].len |-> InitTok(f, i)]) ELSE InitTok(f, 0)

Step == Len(hist) + 1      \* number of the step being taken; also the epoch of its Fresh tokens

Snapshot(st, lv) == [k \in 1..Len(HandleSeq) |->
                        IF HandleSeq[k] \in lv THEN [h |-> HandleSeq[k], live |-> TRUE, f |-> st[HandleSeq[k]]]
                        ELSE [h |-> HandleSeq[k], live |-> FALSE, f |-> <<>>]]

Log(op, h, f, i, v, h2, st, lv) ==
    hist' = Append(hist, [op |-> op, h |-> h, f |-> IF f = 0 THEN "" ELSE Fields[f].name, fi |-> f,
                          i |-> i, v |-> v, h2 |-> h2, c |-> Step, post |-> Snapshot(st, lv)])

Init == /\ store = [h \in Handles |-> [f \in FIdx |-> InitField(f)]]
        /\ live = {HandleSeq[1]}
        /\ nadv = 0
        /\ hist = <<>>

\* --- one field of one live handle gets new content
Put(op, h, f, i, v, new) ==
    LET st == [store EXCEPT ![h][f] = new]
    IN /\ store' = st /\ UNCHANGED <<live, nadv>> /\ Log(op, h, f, i, v, "", st, live)

Rep(n, v) == [k \in 1..n |-> v]
\* element positions an action may pick: both ends, their neighbours and the middle (all positions when short)
Pos(n) == {1, 2, (n + 1) \div 2, n - 1, n} \cap 1..n
Lens(f) == IF IsList(f) THEN {0, 1, Fields[f].cap} ELSE {Fields[f].len}

\* typed whole-field setter of a scalar / container-valued field
Set(h, f, v) == ~IsColl(f) /\ Has(f, "set") /\ Put("set", h, f, 0, v, v)
\* typed whole-collection setter
SetAll(h, f, v, n) == IsColl(f) /\ Has(f, "setall") /\ n \in Lens(f) /\ Put("setall", h, f, n, v, Explicit(Rep(n, v)))
\* storing by loading encoded bytes (available for every field)
Load(h, f, v, n) ==
    IF IsColl(f) THEN n \in Lens(f) /\ Put("load", h, f, n, v, Explicit(Rep(n, v)))
    ELSE n = 0 /\ Put("load", h, f, 0, v, v)
\* element write through the typed sub-view; i is a position selector, resolved modulo the real length when the
\* model does not know the length
SetElem(h, f, i, v) ==
    /\ IsColl(f) /\ Has(f, "setelem")
    /\ IF IsExplicit(store[h][f])
       THEN i \in Pos(Len(store[h][f].s)) /\ Put("setelem", h, f, i, v, Explicit([store[h][f].s EXCEPT ![i] = v]))
       ELSE i \in 1..Fields[f].cap /\ Put("setelem", h, f, i, v, Opaque(Fresh(Step, f, 0)))
\* partial element write (sub-fields of one element through its typed sub-view): the element changes, nothing else
Touch(h, f, i) ==
    /\ IsColl(f) /\ Has(f, "touch")
    /\ IF IsExplicit(store[h][f])
       THEN i \in Pos(Len(store[h][f].s))
            /\ Put("touch", h, f, i, 0, Explicit([store[h][f].s EXCEPT ![i] = Fresh(Step, f, i)]))
       ELSE i \in 1..Fields[f].cap /\ Put("touch", h, f, i, 0, Opaque(Fresh(Step, f, 0)))
AppendElem(h, f, v) ==
    /\ IsList(f) /\ Has(f, "append")
    /\ IF IsExplicit(store[h][f])
       THEN Len(store[h][f].s) < Fields[f].cap /\ Put("append", h, f, 0, v, Explicit(Append(store[h][f].s, v)))
       ELSE Put("append", h, f, 0, v, Opaque(Fresh(Step, f, 0)))
Reset(h, f) == IsList(f) /\ Has(f, "reset") /\ Put("reset", h, f, 0, 0, Explicit(<<>>))
Fill(h, f, v) == IsColl(f) /\ ~IsList(f) /\ Has(f, "fill") /\ Put("fill", h, f, 0, v, Explicit(Rep(Fields[f].len, v)))
\* increment-style mutators: the field changes to something derived from its old content
Bump(h, f) == ~IsColl(f) /\ Has(f, "bump") /\ Put("bump", h, f, 0, 0, Fresh(Step, f, 0))
\* whole-subtree replacement with the subtree of another handle (structural sharing between states)
CopyField(h, f, h2) ==
    /\ h2 \in live /\ h2 # h /\ Has(f, "copyfield")
    /\ LET st == [store EXCEPT ![h][f] = store[h2][f]]
       IN store' = st /\ UNCHANGED <<live, nadv>> /\ Log("copyfield", h, f, 0, 0, h2, st, live)

\* the compound setter AddValidator: every per-validator list of the fork (the fields whose ops contain
\* "addvalidator": validators, balances, and from altair on both participation lists and the inactivity scores) grows by
\* exactly one element; the balance is the given value, the other new elements are determined by the call (the replayer
\* checks them against the arguments); nothing else changes
AVFields == {f \in FIdx : Has(f, "addvalidator")}
AddValidator(h, v) ==
    /\ AVFields # {}
    \* only from states whose per-validator lists have known lengths below the registry limit (otherwise the call may
    \* legitimately be refused)
    /\ \A f \in AVFields : IsExplicit(store[h][f]) /\ Len(store[h][f].s) < Fields[f].cap
    /\ LET st == [store EXCEPT ![h] = [f \in FIdx |->
                    IF f \notin AVFields THEN store[h][f]
                    ELSE Explicit(Append(store[h][f].s,
                                         IF Fields[f].name = "balances" THEN v ELSE Fresh(Step, f, Len(store[h][f].s) + 1)))]]
       IN store' = st /\ UNCHANGED <<live, nadv>> /\ Log("addvalidator", h, 0, 0, v, "", st, live)

\* the compound setter RotateSyncCommittee(next): current := the old next committee, next := the given value; nothing
\* else changes.  The two fields are the ones whose ops contain "rotatecur" / "rotatenext".
RotCur == {f \in FIdx : Has(f, "rotatecur")}
RotNext == {f \in FIdx : Has(f, "rotatenext")}
Rotate(h, v) ==
    /\ RotCur # {} /\ RotNext # {}
    /\ LET c == CHOOSE f \in RotCur : TRUE
           n == CHOOSE f \in RotNext : TRUE
           st == [store EXCEPT ![h][c] = store[h][n], ![h][n] = v]
       IN store' = st /\ UNCHANGED <<live, nadv>> /\ Log("rotate", h, 0, 0, v, "", st, live)

\* the caller overwrites the memory of every argument it passed to earlier steps and of every value earlier getters
\* returned: a state stores VALUES, so this is a no-op on every handle
ArgScribbled ==
    /\ Len(hist) > 0 /\ hist[Len(hist)].op # "scribble"
    /\ UNCHANGED <<store, live, nadv>>
    /\ Log("scribble", HandleSeq[1], 0, 0, 0, "", store, live)

\* CopyState + cloned context
Copy(h, h2) ==
    /\ h2 # h
    /\ LET st == [store EXCEPT ![h2] = store[h]]
       IN store' = st /\ live' = live \cup {h2} /\ UNCHANGED nadv /\ Log("copy", h, 0, 0, 0, h2, st, live \cup {h2})

\* a real state transition on h: every field of h may change, nothing else may
Advance(h) ==
    /\ nadv < MaxAdvance
    /\ LET st == [store EXCEPT ![h] = [f \in FIdx |->
                    IF ~IsColl(f) THEN Fresh(Step, f, 0)
                    ELSE IF IsList(f) THEN Opaque(Fresh(Step, f, 0))
                    ELSE Explicit([i \in 1..Fields[f].len |-> Fresh(Step, f, i)])]]
       IN store' = st /\ nadv' = nadv + 1 /\ UNCHANGED live /\ Log("advance", h, 0, 0, 0, "", st, live)

Kinds == {"set", "setall", "load", "setelem", "touch", "append", "reset", "fill", "bump", "copyfield", "copy", "advance",
          "addvalidator", "rotate", "scribble"}
Sized(f, n) == IF n = 3 THEN Fields[f].cap ELSE IF n = 2 THEN Fields[f].len ELSE n

\* all instances of one kind of step
DoKind(k) ==
    /\ Len(hist) < MaxSteps
    /\ \E h \in live :
         CASE k = "set"       -> \E f \in FIdx, v \in Vals : Set(h, f, v)
           [] k = "setall"    -> \E f \in FIdx, v \in Vals, n \in 0..3 : SetAll(h, f, v, Sized(f, n))
           [] k = "load"      -> \E f \in FIdx, v \in Vals, n \in 0..3 : Load(h, f, v, Sized(f, n))
           [] k = "setelem"   -> \E f \in FIdx, v \in Vals : \E i \in 1..Fields[f].cap : SetElem(h, f, i, v)
           [] k = "touch"     -> \E f \in FIdx : \E i \in 1..Fields[f].cap : Touch(h, f, i)
           [] k = "append"    -> \E f \in FIdx, v \in Vals : AppendElem(h, f, v)
           [] k = "reset"     -> \E f \in FIdx : Reset(h, f)
           [] k = "fill"      -> \E f \in FIdx, v \in Vals : Fill(h, f, v)
           [] k = "bump"      -> \E f \in FIdx : Bump(h, f)
           [] k = "copyfield" -> \E f \in FIdx, h2 \in Handles : CopyField(h, f, h2)
           [] k = "copy"      -> \E h2 \in Handles : Copy(h, h2)
           [] k = "advance"   -> Advance(h)
           [] k = "addvalidator" -> \E v \in Vals : AddValidator(h, v)
           [] k = "rotate"    -> \E v \in Vals : Rotate(h, v)
           [] k = "scribble"  -> h = HandleSeq[1] /\ ArgScribbled

Next == \E k \in Kinds : DoKind(k)

Spec == Init /\ [][Next]_vars

---------------------------------------------------------------------------
(* properties *)

TokenOK(t) == t \in Int
ValueOK(f, x) ==
    IF IsColl(f) THEN /\ x.o <= 0
                      /\ (x.o < 0 => x.s = <<>> /\ IsList(f))
                      /\ (x.o = 0 /\ ~IsList(f) => Len(x.s) = Fields[f].len)
                      /\ (x.o = 0 /\ IsList(f) => Len(x.s) <= Fields[f].cap)
    ELSE TokenOK(x)
TypeOK == /\ live \subseteq Handles /\ HandleSeq[1] \in live
          /\ \A h \in Handles, f \in FIdx : ValueOK(f, store[h][f])
          /\ nadv <= MaxAdvance /\ Len(hist) <= MaxSteps

\* the step just logged may have touched exactly ...
MayChange(e, h, f) ==
    \/ e.op # "scribble" /\ e.h = h /\ (e.fi = f \/ e.op = "advance" \/ (e.op = "addvalidator" /\ Has(f, "addvalidator"))
                                          \/ (e.op = "rotate" /\ (Has(f, "rotatecur") \/ Has(f, "rotatenext"))))
    \/ e.op = "copy" /\ e.h2 = h
\* accessors are exact and copies are independent: nothing outside the named (handle, field) changes
Frame == hist' # hist =>
            LET e == hist'[Len(hist')]
            IN \A h \in Handles, f \in FIdx : store'[h][f] # store[h][f] => MayChange(e, h, f)
FrameProperty == [][Frame]_vars
\* a copy equals its source at the moment of copying, and the source is unchanged by it
CopyExact == hist' # hist /\ hist'[Len(hist')].op = "copy" =>
                LET e == hist'[Len(hist')] IN store'[e.h2] = store[e.h] /\ store'[e.h] = store[e.h]
CopyProperty == [][CopyExact]_vars
\* a set-like step stores exactly the value it was given
StoresGiven == hist' # hist =>
                LET e == hist'[Len(hist')]
                IN /\ e.op \in {"set"} => store'[e.h][e.fi] = e.v
                   /\ e.op \in {"setelem"} /\ IsExplicit(store[e.h][e.fi]) => store'[e.h][e.fi].s[e.i] = e.v
                   /\ e.op = "append" /\ IsExplicit(store[e.h][e.fi]) =>
                          store'[e.h][e.fi].s = Append(store[e.h][e.fi].s, e.v)
StoreProperty == [][StoresGiven]_vars
\* a rotation moves the old next committee into current and stores the given value as next
RotateExact == hist' # hist /\ hist'[Len(hist')].op = "rotate" =>
                 LET e == hist'[Len(hist')]
                     c == CHOOSE f \in RotCur : TRUE
                     n == CHOOSE f \in RotNext : TRUE
                 IN store'[e.h][c] = store[e.h][n] /\ store'[e.h][n] = e.v
RotateProperty == [][RotateExact]_vars

=============================================================================
