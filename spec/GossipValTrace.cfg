SPECIFICATION Spec
CONSTANTS
  KnownDeviations = {}
POSTCONDITION TraceAccepted
CHECK_DEADLOCK FALSE
