----------------------------- MODULE MC_Faults -----------------------------
(* The path machine of C18 (model checking only): every path with <= MaxPolls polls and            *)
(* <= MaxCalls engine calls under every fault, walked by a transition that honours every poll and   *)
(* verdict (optionally Sloppy / with one of the Dev_* deviations). See Faults.tla for the rule.     *)
EXTENDS Faults

CONSTANTS MaxPolls, MaxCalls,
          Sticky,            \* TRUE: Cancel(k) is reported by polls k, k+1, ... ; FALSE: by poll k only
          Sloppy,            \* TRUE: the transition may ignore any poll that is not the last of its path
          Dev_SwallowLast,   \* deviation: the last poll of the path may be ignored
          Dev_InvalidIsValid,\* deviation: an "invalid" verdict may be treated as valid
          Dev_ErrorIgnored,  \* deviation: an engine error may be ignored
          Dev_ErrorOnlyWhenNotOk, \* deviation: the error is examined only when the boolean is false: (true, err) passes
          Dev_EarlySuccess   \* deviation: a poll that sees the cancellation may return success at once

VARIABLES path, fault, pc, polls, calls, out
vars == <<path, fault, pc, polls, calls, out>>

Points == {"poll", "call"}
Count(s, x) == Cardinality({i \in DOMAIN s : s[i] = x})
Paths == UNION {{s \in [1..n -> Points] : Count(s, "poll") <= MaxPolls /\ Count(s, "call") <= MaxCalls}
                : n \in 0..(MaxPolls + MaxCalls)}

FaultsOf(p) == {NoFault}
               \cup {Cancel(k) : k \in 1..(Count(p, "poll") + 1)}
               \cup {Engine(c, v) : c \in 1..Count(p, "call"), v \in BadVerdicts}

Init == /\ path \in Paths
        /\ fault \in FaultsOf(path)
        /\ pc = 1 /\ polls = 0 /\ calls = 0 /\ out = "running"

Reports(n) == fault.kind = "cancel" /\ (IF Sticky THEN fault.k <= n ELSE fault.k = n)
LastPoll(i) == \A j \in (i + 1)..Len(path) : path[j] # "poll"
VerdictOf(n) == IF fault.kind = "engine" /\ fault.c = n THEN fault.v ELSE "valid"

Poll == /\ out = "running" /\ pc <= Len(path) /\ path[pc] = "poll"
        /\ polls' = polls + 1 /\ UNCHANGED <<path, fault, calls>>
        /\ IF Reports(polls + 1)
           THEN \/ out' = "err" /\ pc' = pc
                \/ (Sloppy /\ ~LastPoll(pc)) /\ out' = out /\ pc' = pc + 1
                \/ (Dev_SwallowLast /\ LastPoll(pc)) /\ out' = out /\ pc' = pc + 1
                \/ Dev_EarlySuccess /\ out' = "ok" /\ pc' = pc
           ELSE out' = out /\ pc' = pc + 1

Call == /\ out = "running" /\ pc <= Len(path) /\ path[pc] = "call"
        /\ calls' = calls + 1 /\ UNCHANGED <<path, fault, polls>>
        /\ LET v == VerdictOf(calls + 1) IN
           IF v = "valid" THEN out' = out /\ pc' = pc + 1
           ELSE \/ out' = "err" /\ pc' = pc
                \/ (Dev_InvalidIsValid /\ v = "invalid") /\ out' = out /\ pc' = pc + 1
                \/ (Dev_ErrorIgnored /\ Answer(v).err) /\ out' = out /\ pc' = pc + 1
                \/ (Dev_ErrorOnlyWhenNotOk /\ v = "errortrue") /\ out' = out /\ pc' = pc + 1

Finish == /\ out = "running" /\ pc = Len(path) + 1
          /\ out' = "ok" /\ UNCHANGED <<path, fault, pc, polls, calls>>

Next == Poll \/ Call \/ Finish
Spec == Init /\ [][Next]_vars

Done == out # "running"
\* the undisturbed run of a path completes it
Undisturbed == [out |-> "ok", root |-> Len(path) + 1]
Result == [out |-> out, root |-> pc]

\* (I1) the rule, on every finished run
RuleHolds == Done => Allowed(fault, polls, calls, Result, Undisturbed)
\* (I2) success is only ever reported for completed work approved by the engine
SuccessIsComplete == out = "ok" => /\ pc = Len(path) + 1
                                   /\ polls = Count(path, "poll") /\ calls = Count(path, "call")
                                   /\ \A n \in 1..calls : Approves(VerdictOf(n))
                                   /\ ~(fault.kind = "cancel" /\ fault.k <= polls)
\* (I3) every fault that lies on the path is reached by the enumeration (no fault is skipped)
EveryFaultReached == Done /\ ~TookEffect(fault, polls, calls) =>
                        \/ fault.kind = "none"
                        \/ fault.kind = "cancel" /\ fault.k = Count(path, "poll") + 1
=============================================================================
