----------------------------- MODULE LinearizePK -----------------------------
(***************************************************************************)
(* Property C17, part B (pubkey cache and the cached keys it hands out):   *)
(* recorded concurrent histories of the real common.PubkeyCache            *)
(* (harness/cmd/conc) must be linearizable with respect to the sequential  *)
(* specification PubkeyCache.tla (abstract layer: NormalOutcomes,          *)
(* PubkeyOf, IndexOfKey).  See LinearizePools.tla for the search scheme.   *)
(*                                                                         *)
(* Handles: the driver numbers the handles in the order in which the calls *)
(* that created them RETURNED; the specification numbers them in           *)
(* linearization order.  hm maps driver ids to specification handles.      *)
(* The lookup deviation of the listed C16 finding "IndexDelegation" is     *)
(* accepted exactly as PubkeyCacheTrace.tla accepts it.                    *)
(***************************************************************************)
EXTENDS PubkeyCache

CONSTANTS Diag

VARIABLES hh, done, order,
          hm      \* driver handle id -> specification handle

Trace == ndJsonDeserialize("trace.ndjson")
HIndex == ndJsonDeserialize("index.ndjson")

lvars == <<nh, parent, trusted, own, built, reply, calls, hist, hh, done, order, hm>>
linView == <<nh, parent, trusted, own, hh, done, hm>>

Ops(k) == HIndex[k].first..HIndex[k].last
E(i) == Trace[i]
Minimal(i) == \A j \in Ops(hh) \ done : j = i \/ E(j).rs > E(i).inv

EmptySt == [nh |-> 1, parent |-> <<0>>, trusted |-> <<0>>, own |-> << <<>> >>]
Same == [S |-> St, hm |-> hm]
Ext(f, k, v) == [x \in DOMAIN f \cup {k} |-> IF x = k THEN v ELSE f[x]]

IndexAnswerOK(S, h, k, got) ==
  LET want == IndexOfKey(S, h, k) IN
  \/ got = want
  \/ /\ "IndexDelegation" \in KnownDeviations
     /\ want = -1
     /\ got = CodeIndex(S, h, k, KnownDeviations)

ViewOK(v, S, h) ==
  LET w == ViewS(S, h) IN
  /\ Len(v.pubs) > Len(w)
  /\ \A x \in 1..Len(v.pubs) : v.pubs[x] = KeyAt(w, x - 1)
  /\ \A k \in DOMAIN v.idx : IndexAnswerOK(S, h, k, v.idx[k])

(* reply-compatible outcomes of placing line i now: set of [S, hm] *)
Outcomes(i) ==
  LET e == E(i) IN
  IF e.out # "ok" THEN {}
  ELSE IF e.ev = "Obs"
  THEN IF /\ {e.views[x].hd : x \in 1..Len(e.views)} = DOMAIN hm
          /\ Len(e.views) = Cardinality(DOMAIN hm)
          /\ \A x \in 1..Len(e.views) : ViewOK(e.views[x], St, hm[e.views[x].hd])
       THEN {Same} ELSE {}
  ELSE IF e.hd \notin DOMAIN hm THEN {}
  ELSE LET h == hm[e.hd] IN
       CASE e.ev = "Add" ->
              LET N == NormalOutcomes(St, h, e.i, e.p, FALSE) IN
              {[S |-> o.S2,
                hm |-> IF o.kind = "new" THEN Ext(hm, e.ret.h2, o.h2) ELSE hm] :
                 o \in {x \in N : /\ x.kind = e.ret.kind
                                  /\ x.kind = "same" => e.ret.h2 = e.hd
                                  /\ x.kind = "new" => e.ret.h2 \notin DOMAIN hm}}
         [] e.ev = "Pubkey" ->
              LET k == PubkeyOf(St, h, e.i) IN
              IF e.ret.key = k /\ ((e.dec = 1 /\ k # NoKey) => e.ret.decok = 1) THEN {Same} ELSE {}
         [] e.ev = "Index" ->
              IF IndexAnswerOK(St, h, e.p, e.ret.idx) THEN {Same} ELSE {}
         [] OTHER -> {}

Expected(i) ==
  LET e == E(i) IN
  IF e.ev = "Obs" THEN <<"views", [x \in DOMAIN hm |-> ViewS(St, hm[x])]>>
  ELSE IF e.hd \notin DOMAIN hm THEN <<"handle not created yet">>
  ELSE LET h == hm[e.hd] IN
       CASE e.ev = "Add" -> <<Class(St, h, e.i, e.p), {o.kind : o \in NormalOutcomes(St, h, e.i, e.p, FALSE)}, "view", ViewS(St, h)>>
         [] e.ev = "Pubkey" -> PubkeyOf(St, h, e.i)
         [] e.ev = "Index" -> IndexOfKey(St, h, e.p)
         [] OTHER -> "?"

LinInit ==
  /\ Init
  /\ hh \in 1..Len(HIndex)
  /\ done = {} /\ order = <<>>
  /\ hm = (1 :> 1)
  /\ TLCSet(2, {})

Place(i) ==
  /\ Minimal(i)
  /\ \E o \in Outcomes(i) : SetSt(o.S) /\ hm' = o.hm
  /\ done' = done \cup {i}
  /\ order' = Append(order, E(i).id)
  /\ UNCHANGED <<hh, built, reply, calls, hist>>
  /\ IF done' = Ops(hh) THEN TLCSet(2, TLCGet(2) \cup {hh}) ELSE TRUE

LinNext == /\ hh \notin TLCGet(2)
           /\ \E i \in Ops(hh) \ done : Place(i)

LinSpec == LinInit /\ [][LinNext]_lvars

DiagInv ==
  (Diag /\ done # Ops(hh) /\ \A i \in Ops(hh) \ done : ~(Minimal(i) /\ Outcomes(i) # {}))
    => PrintT(<<"DEADEND", hh, Cardinality(done), order,
                {<<E(i).id, E(i).ev, Expected(i)>> : i \in {j \in Ops(hh) \ done : Minimal(j)}}>>)

Report == PrintT(<<"LINEARIZED", TLCGet(2)>>)
=============================================================================
