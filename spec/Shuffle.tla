-------------------------------- MODULE Shuffle --------------------------------
(***************************************************************************)
(* Swap-or-not shuffling of the Ethereum consensus specification (phase0   *)
(* `compute_shuffled_index`), transcribed from the consensus-specs text,   *)
(* NOT from zrnt.                                                          *)
(*                                                                         *)
(*   def compute_shuffled_index(index, index_count, seed):                 *)
(*     assert index < index_count                                          *)
(*     for current_round in range(SHUFFLE_ROUND_COUNT):                    *)
(*       pivot = bytes_to_uint64(hash(seed + uint_to_bytes(uint8(          *)
(*                    current_round)))[0:8]) % index_count                 *)
(*       flip = (pivot + index_count - index) % index_count                *)
(*       position = max(index, flip)                                       *)
(*       source = hash(seed + uint_to_bytes(uint8(current_round))          *)
(*                     + uint_to_bytes(uint32(position // 256)))           *)
(*       byte = uint8(source[(position % 256) // 8])                       *)
(*       bit = (byte >> (position % 8)) % 2                                *)
(*       index = flip if bit else index                                    *)
(*     return index                                                        *)
(*                                                                         *)
(* SHA-256 is an environment oracle.  Two levels are provided:             *)
(*  - abstract level: piv[r] (pivot of round r) and bit[r][pos] (coin of   *)
(*    round r at position pos) are given as functions;                     *)
(*  - byte level: a hash table HT (function from pre-image byte sequences  *)
(*    to 32-byte digests) from which piv/bit are derived exactly as the    *)
(*    specification text does (pre-image layout, little-endian, modulus,   *)
(*    byte and bit selection).                                             *)
(* Lists are TLA+ sequences (1-based); indices of the specification are    *)
(* 0-based, hence the +1/-1 at sequence accesses.                          *)
(***************************************************************************)
EXTENDS Integers, Sequences, FiniteSets

Max2(a, b) == IF a >= b THEN a ELSE b

(***************************** byte helpers *******************************)

\* uint_to_bytes(v) on k bytes, little endian (v < 2^31 here)
RECURSIVE LEBytes(_, _)
LEBytes(v, k) == IF k = 0 THEN << >> ELSE << v % 256 >> \o LEBytes(v \div 256, k - 1)

\* bytes_to_uint64(bs) % n  computed without leaving 32-bit integers (needs n < 2^23)
RECURSIVE LEModFrom(_, _, _)
LEModFrom(bs, n, i) == IF i > Len(bs) THEN 0 ELSE (LEModFrom(bs, n, i + 1) * 256 + bs[i]) % n
LEMod(bs, n) == LEModFrom(bs, n, 1)

(************************ byte level (hash oracle) ************************)

\* hash(seed + uint_to_bytes(uint8(round)))                           -- 33 bytes
PivotPre(seed, r) == seed \o << r >>
\* hash(seed + uint_to_bytes(uint8(round)) + uint_to_bytes(uint32(position // 256)))  -- 37 bytes
SourcePre(seed, r, w) == seed \o << r >> \o LEBytes(w, 4)

\* pivot = bytes_to_uint64(digest[0:8]) % index_count
PivotOf(digest, n) == LEMod(SubSeq(digest, 1, 8), n)

\* the same for any n < 2^31: bit-wise Horner scheme whose intermediate values stay below n
AddMod(a, b, n) == IF a >= n - b THEN a - (n - b) ELSE a + b            \* (a + b) % n for 0 <= a, b < n
RECURSIVE LEModBigFrom(_, _, _)
LEModBigFrom(bs, n, k) ==                                               \* (bits 63 .. k of the little-endian value) % n
    IF k > 63 THEN 0
    ELSE LET hi == LEModBigFrom(bs, n, k + 1)
             d == AddMod(hi, hi, n)
             b == (bs[(k \div 8) + 1] \div (2 ^ (k % 8))) % 2
         IN IF b = 1 THEN AddMod(d, 1 % n, n) ELSE d
PivotOfBig(digest, n) == LEModBigFrom(SubSeq(digest, 1, 8), n, 0)
\* byte = source[(position % 256) // 8];  bit = (byte >> (position % 8)) % 2
BitOf(source, pos) == (source[((pos % 256) \div 8) + 1] \div (2 ^ (pos % 8))) % 2

NumWindows(n) == (n + 255) \div 256

\* Pivot table and coin table derived from a hash table HT for `seed`
PivTable(n, R, seed, HT) == [r \in 0 .. R - 1 |-> PivotOf(HT[PivotPre(seed, r)], n)]
BitTable(n, R, seed, HT) ==
    [r \in 0 .. R - 1 |-> [pos \in 0 .. n - 1 |-> BitOf(HT[SourcePre(seed, r, pos \div 256)], pos)]]

(**************************** abstract level ******************************)
(* piv \in [0..R-1 -> 0..n-1],  bit \in [0..R-1 -> [0..n-1 -> {0,1}]]      *)

\* flip = (pivot + index_count - index) % index_count, written so that no intermediate value exceeds index_count
\* (TLC integers are 32-bit; list sizes up to 2^31 - 1 are used); equal to the formula of the text for 0 <= i, p < n
\* (checked: InvFlip in MC_Shuffle)
Flip(i, n, p) == IF p >= i THEN p - i ELSE p + (n - i)
FlipText(i, n, p) == (p + n - i) % n

\* one iteration of the loop body of compute_shuffled_index
RoundStep(i, n, p, b) ==
    LET f == Flip(i, n, p)
        pos == Max2(i, f)
    IN IF b[pos] = 1 THEN f ELSE i

\* compute_shuffled_index: rounds 0, 1, ..., R-1
RECURSIVE PermRounds(_, _, _, _, _, _)
PermRounds(i, n, r, R, piv, bit) ==
    IF r >= R THEN i ELSE PermRounds(RoundStep(i, n, piv[r], bit[r]), n, r + 1, R, piv, bit)
PermIdx(i, n, R, piv, bit) == PermRounds(i, n, 0, R, piv, bit)

\* the inverse direction: rounds R-1, ..., 0 (each round is an involution)
RECURSIVE UnpermRounds(_, _, _, _, _)
UnpermRounds(i, n, r, piv, bit) ==
    IF r < 0 THEN i ELSE UnpermRounds(RoundStep(i, n, piv[r], bit[r]), n, r - 1, piv, bit)
UnpermIdx(i, n, R, piv, bit) == UnpermRounds(i, n, R - 1, piv, bit)

\* tables (sequences, entry i+1 is the image of index i)
PermSeq(n, R, piv, bit)   == [k \in 1 .. n |-> PermIdx(k - 1, n, R, piv, bit)]
UnpermSeq(n, R, piv, bit) == [k \in 1 .. n |-> UnpermIdx(k - 1, n, R, piv, bit)]

IsBijectionOnRange(ps, n) ==
    /\ Len(ps) = n
    /\ \A k \in 1 .. n : ps[k] \in 0 .. n - 1
    /\ \A k1, k2 \in 1 .. n : ps[k1] = ps[k2] => k1 = k2

(************************** whole-list semantics **************************)
(* "Shuffling the whole list produces exactly the permutation obtained by  *)
(* applying the per-index function to each position": the element at       *)
(* position i moves to position PermIdx(i).  Un-shuffling is the inverse:  *)
(* the element at position PermIdx(i) moves (back) to position i, i.e.     *)
(* out[i] = in[PermIdx(i)] -- this is the form compute_committee uses.     *)

\* relational form, linear cost, ps = PermSeq(...)
IsShuffleOf(out, xs, ps) ==
    /\ Len(out) = Len(xs)
    /\ \A k \in 1 .. Len(xs) : out[ps[k] + 1] = xs[k]
IsUnshuffleOf(out, xs, ps) ==
    /\ Len(out) = Len(xs)
    /\ \A k \in 1 .. Len(xs) : out[k] = xs[ps[k] + 1]

\* definitional form (quadratic; meaningful because PermIdx is a bijection, checked by MC_Shuffle)
ShuffleSpecDef(xs, R, piv, bit) ==
    LET n == Len(xs)
    IN [k \in 1 .. n |-> xs[(CHOOSE i \in 0 .. n - 1 : PermIdx(i, n, R, piv, bit) = k - 1) + 1]]

\* executable forms (use the inverse direction; equal to the definitional form by MC_Shuffle)
ShuffleSpec(xs, R, piv, bit) ==
    LET n == Len(xs) IN [k \in 1 .. n |-> xs[UnpermIdx(k - 1, n, R, piv, bit) + 1]]
UnshuffleSpec(xs, R, piv, bit) ==
    LET n == Len(xs) IN [k \in 1 .. n |-> xs[PermIdx(k - 1, n, R, piv, bit) + 1]]

IsPermutationOf(out, xs) ==
    /\ Len(out) = Len(xs)
    /\ \A v \in {xs[k] : k \in 1 .. Len(xs)} \cup {out[k] : k \in 1 .. Len(out)} :
          Cardinality({k \in 1 .. Len(xs) : xs[k] = v}) = Cardinality({k \in 1 .. Len(out) : out[k] = v})

(****************** implementation-shaped refinement **********************)
(* The usual optimised whole-list routine: per round, the pairs {i, flip(i)}*)
(* are visited once each in two segments mirrored around pivot/2 and       *)
(* (pivot+n)/2; position = the larger member j of the pair; the 32-byte    *)
(* source is re-hashed when j crosses a multiple of 256 (j % 256 = 255,    *)
(* walking downwards) and the byte is re-read when j % 8 = 7.  The cache   *)
(* (cw = window of the cached source, bw/bb = window and byte index of the *)
(* cached byte) is modelled explicitly so that a wrong refresh rule reads  *)
(* the wrong coin.                                                         *)

SwapAt(xs, i, j) == [xs EXCEPT ![i + 1] = xs[j + 1], ![j + 1] = xs[i + 1]]

RECURSIVE SwapLoop(_, _, _, _, _, _, _, _)
SwapLoop(xs, i, j, mirror, cw, bw, bb, b) ==
    IF i >= mirror THEN xs
    ELSE LET cw2 == IF j % 256 = 255 THEN j \div 256 ELSE cw
             bw2 == IF j % 8 = 7 THEN cw2 ELSE bw
             bb2 == IF j % 8 = 7 THEN (j % 256) \div 8 ELSE bb
             coin == b[bw2 * 256 + bb2 * 8 + (j % 8)]
             xs2 == IF coin = 1 THEN SwapAt(xs, i, j) ELSE xs
         IN SwapLoop(xs2, i + 1, j - 1, mirror, cw2, bw2, bb2, b)

ImplRound(xs, p, b) ==
    LET n == Len(xs)
        e == n - 1
        s1 == SwapLoop(xs, 0, p, (p + 1) \div 2, p \div 256, p \div 256, (p % 256) \div 8, b)
    IN IF n <= 1 THEN xs
       ELSE SwapLoop(s1, p + 1, e, (p + n + 1) \div 2, e \div 256, e \div 256, (e % 256) \div 8, b)

RECURSIVE ImplShuffleFrom(_, _, _, _, _)
ImplShuffleFrom(xs, r, R, piv, bit) ==
    IF r >= R THEN xs ELSE ImplShuffleFrom(ImplRound(xs, piv[r], bit[r]), r + 1, R, piv, bit)
ImplShuffle(xs, R, piv, bit) == ImplShuffleFrom(xs, 0, R, piv, bit)

RECURSIVE ImplUnshuffleFrom(_, _, _, _)
ImplUnshuffleFrom(xs, r, piv, bit) ==
    IF r < 0 THEN xs ELSE ImplUnshuffleFrom(ImplRound(xs, piv[r], bit[r]), r - 1, piv, bit)
ImplUnshuffle(xs, R, piv, bit) == ImplUnshuffleFrom(xs, R - 1, piv, bit)

(*************** oracle encoders (spec -> code direction) *****************)
(* TLC chooses piv/bit; these build digests that the byte-level decoders   *)
(* above map back to the chosen values (checked: InvCodec in MC_Shuffle).  *)
(* `salt` varies the bytes the specification does not look at, so that     *)
(* code reading the wrong bytes is noticed.                                *)

Filler(salt, k) == ((salt * 37 + k * 101 + 11) % 255) + 1     \* 1..255, never 0

\* 32-byte digest whose first 8 bytes, as a little-endian uint64, are == p (mod n); n < 2^23
PivotDigest(p, n, salt) ==
    LET hi == [k \in 1 .. 5 |-> Filler(salt, k)]                 \* bytes 4..8: non-zero high part
        remHi == LEMod(<< 0, 0, 0 >> \o hi, n)
        lo == (p + n - remHi) % n
    IN LEBytes(lo, 3) \o hi \o [k \in 1 .. 24 |-> Filler(salt + 1, k)]

\* 32-byte digest of window w holding coin b[pos] at bit (pos % 256); positions >= n get junk coins
SourceDigest(b, w, n, salt) ==
    LET coin(pos) == IF pos < n THEN b[pos] ELSE (Filler(salt, pos % 251) % 2)
        byteAt(j) == coin(w * 256 + 8 * j) + 2 * coin(w * 256 + 8 * j + 1)
                     + 4 * coin(w * 256 + 8 * j + 2) + 8 * coin(w * 256 + 8 * j + 3)
                     + 16 * coin(w * 256 + 8 * j + 4) + 32 * coin(w * 256 + 8 * j + 5)
                     + 64 * coin(w * 256 + 8 * j + 6) + 128 * coin(w * 256 + 8 * j + 7)
    IN [k \in 1 .. 32 |-> byteAt(k - 1)]

\* pivot digest for huge lists (n up to 2^31 - 1): the little-endian value is the pivot itself
PivotDigestBig(p, salt) == LEBytes(p, 4) \o << 0, 0, 0, 0 >> \o [k \in 1 .. 24 |-> Filler(salt + 1, k)]

\* the 256-position windows compute_shuffled_index looks at for index i (forward) / while inverting i (backward)
RECURSIVE FwdWindows(_, _, _, _, _, _)
FwdWindows(i, n, r, R, piv, bit) ==
    IF r >= R THEN {}
    ELSE {<< r, Max2(i, Flip(i, n, piv[r])) \div 256 >>}
         \cup FwdWindows(RoundStep(i, n, piv[r], bit[r]), n, r + 1, R, piv, bit)
RECURSIVE BwdWindows(_, _, _, _, _)
BwdWindows(i, n, r, piv, bit) ==
    IF r < 0 THEN {}
    ELSE {<< r, Max2(i, Flip(i, n, piv[r])) \div 256 >>}
         \cup BwdWindows(RoundStep(i, n, piv[r], bit[r]), n, r - 1, piv, bit)

\* the oracle table for one shuffling context, as a sequence of <<pre-image, digest>> pairs
OracleEntries(n, R, seed, piv, bit, salt) ==
    LET perRound(r) ==
            << << PivotPre(seed, r), PivotDigest(piv[r], n, salt + r) >> >>
            \o [w1 \in 1 .. NumWindows(n) |->
                  << SourcePre(seed, r, w1 - 1), SourceDigest(bit[r], w1 - 1, n, salt + r) >>]
        RECURSIVE cat(_)
        cat(r) == IF r >= R THEN << >> ELSE perRound(r) \o cat(r + 1)
    IN cat(0)

\* hash table (function) from a sequence of <<pre, digest>> pairs
TableOf(entries) ==
    LET keys == {entries[k][1] : k \in DOMAIN entries}
    IN [p \in keys |-> entries[CHOOSE k \in DOMAIN entries : entries[k][1] = p][2]]

=============================================================================
