----------------------------- MODULE HelpersEnum -----------------------------
(***************************************************************************)
(* C19, spec -> code: TLC enumerates arguments, computes the value the     *)
(* specification prescribes (native integers on the small domain, BigNat   *)
(* add/mul/compare at the 64-bit boundaries), checks Helpers!Post on every *)
(* event it is about to emit (this ties the native computation, the BigNat *)
(* library and the postconditions together) and writes the events to       *)
(* enum.ndjson.  harness/cmd/helpers replays them on the real functions.   *)
(* Only cases in which the specification fixes the outcome are emitted.    *)
(***************************************************************************)
EXTENDS Helpers, HelpersEnumParams, Json, SequencesExt, FiniteSets

Ev(fn, args, out, r) == [fn |-> fn, a |-> args, out |-> out, r |-> r]
F(n) == FromInt(n)
MinI(x, y) == IF x <= y THEN x ELSE y

(* ---------------- small domain, native integers ---------------- *)
SqrtInt(n) == CHOOSE r \in 0..64 : r * r <= n /\ n < (r + 1) * (r + 1)
IsPow2Int(n) == \E k \in 0..13 : n = Pow2Int(k)
NextPow2Int(n) == IF n = 0 THEN 0 ELSE CHOOSE p \in {Pow2Int(k) : k \in 0..13} : p >= n /\ p < 2 * n
PrevInt(n) == IF n = 0 THEN 0 ELSE n - 1

OneArg == 0..(MaxN - 1)
NumOne ==
    UNION {{ Ev("IntegerSquareroot", <<F(n)>>, "ok", F(SqrtInt(n))),
             Ev("IntegerSquareRootPrysm", <<F(n)>>, "ok", F(SqrtInt(n))),
             Ev("IsPowerOfTwo", <<F(n)>>, "ok", Bool(IsPow2Int(n))),
             Ev("NextPowerOfTwo", <<F(n)>>, "ok", F(NextPow2Int(n))),
             Ev("SlotPrevious", <<F(n)>>, "ok", F(PrevInt(n))),
             Ev("EpochPrevious", <<F(n)>>, "ok", F(PrevInt(n))) } : n \in OneArg}

NumMaxMin ==
    UNION {{ Ev("MaxU64", <<F(x), F(y)>>, "ok", F(MaxI(x, y))),
             Ev("MinU64", <<F(x), F(y)>>, "ok", F(MinI(x, y))) } : x \in 0..24, y \in 0..24}

Spes == {1, 2, 3, 4, 8, 32}
NumSlots ==
    UNION {{ Ev("SlotToEpoch", <<F(s), F(spe)>>, "ok", F(s \div spe)),
             Ev("EpochStartSlot", <<F(s), F(spe)>>, "ok", F(s * spe)) } : s \in 0..130, spe \in Spes}

Spss == {1, 2, 5, 6, 12}
NumTime ==
    {Ev("TimeAtSlot", <<F(t), F(g), F(sps)>>, "ok", F(t * sps + g))
     : t \in 0..60, g \in {0, 1, 7, 13, 30}, sps \in Spss}
\* TimeToSlot before genesis has no specification value; not emitted
NumTimeDefined ==
    NumTime \cup UNION {{Ev("TimeToSlot", <<F(t), F(g), F(sps)>>, "ok", F((t - g) \div sps))
                         : g \in {x \in {0, 1, 7, 13, 30} : x <= t}, sps \in Spss} : t \in 0..60}

NumLookahead ==
    {Ev("ComputeActivationExitEpoch", <<F(e), F(m)>>, "ok", F(e + 1 + m)) : e \in 0..40, m \in 0..6}

ChurnCfg == {<<4, 65536>>, <<2, 8>>, <<4, 32>>, <<1, 1>>, <<3, 7>>, <<0, 5>>}
NumChurn ==
    {Ev("GetChurnLimit", <<F(n), F(c[1]), F(c[2])>>, "ok", F(MaxI(c[1], n \div c[2]))) : n \in 0..400, c \in ChurnCfg}
    \cup {Ev("ActivationChurnLimit", <<F(x), F(y)>>, "ok", F(MinI(x, y))) : x \in 0..20, y \in 0..20}

\* <<MIN_PER_EPOCH_CHURN_LIMIT, CHURN_LIMIT_QUOTIENT, MAX_PER_EPOCH_ACTIVATION_CHURN_LIMIT>>:
\* cap below / equal to / above the minimum churn (incl. cap 0), quotient small and large
ActChurnCfg == {<<4, 65536, 8>>, <<2, 32, 4>>,                                  \* mainnet, minimal
                <<4, 32, 4>>, <<4, 32, 1>>, <<8, 65536, 3>>, <<2, 32, 0>>,        \* cap = min, cap < min, cap 0
                <<4, 2, 100>>, <<3, 7, 2>>, <<3, 7, 3>>, <<3, 7, 5>>, <<1, 1, 0>>, <<0, 5, 2>>, <<5, 1, 9>>}
ActChurnActives(c) ==     \* around every breakpoint: min*quot, cap*quot, multiples of the quotient
    (0..160) \cup UNION {{k * c[2] - 1, k * c[2], k * c[2] + 1} : k \in {1, 2, c[1], c[1] + 1, c[3], c[3] + 1, 9}}
NumActChurn ==
    UNION {{Ev("ValidatorActivationChurnLimit", <<F(n), F(c[1]), F(c[2]), F(c[3])>>, "ok",
               F(MinI(c[3], MaxI(c[1], n \div c[2]))))
            : n \in {x \in ActChurnActives(c) : x >= 0}} : c \in ActChurnCfg}

CommCfg == {<<4, 2, 2>>, <<8, 4, 4>>, <<32, 128, 64>>, <<1, 1, 1>>, <<3, 5, 7>>, <<2, 3, 5>>}
NumComm ==
    {Ev("CommitteeCount", <<F(n), F(c[1]), F(c[2]), F(c[3])>>, "ok",
        F(MaxI(1, MinI(c[3], (n \div c[1]) \div c[2])))) : n \in 0..300, c \in CommCfg}
    \cup {Ev("CommitteeCount", <<F(n), F(32), F(128), F(64)>>, "ok",
        F(MaxI(1, MinI(64, (n \div 32) \div 128)))) : n \in {4095, 4096, 8191, 8192, 262143, 262144, 262145, 500000}}

NumSpan ==
    {Ev("CheckSlotSpan", <<F(s), F(sp), F(lo), F(hi)>>,
        IF lo <= s + sp /\ s <= hi THEN "ok" ELSE "err", Zero)
     : s \in 0..9, sp \in 0..3, lo \in 0..10, hi \in 0..10}

NumEvents == NumOne \cup NumMaxMin \cup NumSlots \cup NumTimeDefined \cup NumLookahead
             \cup NumChurn \cup NumActChurn \cup NumComm \cup NumSpan

(* ---------------- 64-bit boundaries, BigNat ---------------- *)
Edge == {Pow2(k) : k \in 0..63} \cup {Pred(Pow2(k)) : k \in 0..64} \cup {Succ(Pow2(k)) : k \in 0..63}
EdgeFew == {Zero, One, Pow2(31), Pred(Pow2(32)), Pow2(32), Pow2(63), Pred(Pow2(63)), Succ(Pow2(63)),
            Pred(U64Max), U64Max}
Ks == {Pow2(k) : k \in 0..32} \cup {Pred(Pow2(k)) : k \in 1..32} \cup {Succ(Pow2(k)) : k \in 1..31}
      \cup {F(3), F(10), F(94906267 % B) \o <<>>}   \* (last one is just another small value)

NextPow2Big(n) == Pow2(CHOOSE k \in 0..63 : Le(n, Pow2(k)) /\ (k = 0 \/ Lt(Pow2(k - 1), n)))
PrevBig(n) == IF n = Zero THEN Zero ELSE Pred(n)

SqrtCases ==   \* <<n, floor sqrt>> built from k by multiplication only
    UNION {{ <<Mul(k, k), k>>, <<Pred(Mul(k, k)), Pred(k)>>, <<Succ(Mul(k, k)), k>> } : k \in Ks \ {Zero}}
SqrtCasesU64 == {c \in SqrtCases : FitsU64(c[1])}

BigOne ==
    UNION {{ Ev("IsPowerOfTwo", <<n>>, "ok", Bool(IsPow2(n))),
             Ev("SlotPrevious", <<n>>, "ok", PrevBig(n)),
             Ev("EpochPrevious", <<n>>, "ok", PrevBig(n)) } : n \in Edge}
    \cup {Ev("NextPowerOfTwo", <<n>>, "ok", NextPow2Big(n)) : n \in {m \in Edge : m # Zero /\ Le(m, Pow2(63))}}
    \cup UNION {{ Ev("IntegerSquareroot", <<c[1]>>, "ok", c[2]),
                  Ev("IntegerSquareRootPrysm", <<c[1]>>, "ok", c[2]) } : c \in SqrtCasesU64}

BigMaxMin ==
    UNION {{ Ev("MaxU64", <<x, y>>, "ok", MaxB(x, y)),
             Ev("MinU64", <<x, y>>, "ok", MinB(x, y)),
             Ev("ActivationChurnLimit", <<x, y>>, "ok", MinB(x, y)) } : x \in EdgeFew, y \in EdgeFew}

\* activation churn at the 64-bit edges: quotient 1 makes the churn the active count itself
BigActChurn ==
    {Ev("ValidatorActivationChurnLimit", <<n, lo, One, cap>>, "ok", MinB(cap, MaxB(lo, n)))
     : n \in EdgeFew, lo \in {Zero, F(4), Pow2(32), U64Max}, cap \in {Zero, One, F(3), F(4), F(8), Pow2(63), U64Max}}

ExactOrErr(fn, args, exact) == IF FitsU64(exact) THEN Ev(fn, args, "ok", exact) ELSE Ev(fn, args, "err", Zero)

BigSpes == {One, F(2), F(3), F(8), F(32), Pow2(31), Pow2(32), Pred(Pow2(32)), Pow2(63), U64Max}
BigSlots == {ExactOrErr("EpochStartSlot", <<e, spe>>, Mul(e, spe)) : e \in Edge, spe \in BigSpes}

BigTime == {ExactOrErr("TimeAtSlot", <<s, g, sps>>, Add(Mul(s, sps), g))
            : s \in Edge, g \in {Zero, F(7), Pow2(31), Pred(Pow2(63)), U64Max}, sps \in {One, F(6), F(12), Pow2(32)}}

BigLookahead == {Ev("ComputeActivationExitEpoch", <<e, m>>, "ok", Add(Succ(e), m))
                 : e \in {x \in Edge : FitsU64(Add(Succ(x), F(5)))}, m \in {Zero, One, F(4), F(5)}}

BigSpan ==
    {Ev("CheckSlotSpan", <<s, sp, lo, hi>>,
        IF Le(lo, Add(s, sp)) /\ Le(s, hi) THEN "ok" ELSE "err", Zero)
     : s \in EdgeFew, sp \in {Zero, One, F(32)}, lo \in EdgeFew, hi \in EdgeFew}
\* when slot+span is not representable both answers can be allowed; emit only determined cases
BigSpanDetermined == {e \in BigSpan : FitsU64(Add(e.a[1], e.a[2])) \/ e.out = "err"}

BigEvents == BigOne \cup BigMaxMin \cup BigActChurn \cup BigSlots \cup BigTime \cup BigLookahead \cup BigSpanDetermined

(* ---------------- Merkle branches over a TLC-chosen hash oracle ---------------- *)
Alpha == <<"a", "b", "c">>
AlphaSet == {"a", "b", "c"}
Tab == [k \in 1..9 |-> <<Alpha[((k - 1) \div 3) + 1], Alpha[((k - 1) % 3) + 1], Table[k]>>]

MEv(depth, index, leaf, branch, root) ==
    [fn |-> "VerifyMerkleBranch", a |-> <<depth, index>>, leaf |-> leaf, branch |-> branch, root |-> root,
     tab |-> Tab, out |-> "ok",
     r |-> Bool(MerkleAccepts(Tab, leaf, branch, depth, index, root))]

MerkleIdx(d) == {F(i) : i \in 0..(Pow2Int(d) + 1)} \cup {U64Max, Pow2(63)}

\* one chunk per (depth, branch length, index): keeps every set TLC has to normalise small
MerkleChunks == SetToSeq({<<d, L, idx>> : d \in 0..MerkleDepth, L \in 0..(MerkleDepth + 1), idx \in MerkleIdx(MerkleDepth)}
                         \cap UNION {{<<d, L, idx>> : L \in 0..(d + 1), idx \in MerkleIdx(d)} : d \in 0..MerkleDepth})

MerkleChunk(c) == {MEv(F(c[1]), c[3], leaf, br, root)
                   : br \in [1..c[2] -> AlphaSet], leaf \in AlphaSet, root \in AlphaSet}

\* absurd depths with short branches: must be rejected, not crash
MerkleHuge ==
    {MEv(dep, idx, leaf, br, root)
     : dep \in {F(65), Pow2(40), U64Max}, br \in [1..1 -> AlphaSet] \cup {<<>>},
       idx \in {Zero, One}, leaf \in {"a"}, root \in AlphaSet}

(* ---------------- emit ---------------- *)
ChunkSets == CASE Part = "num" -> <<NumOne, NumMaxMin, NumSlots, NumTimeDefined, NumLookahead, NumChurn, NumActChurn, NumComm, NumSpan>>
               [] Part = "big" -> <<BigOne, BigMaxMin, BigActChurn, BigSlots, BigTime, BigLookahead, BigSpanDetermined>>
               [] Part = "merkle" -> [k \in 1..(Len(MerkleChunks) + 1) |->
                                        IF k <= Len(MerkleChunks) THEN MerkleChunk(MerkleChunks[k]) ELSE MerkleHuge]

\* every emitted event satisfies the postcondition used for trace validation (ties the native
\* computation, the BigNat library and Helpers!Post together), then the chunk is written out
EmitChunk(k) ==
    LET seq == SetToSeq(ChunkSets[k]) IN
    /\ \A i \in DOMAIN seq :
           Assert(Post(seq[i]), <<"emitted event violates its own postcondition", seq[i]>>)
    /\ ndJsonSerialize("enum-" \o ToString(k) \o ".ndjson", seq)
    /\ PrintT(<<"HELPERS_ENUM_CHUNK", Part, k, Len(seq)>>)

ASSUME \A k \in DOMAIN ChunkSets : EmitChunk(k)
ASSUME PrintT(<<"HELPERS_ENUM_DONE", Part, Len(ChunkSets)>>)

VARIABLE done
Init == done = TRUE
Next == UNCHANGED done
=============================================================================
