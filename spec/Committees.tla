------------------------------ MODULE Committees ------------------------------
(***************************************************************************)
(* Beacon committees, block proposers and sync committees of the Ethereum  *)
(* consensus specification (phase0 + altair, pre-electra selection),       *)
(* transcribed from the consensus-specs text (v1.5.0-beta.2 era), NOT from *)
(* zrnt.  Property C07.                                                    *)
(*                                                                         *)
(*  phase0: is_active_validator, get_active_validator_indices,             *)
(*          get_committee_count_per_slot, get_seed, compute_committee,     *)
(*          get_beacon_committee, compute_proposer_index,                  *)
(*          get_beacon_proposer_index                                      *)
(*  altair: get_next_sync_committee_indices                                *)
(*                                                                         *)
(* A state is abstracted to                                                *)
(*   vals  : sequence of [act, exit, eff] (entry i+1 = validator index i;  *)
(*           FAR_FUTURE_EPOCH is any number larger than every epoch used)  *)
(*   mixes : sequence of EPOCHS_PER_HISTORICAL_VECTOR 32-byte sequences    *)
(*           (entry k+1 = state.randao_mixes[k])                           *)
(* P is the preset record.  SHA-256 is the oracle HT: a function from      *)
(* pre-image byte sequences to 32-byte digests; every pre-image is built   *)
(* here exactly as the specification text builds it.                       *)
(***************************************************************************)
EXTENDS Shuffle, TLC

Min2(a, b) == IF a <= b THEN a ELSE b

DOMAIN_BEACON_PROPOSER == << 0, 0, 0, 0 >>
DOMAIN_BEACON_ATTESTER == << 1, 0, 0, 0 >>
DOMAIN_SYNC_COMMITTEE  == << 7, 0, 0, 0 >>

MAX_RANDOM_BYTE == 255     \* 2**8 - 1

PresetFields == {"SLOTS_PER_EPOCH", "MAX_COMMITTEES_PER_SLOT", "TARGET_COMMITTEE_SIZE", "SHUFFLE_ROUND_COUNT",
                 "MAX_EFFECTIVE_BALANCE", "SYNC_COMMITTEE_SIZE", "EPOCHS_PER_HISTORICAL_VECTOR",
                 "MIN_SEED_LOOKAHEAD", "EPOCHS_PER_SYNC_COMMITTEE_PERIOD"}

(**************************** registry ************************************)

\* is_active_validator(validator, epoch): activation_epoch <= epoch < exit_epoch
IsActive(v, e) == v.act <= e /\ e < v.exit

\* get_active_validator_indices(state, epoch): ascending validator indices (0-based values)
ActiveIdx(vals, e) ==
    SelectSeq([k \in 1 .. Len(vals) |-> k - 1], LAMBDA i : IsActive(vals[i + 1], e))

\* get_committee_count_per_slot(state, epoch)
CommitteeCountPerSlot(P, activeCount) ==
    Max2(1, Min2(P.MAX_COMMITTEES_PER_SLOT,
                 (activeCount \div P.SLOTS_PER_EPOCH) \div P.TARGET_COMMITTEE_SIZE))

EpochOfSlot(P, slot) == slot \div P.SLOTS_PER_EPOCH

(****************************** seeds *************************************)

\* get_randao_mix(state, epoch) = state.randao_mixes[epoch % EPOCHS_PER_HISTORICAL_VECTOR]
RandaoMix(P, mixes, e) == mixes[(e % P.EPOCHS_PER_HISTORICAL_VECTOR) + 1]

\* get_seed(state, epoch, domain_type):
\*   mix = get_randao_mix(state, epoch + EPOCHS_PER_HISTORICAL_VECTOR - MIN_SEED_LOOKAHEAD - 1)
\*   return hash(domain_type + uint_to_bytes(epoch) + mix)
SeedPre(P, mixes, e, domain) ==
    domain \o LEBytes(e, 8)
           \o RandaoMix(P, mixes, e + P.EPOCHS_PER_HISTORICAL_VECTOR - P.MIN_SEED_LOOKAHEAD - 1)
Seed(P, mixes, e, domain, HT) == HT[SeedPre(P, mixes, e, domain)]

(************************ shuffling under a seed **************************)
(* A "shuffling context" caches what compute_shuffled_index derives from   *)
(* the hashes for one (seed, index_count): the pivots and the 32-byte      *)
(* sources of every round.                                                 *)

\* ctx = [n, R, piv, bit] with piv[r] the pivot and bit[r][pos] the coin of round r (abstract level of Shuffle.tla)
\* (TLCEval only forces TLC to evaluate the tables once instead of at every application)
ShufCtx(n, R, seed, HT) ==
    LET src == TLCEval([r \in 0 .. R - 1 |->
                         TLCEval([w \in 0 .. NumWindows(n) - 1 |-> HT[SourcePre(seed, r, w)]])])
    IN [n |-> n, R |-> R,
        piv |-> TLCEval([r \in 0 .. R - 1 |-> IF n = 0 THEN 0 ELSE PivotOf(HT[PivotPre(seed, r)], n)]),
        bit |-> [r \in 0 .. R - 1 |-> [pos \in 0 .. n - 1 |-> BitOf(src[r][pos \div 256], pos)]]]

\* compute_shuffled_index(index, index_count, seed)
ShuffledIndex(i, ctx) == PermIdx(i, ctx.n, ctx.R, ctx.piv, ctx.bit)

(***************************** committees *********************************)

\* compute_committee(indices, seed, index, count), given the shuffling context of (seed, len(indices))
ComputeCommittee(indices, ctx, index, count) ==
    LET n == Len(indices)
        start == (n * index) \div count
        end == (n * (index + 1)) \div count
    IN [k \in 1 .. end - start |-> indices[ShuffledIndex(start + k - 1, ctx) + 1]]

\* all committees of an epoch: sequence over the slots of the epoch of sequences over committee indices of
\* get_beacon_committee(state, slot, index)
EpochCommitteesOf(P, active, ctx) ==
    LET cps == CommitteeCountPerSlot(P, Len(active))
    IN [s \in 1 .. P.SLOTS_PER_EPOCH |->
          [c \in 1 .. cps |->
              ComputeCommittee(active, ctx, (s - 1) * cps + (c - 1), cps * P.SLOTS_PER_EPOCH)]]

EpochCommittees(P, vals, mixes, HT, e) ==
    LET active == ActiveIdx(vals, e)
        seed == Seed(P, mixes, e, DOMAIN_BEACON_ATTESTER, HT)
    IN EpochCommitteesOf(P, active, ShufCtx(Len(active), P.SHUFFLE_ROUND_COUNT, seed, HT))

(****************************** proposers *********************************)

\* random_byte = hash(seed + uint_to_bytes(uint64(i // 32)))[i % 32]
RandomBytePre(seed, i) == seed \o LEBytes(i \div 32, 8)
RandomByte(seed, i, HT) == HT[RandomBytePre(seed, i)][(i % 32) + 1]

\* effective_balance * MAX_RANDOM_BYTE >= MAX_EFFECTIVE_BALANCE * random_byte
Accepts(P, eff, rb) == eff * MAX_RANDOM_BYTE >= P.MAX_EFFECTIVE_BALANCE * rb

\* compute_proposer_index(state, indices, seed)
RECURSIVE ProposerLoop(_, _, _, _, _, _, _)
ProposerLoop(P, vals, indices, ctx, seed, HT, i) ==
    LET total == Len(indices)
        cand == indices[ShuffledIndex(i % total, ctx) + 1]
    IN IF Accepts(P, vals[cand + 1].eff, RandomByte(seed, i, HT))
       THEN [index |-> cand, iters |-> i + 1]
       ELSE ProposerLoop(P, vals, indices, ctx, seed, HT, i + 1)

ComputeProposerIndex(P, vals, indices, seed, HT) ==
    ProposerLoop(P, vals, indices, ShufCtx(Len(indices), P.SHUFFLE_ROUND_COUNT, seed, HT), seed, HT, 0)

\* get_beacon_proposer_index(state) for a state at `slot`:
\*   seed = hash(get_seed(state, epoch, DOMAIN_BEACON_PROPOSER) + uint_to_bytes(state.slot))
ProposerSeedPre(P, mixes, slot, HT) ==
    Seed(P, mixes, EpochOfSlot(P, slot), DOMAIN_BEACON_PROPOSER, HT) \o LEBytes(slot, 8)

BeaconProposer(P, vals, mixes, HT, slot) ==
    LET e == EpochOfSlot(P, slot)
    IN ComputeProposerIndex(P, vals, ActiveIdx(vals, e), HT[ProposerSeedPre(P, mixes, slot, HT)], HT)

\* the proposers of all slots of epoch e (as [index, iters] records)
EpochProposers(P, vals, mixes, HT, e) ==
    [s \in 1 .. P.SLOTS_PER_EPOCH |-> BeaconProposer(P, vals, mixes, HT, e * P.SLOTS_PER_EPOCH + s - 1)]

(*************************** sync committees ******************************)

\* get_next_sync_committee_indices(state) where epoch = get_current_epoch(state) + 1 is passed explicitly
RECURSIVE SyncLoop(_, _, _, _, _, _, _, _)
SyncLoop(P, vals, indices, ctx, seed, HT, i, acc) ==
    IF Len(acc) >= P.SYNC_COMMITTEE_SIZE THEN [indices |-> acc, iters |-> i]
    ELSE LET total == Len(indices)
             cand == indices[ShuffledIndex(i % total, ctx) + 1]
             ok == Accepts(P, vals[cand + 1].eff, RandomByte(seed, i, HT))
         IN SyncLoop(P, vals, indices, ctx, seed, HT, i + 1, IF ok THEN Append(acc, cand) ELSE acc)

SyncCommitteeIndices(P, vals, mixes, HT, epoch) ==
    LET indices == ActiveIdx(vals, epoch)
        seed == Seed(P, mixes, epoch, DOMAIN_SYNC_COMMITTEE, HT)
    IN SyncLoop(P, vals, indices, ShufCtx(Len(indices), P.SHUFFLE_ROUND_COUNT, seed, HT), seed, HT, 0, << >>)

(* get_next_sync_committee(state) = SyncCommittee(pubkeys = [validators[i].pubkey for i in indices],               *)
(*                                                  aggregate_pubkey = eth_aggregate_pubkeys(pubkeys)).             *)
(* BLS is an environment oracle: the aggregate of a list of keys depends only on the BAG of keys (one occurrence   *)
(* per seat -- a validator that holds two seats contributes its key twice).  The bag is represented by the sorted  *)
(* seat list; Agg is the oracle: a sequence of << sorted seat list, aggregate >> pairs.                            *)
SeatBag(seats) ==
    LET RECURSIVE ins(_, _)
        ins(x, srt) == IF srt = << >> THEN << x >>
                       ELSE IF x <= Head(srt) THEN << x >> \o srt ELSE << Head(srt) >> \o ins(x, Tail(srt))
        RECURSIVE go(_)
        go(k) == IF k = 0 THEN << >> ELSE ins(seats[k], go(k - 1))
    IN go(Len(seats))

\* aggregate_pubkey of the committee with these seats; << -1 >> (a byte sequence no key has, comparable with any
\* logged aggregate) if the oracle has no entry for the bag -- which happens exactly when the code's seats are not the
\* specification's, and must then read as a mismatch, never as an evaluation error
AggregateOf(Agg, seats) ==
    LET bag == SeatBag(seats)
        qs == {q \in 1 .. Len(Agg) : Agg[q][1] = bag}
    IN IF qs = {} THEN << -1 >> ELSE Agg[CHOOSE q \in qs : TRUE][2]

(************************ structural properties ***************************)
(* "Within an epoch the committees partition the active validator set:     *)
(* every active validator sits in exactly one committee, and committee     *)
(* counts and sizes follow the spec formula."  comms = sequence (slots) of *)
(* sequences (committee index) of sequences of validator indices.          *)

Flatten2(comms) ==
    LET RECURSIVE catc(_, _)
        catc(cs, k) == IF k > Len(cs) THEN << >> ELSE cs[k] \o catc(cs, k + 1)
        RECURSIVE cats(_)
        cats(s) == IF s > Len(comms) THEN << >> ELSE catc(comms[s], 1) \o cats(s + 1)
    IN cats(1)

PartitionOK(P, comms, active) ==
    LET n == Len(active)
        cps == CommitteeCountPerSlot(P, n)
        count == cps * P.SLOTS_PER_EPOCH
        flat == Flatten2(comms)
    IN /\ Len(comms) = P.SLOTS_PER_EPOCH
       /\ \A s \in 1 .. Len(comms) : Len(comms[s]) = cps
       \* every active validator in exactly one committee, nobody else in any
       /\ Len(flat) = n
       /\ {flat[k] : k \in 1 .. Len(flat)} = {active[k] : k \in 1 .. n}
       \* sizes follow the formula: committee number idx has floor(n(idx+1)/count) - floor(n idx/count) members
       /\ \A s \in 1 .. Len(comms) : \A c \in 1 .. Len(comms[s]) :
             LET idx == (s - 1) * cps + (c - 1)
             IN Len(comms[s][c]) = ((n * (idx + 1)) \div count) - ((n * idx) \div count)
       \* hence sizes differ by at most one
       /\ \A s1, s2 \in 1 .. Len(comms) : \A c1 \in 1 .. Len(comms[s1]) : \A c2 \in 1 .. Len(comms[s2]) :
             Len(comms[s1][c1]) - Len(comms[s2][c2]) \in {-1, 0, 1}

=============================================================================
