\* exhaustive check of SyncCommitteeMessages.Select: every map over 3 validators x 2 roots, every member list of length <= 3
CONSTANTS
  KnownDeviations = {}
  Which = "select"
  MaxCalls = 4
INIT Init
NEXT Next
VIEW stateView
INVARIANTS SelectSound SelOnePerValidator
CHECK_DEADLOCK FALSE
