--------------------------------- MODULE Pools ---------------------------------
(***************************************************************************)
(* Property C20: the operation pools of eth2/pool keep what they are given *)
(* and never panic.                                                        *)
(*                                                                         *)
(* One sub-state per pool kind:                                            *)
(*   att    attestation pool   (AddAttestation / Search / Prune)           *)
(*   keyed  proposer-slashing, attester-slashing and exit pools (Add/All)  *)
(*   sync   sync-committee pool (Add message / contribution, Reset)        *)
(* Every operation is an operator from (pre-state, arguments) to the SET   *)
(* of (reply, post-state) pairs the statement allows; where the statement  *)
(* leaves freedom the set has several elements (or the state keeps a       *)
(* "may" and a "must" part).  The model (Next) picks any of them,          *)
(* PoolsTrace.tla requires the logged reply / result / snapshot of the     *)
(* real pool to be one of them.                                            *)
(*                                                                         *)
(* Named deviations (listed findings, enabled through KnownDeviations):    *)
(*   AggNilMap     AddAttestation(aggregate) for a data root without a     *)
(*                 stored aggregate panics (aggPerValidator is never made) *)
(*   SearchNilAgg  Search panics when a matching data root has no stored   *)
(*                 aggregate (nil *MinAggregates dereferenced)             *)
(*   SelectNilMember  SyncCommitteeMessages.Select dereferences the nil    *)
(*                 message of a member that has no stored message         *)
(*   SyncNilMap    Add{Message,Contribution} routed to a window buffer     *)
(*                 whose map was never made (before / right after the      *)
(*                 first Reset) panics                                     *)
(***************************************************************************)
EXTENDS Integers, Sequences, FiniteSets, TLC, Json

CONSTANTS KnownDeviations,   \* subset of {"AggNilMap", "SearchNilAgg", "SyncNilMap", "SelectNilMember"}
          Which,             \* model checking: which pool kind is exercised: "att" | "keyed" | "sync" | "select"
          MaxCalls

Range(s) == {s[x] : x \in 1..Len(s)}

----------------------------------------------------------------------------
(* Attestations.  a = [slot, index, epoch, var, bits, sig, comm]; (slot, index, epoch, var) identifies the        *)
(* attestation data (var distinguishes different data for the same slot and committee), bits is a 0/1 sequence    *)
(* over the committee comm.                                                                                        *)

DataOf(a) == <<a.slot, a.index, a.epoch, a.var>>
Core(a)   == [slot |-> a.slot, index |-> a.index, epoch |-> a.epoch, var |-> a.var, bits |-> a.bits, sig |-> a.sig]
PosSet(bits) == {x \in 1..Len(bits) : bits[x] = 1}
Participants(a) == {a.comm[x] : x \in PosSet(a.bits)}
WellFormed(a) == Len(a.bits) = Len(a.comm) /\ PosSet(a.bits) # {}

(* Ill-formed input (outside the statement's "well-formed"): no bit set, a bitlist that does not fit the committee, *)
(* or an aggregate of another length than the aggregates stored for its data.  Lenient rule: refused (or absorbed), *)
(* nothing stored, never a panic.  (An aggregate with a wrong committee for data the pool holds no aggregate of  *)
(* is not offered: nothing in the statement bounds what the pool does with it.)                                  *)
IllFormed(P, a) ==
  \/ ~WellFormed(a)
  \/ /\ Cardinality(PosSet(a.bits)) >= 2
     /\ \E x \in P.acc : <<x.slot, x.index, x.epoch, x.var>> = <<a.slot, a.index, a.epoch, a.var>>
                         /\ Len(x.bits) # Len(a.bits)

AttEmpty == [acc     |-> {},   \* accepted aggregates (cores) not pruned: Search MAY return them
             must    |-> {},   \* those Search MUST return (accepted and not covered when accepted)
             accS    |-> {},   \* accepted single votes (cores): Search MAY return them
             singles |-> {},   \* [v, epoch, data] of accepted single votes
             voted   |-> {},   \* <<v, epoch, data>> of participants of accepted aggregates
             datas   |-> {}]   \* code-shaped: data seen by AddAttestation (pre-state class of the deviations)

AggsFor(P, d) == {x \in P.acc : DataOf(x) = d}

(* replies allowed for AddAttestation(a), with the post-state of each *)
AttAddOutcomes(P, a) ==
  LET d  == DataOf(a)
      e  == a.epoch
      ps == Participants(a)
      P1 == [P EXCEPT !.datas = @ \cup {d}]
  IN
  IF Cardinality(ps) = 1
  THEN LET v == CHOOSE x \in ps : TRUE
           prior == {s \in P.singles : s.v = v /\ s.epoch = e}
       IN  IF prior = {}
           THEN {[ret |-> "ok", P2 |-> [P1 EXCEPT !.singles = @ \cup {[v |-> v, epoch |-> e, data |-> d]},
                                                   !.accS = @ \cup {Core(a)}]]}
           ELSE IF \E s \in prior : s.data = d
           THEN {[ret |-> "ok", P2 |-> P1]}            \* exact duplicate (same vote): absorbed
           ELSE {[ret |-> "err", P2 |-> P1]}           \* conflicting second vote: reported
  ELSE LET Sd == AggsFor(P, d)
           U  == UNION {PosSet(x.bits) : x \in Sd}
           conflicting(v) == \E t \in P.voted : t[1] = v /\ t[2] = e /\ t[3] # d
           votedAny(v)    == \E t \in P.voted : t[1] = v /\ t[2] = e
           stored(isMust) == [P1 EXCEPT !.acc = @ \cup {Core(a)},
                                        !.must = IF isMust THEN @ \cup {Core(a)} ELSE @,
                                        !.voted = @ \cup {<<v, e, d>> : v \in ps}]
       IN  IF Sd # {}
           THEN {[ret |-> "ok", P2 |-> stored(~(PosSet(a.bits) \subseteq U))]}   \* covered: may be kept or dropped
                \cup (IF \A v \in ps : conflicting(v) THEN {[ret |-> "err", P2 |-> P1]} ELSE {})
           ELSE IF \E v \in ps : ~votedAny(v)
           THEN {[ret |-> "ok", P2 |-> stored(TRUE)]}
           ELSE {[ret |-> "err", P2 |-> P1]}           \* every participant already voted for other data this epoch

AttAddDeviations(P, a) ==
  IF "AggNilMap" \in KnownDeviations /\ Cardinality(Participants(a)) >= 2 /\ AggsFor(P, DataOf(a)) = {}
  THEN {[ret |-> "panic", P2 |-> [P EXCEPT !.datas = @ \cup {DataOf(a)}], dev |-> "AggNilMap"]}
  ELSE {}

Matches(x, fs, fc) == (fs = -1 \/ x.slot = fs) /\ (fc = -1 \/ x.index = fc)
SearchMay(P, fs, fc)  == {x \in P.acc \cup P.accS : Matches(x, fs, fc)}
SearchMust(P, fs, fc) == {x \in P.must : Matches(x, fs, fc)}
(* a Search result R (set of cores) is allowed iff every item was accepted, is unaltered and matches the filter, *)
(* and every stored aggregate that matches is there                                                              *)
SearchOK(P, fs, fc, R) == SearchMust(P, fs, fc) \subseteq R /\ R \subseteq SearchMay(P, fs, fc)

SearchDeviates(P, fs, fc) ==
  /\ "SearchNilAgg" \in KnownDeviations
  /\ \E d \in P.datas : (fs = -1 \/ d[1] = fs) /\ (fc = -1 \/ d[2] = fc) /\ AggsFor(P, d) = {}

PruneMin(e) == IF e = 0 THEN 0 ELSE e - 1
(* removes exactly what can no longer be included: target epoch < e - 1 *)
AttPrune(P, e) ==
  LET m == PruneMin(e) IN
  [acc |-> {x \in P.acc : x.epoch >= m}, must |-> {x \in P.must : x.epoch >= m},
   accS |-> {x \in P.accS : x.epoch >= m}, singles |-> {s \in P.singles : s.epoch >= m},
   voted |-> {t \in P.voted : t[2] >= m}, datas |-> {d \in P.datas : d[3] >= m}]

----------------------------------------------------------------------------
(* Keyed pools: proposer slashings (key = proposer index), attester slashings (key = content), exits (key =     *)
(* validator index).  K = set of [key, id].                                                                      *)

KeyedEmpty == [ps |-> {}, as |-> {}, ex |-> {}]
KeyedAddOutcomes(K, key, id) ==
  IF \E x \in K : x.key = key
  THEN {[ret |-> "err", K2 |-> K], [ret |-> "ok", K2 |-> K]}      \* reported or absorbed; the first one stays
  ELSE {[ret |-> "ok", K2 |-> K \cup {[key |-> key, id |-> id]}]}
KeyedAll(K) == {x.id : x \in K}

----------------------------------------------------------------------------
(* Sync-committee pool: three-slot window around cur (cur = -1: no Reset yet).                                   *)
(* item = [id, kind ("msg" | "contrib"), slot, v, root, sub]                                                     *)

SyncEmpty == [cur |-> -1, held |-> {},
              sel |-> {},    \* a SyncCommitteeMessages map of its own (for Select): set of [v, root, id], one per v
              mk |-> [prev |-> FALSE, cur |-> FALSE, next |-> FALSE]]   \* code-shaped: which buffers' maps exist

InWin(held, c) == {x \in held : x.slot >= c - 1 /\ x.slot <= c + 1}
SameSender(held, it) == IF it.kind = "msg" THEN {x \in held : x.kind = "msg" /\ x.slot = it.slot /\ x.v = it.v}
                        ELSE {}

(* the buffer the code routes a slot to ("none": refused); before the first Reset currentSlot is 2^64-1, so *)
(* currentSlot+1 wraps to 0                                                                                  *)
Route(c, slot) == IF c = -1 THEN (IF slot = 0 THEN "next" ELSE "none")
                  ELSE IF slot + 1 = c THEN "prev"
                  ELSE IF slot = c THEN "cur"
                  ELSE IF c + 1 = slot THEN "next"
                  ELSE "none"

(* stored: a second message of the same validator for the same slot may replace the first or be absorbed *)
SyncStored(Y, it) ==
  {[ret |-> "ok", Y2 |-> [Y EXCEPT !.held = (@ \ SameSender(@, it)) \cup {it}]]}
  \cup (IF SameSender(Y.held, it) # {} THEN {[ret |-> "ok", Y2 |-> Y]} ELSE {})

SyncAddOutcomes(Y, it) ==
  IF Y.cur = -1
  THEN {[ret |-> "err", Y2 |-> Y]} \cup SyncStored(Y, it)      \* before the first Reset: refused or stored, never a panic
  ELSE IF it.slot >= Y.cur - 1 /\ it.slot <= Y.cur + 1
  THEN SyncStored(Y, it)
  ELSE {[ret |-> "err", Y2 |-> Y]}

SyncAddDeviations(Y, it) ==
  LET b == Route(Y.cur, it.slot) IN
  IF "SyncNilMap" \in KnownDeviations /\ b # "none" /\ ~Y.mk[b]
  THEN {[ret |-> "panic", Y2 |-> Y, dev |-> "SyncNilMap"]}
  ELSE {}

CodeMk(Y, s) ==      \* Reset, as far as the existence of the maps is concerned
  IF Y.cur # -1 /\ Y.cur = s + 1 THEN [prev |-> TRUE, cur |-> Y.mk.prev, next |-> Y.mk.cur]
  ELSE IF Y.cur = s THEN Y.mk
  ELSE IF (Y.cur = -1 /\ s = 0) \/ (Y.cur # -1 /\ Y.cur + 1 = s) THEN [prev |-> Y.mk.cur, cur |-> Y.mk.next, next |-> TRUE]
  ELSE [prev |-> TRUE, cur |-> TRUE, next |-> TRUE]

(* Reset(s): a rotation by at most one slot keeps exactly the slots that stay in the window; after a jump (or   *)
(* the first Reset) whatever is still in the window may be kept or dropped as a whole; the rest is gone.        *)
SyncResetOutcomes(Y, s) ==
  LET rot  == Y.cur # -1 /\ s >= Y.cur - 1 /\ s <= Y.cur + 1
      keep == [Y EXCEPT !.cur = s, !.held = InWin(Y.held, s), !.mk = CodeMk(Y, s)]
      drop == [Y EXCEPT !.cur = s, !.held = {}, !.mk = CodeMk(Y, s)]
  IN  IF rot THEN {[ret |-> "ok", Y2 |-> keep]} ELSE {[ret |-> "ok", Y2 |-> keep], [ret |-> "ok", Y2 |-> drop]}

(* SyncCommitteeMessages.Select(root, members): the stored messages of `members` that voted for `root`, in member *)
(* order (a member listed twice is answered twice; a member without a stored message contributes nothing).       *)
RECURSIVE SelectFrom(_, _, _, _)
SelectFrom(msgs, root, members, x) ==
  IF x > Len(members) THEN <<>>
  ELSE LET hit == {m \in msgs : m.v = members[x] /\ m.root = root}
       IN  (IF hit # {} THEN <<(CHOOSE m \in hit : TRUE).id>> ELSE <<>>) \o SelectFrom(msgs, root, members, x + 1)
Select(msgs, root, members) == SelectFrom(msgs, root, members, 1)
SelectDeviates(msgs, members) ==
  /\ "SelectNilMember" \in KnownDeviations
  /\ \E x \in 1..Len(members) : ~ \E m \in msgs : m.v = members[x]
SelPutInto(msgs, v, root, id) == {m \in msgs : m.v # v} \cup {[v |-> v, root |-> root, id |-> id]}

BufOf(c, slot) == IF slot + 1 = c THEN "prev" ELSE IF slot = c THEN "cur" ELSE IF slot = c + 1 THEN "next" ELSE "none"

----------------------------------------------------------------------------
(* The model (small universes; one pool kind per configuration). *)

VARIABLES att, keyed, sync, calls, hist
vars == <<att, keyed, sync, calls, hist>>
stateView == <<att, keyed, sync>>

MCComm(slot, index) == LET b == (slot * 2 + index) * 3 IN <<b + 1, b + 2, b + 3>>
MCDatas == {<<0, 0, 0>>, <<0, 0, 1>>, <<0, 1, 0>>, <<2, 0, 0>>, <<4, 0, 0>>}      \* <<slot, index, var>>, 2 slots per epoch
MCBits  == {<<1, 0, 0>>, <<0, 1, 0>>, <<1, 1, 0>>, <<0, 1, 1>>, <<1, 1, 1>>}
MCAtts  == {[slot |-> d[1], index |-> d[2], epoch |-> d[1] \div 2, var |-> d[3], bits |-> b, sig |-> "g0",
             comm |-> MCComm(d[1], d[2])] : d \in MCDatas, b \in MCBits}
MCFilters == {<<-1, -1>>, <<0, -1>>, <<-1, 0>>, <<0, 1>>, <<2, 0>>}
MCSyncItems == {[id |-> "m" \o ToString(s) \o ToString(v) \o ToString(r), kind |-> "msg", slot |-> s, v |-> v,
                 root |-> r, sub |-> 0] : s \in 0..3, v \in 1..2, r \in 0..0}
               \cup {[id |-> "m" \o ToString(s) \o "11", kind |-> "msg", slot |-> s, v |-> 1,
                       root |-> 1, sub |-> 0] : s \in 0..3}
               \cup {[id |-> "c" \o ToString(s), kind |-> "contrib", slot |-> s, v |-> 0,
                      root |-> 0, sub |-> 1] : s \in 0..3}

Init == att = AttEmpty /\ keyed = KeyedEmpty /\ sync = SyncEmpty /\ calls = 0 /\ hist = <<>>

Step(entry) == calls' = calls + 1 /\ hist' = Append(hist, entry)

AddAtt(a) ==
  /\ Which = "att" /\ calls < MaxCalls
  /\ \E o \in AttAddOutcomes(att, a) :
       /\ att' = o.P2
       /\ Step([ev |-> "AddAtt", att |-> a, ret |-> o.ret])
  /\ UNCHANGED <<keyed, sync>>

Search(fs, fc) ==
  /\ Which = "att" /\ calls < MaxCalls
  /\ Step([ev |-> "Search", fs |-> fs, fc |-> fc, ret |-> "ok", must |-> SearchMust(att, fs, fc),
           may |-> SearchMay(att, fs, fc)])
  /\ UNCHANGED <<att, keyed, sync>>

Prune(e) ==
  /\ Which = "att" /\ calls < MaxCalls
  /\ att' = AttPrune(att, e)
  /\ Step([ev |-> "Prune", epoch |-> e, ret |-> "ok"])
  /\ UNCHANGED <<keyed, sync>>

AddKeyed(pool, key, id) ==
  /\ Which = "keyed" /\ calls < MaxCalls
  /\ \E o \in KeyedAddOutcomes(keyed[pool], key, id) :
       /\ o.ret = (IF \E x \in keyed[pool] : x.key = key THEN "err" ELSE "ok")    \* what the code is expected to reply
       /\ keyed' = [keyed EXCEPT ![pool] = o.K2]
       /\ Step([ev |-> "AddKeyed", pool |-> pool, key |-> key, id |-> id, ret |-> o.ret])
  /\ UNCHANGED <<att, sync>>

All(pool) ==
  /\ Which = "keyed" /\ calls < MaxCalls
  /\ Step([ev |-> "All", pool |-> pool, ret |-> "ok", res |-> KeyedAll(keyed[pool])])
  /\ UNCHANGED <<att, keyed, sync>>

SyncAdd(it) ==
  /\ Which = "sync" /\ calls < MaxCalls
  /\ \E o \in SyncAddOutcomes(sync, it) :
       /\ sync' = o.Y2
       /\ Step([ev |-> "SyncAdd", item |-> it, ret |-> o.ret])
  /\ UNCHANGED <<att, keyed>>

SyncReset(s) ==
  /\ Which = "sync" /\ calls < MaxCalls
  /\ \E o \in SyncResetOutcomes(sync, s) :
       /\ sync' = o.Y2
       /\ Step([ev |-> "SyncReset", slot |-> s, ret |-> "ok"])
  /\ UNCHANGED <<att, keyed>>

SelPut(v, r) ==
  /\ Which = "select" /\ calls < MaxCalls
  /\ sync' = [sync EXCEPT !.sel = SelPutInto(@, v, r, "s" \o ToString(v) \o ToString(r))]
  /\ Step([ev |-> "SelPut", v |-> v, root |-> r, id |-> "s" \o ToString(v) \o ToString(r), ret |-> "ok"])
  /\ UNCHANGED <<att, keyed>>

SelectQ(root, members) ==
  /\ Which = "select" /\ calls < MaxCalls
  /\ Step([ev |-> "Select", root |-> root, members |-> members, ret |-> "ok", res |-> Select(sync.sel, root, members)])
  /\ UNCHANGED <<att, keyed, sync>>

MCMembers == UNION {[1..n -> 1..4] : n \in 0..3}     \* every member list of length <= 3 over 4 validators (3 can hold a message)

Next == \/ \E v \in 1..3, r \in 0..1 : SelPut(v, r)
        \/ \E r \in 0..1, ms \in MCMembers : SelectQ(r, ms)
        \/ \E a \in MCAtts : AddAtt(a)
        \/ \E f \in MCFilters : Search(f[1], f[2])
        \/ \E e \in 0..4 : Prune(e)
        \/ \E pool \in {"ps", "as", "ex"}, key \in 1..3, n \in 1..2 : AddKeyed(pool, key, pool \o ToString(key) \o ToString(n))
        \/ \E pool \in {"ps", "as", "ex"} : All(pool)
        \/ \E it \in MCSyncItems : SyncAdd(it)
        \/ \E s \in 0..4 : SyncReset(s)

Spec == Init /\ [][Next]_vars

----------------------------------------------------------------------------
(* Invariants and action properties. *)

AttTypeOK ==
  /\ att.must \subseteq att.acc
  /\ \A x \in att.acc : Cardinality(PosSet(x.bits)) >= 2
  /\ \A x \in att.accS : Cardinality(PosSet(x.bits)) = 1
  /\ \A x \in att.acc \cup att.accS : <<x.slot, x.index, x.epoch, x.var>> \in att.datas

(* at most one accepted single vote per validator and target epoch *)
OneSinglePerEpoch == \A s, t \in att.singles : (s.v = t.v /\ s.epoch = t.epoch) => s = t

(* whatever Search may return was added, and everything it must return may be returned *)
SearchSound ==
  \A f \in MCFilters :
    /\ SearchMust(att, f[1], f[2]) \subseteq SearchMay(att, f[1], f[2])
    /\ \A x \in SearchMay(att, f[1], f[2]) : Matches(x, f[1], f[2])
    /\ \A x \in SearchMay(att, f[1], f[2]) : \E n \in 1..Len(hist) :
          hist[n].ev = "AddAtt" /\ hist[n].ret = "ok" /\ Core(hist[n].att) = x

(* every stored aggregate is returned until pruned; pruning removes exactly target epochs < e - 1 *)
StoredUntilPruned ==
  [][\A x \in att.must : x \in att'.must \/ (hist'[Len(hist')].ev = "Prune" /\ x.epoch < PruneMin(hist'[Len(hist')].epoch))]_vars
PruneExact ==
  [][(Len(hist') > Len(hist) /\ hist'[Len(hist')].ev = "Prune") =>
       LET m == PruneMin(hist'[Len(hist')].epoch) IN
       /\ att'.acc = {x \in att.acc : x.epoch >= m} /\ att'.singles = {s \in att.singles : s.epoch >= m}]_vars

KeyedOK == \A pool \in {"ps", "as", "ex"} : \A x, y \in keyed[pool] : x.key = y.key => x = y
KeyedKept == [][\A pool \in {"ps", "as", "ex"} : keyed[pool] \subseteq keyed'[pool]]_vars

(* Select answers only with stored messages of listed members that voted for the root, each listed member's message
   is there, and the order is the member order *)
SelectSound ==
  \A r \in 0..1, ms \in MCMembers :
    LET out == Select(sync.sel, r, ms) IN
    /\ \A x \in 1..Len(out) : \E m \in sync.sel : m.id = out[x] /\ m.root = r /\ \E y \in 1..Len(ms) : ms[y] = m.v
    /\ Len(out) = Cardinality({y \in 1..Len(ms) : \E m \in sync.sel : m.v = ms[y] /\ m.root = r})
    /\ \A x, y \in 1..Len(out) : x < y =>
          \E a, b \in 1..Len(ms) : a < b /\ (\E m \in sync.sel : m.id = out[x] /\ m.v = ms[a])
                                          /\ (\E m \in sync.sel : m.id = out[y] /\ m.v = ms[b])
SelOnePerValidator == \A m, n \in sync.sel : m.v = n.v => m = n

SyncWindow == sync.cur # -1 => sync.held = InWin(sync.held, sync.cur)
SyncRotationKeeps ==
  [][(Len(hist') > Len(hist) /\ hist'[Len(hist')].ev = "SyncReset" /\ sync.cur # -1
      /\ sync'.cur >= sync.cur - 1 /\ sync'.cur <= sync.cur + 1) => sync'.held = InWin(sync.held, sync'.cur)]_vars

----------------------------------------------------------------------------
EmitTransitions == (hist' # hist) => PrintT(<<"HIST", ToJson(hist')>>)
EmitAtEnd == (calls = MaxCalls) => PrintT(<<"HIST", ToJson(hist)>>)
=============================================================================
