----------------------------- MODULE ShuffleTrace -----------------------------
(***************************************************************************)
(* Code -> spec binding of property C06 on the real SHA-256 path.          *)
(* Every line of the trace is one event recorded from the real zrnt code:  *)
(* the outputs of ShuffleList, UnshuffleList, PermuteIndex (all indices)   *)
(* and UnpermuteIndex (all indices) for one (n, rounds, seed, input),      *)
(* together with the SHA-256 digests of the specification's pre-images     *)
(* (computed by the harness with crypto/sha256).  The specification        *)
(* (Shuffle.tla) recomputes the permutation from the digests; the event is *)
(* accepted only if all four outputs are the ones it prescribes.  The      *)
(* pre-image layout is checked here too (a wrong harness table is an       *)
(* infrastructure error, not a verdict).                                   *)
(***************************************************************************)
EXTENDS Shuffle, TLC, Json

CONSTANT TraceFile, Diagnose

Trace == ndJsonDeserialize(TraceFile)

VARIABLES l, pv, ps

\* the harness logged the digests of exactly the pre-images the specification hashes
LayoutOK(e) ==
    /\ Len(e.seed) = 32
    /\ Len(e.hp) = e.rounds /\ Len(e.hs) = e.rounds
    /\ \A r \in 1 .. e.rounds :
          /\ e.hp[r][1] = PivotPre(e.seed, r - 1)
          /\ Len(e.hp[r][2]) = 32
          /\ Len(e.hs[r]) = NumWindows(e.n)
          /\ \A w \in 1 .. NumWindows(e.n) :
                e.hs[r][w][1] = SourcePre(e.seed, r - 1, w - 1) /\ Len(e.hs[r][w][2]) = 32

EvBit(e) == [r \in 0 .. e.rounds - 1 |->
                [pos \in 0 .. e.n - 1 |-> BitOf(e.hs[r + 1][(pos \div 256) + 1][2], pos)]]
\* pv (pivot table) and ps (the specification's permutation for the current event) are state variables only so
\* that TLC computes them once per event (LET definitions are re-evaluated at every use inside an action).
Checks(e, pq) ==
       [panic      |-> ~("panic" \in DOMAIN e),
        perm       |-> e.perm = pq,
        \* UnpermuteIndex is the inverse bijection of the specification's function
        unperm     |-> /\ Len(e.unperm) = e.n
                       /\ \A k \in 1 .. e.n : e.unperm[pq[k] + 1] = k - 1,
        shuffled   |-> IsShuffleOf(e.shuffled, e.input, pq),
        unshuffled |-> IsUnshuffleOf(e.unshuffled, e.input, pq),
        \* no element lost or duplicated (input values are distinct in the recorder's plans)
        permutation |-> /\ {e.shuffled[k] : k \in DOMAIN e.shuffled} = {e.input[k] : k \in DOMAIN e.input}
                        /\ {e.unshuffled[k] : k \in DOMAIN e.unshuffled} = {e.input[k] : k \in DOMAIN e.input}
                        /\ Len(e.shuffled) = e.n /\ Len(e.unshuffled) = e.n /\ Len(e.input) = e.n]

Accept(e, pq) ==
    LET c == Checks(e, pq)
    IN \A f \in DOMAIN c : c[f]

(* Per-index events at huge list sizes ("ShuffleIdx"): PermuteIndex / UnpermuteIndex of a few indices of a list of   *)
(* up to 2^31 - 1 entries; hw[r] holds <<window, pre-image, digest>> for the windows those indices need in round r.*)
IdxLayoutOK(e) ==
    /\ Len(e.seed) = 32 /\ Len(e.hp) = e.rounds
    /\ \A r \in 1 .. e.rounds : e.hp[r][1] = PivotPre(e.seed, r - 1) /\ Len(e.hp[r][2]) = 32
    /\ Len(e.hw) = e.rounds
    /\ \A r \in 1 .. e.rounds : \A q \in 1 .. Len(e.hw[r]) :
          e.hw[r][q][2] = SourcePre(e.seed, r - 1, e.hw[r][q][1]) /\ Len(e.hw[r][q][3]) = 32

IdxChecks(e) ==
    LET n == e.n
        R == e.rounds
        piv == TLCEval([r \in 0 .. R - 1 |-> PivotOfBig(e.hp[r + 1][2], n)])
        src(r, w) == e.hw[r + 1][CHOOSE q \in 1 .. Len(e.hw[r + 1]) : e.hw[r + 1][q][1] = w][3]
        bit == [r \in 0 .. R - 1 |-> [pos \in 0 .. n - 1 |-> BitOf(src(r, pos \div 256), pos)]]
    IN [panic  |-> ~("panic" \in DOMAIN e),
        perm   |-> /\ Len(e.perm) = Len(e.indices)
                   /\ \A k \in 1 .. Len(e.indices) : e.perm[k] = PermIdx(e.indices[k], n, R, piv, bit),
        unperm |-> /\ Len(e.unperm) = Len(e.indices)
                   /\ \A k \in 1 .. Len(e.indices) : e.unperm[k] = UnpermIdx(e.indices[k], n, R, piv, bit),
        back   |-> e.back = e.indices]

Init == l = 1 /\ pv = << >> /\ ps = << >>

Next ==
    /\ l <= Len(Trace)
    /\ l' = l + 1
    /\ LET e == Trace[l]
       IN IF e.ev = "ShuffleIdx"
          THEN /\ pv' = << >> /\ ps' = << >>
               /\ Assert(IdxLayoutOK(e), << "harness oracle table has the wrong layout at line", l >>)
               /\ IF Diagnose
                  THEN PrintT(<< "DIAG", l, ToJson(IdxChecks(e)) >>)
                  ELSE \A f \in DOMAIN IdxChecks(e) : IdxChecks(e)[f]
          ELSE /\ Assert(LayoutOK(e), << "harness oracle table has the wrong layout at line", l >>)
               \* (an empty list has no index to shuffle and hence no pivot: index_count = 0)
               /\ pv' = IF e.n = 0 THEN << >>
                        ELSE TLCEval([r \in 0 .. e.rounds - 1 |-> PivotOf(e.hp[r + 1][2], e.n)])
               /\ ps' = TLCEval(PermSeq(e.n, e.rounds, pv', EvBit(e)))
               /\ IF Diagnose
                  THEN PrintT(<< "DIAG", l, ToJson(Checks(e, ps')) >>)
                  ELSE Accept(e, ps')

\* every line was accepted  <=>  the behaviour has Len(Trace) + 1 states
AllAccepted == TLCGet("stats").diameter = Len(Trace) + 1
TraceLen == PrintT(<< "TRACELEN", Len(Trace) >>)
=============================================================================
