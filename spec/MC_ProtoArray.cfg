SPECIFICATION MSpec
CONSTANTS
  SPE = 2
  KnownDeviations = {}
  MaxRoot = 3
  MaxSlot = 3
  NVal = 2
  MaxCalls = 4
  MaxEpoch = 1
INVARIANTS SameNodes SameParents SameVotes HeadRefines SettledTable AgreeInSubtree
VIEW View
CHECK_DEADLOCK FALSE
