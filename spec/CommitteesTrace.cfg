CONSTANTS
  TraceFile = "trace.ndjson"
  Diagnose = FALSE
  KnownDeviations = {}
INIT Init
NEXT Next
POSTCONDITION AllAccepted
CHECK_DEADLOCK FALSE
