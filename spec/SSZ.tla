-------------------------------- MODULE SSZ --------------------------------
(***************************************************************************)
(* SimpleSerialize (ethereum/consensus-specs ssz/simple-serialize.md) as   *)
(* schema-directed operators.  Written from the SSZ specification text,    *)
(* not from ztyp/zrnt.                                                     *)
(*                                                                         *)
(* SCHEMAS (tuples, first component = kind)                                *)
(*   <<"uint", n>>              uintN with n = N/8 bytes (1,2,4,8,16,32)  *)
(*   <<"bool">>                                                            *)
(*   <<"bytevector", n>>        Vector[byte, n]  (ByteVector / BytesN)     *)
(*   <<"bytelist", lim>>        List[byte, lim]  (ByteList)                *)
(*   <<"vector", elem, n>>      Vector[elem, n]                            *)
(*   <<"list", elem, lim>>      List[elem, lim]                            *)
(*   <<"bitvector", n>>         Bitvector[n]                               *)
(*   <<"bitlist", lim>>         Bitlist[lim]                               *)
(*   <<"container", fields>>    fields = << <<name, schema>>, ... >>       *)
(*   <<"union", options>>       options = << schema | <<"none">>, ... >>   *)
(*                                                                         *)
(* LIMITS are pairs <<m, e>> denoting m * 2^e (TLC integers are 32 bit,    *)
(* VALIDATOR_REGISTRY_LIMIT is 2^40): either <<n, 0>> or <<1, e>>.         *)
(*                                                                         *)
(* VALUES are trees whose leaves are BYTE SEQUENCES (so 64/256-bit numbers *)
(* never become TLC integers):                                             *)
(*   uint        little-endian byte sequence of length n                   *)
(*   bool        <<0>> or <<1>>                                            *)
(*   bytevector, bytelist   flat byte sequence                             *)
(*   vector, list           sequence of element values                     *)
(*   bitvector, bitlist     sequence of bits (0/1)                         *)
(*   container              sequence of field values, in field order       *)
(*   union                  <<selector, value>>  (value <<>> for none)     *)
(***************************************************************************)
EXTENDS Integers, Sequences, FiniteSets, TLC

BYTES_PER_CHUNK == 32
BYTES_PER_LENGTH_OFFSET == 4

---------------------------------------------------------------------------
(* arithmetic helpers *)

Max(a, b) == IF a >= b THEN a ELSE b
Min(a, b) == IF a <= b THEN a ELSE b

RECURSIVE Pow2(_)
Pow2(d) == IF d = 0 THEN 1 ELSE 2 * Pow2(d - 1)          \* d <= 30

RECURSIVE CeilLog2(_)
\* smallest d with 2^d >= x   (x >= 1)
CeilLog2(x) == IF x <= 1 THEN 0 ELSE 1 + CeilLog2((x + 1) \div 2)

RECURSIVE FloorLog2(_)
FloorLog2(x) == IF x <= 1 THEN 0 ELSE 1 + FloorLog2(x \div 2)

Lim(n) == <<n, 0>>
Pow2Lim(e) == <<1, e>>
LimMul(a, b) ==  \* product of two limits (both small or powers of two)
    IF a[2] = 0 /\ b[2] = 0 THEN <<a[1] * b[1], 0>> ELSE <<a[1] * b[1], a[2] + b[2]>>

\* n <= limit ?
WithinLimit(n, lim) ==
    IF lim[2] >= 31 THEN lim[1] >= 1
    ELSE IF lim[2] = 0 THEN n <= lim[1]
    ELSE n \div Pow2(lim[2]) < lim[1] \/ (n \div Pow2(lim[2]) = lim[1] /\ n % Pow2(lim[2]) = 0)

\* depth of the merkle tree over ceil(limit * unitsPerChunk^-1) chunks: chunk count = ceil(lim / per)
\* where per (a power of two) is the number of units per 32-byte chunk
\* (256 bits, 32 bytes, 32/size basic elements, 1 composite element).
LimitDepth(lim, per) ==
    IF lim[2] = 0
    THEN CeilLog2(Max(1, (lim[1] + per - 1) \div per))
    ELSE \* lim[1] = 1 by construction: 2^e / 2^k
         Max(0, lim[2] - FloorLog2(per)) + CeilLog2(lim[1])

---------------------------------------------------------------------------
(* sequences of bytes *)

RECURSIVE ConcatRange(_, _, _)
\* f[lo] \o f[lo+1] \o ... \o f[hi], balanced so that cost is O(n log n)
ConcatRange(f, lo, hi) ==
    IF lo > hi THEN <<>>
    ELSE IF lo = hi THEN f[lo]
    ELSE LET mid == (lo + hi) \div 2
         IN ConcatRange(f, lo, mid) \o ConcatRange(f, mid + 1, hi)

ConcatAll(f) == ConcatRange(f, 1, Len(f))

RECURSIVE SumRange(_, _, _)
\* f[lo] + ... + f[hi], balanced (recursion depth log n)
SumRange(f, lo, hi) ==
    IF lo > hi THEN 0
    ELSE IF lo = hi THEN f[lo]
    ELSE LET mid == (lo + hi) \div 2 IN SumRange(f, lo, mid) + SumRange(f, mid + 1, hi)
SumAll(f) == SumRange(f, 1, Len(f))

Zeros(n) == [i \in 1..n |-> 0]

U32LE(n) == << n % 256, (n \div 256) % 256, (n \div 65536) % 256, (n \div 16777216) % 256 >>

\* uint256 little endian of a (32-bit) natural: used by mix_in_length / mix_in_selector
U256LE(n) == U32LE(n) \o Zeros(28)

\* little-endian uint32 stored at 0-based position p of b; -1 when it does not fit a TLC integer
ReadU32(b, p) ==
    IF b[p + 4] >= 128 THEN -1
    ELSE b[p + 1] + 256 * b[p + 2] + 65536 * b[p + 3] + 16777216 * b[p + 4]

---------------------------------------------------------------------------
(* fixed / variable size *)

Kind(s) == s[1]

RECURSIVE IsFixed(_)
IsFixed(s) ==
    CASE Kind(s) \in {"uint", "bool", "bytevector", "bitvector"} -> TRUE
      [] Kind(s) \in {"list", "bytelist", "bitlist", "union"}   -> FALSE
      [] Kind(s) = "vector"    -> IsFixed(s[2])
      [] Kind(s) = "container" -> \A i \in 1..Len(s[2]) : IsFixed(s[2][i][2])

RECURSIVE FixedLen(_)
\* byte length of a fixed-size type; 0 for variable-size types (the convention of
\* the FixedLength() methods of the implementation: "0 if there is no single fixed length")
FixedLen(s) ==
    IF ~IsFixed(s) THEN 0
    ELSE CASE Kind(s) = "uint"       -> s[2]
           [] Kind(s) = "bool"       -> 1
           [] Kind(s) = "bytevector" -> s[2]
           [] Kind(s) = "bitvector"  -> (s[2] + 7) \div 8
           [] Kind(s) = "vector"     -> s[3] * FixedLen(s[2])
           [] Kind(s) = "container"  -> SumAll([i \in 1..Len(s[2]) |-> FixedLen(s[2][i][2])])

IsBasic(s) == Kind(s) \in {"uint", "bool"}

---------------------------------------------------------------------------
(* serialization *)

\* pack bits (sequence of 0/1) into bytes, little-endian bit order within each byte
BitsToBytes(bits) ==
    LET n == Len(bits)
        bit(i) == IF i <= n THEN bits[i] ELSE 0
    IN [j \in 1..((n + 7) \div 8) |->
          bit(8*j - 7) + 2 * bit(8*j - 6) + 4 * bit(8*j - 5) + 8 * bit(8*j - 4)
          + 16 * bit(8*j - 3) + 32 * bit(8*j - 2) + 64 * bit(8*j - 1) + 128 * bit(8*j)]

RECURSIVE Ser(_, _)

\* "serialize series": fixed-size parts in place, variable-size parts replaced by 4-byte offsets
\* and appended after the fixed part (simple-serialize.md, Vectors/containers/lists).
SerSeries(schemas, values) ==
    LET n       == Len(schemas)
        parts   == [i \in 1..n |-> Ser(schemas[i], values[i])]
        isfix   == [i \in 1..n |-> IsFixed(schemas[i])]
        fixLens == [i \in 1..n |-> IF isfix[i] THEN Len(parts[i]) ELSE BYTES_PER_LENGTH_OFFSET]
        varLens == [i \in 1..n |-> IF isfix[i] THEN 0 ELSE Len(parts[i])]
        fixTot  == SumAll(fixLens)
        \* running offsets: off[i] = fixTot + sum of varLens[1..i-1]
        off     == [i \in 1..n |-> fixTot + SumRange(varLens, 1, i - 1)]
        fixPart == ConcatAll([i \in 1..n |-> IF isfix[i] THEN parts[i] ELSE U32LE(off[i])])
        varPart == ConcatAll([i \in 1..n |-> IF isfix[i] THEN <<>> ELSE parts[i]])
    IN fixPart \o varPart

\* homogeneous series with variable-size elements: the offsets of parts[lo..hi] when parts[lo] starts at acc
RECURSIVE OffsetsFrom(_, _, _, _)
OffsetsFrom(parts, lo, hi, acc) ==
    IF lo > hi THEN <<>>
    ELSE IF lo = hi THEN U32LE(acc)
    ELSE LET mid == (lo + hi) \div 2
         IN OffsetsFrom(parts, lo, mid, acc)
            \o OffsetsFrom(parts, mid + 1, hi, acc + SumRange([i \in 1..Len(parts) |-> Len(parts[i])], lo, mid))

SerHomogeneous(elem, values) ==
    LET n     == Len(values)
        parts == [i \in 1..n |-> Ser(elem, values[i])]
    IN IF IsFixed(elem) THEN ConcatAll(parts)
       ELSE OffsetsFrom(parts, 1, n, BYTES_PER_LENGTH_OFFSET * n) \o ConcatAll(parts)

Ser(s, v) ==
    CASE Kind(s) = "uint"       -> v
      [] Kind(s) = "bool"       -> v
      [] Kind(s) = "bytevector" -> v
      [] Kind(s) = "bytelist"   -> v
      [] Kind(s) = "bitvector"  -> BitsToBytes(v)
      [] Kind(s) = "bitlist"    -> BitsToBytes(v \o <<1>>)
      [] Kind(s) = "vector"     -> SerHomogeneous(s[2], v)
      [] Kind(s) = "list"       -> SerHomogeneous(s[2], v)
      [] Kind(s) = "container"  -> SerSeries([i \in 1..Len(s[2]) |-> s[2][i][2]], v)
      [] Kind(s) = "union"      ->
            IF s[2][v[1] + 1] = <<"none">> THEN <<v[1]>>
            ELSE <<v[1]>> \o Ser(s[2][v[1] + 1], v[2])

ByteLen(s, v) == Len(Ser(s, v))

\* is v a value of schema s (shape, sizes and limits)?
RECURSIVE WellFormed(_, _)
WellFormed(s, v) ==
    CASE Kind(s) = "uint"       -> Len(v) = s[2] /\ \A i \in 1..Len(v) : v[i] \in 0..255
      [] Kind(s) = "bool"       -> v \in {<<0>>, <<1>>}
      [] Kind(s) = "bytevector" -> Len(v) = s[2] /\ \A i \in 1..Len(v) : v[i] \in 0..255
      [] Kind(s) = "bytelist"   -> WithinLimit(Len(v), s[2]) /\ \A i \in 1..Len(v) : v[i] \in 0..255
      [] Kind(s) = "bitvector"  -> Len(v) = s[2] /\ \A i \in 1..Len(v) : v[i] \in 0..1
      [] Kind(s) = "bitlist"    -> WithinLimit(Len(v), s[2]) /\ \A i \in 1..Len(v) : v[i] \in 0..1
      [] Kind(s) = "vector"     -> Len(v) = s[3] /\ \A i \in 1..Len(v) : WellFormed(s[2], v[i])
      [] Kind(s) = "list"       -> WithinLimit(Len(v), s[3]) /\ \A i \in 1..Len(v) : WellFormed(s[2], v[i])
      [] Kind(s) = "container"  -> Len(v) = Len(s[2]) /\ \A i \in 1..Len(v) : WellFormed(s[2][i][2], v[i])
      [] Kind(s) = "union"      -> /\ v[1] \in 0..(Len(s[2]) - 1)
                                   /\ IF s[2][v[1] + 1] = <<"none">> THEN v[2] = <<>>
                                      ELSE WellFormed(s[2][v[1] + 1], v[2])

---------------------------------------------------------------------------
(* deserialization: Dec(s, b) = <<TRUE, value>> when b is a valid encoding of a value
   of schema s, <<FALSE, reason>> otherwise *)

Fail(why) == <<FALSE, why>>

BytesToBits(b, nbits) == [i \in 1..nbits |-> (b[((i - 1) \div 8) + 1] \div Pow2((i - 1) % 8)) % 2]

RECURSIVE Dec(_, _)

\* decode n consecutive encodings; `slice(i)` = <<start, end>> 0-based half-open range of element i;
\* a failing element passes its own reason up
DecAll(schemaOf(_), n, b, slice(_)) ==
    LET rs == [i \in 1..n |-> Dec(schemaOf(i), SubSeq(b, slice(i)[1] + 1, slice(i)[2]))]
    IN IF \A i \in 1..n : rs[i][1] THEN <<TRUE, [i \in 1..n |-> rs[i][2]]>>
       ELSE rs[CHOOSE i \in 1..n : ~rs[i][1]]

\* homogeneous, fixed-size elements, exactly n of them
DecFixedElems(elem, n, b) ==
    LET sz == FixedLen(elem)
    IN IF Len(b) # n * sz THEN Fail("series length")
       ELSE DecAll(LAMBDA i : elem, n, b, LAMBDA i : <<(i - 1) * sz, i * sz>>)

\* homogeneous, variable-size elements, n >= 1 of them, offsets table at the start of b
DecVarElems(elem, n, b) ==
    IF Len(b) < 4 * n THEN Fail("series truncated offsets")
    ELSE LET off == [i \in 1..n |-> ReadU32(b, 4 * (i - 1))]
             nxt(i) == IF i = n THEN Len(b) ELSE off[i + 1]
         IN IF off[1] # 4 * n THEN Fail("series first offset")
            ELSE IF \E i \in 1..n : off[i] < 0 \/ off[i] > Len(b) \/ off[i] > nxt(i) THEN Fail("series offsets")
            \* an element that occupies no bytes although its type has no empty encoding
            ELSE IF (\E i \in 1..n : off[i] = nxt(i)) /\ ~Dec(elem, <<>>)[1] THEN Fail("series empty element")
            ELSE DecAll(LAMBDA i : elem, n, b, LAMBDA i : <<off[i], nxt(i)>>)

\* heterogeneous series (container fields)
DecSeries(schemas, b) ==
    LET n       == Len(schemas)
        isfix   == [i \in 1..n |-> IsFixed(schemas[i])]
        fixLens == [i \in 1..n |-> IF isfix[i] THEN FixedLen(schemas[i]) ELSE BYTES_PER_LENGTH_OFFSET]
        start   == [i \in 1..n |-> SumRange(fixLens, 1, i - 1)]
        fixTot  == SumAll(fixLens)
        vars    == SelectSeq([i \in 1..n |-> i], LAMBDA i : ~isfix[i])
    IN IF Len(b) < fixTot THEN Fail("container truncated fixed part")
       ELSE IF Len(vars) = 0
            THEN IF Len(b) # fixTot THEN Fail("container trailing bytes")
                 ELSE DecAll(LAMBDA i : schemas[i], n, b, LAMBDA i : <<start[i], start[i] + fixLens[i]>>)
       ELSE LET off == [k \in 1..Len(vars) |-> ReadU32(b, start[vars[k]])]
                nxt(k) == IF k = Len(vars) THEN Len(b) ELSE off[k + 1]
                kOf(i) == CHOOSE k \in 1..Len(vars) : vars[k] = i
            IN IF off[1] # fixTot THEN Fail("container first offset")
               ELSE IF \E k \in 1..Len(vars) : off[k] < 0 \/ off[k] > Len(b) \/ off[k] > nxt(k)
                    THEN Fail("container offsets")
               ELSE DecAll(LAMBDA i : schemas[i], n, b,
                           LAMBDA i : IF isfix[i] THEN <<start[i], start[i] + fixLens[i]>>
                                      ELSE <<off[kOf(i)], nxt(kOf(i))>>)

Dec(s, b) ==
    CASE Kind(s) = "uint"       -> IF Len(b) = s[2] THEN <<TRUE, b>> ELSE Fail("uint length")
      [] Kind(s) = "bool"       -> IF Len(b) = 1 /\ b[1] \in {0, 1} THEN <<TRUE, b>> ELSE Fail("bool")
      [] Kind(s) = "bytevector" -> IF Len(b) = s[2] THEN <<TRUE, b>> ELSE Fail("bytevector length")
      [] Kind(s) = "bytelist"   -> IF WithinLimit(Len(b), s[2]) THEN <<TRUE, b>> ELSE Fail("bytelist limit")
      [] Kind(s) = "bitvector"  ->
            IF Len(b) # (s[2] + 7) \div 8 THEN Fail("bitvector length")
            ELSE IF s[2] % 8 # 0 /\ b[Len(b)] >= Pow2(s[2] % 8) THEN Fail("bitvector padding bits")
            ELSE <<TRUE, BytesToBits(b, s[2])>>
      [] Kind(s) = "bitlist"    ->
            IF Len(b) = 0 THEN Fail("bitlist delimiter")
            ELSE IF b[Len(b)] = 0 THEN Fail("bitlist delimiter")
            ELSE LET nbits == 8 * (Len(b) - 1) + FloorLog2(b[Len(b)])
                 IN IF ~WithinLimit(nbits, s[2]) THEN Fail("bitlist limit")
                    ELSE <<TRUE, BytesToBits(b, nbits)>>
      [] Kind(s) = "vector"     ->
            IF IsFixed(s[2]) THEN DecFixedElems(s[2], s[3], b) ELSE DecVarElems(s[2], s[3], b)
      [] Kind(s) = "list"       ->
            IF IsFixed(s[2])
            THEN LET sz == FixedLen(s[2])
                 IN IF Len(b) % sz # 0 THEN Fail("list element size")
                    ELSE IF ~WithinLimit(Len(b) \div sz, s[3]) THEN Fail("list limit")
                    ELSE DecFixedElems(s[2], Len(b) \div sz, b)
            ELSE IF Len(b) = 0 THEN <<TRUE, <<>>>>
            ELSE IF Len(b) < 4 THEN Fail("list truncated offsets")
            ELSE LET first == ReadU32(b, 0)
                 IN IF first = 0 THEN Fail("list first offset zero")
                    ELSE IF first < 4 \/ first % 4 # 0 \/ first > Len(b) THEN Fail("list first offset")
                    ELSE IF ~WithinLimit(first \div 4, s[3]) THEN Fail("list limit")
                    ELSE DecVarElems(s[2], first \div 4, b)
      [] Kind(s) = "container"  -> DecSeries([i \in 1..Len(s[2]) |-> s[2][i][2]], b)
      [] Kind(s) = "union"      ->
            IF Len(b) = 0 THEN Fail("selector")
            ELSE IF b[1] >= Len(s[2]) THEN Fail("selector")
            ELSE IF s[2][b[1] + 1] = <<"none">>
                 THEN IF Len(b) = 1 THEN <<TRUE, <<b[1], <<>>>>>> ELSE Fail("none with body")
            ELSE LET r == Dec(s[2][b[1] + 1], SubSeq(b, 2, Len(b)))
                 IN IF r[1] THEN <<TRUE, <<b[1], r[2]>>>> ELSE r

ValidEncoding(s, b) == Dec(s, b)[1]

---------------------------------------------------------------------------
(* merkleization: a PLAN is a post-order sequence of stack operations
     <<"c", chunk>>   push the 32-byte chunk
     <<"z", d>>       push the root of the all-zero subtree of depth d
     <<"h">>          pop right, pop left, push SHA-256(left ++ right)
   evaluated outside TLC (TLC cannot compute SHA-256).                    *)

\* right-pad to a multiple of 32 bytes and split into chunks, each as a one-op plan
PackPlans(bytes) ==
    LET n == (Len(bytes) + 31) \div 32
    IN [j \in 1..n |-> << <<"c", [k \in 1..32 |-> IF 32 * (j - 1) + k <= Len(bytes)
                                                  THEN bytes[32 * (j - 1) + k] ELSE 0]>> >>]

RECURSIVE Merk(_, _)
\* merkleize the subtree roots produced by the plans ps, padded to 2^depth leaves
Merk(ps, depth) ==
    IF Len(ps) = 0 THEN << <<"z", depth>> >>
    ELSE IF depth = 0 THEN ps[1]
    ELSE IF depth - 1 > 30 \/ Len(ps) <= Pow2(depth - 1)
         THEN Merk(ps, depth - 1) \o << <<"z", depth - 1>>, <<"h">> >>
         ELSE Merk(SubSeq(ps, 1, Pow2(depth - 1)), depth - 1)
              \o Merk(SubSeq(ps, Pow2(depth - 1) + 1, Len(ps)), depth - 1)
              \o << <<"h">> >>

MixIn(plan, n) == plan \o << <<"c", U256LE(n)>>, <<"h">> >>

RECURSIVE Plan(_, _)
Plan(s, v) ==
    CASE IsBasic(s)              -> Merk(PackPlans(Ser(s, v)), 0)
      [] Kind(s) = "bytevector"  -> Merk(PackPlans(v), CeilLog2(Max(1, (s[2] + 31) \div 32)))
      [] Kind(s) = "bytelist"    -> MixIn(Merk(PackPlans(v), LimitDepth(s[2], 32)), Len(v))
      [] Kind(s) = "bitvector"   -> Merk(PackPlans(BitsToBytes(v)), CeilLog2(Max(1, (s[2] + 255) \div 256)))
      [] Kind(s) = "bitlist"     -> MixIn(Merk(PackPlans(BitsToBytes(v)), LimitDepth(s[2], 256)), Len(v))
      [] Kind(s) = "vector"      ->
            IF IsBasic(s[2])
            THEN Merk(PackPlans(SerHomogeneous(s[2], v)),
                      CeilLog2(Max(1, (s[3] * FixedLen(s[2]) + 31) \div 32)))
            ELSE Merk([i \in 1..Len(v) |-> Plan(s[2], v[i])], CeilLog2(s[3]))
      [] Kind(s) = "list"        ->
            IF IsBasic(s[2])
            THEN MixIn(Merk(PackPlans(SerHomogeneous(s[2], v)), LimitDepth(s[3], 32 \div FixedLen(s[2]))), Len(v))
            ELSE MixIn(Merk([i \in 1..Len(v) |-> Plan(s[2], v[i])], LimitDepth(s[3], 1)), Len(v))
      [] Kind(s) = "container"   ->
            Merk([i \in 1..Len(v) |-> Plan(s[2][i][2], v[i])], CeilLog2(Len(s[2])))
      [] Kind(s) = "union"       ->
            IF s[2][v[1] + 1] = <<"none">> THEN MixIn(<< <<"z", 0>> >>, v[1])
            ELSE MixIn(Plan(s[2][v[1] + 1], v[2]), v[1])

\* a plan is well formed iff the stack discipline leaves exactly one root
\* summary of plan[lo..hi]: <<net change of the stack height, stack height needed at its start>>
RECURSIVE StackSeg(_, _, _)
StackSeg(plan, lo, hi) ==
    IF lo = hi THEN (IF plan[lo][1] = "h" THEN <<-1, 2>> ELSE <<1, 0>>)
    ELSE LET mid == (lo + hi) \div 2
             a == StackSeg(plan, lo, mid)
             b == StackSeg(plan, mid + 1, hi)
         IN <<a[1] + b[1], Max(a[2], b[2] - a[1])>>
\* every "h" finds two roots on the stack, and exactly one root remains at the end
PlanWellFormed(plan) == Len(plan) > 0 /\ StackSeg(plan, 1, Len(plan)) = <<1, 0>>

---------------------------------------------------------------------------
(* canonical text form (consensus-spec test format), as a tree whose leaves are
   still byte sequences; the rendering of a leaf is the trivial last step
     [k |-> "u", b]   unsigned integer, little-endian bytes  -> decimal
     [k |-> "t", v]   boolean
     [k |-> "x", b]   byte string                            -> 0x-prefixed hex
     [k |-> "a", e]   array
     [k |-> "o", f]   object, f = << <<name, tree>>, ... >>                   *)
RECURSIVE JsonTree(_, _)
JsonTree(s, v) ==
    CASE Kind(s) = "uint"       -> [k |-> "u", b |-> v]
      [] Kind(s) = "bool"       -> [k |-> "t", v |-> (v = <<1>>)]
      [] Kind(s) \in {"bytevector", "bytelist"} -> [k |-> "x", b |-> v]
      [] Kind(s) \in {"bitvector", "bitlist"}   -> [k |-> "x", b |-> Ser(s, v)]
      [] Kind(s) \in {"vector", "list"} -> [k |-> "a", e |-> [i \in 1..Len(v) |-> JsonTree(s[2], v[i])]]
      [] Kind(s) = "container"  ->
            [k |-> "o", f |-> [i \in 1..Len(v) |-> <<s[2][i][1], JsonTree(s[2][i][2], v[i])>>]]
      [] Kind(s) = "union"      ->
            [k |-> "o", f |-> << <<"selector", [k |-> "u", b |-> <<v[1]>>]>>,
                                 <<"value", IF s[2][v[1] + 1] = <<"none">> THEN [k |-> "n"]
                                            ELSE JsonTree(s[2][v[1] + 1], v[2])>> >>]

---------------------------------------------------------------------------
(* malformed encodings, derived from the decoder's own structure.
   Each operator returns a sequence of <<class, bytes>>; the caller keeps only those
   that ~ValidEncoding (the specification decides what is malformed). *)

\* every 4-byte offset in Ser(s, v): <<0-based position, 0-based start of the scope it is relative to>>
RECURSIVE OffsetSites(_, _, _)
OffsetSitesSeries(schemas, values, base) ==
    LET n       == Len(schemas)
        parts   == [i \in 1..n |-> Ser(schemas[i], values[i])]
        isfix   == [i \in 1..n |-> IsFixed(schemas[i])]
        fixLens == [i \in 1..n |-> IF isfix[i] THEN Len(parts[i]) ELSE 4]
        varLens == [i \in 1..n |-> IF isfix[i] THEN 0 ELSE Len(parts[i])]
        fixTot  == SumAll(fixLens)
        start   == [i \in 1..n |-> SumRange(fixLens, 1, i - 1)]
        off     == [i \in 1..n |-> fixTot + SumRange(varLens, 1, i - 1)]
        own     == ConcatAll([i \in 1..n |-> IF isfix[i] THEN <<>> ELSE << <<base + start[i], base>> >>])
        inner   == ConcatAll([i \in 1..n |->
                      IF isfix[i] THEN OffsetSites(schemas[i], values[i], base + start[i])
                      ELSE OffsetSites(schemas[i], values[i], base + off[i])])
    IN own \o inner

OffsetSites(s, v, base) ==
    CASE Kind(s) \in {"vector", "list"} /\ ~IsBasic(s[2]) /\ Len(v) > 0 ->
            OffsetSitesSeries([i \in 1..Len(v) |-> s[2]], v, base)
      [] Kind(s) = "container" -> OffsetSitesSeries([i \in 1..Len(s[2]) |-> s[2][i][2]], v, base)
      [] Kind(s) = "union" /\ s[2][v[1] + 1] # <<"none">> -> OffsetSites(s[2][v[1] + 1], v[2], base + 1)
      [] OTHER -> <<>>

PatchU32(b, p, n) == [i \in 1..Len(b) |-> IF i > p /\ i <= p + 4 THEN U32LE(n)[i - p] ELSE b[i]]

\* offset mutations at site number k (1-based, modulo the number of sites)
OffsetMutants(s, v, k) ==
    LET b     == Ser(s, v)
        sites == OffsetSites(s, v, 0)
    IN IF Len(sites) = 0 THEN <<>>
       ELSE LET p   == sites[((k - 1) % Len(sites)) + 1][1]
                cur == ReadU32(b, p)
            IN << <<"offset+1", PatchU32(b, p, cur + 1)>>,
                  <<"offset-1", PatchU32(b, p, Max(0, cur - 1))>>,
                  <<"offset=0", PatchU32(b, p, 0)>>,
                  <<"offset>end", PatchU32(b, p, Len(b) + 1)>>,
                  <<"offset-4", PatchU32(b, p, Max(0, cur - 4))>>,
                  <<"offset+4", PatchU32(b, p, cur + 4)>> >>

\* truncations: drop the last byte, the last k bytes, half, all but one byte, everything; and cut exactly where
\* the variable-size part addressed by offset site k (and by the last site) begins
TruncationMutants(s, v, k) ==
    LET b == Ser(s, v)
        n == Len(b)
        sites == OffsetSites(s, v, 0)
        target(j) == sites[j][2] + ReadU32(b, sites[j][1])
        atSites == IF Len(sites) = 0 THEN {}
                   ELSE {target(((k - 1) % Len(sites)) + 1), target(Len(sites))}
        cuts == ({n - 1, n - (1 + (k % Max(1, n))), n \div 2, 1, 0} \cup atSites) \cap 0..(n - 1)
        cutSeq == SelectSeq([i \in 1..n |-> i - 1], LAMBDA x : x \in cuts)
    IN [i \in 1..Len(cutSeq) |-> <<"truncate", SubSeq(b, 1, cutSeq[i])>>]

=============================================================================
