--------------------------- MODULE BigNatSelfTest ---------------------------
(***************************************************************************)
(* Checks the BigNat library against an independent bignum: the runner     *)
(* writes vectors.ndjson with Python integers converted to limbs           *)
(* (a, b up to 2^128; sum, prod, diff = |a-b|, lt, bits, pow2 flags) and   *)
(* TLC recomputes every field.  Also algebraic laws on the same operands.  *)
(***************************************************************************)
EXTENDS BigNat, Json, TLC

V == ndJsonDeserialize("vectors.ndjson")

Good(v) ==
    /\ IsBig(v.a) /\ IsBig(v.b)
    /\ Add(v.a, v.b) = v.sum
    /\ Add(v.b, v.a) = v.sum
    /\ Mul(v.a, v.b) = v.prod
    /\ Mul(v.b, v.a) = v.prod
    /\ Lt(v.a, v.b) = v.lt
    /\ Le(v.a, v.b) = (v.lt \/ v.a = v.b)
    /\ (IF v.lt THEN Sub(v.b, v.a) ELSE Sub(v.a, v.b)) = v.diff
    /\ Sub(v.sum, v.b) = v.a
    /\ IsPow2(v.a) = v.apow2
    /\ FitsU64(v.a) = v.afits
    /\ \A i \in DOMAIN v.abits : Bit(v.a, i - 1) = v.abits[i]
    /\ (v.k <= 64 => Pow2(v.k) = v.pow2k)
    /\ Mul(v.a, Succ(v.b)) = Add(v.prod, v.a)

ASSUME \A i \in DOMAIN V : Assert(Good(V[i]), <<"BigNat disagrees with the independent bignum on vector", i, V[i]>>)
ASSUME PrintT(<<"BIGNAT_SELFTEST_DONE", Len(V)>>)

VARIABLE done
Init == done = TRUE
Next == UNCHANGED done
=============================================================================
