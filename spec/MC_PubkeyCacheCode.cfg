\* code-shaped layer, repaired design (KnownDeviations = {}); the runner also runs it with the listed deviations
CONSTANTS
  NKeys = 4
  MaxIndex = 4
  MaxHandles = 6
  MaxCalls = 5
  InPlaceOnly = TRUE
  GenLookups = FALSE
  KnownDeviations = {}
INIT CodeInit
NEXT CodeNext
VIEW codeView
INVARIANTS StepAllowed CodeLookupsMatch ViewIsHistory TrustedWithinParent
ALIAS CodeAlias
CHECK_DEADLOCK FALSE
