---------------------------- MODULE BeaconForks ----------------------------
(***************************************************************************)
(* upgrade_to_altair / _bellatrix / _capella / _deneb (the fork.md files   *)
(* of the consensus specification).  Each post-state record is built       *)
(* field by field from the pre-state, as the specification does, so a      *)
(* forgotten or wrongly initialised field shows as a field mismatch.       *)
(***************************************************************************)
EXTENDS BeaconEpoch

\* ---- altair: get_attestation_participation_flag_indices -----------------------
\* Defined-ness: the specification asserts is_matching_source and get_block_root* must be
\* in range; FlagIndicesDefined states exactly that.
JustifiedFor(st, data) == IF data.tgt.epoch = CurEpoch(st) THEN st.cur_just ELSE st.prev_just

FlagIndicesDefined(st, data) ==
    /\ data.src = JustifiedFor(st, data)
    /\ BlockRootDefined(st, StartSlot(data.tgt.epoch))
    /\ BlockRootDefined(st, data.slot)

\* set of flag indices
ParticipationFlagIndices(st, data, delay) ==
    LET matchSrc == data.src = JustifiedFor(st, data)
        matchTgt == matchSrc /\ data.tgt.root = BlockRoot(st, data.tgt.epoch)
        matchHead == matchTgt /\ data.bbr = BlockRootAtSlot(st, data.slot)
        tgtTimely == IF AtLeast(st, "deneb") THEN TRUE ELSE delay <= SPE     \* EIP-7045
    IN (IF matchSrc /\ delay <= ISqrt(SPE) THEN {TIMELY_SOURCE} ELSE {})
       \cup (IF matchTgt /\ tgtTimely THEN {TIMELY_TARGET} ELSE {})
       \cup (IF matchHead /\ delay = P.MIN_ATTESTATION_INCLUSION_DELAY THEN {TIMELY_HEAD} ELSE {})

AddFlags(flags, S) ==
    LET a == IF 0 \in S THEN AddFlag(flags, 0) ELSE flags
        b == IF 1 \in S THEN AddFlag(a, 1) ELSE a
    IN IF 2 \in S THEN AddFlag(b, 2) ELSE b

\* translate_participation(post, pre.previous_epoch_attestations)
TranslateParticipation(post, atts, orc) ==
    FoldLeft(LAMBDA acc, a :
                LET flags == ParticipationFlagIndices(acc, a.data, a.delay)
                    who   == AttestingIndices(orc, a.data, a.bits)
                IN [acc EXCEPT !.prev_part =
                       [p \in 1..Len(@) |-> IF (p - 1) \in who THEN AddFlags(@[p], flags) ELSE @[p]]],
             post, atts)

UpgradeToAltair(pre, orc) ==
    LET n == NVal(pre)
        post0 == [fork |-> "altair",
                  genesis_time |-> pre.genesis_time, gvr |-> pre.gvr, slot |-> pre.slot,
                  fork_rec |-> [prev |-> pre.fork_rec.cur, cur |-> P.ALTAIR_FORK_VERSION, epoch |-> CurEpoch(pre)],
                  lbh |-> pre.lbh, block_roots |-> pre.block_roots, state_roots |-> pre.state_roots,
                  historical_roots |-> pre.historical_roots,
                  eth1 |-> pre.eth1, eth1_votes |-> pre.eth1_votes, eth1_deposit_index |-> pre.eth1_deposit_index,
                  validators |-> pre.validators, balances |-> pre.balances,
                  randao |-> pre.randao, slashings |-> pre.slashings,
                  prev_part |-> ConstSeq(n, 0), cur_part |-> ConstSeq(n, 0),
                  just_bits |-> pre.just_bits, prev_just |-> pre.prev_just, cur_just |-> pre.cur_just,
                  fin |-> pre.fin,
                  inactivity |-> ConstSeq(n, 0),
                  sync_cur |-> [pks |-> <<>>, agg |-> ZERO], sync_next |-> [pks |-> <<>>, agg |-> ZERO]]
        post1 == TranslateParticipation(post0, pre.prev_atts, orc)
        sc == NextSyncCommittee(post1, orc.sync_up)
    IN [post1 EXCEPT !.sync_cur = sc, !.sync_next = sc]

\* ExecutionPayloadHeader() : every field at its default
DefaultPayloadHeader ==
    [parent_hash |-> ZERO, fee_recipient |-> ZERO, state_root |-> ZERO, receipts_root |-> ZERO,
     logs_bloom |-> ZERO, prev_randao |-> ZERO, block_number |-> "0", gas_limit |-> "0", gas_used |-> "0",
     timestamp |-> 0, extra_data |-> "", base_fee |-> "0", block_hash |-> ZERO, tx_root |-> ZERO]

AltairFieldsOf(pre) ==
    [genesis_time |-> pre.genesis_time, gvr |-> pre.gvr, slot |-> pre.slot,
     lbh |-> pre.lbh, block_roots |-> pre.block_roots, state_roots |-> pre.state_roots,
     historical_roots |-> pre.historical_roots,
     eth1 |-> pre.eth1, eth1_votes |-> pre.eth1_votes, eth1_deposit_index |-> pre.eth1_deposit_index,
     validators |-> pre.validators, balances |-> pre.balances,
     randao |-> pre.randao, slashings |-> pre.slashings,
     prev_part |-> pre.prev_part, cur_part |-> pre.cur_part,
     just_bits |-> pre.just_bits, prev_just |-> pre.prev_just, cur_just |-> pre.cur_just, fin |-> pre.fin,
     inactivity |-> pre.inactivity, sync_cur |-> pre.sync_cur, sync_next |-> pre.sync_next]

\* record extension (TLC: function override on disjoint string domains)
Ext(r1, r2) == r1 @@ r2

UpgradeToBellatrix(pre) ==
    Ext(AltairFieldsOf(pre),
        [fork |-> "bellatrix",
         fork_rec |-> [prev |-> pre.fork_rec.cur, cur |-> P.BELLATRIX_FORK_VERSION, epoch |-> CurEpoch(pre)],
         leph |-> DefaultPayloadHeader])

UpgradeToCapella(pre) ==
    Ext(AltairFieldsOf(pre),
        [fork |-> "capella",
         fork_rec |-> [prev |-> pre.fork_rec.cur, cur |-> P.CAPELLA_FORK_VERSION, epoch |-> CurEpoch(pre)],
         leph |-> Ext(pre.leph, [wd_root |-> ZERO]),
         next_wd_index |-> 0, next_wd_validator |-> 0, hist_summaries |-> <<>>])

UpgradeToDeneb(pre) ==
    Ext(AltairFieldsOf(pre),
        [fork |-> "deneb",
         fork_rec |-> [prev |-> pre.fork_rec.cur, cur |-> P.DENEB_FORK_VERSION, epoch |-> CurEpoch(pre)],
         leph |-> Ext(pre.leph, [blob_gas_used |-> "0", excess_blob_gas |-> "0"]),
         next_wd_index |-> pre.next_wd_index, next_wd_validator |-> pre.next_wd_validator,
         hist_summaries |-> pre.hist_summaries])

\* The upgrade(s) that process_slots applies right after the slot increment: when the new slot is the
\* first slot of a fork's epoch.  Several forks scheduled at the same epoch are applied in order.
UpgradeMaybe(st, orc) ==
    LET atStart == st.slot % SPE = 0
        e  == CurEpoch(st)
        s1 == IF atStart /\ st.fork = "phase0" /\ e = P.ALTAIR_FORK_EPOCH THEN UpgradeToAltair(st, orc) ELSE st
        s2 == IF atStart /\ s1.fork = "altair" /\ e = P.BELLATRIX_FORK_EPOCH THEN UpgradeToBellatrix(s1) ELSE s1
        s3 == IF atStart /\ s2.fork = "bellatrix" /\ e = P.CAPELLA_FORK_EPOCH THEN UpgradeToCapella(s2) ELSE s2
    IN IF atStart /\ s3.fork = "capella" /\ e = P.DENEB_FORK_EPOCH THEN UpgradeToDeneb(s3) ELSE s3
=============================================================================
