--------------------------- MODULE MC_ProtoArray ---------------------------
(* Lock-step product of the abstract fork-choice specification (ForkChoice.tla) and the                *)
(* implementation-shaped layer (ProtoArray.tla): every call is applied to both, and every reply of the *)
(* algorithmic layer must equal the abstract reply (invariants below). TLC visits every history of     *)
(* calls within the bound, so an ordering- or bookkeeping-dependent divergence of the incremental      *)
(* best-child / weight / offset maintenance from the definitional head shows up as a counterexample.   *)
(* Counterexamples are replayed on the real code before they count (runner/forkchoice.py).             *)
EXTENDS ProtoArray

CONSTANTS MaxRoot, MaxSlot, NVal, MaxCalls, MaxEpoch
VARIABLES calls, used, lastHead   \* lastHead: <<proto reply, abstract reply>> of the latest Head() call
mvars == <<nodes, votes, bal, just, fin, pin, detached, arr, off, bslots, pje, pfe, upd, trk, chg, calls, used, lastHead>>

Roots == 1..MaxRoot
KnownRoots == {nodes[i].root : i \in Idx}
CP(e, r) == [epoch |-> e, root |-> r]
Bals == {<<1, 1>>, <<2, 1>>, <<0, 3>>}

MInit == /\ nodes = <<NewNode(1, 0, 1, 0, 0)>> /\ votes = <<>> /\ bal = <<1, 1>> /\ detached = {}
         /\ just = CP(0, 1) /\ fin = CP(0, 1) /\ pin = <<1, 0>>
         /\ arr = <<PNode(1, 0, NONE, NONE, 1, 0, 0)>> /\ off = 0 /\ bslots = [r \in {1} |-> 0]
         /\ pje = 0 /\ pfe = 0 /\ upd = TRUE /\ trk = <<>> /\ chg = TRUE
         /\ calls = 0 /\ used = {1} /\ lastHead = <<<<TRUE, <<1, 0>>>>, <<TRUE, <<1, 0>>>>>>

MBlock == \E p \in KnownRoots, r \in Roots \ used, s \in 1..MaxSlot, je \in 0..MaxEpoch, fe \in 0..MaxEpoch :
            /\ fe <= je /\ je <= EpochOf(s)
            /\ DoProcessBlock(p, r, s, je, fe) /\ PProcessBlock(p, r, s, je, fe)
            /\ used' = used \cup {r} /\ UNCHANGED lastHead
MSlot == \E p \in KnownRoots :
            /\ MaxOf(SlotsOf(p)) < MaxSlot
            /\ DoProcessSlot(p, MaxOf(SlotsOf(p)) + 1, 0, 0) /\ PProcessSlot(p, MaxOf(SlotsOf(p)) + 1, 0, 0)
            /\ UNCHANGED <<used, lastHead>>
MAtt == \E v \in 0..(NVal - 1), r \in Roots, s \in 0..MaxSlot :
            /\ DoProcessAttestation(v, r, s) /\ PProcessAttestation(v, r, s)
            /\ UNCHANGED <<used, lastHead>>
MPin == \E k \in Keys : DoSetPin(k[1], k[2]) /\ UNCHANGED <<pvars, used, lastHead>>

\* Head(): the proto layer settles pending votes and connections, the abstract layer is unchanged
MHead == \E reply \in {PFindHead(Ep, Settled(bal)[1], HeadStart)} :
            /\ PHeadStep(bal, HeadStart, reply)
            /\ lastHead' = <<reply, HeadOf(Ctx, TRUE)>>   \* lock-step with the implementation's legacy start rule (finding fc-gap-start)
            /\ UNCHANGED <<fcvars, used>>

\* UpdateJustified: refusal rules from the proto layer's InSubtree must agree (invariant AgreeInSubtree);
\* the update applies deltas with the new balances, then prunes the prefix (the recorded deviation
\* fc-prune-order on the abstract side keeps both layers on the same node set)
MUJ == \E t \in KnownRoots, jr \in KnownRoots, fr \in KnownRoots, je \in 0..MaxEpoch, fe \in 0..MaxEpoch, b \in Bals :
         LET c == Ctx
             j == CP(je, jr)
             f == CP(fe, fr)
             cls == UJClass(c, t, j, f, FALSE) IN
         /\ Has(<<jr, StartSlot(je)>>) /\ Has(<<fr, StartSlot(fe)>>)
         /\ cls = "updated"
         /\ LET dt == Deltas(0, MaxVoter, ZeroDeltas, trk, bal, b)
                P2 == IF fin # f THEN ToPruneByOrder(f) ELSE {}
            IN /\ just' = j /\ fin' = f /\ bal' = b
               /\ pin' = IF fin # f THEN <<>> ELSE pin
               /\ nodes' = Remove(P2)
               /\ detached' = (detached \ P2) \cup DetachedBy(P2, TRUE, PruneAnchor(f))
               /\ UNCHANGED votes
               /\ pje' = je /\ pfe' = fe /\ trk' = dt[2] /\ chg' = FALSE
               \* ApplyScoreChanges evaluates viability with the NEW epochs
               /\ LET scored == ApplyScores(<<je, fe>>, arr, dt[1]) IN
                  IF fin # f
                  THEN LET pr == POnPrune(scored, PruneAnchor(f)) IN
                       /\ arr' = pr[1] /\ off' = pr[2] /\ bslots' = pr[3]
                       /\ upd' = (pr[2] = off)
                  ELSE /\ arr' = scored /\ upd' = TRUE /\ UNCHANGED <<off, bslots>>
         /\ UNCHANGED <<used, lastHead>>

MNext == /\ calls < MaxCalls /\ calls' = calls + 1
         /\ (MBlock \/ MSlot \/ MAtt \/ MPin \/ MHead \/ MUJ)
MSpec == MInit /\ [][MNext]_mvars
View == <<nodes, votes, bal, just, fin, pin, arr, off, bslots, pje, pfe, upd, trk, chg, used, lastHead>>

---------------------------------------------------------------------------
\* the two layers hold the same nodes in the same order
SameNodes == /\ PN = N
             /\ \A p \in 1..PN : <<arr[p].root, arr[p].slot, arr[p].parent, arr[p].je, arr[p].fe>> =
                                  <<nodes[p].root, nodes[p].slot, nodes[p].parent, nodes[p].je, nodes[p].fe>>
             /\ \A r \in DOMAIN bslots : Known(r) /\ bslots[r] = First(r)
             /\ \A r \in KnownRoots : r \in DOMAIN bslots
\* parent links of the array are the derived parents of the abstract tree
SameParents == LET c == Ctx IN
    \A p \in 1..PN : /\ (IF arr[p].tpar = NONE THEN 0 ELSE Pos(arr[p].tpar)) = c.tpar[p]
                     /\ (IF arr[p].fpar = NONE THEN 0 ELSE Pos(arr[p].fpar)) = c.fpar[p]
\* the stored latest vote of the trackers is the abstract latest accepted vote
SameVotes == /\ \A v \in Voters : TrkOf(trk, v).next = <<votes[v].root, votes[v].slot>> /\ TrkOf(trk, v).nextE = votes[v].epoch
             /\ \A v \in DOMAIN trk : trk[v].next # NoRef => v \in Voters
\* C09: the head computed by the array algorithm is the definitional LMD-GHOST head
HeadRefines == lastHead[1] = lastHead[2]
\* once settled, weights and links equal their definitions (for nodes with a fork-choice parent)
SettledTable == (upd /\ ~chg) =>
    LET c == Ctx IN
    \A p \in 1..PN :
        /\ (c.fpar[p] # 0 => arr[p].w = c.w[p])
        /\ LET ch == {k \in c.kids[p] : c.leads[k]} IN
           arr[p].bc = (IF ch = {} THEN NONE ELSE Abs(BestOfI(c, ch)))
        /\ arr[p].bd = (IF GhostI(c, p) = p THEN NONE ELSE Abs(GhostI(c, p)))
\* C11: subtree membership through the array's shortcuts equals the direct walk
AgreeInSubtree == LET a == Settled(bal)[1]
                      c == Ctx IN
    \A x \in KnownRoots, y \in KnownRoots : PInSubtreeRoots(a, x, y) = InSubtreeOf(c, x, y)
=============================================================================
