\* Template (runner/locks.py writes the actual configuration per component and thread count).
\* As is, it checks the hand-written toy program spec/LockPrograms.tla: TLC reports the Lazy/Peek races on `cache`
\* (NoDataRace); with NoDataRace removed it reports the self-deadlock of Twice.
\*   liveness run:   SPECIFICATION Spec + PROPERTY Termination (no SYMMETRY)
\*   3-thread run:   INIT Init / NEXT Next, Threads = {t1, t2, t3}, SYMMETRY ThreadSym, invariants NoBadUnlock NoLockLeak
SPECIFICATION Spec
CONSTANTS
  Threads = {1, 2}
  MaxDepth = 5
  MaxFresh = 1
  Collect = FALSE
INVARIANTS NoDataRace NoBadUnlock NoLockLeak
PROPERTY Termination
ALIAS Pretty
