------------------------------ MODULE GossipVal ------------------------------
(* Gossip validation (C12): what a node answers to a message received on one of the eight gossip    *)
(* topics of the phase0/altair networking specification (+ the bellatrix/deneb additions to the     *)
(* block topic).                                                                                    *)
(*                                                                                                  *)
(* Per topic: the ORDERED table of the conditions of consensus-specs p2p-interface.md, each with    *)
(* its class -- "T": an honest sender can fail it through timing alone, the specification says      *)
(* [IGNORE]; "R": [REJECT] -- and, for the "first message for <key>" conditions, the seen-cache it   *)
(* consults. Transcribed from the specification text, not from zrnt.                                *)
(*                                                                                                  *)
(* State: the seen-caches. A message carries the truth value of every condition that does not       *)
(* depend on the caches (evaluated against the node's chain view and clock; cryptography is an      *)
(* environment oracle) and, per cache of its topic, the set of keys it would occupy.                *)
(*   all conditions hold          => ACCEPT, and exactly the message's keys are marked              *)
(*   some condition fails         => not ACCEPT, and NOTHING is marked                              *)
(*   only T conditions fail       => IGNORE                                                         *)
(*   some R condition fails       => REJECT or IGNORE (which of several violated conditions is      *)
(*                                   reported first is implementation freedom; C12 does not demand   *)
(*                                   REJECT, it demands "never ACCEPT")                             *)
EXTENDS Integers, Sequences, FiniteSets, TLC

Topics == {"block", "att", "agg", "exit", "pslash", "aslash", "syncmsg", "contrib"}
Caches == {"block", "att", "aggroot", "aggregator", "exit", "pslash", "aslash", "syncmsg", "contrib"}
Verdicts == {"ACCEPT", "IGNORE", "REJECT"}

\* one row of a condition table: n = name, c = class, k = cache consulted ("" = none)
C(n, c) == [n |-> n, c |-> c, k |-> ""]
K(n, cache) == [n |-> n, c |-> "T", k |-> cache]

TableDef(t) ==
  CASE t = "block" -> <<
         C("not_future", "T"),          \* [IGNORE] not from a future slot (MAXIMUM_GOSSIP_CLOCK_DISPARITY allowance)
         C("after_finalized", "T"),     \* [IGNORE] slot > start slot of the finalized epoch
         K("first_block", "block"),     \* [IGNORE] first block with valid signature for (slot, proposer)
         C("signature", "R"),           \* [REJECT] proposer signature valid for proposer_index
         C("parent_seen", "T"),         \* [IGNORE] parent has been seen
         C("slot_gt_parent", "R"),      \* [REJECT] block is from a higher slot than its parent
         C("finalized_ancestor", "R"),  \* [REJECT] finalized checkpoint is an ancestor of the block
         C("expected_proposer", "R"),   \* [REJECT] proposed by the expected proposer in the parent's shuffling
         C("payload_timestamp", "R"),   \* bellatrix+: [REJECT] payload timestamp = compute_timestamp_at_slot
         C("blob_count", "R") >>        \* deneb+: [REJECT] len(blob_kzg_commitments) <= MAX_BLOBS_PER_BLOCK
    [] t = "att" -> <<
         C("committee_index", "R"),     \* [REJECT] data.index < committees per slot of the target epoch
         C("subnet", "R"),              \* [REJECT] compute_subnet_for_attestation(...) = subnet_id
         C("slot_window", "T"),         \* [IGNORE] slot + ATTESTATION_PROPAGATION_SLOT_RANGE >= current >= slot (disparity)
         C("epoch_target", "R"),        \* [REJECT] target.epoch = compute_epoch_at_slot(slot)
         C("one_bit", "R"),             \* [REJECT] exactly one participant
         C("bits_len", "R"),            \* [REJECT] len(aggregation_bits) = committee size
         K("first_att", "att"),         \* [IGNORE] no other valid attestation for (target epoch, validator)
         C("signature", "R"),           \* [REJECT] signature valid
         C("block_seen", "T"),          \* [IGNORE] voted block has been seen
         C("block_valid", "R"),         \* [REJECT] voted block passes validation
         C("target_ancestor", "R"),     \* [REJECT] target = checkpoint block of the voted block at target.epoch
         C("finalized_ancestor", "T") >>\* [IGNORE] finalized checkpoint is an ancestor of the voted block
    [] t = "agg" -> <<
         C("committee_index", "R"),
         C("slot_window", "T"),
         C("epoch_target", "R"),
         C("bits_len", "R"),
         K("first_aggroot", "aggroot"),         \* [IGNORE] hash_tree_root(aggregate) not already seen
         K("first_aggregator", "aggregator"),   \* [IGNORE] first valid aggregate for (target epoch, aggregator)
         C("has_participants", "R"),
         C("is_aggregator", "R"),               \* [REJECT] selection proof selects the validator
         C("aggregator_in_committee", "R"),
         C("selection_proof", "R"),             \* [REJECT] selection proof is a valid signature of the slot
         C("outer_signature", "R"),             \* [REJECT] signed_aggregate_and_proof.signature valid
         C("aggregate_signature", "R"),         \* [REJECT] signature of the aggregate valid
         C("block_seen", "T"),
         C("block_valid", "R"),
         C("target_ancestor", "R"),
         C("finalized_ancestor", "T") >>
    [] t = "exit" -> <<
         K("first_exit", "exit"),       \* [IGNORE] first valid exit for the validator
         C("index_known", "R"),         \* [REJECT] process_voluntary_exit: state.validators[index] exists
         C("active", "R"),              \*          is_active_validator(validator, current_epoch)
         C("not_exiting", "R"),         \*          exit_epoch = FAR_FUTURE_EPOCH
         C("epoch_reached", "R"),       \*          current_epoch >= exit.epoch
         C("old_enough", "R"),          \*          current_epoch >= activation_epoch + SHARD_COMMITTEE_PERIOD
         C("signature", "R") >>
    [] t = "pslash" -> <<
         K("first_pslash", "pslash"),   \* [IGNORE] first valid proposer slashing for the proposer
         C("same_slot", "R"),           \* [REJECT] process_proposer_slashing: header slots equal
         C("same_proposer", "R"),
         C("headers_differ", "R"),
         C("slashable", "R"),           \*          is_slashable_validator(proposer, current_epoch)
         C("signature_1", "R"),
         C("signature_2", "R") >>
    [] t = "aslash" -> <<
         K("some_unseen", "aslash"),    \* [IGNORE] some index of the intersection not seen in a prior slashing
         C("slashable_data", "R"),      \* [REJECT] process_attester_slashing: is_slashable_attestation_data
         C("indices_1", "R"),           \*          attestation_1 indices non-empty, sorted, unique
         C("signature_1", "R"),
         C("indices_2", "R"),
         C("signature_2", "R"),
         C("some_slashed", "R") >>      \*          at least one index of the intersection is slashable
    [] t = "syncmsg" -> <<
         C("current_slot", "T"),        \* [IGNORE] message slot = current slot (disparity allowance)
         C("subnet_valid", "R"),        \* [REJECT] subnet_id in compute_subnets_for_sync_committee(state, validator)
         K("first_syncmsg", "syncmsg"), \* [IGNORE] no other valid message for (slot, validator, subnet)
         C("signature", "R") >>
    [] t = "contrib" -> <<
         C("current_slot", "T"),
         C("subcommittee_index", "R"),  \* [REJECT] subcommittee_index < SYNC_COMMITTEE_SUBNET_COUNT
         C("has_participants", "R"),
         C("is_aggregator", "R"),       \* [REJECT] is_sync_committee_aggregator(selection_proof)
         C("aggregator_in_subcommittee", "R"),
         K("first_contrib", "contrib"), \* [IGNORE] first valid contribution for (aggregator, slot, subcommittee)
         C("selection_proof", "R"),
         C("outer_signature", "R"),
         C("aggregate_signature", "R") >>

\* memoised (TLC evaluates constant zero-arity definitions once)
TableOf == [t \in Topics |-> TableDef(t)]
RowsOf == [t \in Topics |-> {TableOf[t][i] : i \in DOMAIN TableOf[t]}]
CondNamesOf == [t \in Topics |-> {r.n : r \in {x \in RowsOf[t] : x.k = ""}}]
CachesOfT == [t \in Topics |-> {r.k : r \in {x \in RowsOf[t] : x.k # ""}}]
Table(t) == TableOf[t]
Rows(t) == RowsOf[t]
CondNames(t) == CondNamesOf[t]      \* conditions whose truth value travels with the message
CachesOf(t) == CachesOfT[t]

\* m = [topic, cond : CondNames(topic) -> BOOLEAN, key : CachesOf(topic) -> set of keys]
\* a cache condition holds iff the message still has an unseen key (singleton key: "first for the key";
\* attester slashing: "at least one index of the intersection not seen before")
Holds(seen, m, r) == IF r.k = "" THEN m.cond[r.n] ELSE m.key[r.k] \ seen[r.k] # {}

Failing(seen, m) == {r \in Rows(m.topic) : ~Holds(seen, m, r)}

Allowed(seen, m) ==
    LET F == Failing(seen, m) IN
    IF F = {} THEN {"ACCEPT"}
    ELSE IF \A r \in F : r.c = "T" THEN {"IGNORE"}
    ELSE {"IGNORE", "REJECT"}

\* marks are pairs <<cache, key>>
KeysOf(m) == UNION {{<<k, x>> : x \in m.key[k]} : k \in CachesOf(m.topic)}
ExpectedMarks(m, v) == IF v = "ACCEPT" THEN KeysOf(m) ELSE {}

Marked(seen, marks) == [k \in Caches |-> seen[k] \cup {p[2] : p \in {q \in marks : q[1] = k}}]

\* the complete rule: verdict v and set of Mark* calls `marks` are a correct answer to m in cache state `seen`
Correct(seen, m, v, marks) == v \in Allowed(seen, m) /\ marks = ExpectedMarks(m, v)

(* Sync committee subnets. A validator may be sampled into the sync committee several times; its "seats" are   *)
(* all the positions it holds. compute_subnets_for_sync_committee(state, validator) is the set of subcommittees  *)
(* of ALL its seats (position \div subcommittee size) - not of the first seat only - and the aggregator of a     *)
(* contribution is in the declared subcommittee iff one of its seats is. The conditions subnet_valid             *)
(* (sync_committee_{subnet_id}) and aggregator_in_subcommittee (contribution_and_proof) are these predicates.     *)
SubnetsOfSeats(seats, subSize) == {p \div subSize : p \in seats}
SubnetValid(seats, subSize, subnet) == subnet \in SubnetsOfSeats(seats, subSize)

(* Signature domain of a voluntary exit, as a function of the epochs (x carries head_epoch, exit_epoch,           *)
(* deneb_epoch = DENEB_FORK_EPOCH, the head state's fork record fork_epoch / prev / cur and the capella version; *)
(* versions are small integers):                                                                                 *)
(*   head epoch >= DENEB_FORK_EPOCH (the head state is a deneb state, EIP-7044): CAPELLA_FORK_VERSION, whatever    *)
(*                                    the exit epoch - this includes the FIRST deneb epoch;                        *)
(*   before deneb:                   get_domain(state, DOMAIN_VOLUNTARY_EXIT, exit.epoch), i.e. the previous       *)
(*                                    version for an exit dated before state.fork.epoch, the current one otherwise *)
(* The condition "signature" of the exit topic holds iff the exit is signed by the validator's key under this      *)
(* version (x.signed = the version really used, x.key_ok = right key, domain type and genesis validators root).    *)
ExitDomainVersion(x) == IF x.head_epoch >= x.deneb_epoch THEN x.capella
                        ELSE IF x.exit_epoch < x.fork_epoch THEN x.prev ELSE x.cur
ExitSignatureValid(x) == x.key_ok = 1 /\ x.signed = ExitDomainVersion(x)

EmptySeen == [k \in Caches |-> {}]
=============================================================================
