-------------------------------- MODULE Forks --------------------------------
(***************************************************************************)
(* C14: which fork an epoch belongs to, for every fork schedule.           *)
(*                                                                         *)
(* Transcribed from the consensus specification (fork.md of altair,        *)
(* bellatrix, capella, deneb, electra, fulu): compute_fork_version checks  *)
(* the newest fork first (`if epoch >= X_FORK_EPOCH: return X_VERSION`),   *)
(* and the state is upgraded by upgrade_to_X at the first slot of          *)
(* X_FORK_EPOCH (several upgrades in a row when fork epochs coincide; at   *)
(* genesis for forks scheduled at epoch 0), each upgrade recording         *)
(*   fork = Fork(previous_version = pre.fork.current_version,              *)
(*               current_version = X_FORK_VERSION, epoch = current epoch). *)
(*                                                                         *)
(* Fork epochs are drawn from Vals (FAR = never activated); all monotone   *)
(* non-decreasing schedules are covered, including equal, adjacent and     *)
(* never-activated forks.  Non-monotone schedules are not deployable       *)
(* configurations and are excluded.                                        *)
(*                                                                         *)
(* Fork epochs range over 0..MaxForkEpoch and FAR (ForksParams).            *)
(* TLC (a) model-checks that the chain of upgrades and                     *)
(* compute_fork_version name the same fork in every reachable state        *)
(* (variables s, e, st; invariant Agreement) and (b) writes the table      *)
(* (schedule, epoch) |-> fork / state fork record to forks_table.ndjson,   *)
(* which harness/cmd/forks replays on zrnt (Spec.ForkVersion, ForkDecoder, *)
(* ProcessSlots + UpgradeMaybe, envelope signature check).                 *)
(***************************************************************************)
EXTENDS Integers, Sequences, FiniteSets, TLC, Json, SequencesExt, ForksParams

ForkNames == <<"phase0", "altair", "bellatrix", "capella", "deneb", "electra", "fulu">>
Name(k) == ForkNames[k + 1]          \* fork index 0..6
NForks == 6                          \* scheduled forks: s[1] = altair epoch .. s[6] = fulu epoch

FAR == 1000000                       \* FAR_FUTURE_EPOCH (2^64-1 on the Go side)
BIG == 999999                        \* "a very large epoch that is not FAR_FUTURE_EPOCH"
Vals == (0..MaxForkEpoch) \cup {FAR}      \* MaxForkEpoch from ForksParams (4 quick, 5 thorough)
Schedules == {s \in [1..NForks -> Vals] : \A i \in 1..(NForks - 1) : s[i] <= s[i + 1]}
MaxEpoch == MaxForkEpoch + 1         \* chains / probes go one epoch past the last possible fork
ProbeEpochs == (0..MaxEpoch) \cup {BIG, FAR}

(* compute_fork_version (fulu/fork.md), newest fork first *)
ForkIdxAt(s, e) ==
    IF e >= s[6] THEN 6
    ELSE IF e >= s[5] THEN 5
    ELSE IF e >= s[4] THEN 4
    ELSE IF e >= s[3] THEN 3
    ELSE IF e >= s[2] THEN 2
    ELSE IF e >= s[1] THEN 1
    ELSE 0

(* the state's fork record; versions are named by the fork index they belong to *)
Genesis == [fork |-> 0, prev |-> 0, cur |-> 0, fepoch |-> 0]

UpgradeTo(st, k, e) == [fork |-> k, prev |-> st.cur, cur |-> k, fepoch |-> e]

RECURSIVE UpgradeFrom(_, _, _, _)
\* at the first slot of epoch e: every fork k scheduled at e whose predecessor is the current state type
UpgradeFrom(st, s, e, k) ==
    IF k > NForks THEN st
    ELSE IF st.fork = k - 1 /\ s[k] = e THEN UpgradeFrom(UpgradeTo(st, k, e), s, e, k + 1)
    ELSE UpgradeFrom(st, s, e, k + 1)

RECURSIVE StateAt(_, _)
StateAt(s, e) == IF e = 0 THEN UpgradeFrom(Genesis, s, 0, 1)
                 ELSE UpgradeFrom(StateAt(s, e - 1), s, e, 1)

(* what the lookups say the state must look like *)
ExpectedState(s, e) ==
    LET k == ForkIdxAt(s, e) IN
    [fork |-> k, prev |-> IF k = 0 THEN 0 ELSE k - 1, cur |-> k, fepoch |-> IF k = 0 THEN 0 ELSE s[k]]

(* get_domain(state, domain_type, epoch) (phase0 beacon-chain.md):
     fork_version = state.fork.previous_version if epoch < state.fork.epoch else state.fork.current_version
   x is a fork record [prev, cur, fepoch], m the message epoch; the result is the fork index whose version is used *)
DomainVersion(x, m) == IF m < x.fepoch THEN x.prev ELSE x.cur

MultiForkAt(sch, ep) == Cardinality({k \in 1..NForks : sch[k] = ep}) > 1

(* ---------------- model: advance a chain epoch by epoch ---------------- *)
VARIABLES s, e, st

Init == /\ s \in Schedules
        /\ e = 0
        /\ st = UpgradeFrom(Genesis, s, 0, 1)

Next == /\ e < MaxEpoch
        /\ e' = e + 1
        /\ st' = UpgradeFrom(st, s, e + 1, 1)
        /\ UNCHANGED s

\* C14 core: the state type / recorded versions and compute_fork_version name the same fork
Agreement == st = ExpectedState(s, e) /\ st = StateAt(s, e)

\* The version selected from the state's Fork record and the version the configuration reports name the same fork:
\*  - a message of the state's own epoch (in particular of the fork epoch itself) uses compute_fork_version(epoch);
\*  - a message of the previous epoch does too, unless several forks were activated at once at this epoch (then the
\*    record's previous_version is an intermediate fork that was never live; the spec accepts that);
\*  - a message of a future epoch uses the state's current version;
\*  - exactly at fork.epoch the current version applies, one epoch earlier the previous version.
DomainAgreement ==
    /\ DomainVersion(st, e) = ForkIdxAt(s, e)
    /\ (e > 0 /\ ~MultiForkAt(s, e) => DomainVersion(st, e - 1) = ForkIdxAt(s, e - 1))
    /\ DomainVersion(st, e + 1) = st.cur
    /\ DomainVersion(st, st.fepoch) = st.cur
    /\ (st.fepoch > 0 => DomainVersion(st, st.fepoch - 1) = st.prev)

\* a block signed under version v for a slot of epoch e verifies iff v is the version of the epoch's fork
ShouldVerify(sch, ep, v) == v = ForkIdxAt(sch, ep)

(* ---------------- the table replayed on the code ---------------- *)
\* zrnt has no deneb -> electra upgrade, so chains are only advanced under schedules that never activate electra/fulu
HasState(sch, ep) == sch[5] = FAR /\ sch[6] = FAR /\ ep <= MaxEpoch

\* message epochs at which the version selection of the row's Fork record is replayed: around the state's epoch
\* and around the recorded fork epoch (fork.epoch - 1, fork.epoch, fork.epoch + 1)
DomainProbes(x, ep) ==
    IF ep > MaxEpoch THEN {}
    ELSE ({ep - 1, ep, ep + 1} \cup {x.fepoch - 1, x.fepoch, x.fepoch + 1}) \cap (0..(MaxEpoch + 1))

Row(sch, ep) ==
    LET k == ForkIdxAt(sch, ep)
        x == ExpectedState(sch, ep) IN
    [sched |-> sch, epoch |-> ep, fork |-> Name(k),
     has_state |-> HasState(sch, ep),
     st_type |-> Name(x.fork), st_prev |-> Name(x.prev), st_cur |-> Name(x.cur), st_epoch |-> x.fepoch,
     verifies |-> [v \in 1..7 |-> ShouldVerify(sch, ep, v - 1)],
     domain |-> SetToSeq({[m |-> m, version |-> Name(DomainVersion(x, m)),
                           config_version |-> Name(ForkIdxAt(sch, m))] : m \in DomainProbes(x, ep)})]

Table == SetToSeq({Row(sch, ep) : sch \in Schedules, ep \in ProbeEpochs})

ASSUME ndJsonSerialize("forks_table.ndjson", Table)
ASSUME PrintT(<<"FORKS_TABLE_DONE", Cardinality(Schedules), Len(Table)>>)
=============================================================================
