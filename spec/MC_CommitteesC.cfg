\* long rejection runs of the sampling loops (33, 40, 65 rejected candidates)
CONSTANTS
  MaxV = 7
  MinV = 1
  TwoStatus = FALSE
  GenSeed = 1
  NCases = 2
  Emit = FALSE
INIT InitC
NEXT NextC
INVARIANT InvC
CHECK_DEADLOCK FALSE
