SPECIFICATION TraceSpec
CONSTANTS
  SPE = 2
  KnownDeviations = {"fc-prune-order"}
POSTCONDITION TraceAccepted
CHECK_DEADLOCK FALSE
