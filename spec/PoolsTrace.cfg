\* KnownDeviations is rewritten by the runner from known_findings.d/pools.json
CONSTANTS
  KnownDeviations = {}
  Which = "trace"
  MaxCalls = 0
INIT TraceInit
NEXT TraceNext
POSTCONDITION TraceAccepted
CHECK_DEADLOCK FALSE
