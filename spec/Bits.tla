-------------------------------- MODULE Bits --------------------------------
(***************************************************************************)
(* The bit-field and index-set helpers the library offers on top of its    *)
(* SSZ bitlists / bitvectors (AttestationBits, SyncCommitteeBits,          *)
(* SyncCommitteeSubnetBits, CommitteeBits) and on ValidatorSet, each as a  *)
(* one-line operator.  A bit field is a sequence of 0/1 (position i of the *)
(* code = element i+1); a committee is a sequence of validator indices of  *)
(* the same length; a validator set is a strictly increasing sequence.     *)
(***************************************************************************)
EXTENDS Integers, Sequences, FiniteSets

BitLen(a) == Len(a)
GetBit(a, i) == a[i + 1] = 1
SetBit(a, i, v) == [a EXCEPT ![i + 1] = v]                              \* 0 <= i < Len(a)
Or(a, b) == [i \in 1..Len(a) |-> IF a[i] = 1 \/ b[i] = 1 THEN 1 ELSE 0]   \* Len(a) = Len(b)
Covers(a, b) == \A i \in 1..Len(a) : b[i] = 1 => a[i] = 1                \* Len(a) = Len(b)
OnesCount(a) == Cardinality({i \in 1..Len(a) : a[i] = 1})
Positions(n) == [i \in 1..n |-> i]
Participants(a, committee) == [k \in 1..OnesCount(a) |->
                                 committee[SelectSeq(Positions(Len(a)), LAMBDA i : a[i] = 1)[k]]]
NonParticipants(a, committee) == [k \in 1..(Len(a) - OnesCount(a)) |->
                                    committee[SelectSeq(Positions(Len(a)), LAMBDA i : a[i] = 0)[k]]]
\* the single participant, or "none" / "many"
SingleParticipant(a, committee) ==
    IF OnesCount(a) = 0 THEN "none" ELSE IF OnesCount(a) > 1 THEN "many" ELSE Participants(a, committee)[1]

\* validator sets
SetOfSeq(s) == {s[i] : i \in 1..Len(s)}
RECURSIVE SortedSeq(_)
SortedSeq(S) == IF S = {} THEN <<>>
                ELSE LET m == CHOOSE x \in S : \A y \in S : x <= y IN <<m>> \o SortedSeq(S \ {m})
Dedup(list) == SortedSeq(SetOfSeq(list))                               \* any list -> the set it denotes
MergeDisjoint(a, b) == SortedSeq(SetOfSeq(a) \cup SetOfSeq(b))         \* SetOfSeq(a) \cap SetOfSeq(b) = {}
Intersects(a, b) == SetOfSeq(a) \cap SetOfSeq(b) # {}
Swap(s, i, j) == [s EXCEPT ![i + 1] = s[j + 1], ![j + 1] = s[i + 1]]

\* Version.ToUint32: the four bytes read as a big-endian number (first byte < 128 so that it fits a TLC integer)
VersionToUint32(v) == ((v[1] * 256 + v[2]) * 256 + v[3]) * 256 + v[4]
=============================================================================
