\* pseudo-random cases (reproducible from GenSeed)
CONSTANTS
  MaxN = 0
  MinN = 0
  MaxR = 0
  Emit = FALSE
  GenSizes = {}
  GenRounds = {1, 2, 3}
  GenSeed = 1
  NRandom = 200
  RandMaxN = 700
INIT InitGen
NEXT NextRandom
INVARIANTS
  InvDerived
  InvBig
  InvCodec
CONSTRAINT EmitCase
CHECK_DEADLOCK FALSE
