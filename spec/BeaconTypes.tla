---------------------------- MODULE BeaconTypes ----------------------------
(***************************************************************************)
(* Constants, numeric helpers and record shapes shared by the executable   *)
(* reference specification of the beacon-chain state transition            *)
(* (Beacon*.tla).  Transcribed from ethereum/consensus-specs               *)
(* (phase0/altair/bellatrix/capella/deneb beacon-chain.md, fork.md).       *)
(*                                                                         *)
(* Every preset / config value is a field of the constant record P, which  *)
(* the trace specification binds to the `P` record of the trace's Init     *)
(* event (BeaconMC binds it to a literal).  Spec-level constants that are  *)
(* not configurable (participation flag weights, BASE_REWARDS_PER_EPOCH,   *)
(* JUSTIFICATION_BITS_LENGTH) are literals here.                           *)
(*                                                                         *)
(* Abstraction (DESIGN appendix F): roots / hashes / pubkeys / addresses   *)
(* are opaque short strings compared only for equality; FAR_FUTURE_EPOCH   *)
(* is the sentinel FAR; validator indices are 0-based as in the consensus  *)
(* spec, sequences are 1-based, so `s[i+1]` reads index i.                 *)
(***************************************************************************)
EXTENDS Integers, Sequences, FiniteSets, TLC, SequencesExt, FiniteSetsExt

CONSTANT P

FAR  == 1000000
ZERO == "0000000000000000"          \* id of an all-zero root / hash / bloom / address
GENESIS_EPOCH == 0
GENESIS_SLOT == 0
BASE_REWARDS_PER_EPOCH == 4
JUSTIFICATION_BITS_LENGTH == 4

\* altair participation flags and incentive weights (spec constants)
TIMELY_SOURCE == 0
TIMELY_TARGET == 1
TIMELY_HEAD   == 2
FlagWeight(f) == CASE f = 0 -> 14 [] f = 1 -> 26 [] f = 2 -> 14
SYNC_REWARD_WEIGHT == 2
PROPOSER_WEIGHT == 8
WEIGHT_DENOMINATOR == 64

BLS_WITHDRAWAL_PREFIX == 0
ETH1_ADDRESS_WITHDRAWAL_PREFIX == 1

ForkIdx(f) == CASE f = "phase0" -> 0 [] f = "altair" -> 1 [] f = "bellatrix" -> 2
                [] f = "capella" -> 3 [] f = "deneb" -> 4
AtLeast(st, f) == ForkIdx(st.fork) >= ForkIdx(f)

Min2(a, b) == IF a < b THEN a ELSE b
Max2(a, b) == IF a > b THEN a ELSE b

\* integer_squareroot exactly as in the spec (Newton iteration)
RECURSIVE ISqrtIter(_, _, _)
ISqrtIter(n, x, y) == IF y < x THEN ISqrtIter(n, y, (y + (n \div y)) \div 2) ELSE x
ISqrt(n) == IF n = 0 THEN 0 ELSE ISqrtIter(n, n, (n + 1) \div 2)

RECURSIVE Pow2(_)
Pow2(n) == IF n = 0 THEN 1 ELSE 2 * Pow2(n - 1)

HasFlag(flags, f) == (flags \div Pow2(f)) % 2 = 1
AddFlag(flags, f) == IF HasFlag(flags, f) THEN flags ELSE flags + Pow2(f)

\* sum of a sequence / of f over a finite set
SumSeq(s) == FoldLeft(LAMBDA acc, x : acc + x, 0, s)
SumOver(S, f(_)) == FoldSet(LAMBDA x, acc : acc + f(x), 0, S)
MaxOver(S, f(_), base) == FoldSet(LAMBDA x, acc : Max2(acc, f(x)), base, S)
MinOfSet(S) == CHOOSE x \in S : \A y \in S : x <= y

\* 0-based access to 1-based sequences
At0(s, i) == s[i + 1]
Set0(s, i, v) == [s EXCEPT ![i + 1] = v]
ConstSeq(n, v) == [i \in 1..n |-> v]
CountEq(s, v) == Cardinality({k \in 1..Len(s) : s[k] = v})

\* failure value of partial operators (a block the specification rejects)
Bad == [bad |-> TRUE]
IsBad(r) == "bad" \in DOMAIN r
\* sequential composition of partial state updates
Then(r, F(_)) == IF IsBad(r) THEN r ELSE F(r)
Require(c, r) == IF c THEN r ELSE Bad

\* ---- per-fork preset values ------------------------------------------------
InactivityPenaltyQuotient(fork) ==
    CASE fork = "phase0" -> P.INACTIVITY_PENALTY_QUOTIENT
      [] fork = "altair" -> P.INACTIVITY_PENALTY_QUOTIENT_ALTAIR
      [] OTHER -> P.INACTIVITY_PENALTY_QUOTIENT_BELLATRIX
MinSlashingPenaltyQuotient(fork) ==
    CASE fork = "phase0" -> P.MIN_SLASHING_PENALTY_QUOTIENT
      [] fork = "altair" -> P.MIN_SLASHING_PENALTY_QUOTIENT_ALTAIR
      [] OTHER -> P.MIN_SLASHING_PENALTY_QUOTIENT_BELLATRIX
ProportionalSlashingMultiplier(fork) ==
    CASE fork = "phase0" -> P.PROPORTIONAL_SLASHING_MULTIPLIER
      [] fork = "altair" -> P.PROPORTIONAL_SLASHING_MULTIPLIER_ALTAIR
      [] OTHER -> P.PROPORTIONAL_SLASHING_MULTIPLIER_BELLATRIX

ForkVersionOf(fork) ==
    CASE fork = "phase0" -> P.GENESIS_FORK_VERSION
      [] fork = "altair" -> P.ALTAIR_FORK_VERSION
      [] fork = "bellatrix" -> P.BELLATRIX_FORK_VERSION
      [] fork = "capella" -> P.CAPELLA_FORK_VERSION
      [] fork = "deneb" -> P.DENEB_FORK_VERSION
ForkEpochOf(fork) ==
    CASE fork = "phase0" -> 0
      [] fork = "altair" -> P.ALTAIR_FORK_EPOCH
      [] fork = "bellatrix" -> P.BELLATRIX_FORK_EPOCH
      [] fork = "capella" -> P.CAPELLA_FORK_EPOCH
      [] fork = "deneb" -> P.DENEB_FORK_EPOCH

\* ---- time ------------------------------------------------------------------
SPE  == P.SLOTS_PER_EPOCH
SPHR == P.SLOTS_PER_HISTORICAL_ROOT
EPHV == P.EPOCHS_PER_HISTORICAL_VECTOR
EPSV == P.EPOCHS_PER_SLASHINGS_VECTOR
INCR == P.EFFECTIVE_BALANCE_INCREMENT

EpochAtSlot(slot) == slot \div SPE
StartSlot(epoch) == epoch * SPE
ActivationExitEpoch(epoch) == epoch + 1 + P.MAX_SEED_LOOKAHEAD
=============================================================================
