------------------------------ MODULE BeaconMC ------------------------------
(***************************************************************************)
(* Small closed model around the reference specification (Beacon.tla):     *)
(* 4 genesis validators, 2 slots per epoch, a nondeterministic environment *)
(* that either skips a slot or proposes an HONEST block (attestations of   *)
(* the previous slot by nobody / everybody, optionally a proposer          *)
(* slashing or a voluntary exit, the pending deposit when one is due,      *)
(* full sync participation, a regular payload with the expected            *)
(* withdrawals), through every fork upgrade.                               *)
(*                                                                         *)
(* Purpose: sanity and vacuity guard of the specification itself - every   *)
(* honest block must be accepted by BlockValid (Assert in Block), and the  *)
(* invariants of DESIGN 5.6 must hold in every reachable state.  Roots,    *)
(* mixes and hashes are drawn from fixed tables of distinct strings; the   *)
(* committee of a slot is a fixed pair of validators.                      *)
(***************************************************************************)
EXTENDS Beacon

CONSTANTS MaxSlot,        \* explore slots 0..MaxSlot
          MCForks         \* <<altair, bellatrix, capella, deneb>> fork epochs

MCP ==
    [MAX_COMMITTEES_PER_SLOT |-> 1, TARGET_COMMITTEE_SIZE |-> 2, MAX_VALIDATORS_PER_COMMITTEE |-> 8,
     HYSTERESIS_QUOTIENT |-> 4, HYSTERESIS_DOWNWARD_MULTIPLIER |-> 1, HYSTERESIS_UPWARD_MULTIPLIER |-> 5,
     MIN_DEPOSIT_AMOUNT |-> 1000, MAX_EFFECTIVE_BALANCE |-> 32000, EFFECTIVE_BALANCE_INCREMENT |-> 1000,
     MIN_ATTESTATION_INCLUSION_DELAY |-> 1, SLOTS_PER_EPOCH |-> 2, MIN_SEED_LOOKAHEAD |-> 1, MAX_SEED_LOOKAHEAD |-> 1,
     EPOCHS_PER_ETH1_VOTING_PERIOD |-> 2, SLOTS_PER_HISTORICAL_ROOT |-> 4, MIN_EPOCHS_TO_INACTIVITY_PENALTY |-> 2,
     EPOCHS_PER_HISTORICAL_VECTOR |-> 4, EPOCHS_PER_SLASHINGS_VECTOR |-> 4,
     BASE_REWARD_FACTOR |-> 64, WHISTLEBLOWER_REWARD_QUOTIENT |-> 8, PROPOSER_REWARD_QUOTIENT |-> 4,
     INACTIVITY_PENALTY_QUOTIENT |-> 64, MIN_SLASHING_PENALTY_QUOTIENT |-> 8, PROPORTIONAL_SLASHING_MULTIPLIER |-> 1,
     MAX_PROPOSER_SLASHINGS |-> 1, MAX_ATTESTER_SLASHINGS |-> 1, MAX_ATTESTATIONS |-> 2, MAX_DEPOSITS |-> 1,
     MAX_VOLUNTARY_EXITS |-> 1,
     INACTIVITY_PENALTY_QUOTIENT_ALTAIR |-> 48, MIN_SLASHING_PENALTY_QUOTIENT_ALTAIR |-> 6,
     PROPORTIONAL_SLASHING_MULTIPLIER_ALTAIR |-> 2, SYNC_COMMITTEE_SIZE |-> 2, EPOCHS_PER_SYNC_COMMITTEE_PERIOD |-> 2,
     INACTIVITY_PENALTY_QUOTIENT_BELLATRIX |-> 32, MIN_SLASHING_PENALTY_QUOTIENT_BELLATRIX |-> 4,
     PROPORTIONAL_SLASHING_MULTIPLIER_BELLATRIX |-> 3,
     MAX_BLS_TO_EXECUTION_CHANGES |-> 1, MAX_WITHDRAWALS_PER_PAYLOAD |-> 2, MAX_VALIDATORS_PER_WITHDRAWALS_SWEEP |-> 3,
     MAX_BLOB_COMMITMENTS_PER_BLOCK |-> 2, MAX_BLOBS_PER_BLOCK |-> 2, MAX_TRANSACTIONS_PER_PAYLOAD |-> 4, MAX_EXTRA_DATA_BYTES |-> 32,
     SECONDS_PER_SLOT |-> 6, MIN_VALIDATOR_WITHDRAWABILITY_DELAY |-> 1, SHARD_COMMITTEE_PERIOD |-> 1,
     INACTIVITY_SCORE_BIAS |-> 4, INACTIVITY_SCORE_RECOVERY_RATE |-> 3, EJECTION_BALANCE |-> 16000,
     MIN_PER_EPOCH_CHURN_LIMIT |-> 1, CHURN_LIMIT_QUOTIENT |-> 8, MAX_PER_EPOCH_ACTIVATION_CHURN_LIMIT |-> 1,
     GENESIS_FORK_VERSION |-> "v0", ALTAIR_FORK_VERSION |-> "v1", BELLATRIX_FORK_VERSION |-> "v2",
     CAPELLA_FORK_VERSION |-> "v3", DENEB_FORK_VERSION |-> "v4",
     ALTAIR_FORK_EPOCH |-> MCForks[1], BELLATRIX_FORK_EPOCH |-> MCForks[2], CAPELLA_FORK_EPOCH |-> MCForks[3],
     DENEB_FORK_EPOCH |-> MCForks[4],
     KEYS |-> [x \in {} |-> 0]]

VARIABLES st

\* ---- fixed tables of distinct opaque values, indexed by slot -------------------
Id(prefix, i) == CASE prefix = "s" -> <<"s0","s1","s2","s3","s4","s5","s6","s7","s8","s9","s10","s11","s12","s13","s14","s15","s16">>[i + 1]
                   [] prefix = "b" -> <<"b0","b1","b2","b3","b4","b5","b6","b7","b8","b9","b10","b11","b12","b13","b14","b15","b16">>[i + 1]
                   [] prefix = "m" -> <<"m0","m1","m2","m3","m4","m5","m6","m7","m8","m9","m10","m11","m12","m13","m14","m15","m16">>[i + 1]
                   [] prefix = "d" -> <<"d0","d1","d2","d3","d4","d5","d6","d7","d8","d9","d10","d11","d12","d13","d14","d15","d16">>[i + 1]
                   [] prefix = "k" -> <<"k0","k1","k2","k3","k4","k5","k6","k7","k8","k9","k10","k11","k12","k13","k14","k15","k16">>[i + 1]
                   [] prefix = "x" -> <<"x0","x1","x2","x3","x4","x5","x6","x7","x8","x9","x10","x11","x12","x13","x14","x15","x16">>[i + 1]

Pk(i) == <<"pk0", "pk1", "pk2", "pk3", "pk4", "pk5">>[i + 1]

GenesisValidator(i) ==
    [pk |-> Pk(i), wc |-> [pfx |-> (IF i = 1 THEN 1 ELSE 0), mid |-> "", addr |-> Pk(i)], eff |-> 32000, slashed |-> FALSE,
     elig |-> 0, act |-> 0, exit |-> FAR, wd |-> FAR]

Genesis ==
    [fork |-> "phase0", genesis_time |-> 100, gvr |-> "gvr", slot |-> 0,
     fork_rec |-> [prev |-> "v0", cur |-> "v0", epoch |-> 0],
     lbh |-> [slot |-> 0, proposer |-> 0, parent |-> ZERO, state_root |-> ZERO, body_root |-> "body0"],
     block_roots |-> ConstSeq(4, ZERO), state_roots |-> ConstSeq(4, ZERO), historical_roots |-> <<>>,
     eth1 |-> [deposit_root |-> "dr", count |-> 5, block_hash |-> "eth1"], eth1_votes |-> <<>>, eth1_deposit_index |-> 4,
     validators |-> [i \in 1..4 |-> GenesisValidator(i - 1)],
     balances |-> <<32000, 33500, 32000, 32000>>,
     randao |-> ConstSeq(4, "mix"), slashings |-> ConstSeq(4, 0),
     prev_atts |-> <<>>, cur_atts |-> <<>>,
     just_bits |-> <<FALSE, FALSE, FALSE, FALSE>>,
     prev_just |-> [epoch |-> 0, root |-> ZERO], cur_just |-> [epoch |-> 0, root |-> ZERO],
     fin |-> [epoch |-> 0, root |-> ZERO]]

\* ---- environment oracle --------------------------------------------------------
\* the committee of slot s is a fixed pair; both epochs' committees are always supplied
CommitteeOfSlot(s) == IF s % 2 = 0 THEN <<0, 1>> ELSE <<2, 3>>
EpochOracle(s) ==
    LET e == EpochAtSlot(s)
        first == StartSlot(IF e = 0 THEN 0 ELSE e - 1)
    IN [comm_start |-> first,
        comms |-> [k \in 1..(s - first + 1) |-> <<CommitteeOfSlot(first + k - 1)>>],
        hist |-> [batch |-> Id("k", s), br |-> Id("x", s), sr |-> Id("d", s)],
        sync |-> [indices |-> <<0, 1>>, agg |-> "agg"],
        sync_up |-> [indices |-> <<0, 1>>, agg |-> "agg"]]
SlotOracle(s) ==
    [state_root |-> Id("s", s), block_root |-> Id("b", s), ep |-> EpochOracle(s)]
SlotsOracle(from, to) == [k \in 1..(to - from) |-> SlotOracle(from + k - 1)]

MkSig(pks, msg, d) ==
    [signers |-> pks, key_sum |-> -1, msg |-> msg, msg_u64 |-> -1, dom |-> d.dom, ver |-> d.ver, gvr |-> d.gvr,
     inf |-> FALSE]

\* ---- honest block on the state `pre` (already advanced to the block's slot) ------
PayloadHeaderFor(pre) ==
    LET base == [DefaultPayloadHeader EXCEPT !.parent_hash = pre.leph.block_hash,
                                              !.prev_randao = RandaoMix(pre, CurEpoch(pre)),
                                              !.timestamp = ComputeTimestampAtSlot(pre, pre.slot),
                                              !.block_hash = Id("x", pre.slot)]
    IN IF pre.fork = "bellatrix" THEN base
       ELSE IF pre.fork = "capella" THEN base @@ [wd_root |-> Id("d", pre.slot)]
       ELSE base @@ [wd_root |-> Id("d", pre.slot), blob_gas_used |-> "0", excess_blob_gas |-> "0"]

HonestBlock(pre, attAll, op) ==
    LET s == pre.slot
        proposer == s % 4
        epoch == CurEpoch(pre)
        \* attestation of slot s-1 by its whole committee (or no attestation)
        as == s - 1
        ae == EpochAtSlot(as)
        data == [slot |-> as, index |-> 0, bbr |-> BlockRootAtSlot(pre, as),
                 src |-> (IF ae = epoch THEN pre.cur_just ELSE pre.prev_just),
                 tgt |-> [epoch |-> ae, root |-> BlockRoot(pre, ae)]]
        comm == CommitteeOfSlot(as)
        att == [data |-> data, data_root |-> Id("d", as), bits |-> <<1, 1>>,
                sig |-> MkSig(PksOf(pre, comm), Id("d", as), DomainOf(pre, DOMAIN_BEACON_ATTESTER, ae))]
        hd(n) == [slot |-> 0, proposer |-> 3, parent |-> ZERO, state_root |-> ZERO, body_root |-> Id("k", n), root |-> Id("m", n)]
        ps == [h1 |-> hd(1), sig1 |-> MkSig(<<Pk(3)>>, Id("m", 1), DomainOf(pre, DOMAIN_BEACON_PROPOSER, 0)),
               h2 |-> hd(2), sig2 |-> MkSig(<<Pk(3)>>, Id("m", 2), DomainOf(pre, DOMAIN_BEACON_PROPOSER, 0))]
        exitDom == IF AtLeast(pre, "deneb") THEN DomainFixed(DOMAIN_VOLUNTARY_EXIT, P.CAPELLA_FORK_VERSION, pre.gvr)
                   ELSE DomainOf(pre, DOMAIN_VOLUNTARY_EXIT, epoch)
        ex == [epoch |-> epoch, validator |-> 2, msg_root |-> "exit2", sig |-> MkSig(<<Pk(2)>>, "exit2", exitDom)]
        dep == [pk |-> Pk(4), wc |-> [pfx |-> 1, mid |-> "", addr |-> Pk(4)], amount |-> 32000,
                sig |-> MkSig(<<Pk(4)>>, "depmsg", DomainFixed(DOMAIN_DEPOSIT, P.GENESIS_FORK_VERSION, ZERO)),
                msg_root |-> "depmsg", proof_index |-> pre.eth1_deposit_index, proof_root |-> pre.eth1.deposit_root]
        prevSlot == Max2(s, 1) - 1
        base == [slot |-> s, proposer |-> proposer, parent |-> BlockRootAtSlot(pre, s - 1), state_root |-> Id("s", s),
                 body_root |-> Id("k", s), root |-> Id("m", s),
                 sig |-> MkSig(<<Pk(proposer)>>, Id("m", s), DomainOf(pre, DOMAIN_BEACON_PROPOSER, epoch)),
                 fork_body |-> pre.fork,
                 randao |-> [MkSig(<<Pk(proposer)>>, "reveal", DomainOf(pre, DOMAIN_RANDAO, epoch)) EXCEPT !.msg_u64 = epoch],
                 eth1_vote |-> pre.eth1,
                 pslash |-> IF op = "pslash" THEN <<ps>> ELSE <<>>,
                 aslash |-> <<>>,
                 atts |-> IF attAll THEN <<att>> ELSE <<>>,
                 deposits |-> IF pre.eth1.count > pre.eth1_deposit_index THEN <<dep>> ELSE <<>>,
                 exits |-> IF op = "exit" THEN <<ex>> ELSE <<>>,
                 bls_changes |-> <<>>,
                 n_commitments |-> 0,
                 state_root_ok |-> TRUE]
        withSync == IF pre.fork = "phase0" THEN base
                    ELSE base @@ [sync |-> [bits |-> <<1, 1>>,
                                            sig |-> MkSig(pre.sync_cur.pks, BlockRootAtSlot(pre, prevSlot),
                                                          DomainOf(pre, DOMAIN_SYNC_COMMITTEE, EpochAtSlot(prevSlot)))]]
    IN IF pre.fork \in {"phase0", "altair"} THEN withSync
       ELSE withSync @@ [payload |-> [is_default |-> FALSE, header |-> PayloadHeaderFor(pre),
                                      withdrawals |-> (IF AtLeast(pre, "capella") THEN ExpectedWithdrawals(pre) ELSE <<>>),
                                      engine_ok |-> TRUE, n_transactions |-> 1, extra_data_len |-> 5]]

\* whether the environment may use the operation in a block on `pre`
OpEnabled(pre, op) ==
    CASE op = "none" -> TRUE
      [] op = "pslash" -> IsSlashableValidator(V(pre, 3), CurEpoch(pre))
      [] op = "exit" -> /\ IsActive(V(pre, 2), CurEpoch(pre)) /\ V(pre, 2).exit = FAR
                        /\ CurEpoch(pre) >= V(pre, 2).act + P.SHARD_COMMITTEE_PERIOD

ForksNever == <<FAR, FAR, FAR, FAR>>
ForksEarly == <<1, 1, 2, 2>>
ForksSpread == <<1, 2, 3, 4>>
ForksAltairOnly == <<1, FAR, FAR, FAR>>

Init == st = Genesis

Skip ==
    /\ st.slot < MaxSlot
    /\ st' = ProcessSlots(st, st.slot + 1, SlotsOracle(st.slot, st.slot + 1))

Block ==
    /\ st.slot < MaxSlot
    /\ LET s == st.slot + 1
           slots == SlotsOracle(st.slot, s)
           pre == ProcessSlots(st, s, slots)
       IN /\ ~V(pre, s % 4).slashed                    \* a slashed proposer cannot propose
          /\ \E attAll \in BOOLEAN, op \in {"none", "pslash", "exit"} :
                /\ OpEnabled(pre, op)
                /\ LET blk == HonestBlock(pre, attAll, op)
                       orc == [slots |-> slots, proposer |-> s % 4, comm_start |-> EpochOracle(s).comm_start,
                               comms |-> EpochOracle(s).comms, mix |-> Id("m", s), live_sync |-> <<>>]
                       r == StateTransition(st, blk, orc)
                   IN /\ Assert(~IsBad(r), <<"honest block rejected by the specification", s, attAll, op>>)
                      /\ st' = r

Next == Skip \/ Block

\* ---- invariants (DESIGN 5.6) -----------------------------------------------------
BalancesNonNegative == \A k \in 1..Len(st.balances) : st.balances[k] >= 0
CheckpointOrder ==
    /\ st.fin.epoch <= st.cur_just.epoch
    /\ st.prev_just.epoch <= st.cur_just.epoch
    /\ st.cur_just.epoch <= CurEpoch(st)
SlashedWithdrawableAfterExit ==
    \A i \in AllIndices(st) : V(st, i).slashed => (V(st, i).exit # FAR /\ V(st, i).wd >= V(st, i).exit)
ExitChurnRespected ==
    \A e \in {V(st, i).exit : i \in AllIndices(st)} \ {FAR} :
        Cardinality({i \in AllIndices(st) : V(st, i).exit = e}) <= Max2(P.MIN_PER_EPOCH_CHURN_LIMIT, NVal(st) \div P.CHURN_LIMIT_QUOTIENT)
EffectiveBalanceWellFormed ==
    \A i \in AllIndices(st) : V(st, i).eff % INCR = 0 /\ V(st, i).eff <= P.MAX_EFFECTIVE_BALANCE
WithdrawalCursorInRange ==
    AtLeast(st, "capella") => (st.next_wd_validator >= 0 /\ st.next_wd_validator < NVal(st))
RegistryShapes ==
    /\ Len(st.balances) = NVal(st)
    /\ (st.fork # "phase0" => Len(st.prev_part) = NVal(st) /\ Len(st.cur_part) = NVal(st) /\ Len(st.inactivity) = NVal(st))
ForkMatchesSchedule ==
    LET e == CurEpoch(st)
    IN st.fork = (IF e >= P.DENEB_FORK_EPOCH THEN "deneb" ELSE IF e >= P.CAPELLA_FORK_EPOCH THEN "capella"
                  ELSE IF e >= P.BELLATRIX_FORK_EPOCH THEN "bellatrix" ELSE IF e >= P.ALTAIR_FORK_EPOCH THEN "altair"
                  ELSE "phase0")

\* ---- reachability goals: "invariants" that are EXPECTED to be violated (vacuity guard of the model:
\* the runner checks with -continue that TLC reports every one of them) ------------------------------
NeverFinalizes == st.fin.epoch = 0
NeverJustifies == st.cur_just.epoch = 0
NeverSlashes == \A i \in AllIndices(st) : ~V(st, i).slashed
NeverExits == \A i \in AllIndices(st) : V(st, i).slashed \/ V(st, i).exit = FAR
NeverDeposits == NVal(st) = 4
NeverActivatesDeposit == \A i \in AllIndices(st) : i < 4 \/ V(st, i).act = FAR
NeverAltair == st.fork = "phase0"
NeverBellatrix == st.fork \in {"phase0", "altair"}
NeverCapella == st.fork \in {"phase0", "altair", "bellatrix"}
NeverDeneb == st.fork # "deneb"
NeverWithdraws == AtLeast(st, "capella") => st.next_wd_index = 0
NeverLeaks == st.slot < 2 \/ ~IsInInactivityLeak(st)
=============================================================================
