---------------------------- MODULE BeaconBlock ----------------------------
(***************************************************************************)
(* process_block of the consensus specification: phase0, altair            *)
(* (participation flags, sync aggregate), bellatrix (execution payload),   *)
(* capella (withdrawals, BLS-to-execution changes) and deneb (EIP-7044,    *)
(* EIP-7045, blob commitment limit).                                       *)
(*                                                                         *)
(* Every operator returns the updated state, or Bad when the specification *)
(* rejects (an assert fails / an index is out of range).                   *)
(*                                                                         *)
(* Abstract block `blk` (DESIGN appendix F; produced from the CONCRETE     *)
(* block by harness/absstate, which describes it truthfully):              *)
(*   slot, proposer, parent, body_root, root (hash_tree_root of the block  *)
(*   message), sig, fork_body, randao (sig), eth1_vote, pslash, aslash,    *)
(*   atts, deposits, exits, bls_changes, sync, payload, n_commitments.     *)
(* Block oracle `orc`: proposer (get_beacon_proposer_index on the state    *)
(*   advanced to blk.slot), comm_start/comms (committees of its previous   *)
(*   and current epoch), mix (old mix XOR hash(reveal)), slots.            *)
(***************************************************************************)
EXTENDS BeaconForks

DOMAIN_BEACON_PROPOSER == "00000000"
DOMAIN_BEACON_ATTESTER == "01000000"
DOMAIN_RANDAO == "02000000"
DOMAIN_DEPOSIT == "03000000"
DOMAIN_VOLUNTARY_EXIT == "04000000"
DOMAIN_SYNC_COMMITTEE == "07000000"
DOMAIN_BLS_TO_EXECUTION_CHANGE == "0a000000"

ForOps(st, ops, F(_, _)) == FoldLeft(LAMBDA acc, op : IF IsBad(acc) THEN acc ELSE F(acc, op), st, ops)

PksOf(st, indices) == [k \in 1..Len(indices) |-> V(st, indices[k]).pk]

\* ======================================================================
\* block header, randao, eth1 data
\* ======================================================================
\* verify_block_signature (state already advanced to the block's slot)
VerifyBlockSignature(st, blk) ==
    /\ ValidIndex(st, blk.proposer)
    /\ SigOK(blk.sig, <<V(st, blk.proposer).pk>>, blk.root,
             DomainOf(st, DOMAIN_BEACON_PROPOSER, CurEpoch(st)))

\* hash_tree_root(state.latest_block_header) was cached by process_slot in block_roots[(slot-1) % SPHR]
\* (process_slots ran for at least one slot before any block is processed).
ProcessBlockHeader(st, blk, orc) ==
    Require(/\ blk.slot = st.slot
            /\ blk.slot > st.lbh.slot
            /\ blk.proposer = orc.proposer
            /\ ValidIndex(st, blk.proposer)
            /\ blk.parent = BlockRootAtSlot(st, st.slot - 1)
            /\ ~V(st, blk.proposer).slashed,
            [st EXCEPT !.lbh = [slot |-> blk.slot, proposer |-> blk.proposer, parent |-> blk.parent,
                                state_root |-> ZERO, body_root |-> blk.body_root]])

\* the reveal signs hash_tree_root(uint64(epoch)); sig.msg_u64 is that integer (or -1)
ProcessRandao(st, blk, orc) ==
    LET epoch == CurEpoch(st)
        d == DomainOf(st, DOMAIN_RANDAO, epoch)
        sig == blk.randao
    IN Require(/\ sig.msg_u64 = epoch
               /\ sig.dom = d.dom /\ sig.ver = d.ver /\ sig.gvr = d.gvr
               /\ SignersOK(sig, <<V(st, orc.proposer).pk>>),
               [st EXCEPT !.randao[(epoch % EPHV) + 1] = orc.mix])

ProcessEth1Data(st, blk) ==
    LET votes == Append(st.eth1_votes, blk.eth1_vote)
        s1 == [st EXCEPT !.eth1_votes = votes]
    IN IF CountEq(votes, blk.eth1_vote) * 2 > P.EPOCHS_PER_ETH1_VOTING_PERIOD * SPE
         THEN [s1 EXCEPT !.eth1 = blk.eth1_vote] ELSE s1

\* ======================================================================
\* operations
\* ======================================================================
HeaderSigOK(st, h, sig) ==
    SigOK(sig, <<V(st, h.proposer).pk>>, h.root,
          DomainOf(st, DOMAIN_BEACON_PROPOSER, EpochAtSlot(h.slot)))

ProcessProposerSlashing(st, ps, orc) ==
    Require(/\ ps.h1.slot = ps.h2.slot
            /\ ps.h1.proposer = ps.h2.proposer
            /\ ps.h1 # ps.h2
            /\ ValidIndex(st, ps.h1.proposer)
            /\ IsSlashableValidator(V(st, ps.h1.proposer), CurEpoch(st))
            /\ HeaderSigOK(st, ps.h1, ps.sig1)
            /\ HeaderSigOK(st, ps.h2, ps.sig2),
            SlashValidator(st, ps.h1.proposer, orc.proposer))

\* is_valid_indexed_attestation
IsValidIndexedAttestation(st, ia) ==
    LET idx == ia.indices
    IN /\ Len(idx) > 0
       /\ \A k \in 1..(Len(idx) - 1) : idx[k] < idx[k + 1]
       /\ \A k \in 1..Len(idx) : ValidIndex(st, idx[k])
       /\ SigOK(ia.sig, PksOf(st, idx), ia.data_root,
                DomainOf(st, DOMAIN_BEACON_ATTESTER, ia.data.tgt.epoch))

ProcessAttesterSlashing(st, as, orc) ==
    IF ~(/\ IsSlashableAttestationData(as.a1.data, as.a2.data)
         /\ IsValidIndexedAttestation(st, as.a1)
         /\ IsValidIndexedAttestation(st, as.a2))
      THEN Bad
      ELSE
        LET in2 == {as.a2.indices[k] : k \in 1..Len(as.a2.indices)}
            \* sorted(intersection): a1.indices is sorted, keep its members that are in a2
            res == FoldLeft(LAMBDA acc, i :
                       IF i \in in2 /\ IsSlashableValidator(V(acc.st, i), CurEpoch(acc.st))
                         THEN [st |-> SlashValidator(acc.st, i, orc.proposer), any |-> TRUE]
                         ELSE acc,
                     [st |-> st, any |-> FALSE], as.a1.indices)
        IN IF res.any THEN res.st ELSE Bad

\* checks shared by every fork's process_attestation; EIP-7045 (deneb) drops the upper bound
AttestationWellFormed(st, a, orc) ==
    LET data == a.data
    IN /\ data.tgt.epoch \in {PrevEpoch(st), CurEpoch(st)}
       /\ data.tgt.epoch = EpochAtSlot(data.slot)
       /\ data.slot + P.MIN_ATTESTATION_INCLUSION_DELAY <= st.slot
       /\ (AtLeast(st, "deneb") \/ st.slot <= data.slot + SPE)
       /\ data.index >= 0 /\ data.index < CommitteeCountPerSlot(st, data.tgt.epoch)
       /\ CommitteeKnown(orc, data.slot, data.index)
       /\ Len(a.bits) = Len(Committee(orc, data.slot, data.index))

\* get_indexed_attestation + is_valid_indexed_attestation: at least one attester, committee members'
\* keys, attestation data root, attester domain of the target epoch
AttestationSigOK(st, a, orc) ==
    LET who == AttestingIndices(orc, a.data, a.bits)
    IN /\ who # {}
       /\ \A i \in who : ValidIndex(st, i)
       /\ SigOK(a.sig, PksOf(st, SetToSeq(who)), a.data_root,
                DomainOf(st, DOMAIN_BEACON_ATTESTER, a.data.tgt.epoch))

ProcessAttestationPhase0(st, a, orc) ==
    IF ~AttestationWellFormed(st, a, orc) THEN Bad
    ELSE
      LET data == a.data
          pend == [data |-> data, bits |-> a.bits, delay |-> st.slot - data.slot, proposer |-> orc.proposer]
          cur  == data.tgt.epoch = CurEpoch(st)
      IN Require(/\ data.src = (IF cur THEN st.cur_just ELSE st.prev_just)
                 /\ AttestationSigOK(st, a, orc),
                 IF cur THEN [st EXCEPT !.cur_atts = Append(@, pend)]
                        ELSE [st EXCEPT !.prev_atts = Append(@, pend)])

\* altair get_base_reward
AltairBaseReward(st, i, brpi) == (V(st, i).eff \div INCR) * brpi

ProcessAttestationAltair(st, a, orc) ==
    IF ~(AttestationWellFormed(st, a, orc) /\ FlagIndicesDefined(st, a.data)) THEN Bad
    ELSE IF ~AttestationSigOK(st, a, orc) THEN Bad
    ELSE
      LET data  == a.data
          flags == ParticipationFlagIndices(st, data, st.slot - data.slot)
          cur   == data.tgt.epoch = CurEpoch(st)
          part  == IF cur THEN st.cur_part ELSE st.prev_part
          who   == AttestingIndices(orc, data, a.bits)
          brpi  == (INCR * P.BASE_REWARD_FACTOR) \div ISqrt(TotalActiveBalance(st))
          \* newly set flags of validator i
          NewFlags(i) == {f \in flags : ~HasFlag(part[i + 1], f)}
          numerator == SumOver(who, LAMBDA i :
                          SumOver(NewFlags(i), LAMBDA f : AltairBaseReward(st, i, brpi) * FlagWeight(f)))
          newPart == [p \in 1..Len(part) |-> IF (p - 1) \in who THEN AddFlags(part[p], flags) ELSE part[p]]
          denominator == ((WEIGHT_DENOMINATOR - PROPOSER_WEIGHT) * WEIGHT_DENOMINATOR) \div PROPOSER_WEIGHT
          s1 == IF cur THEN [st EXCEPT !.cur_part = newPart] ELSE [st EXCEPT !.prev_part = newPart]
      IN IncreaseBalance(s1, orc.proposer, numerator \div denominator)

ProcessAttestation(st, a, orc) ==
    IF st.fork = "phase0" THEN ProcessAttestationPhase0(st, a, orc) ELSE ProcessAttestationAltair(st, a, orc)

\* process_deposit / apply_deposit.  d.proof_index / d.proof_root: the index and the deposit-tree root for
\* which the harness' own merkle code verified the branch (is_valid_merkle_branch).
DepositSigOK(d) ==
    SigOK(d.sig, <<d.pk>>, d.msg_root, DomainFixed(DOMAIN_DEPOSIT, P.GENESIS_FORK_VERSION, ZERO))

AddValidatorFromDeposit(st, d) ==
    LET v == [pk |-> d.pk, wc |-> d.wc,
              eff |-> Min2(d.amount - (d.amount % INCR), P.MAX_EFFECTIVE_BALANCE),
              slashed |-> FALSE, elig |-> FAR, act |-> FAR, exit |-> FAR, wd |-> FAR]
        s1 == [st EXCEPT !.validators = Append(@, v), !.balances = Append(@, d.amount)]
    IN IF st.fork = "phase0" THEN s1
       ELSE [s1 EXCEPT !.prev_part = Append(@, 0), !.cur_part = Append(@, 0), !.inactivity = Append(@, 0)]

ProcessDeposit(st, d) ==
    Require(d.proof_index = st.eth1_deposit_index /\ d.proof_root = st.eth1.deposit_root,
            LET s1 == [st EXCEPT !.eth1_deposit_index = @ + 1]
                known == {i \in AllIndices(s1) : V(s1, i).pk = d.pk}
            IN IF known = {}
                 THEN IF DepositSigOK(d) THEN AddValidatorFromDeposit(s1, d) ELSE s1
                 ELSE IncreaseBalance(s1, MinOfSet(known), d.amount))

ProcessVoluntaryExit(st, x) ==
    LET cur == CurEpoch(st)
        dom == IF AtLeast(st, "deneb")
                 THEN DomainFixed(DOMAIN_VOLUNTARY_EXIT, P.CAPELLA_FORK_VERSION, st.gvr)     \* EIP-7044
                 ELSE DomainOf(st, DOMAIN_VOLUNTARY_EXIT, x.epoch)
    IN Require(/\ ValidIndex(st, x.validator)
               /\ IsActive(V(st, x.validator), cur)
               /\ V(st, x.validator).exit = FAR
               /\ cur >= x.epoch
               /\ cur >= V(st, x.validator).act + P.SHARD_COMMITTEE_PERIOD
               /\ SigOK(x.sig, <<V(st, x.validator).pk>>, x.msg_root, dom),
               InitiateValidatorExit(st, x.validator))

\* capella
ProcessBLSToExecutionChange(st, c) ==
    Require(/\ ValidIndex(st, c.validator)
            /\ V(st, c.validator).wc.pfx = BLS_WITHDRAWAL_PREFIX
            /\ V(st, c.validator).wc.mid = c.from_hash.mid
            /\ V(st, c.validator).wc.addr = c.from_hash.addr
            /\ SigOK(c.sig, <<c.from_pk>>, c.msg_root,
                     DomainFixed(DOMAIN_BLS_TO_EXECUTION_CHANGE, P.GENESIS_FORK_VERSION, st.gvr)),
            [st EXCEPT !.validators[c.validator + 1].wc =
                [pfx |-> ETH1_ADDRESS_WITHDRAWAL_PREFIX, mid |-> "", addr |-> c.to_addr]])

ProcessOperations(st, blk, orc) ==
    IF ~(/\ Len(blk.deposits) = Min2(P.MAX_DEPOSITS, st.eth1.count - st.eth1_deposit_index)
         /\ Len(blk.pslash) <= P.MAX_PROPOSER_SLASHINGS
         /\ Len(blk.aslash) <= P.MAX_ATTESTER_SLASHINGS
         /\ Len(blk.atts) <= P.MAX_ATTESTATIONS
         /\ Len(blk.deposits) <= P.MAX_DEPOSITS
         /\ Len(blk.exits) <= P.MAX_VOLUNTARY_EXITS
         /\ (AtLeast(st, "capella") => Len(blk.bls_changes) <= P.MAX_BLS_TO_EXECUTION_CHANGES))
      THEN Bad
      ELSE
        LET s1 == ForOps(st, blk.pslash, LAMBDA s, op : ProcessProposerSlashing(s, op, orc))
            s2 == ForOps(s1, blk.aslash, LAMBDA s, op : ProcessAttesterSlashing(s, op, orc))
            s3 == ForOps(s2, blk.atts, LAMBDA s, op : ProcessAttestation(s, op, orc))
            s4 == ForOps(s3, blk.deposits, LAMBDA s, op : ProcessDeposit(s, op))
            s5 == ForOps(s4, blk.exits, LAMBDA s, op : ProcessVoluntaryExit(s, op))
        IN IF AtLeast(st, "capella")
             THEN ForOps(s5, blk.bls_changes, LAMBDA s, op : ProcessBLSToExecutionChange(s, op))
             ELSE s5

\* ======================================================================
\* altair: sync aggregate
\* ======================================================================
IndexOfPk(st, pk) == MinOfSet({i \in AllIndices(st) : V(st, i).pk = pk})

\* Known deviation of zrnt (known_findings.d/beacon.json, "stale_sync_committee_cache"): the transition reads
\* the sync committee from EpochsContext.CurrentSyncCommittee, which RotateEpochs never refreshes when the
\* state is wrapped in beacon.StandardUpgradeableBeaconState.  Under that deviation the committee is the one
\* the live context holds (orc.live_sync, observed by the harness), not state.current_sync_committee.
ProcessSyncAggregate(st, blk, orc, dv) ==
    LET sync == blk.sync
        stale == "stale_sync_committee_cache" \in dv
        cpks == IF stale THEN PksOf(st, orc.live_sync) ELSE st.sync_cur.pks
        prevSlot == Max2(st.slot, 1) - 1
        partPks == SelectSeq([k \in 1..Len(cpks) |-> IF sync.bits[k] = 1 THEN cpks[k] ELSE ""], LAMBDA x : x # "")
        sigok == IF Len(partPks) = 0
                   THEN sync.sig.inf      \* eth_fast_aggregate_verify: no participants <=> point at infinity
                   ELSE /\ BlockRootDefined(st, prevSlot)
                        /\ SigOK(sync.sig, partPks, BlockRootAtSlot(st, prevSlot),
                                 DomainOf(st, DOMAIN_SYNC_COMMITTEE, EpochAtSlot(prevSlot)))
    IN IF ~(Len(sync.bits) = P.SYNC_COMMITTEE_SIZE /\ Len(cpks) = P.SYNC_COMMITTEE_SIZE /\ sigok) THEN Bad
       ELSE
         LET total == TotalActiveBalance(st)
             brpi == (INCR * P.BASE_REWARD_FACTOR) \div ISqrt(total)
             totalBase == brpi * (total \div INCR)
             maxPart == ((totalBase * SYNC_REWARD_WEIGHT) \div WEIGHT_DENOMINATOR) \div SPE
             partReward == maxPart \div P.SYNC_COMMITTEE_SIZE
             propReward == (partReward * PROPOSER_WEIGHT) \div (WEIGHT_DENOMINATOR - PROPOSER_WEIGHT)
             idx == IF stale THEN orc.live_sync ELSE [k \in 1..Len(cpks) |-> IndexOfPk(st, cpks[k])]
         IN FoldLeft(LAMBDA acc, k :
                        IF sync.bits[k] = 1
                          THEN IncreaseBalance(IncreaseBalance(acc, idx[k], partReward), orc.proposer, propReward)
                          ELSE DecreaseBalance(acc, idx[k], partReward),
                     st, [k \in 1..Len(cpks) |-> k])

\* ======================================================================
\* bellatrix / capella / deneb: execution payload, withdrawals
\* ======================================================================
IsMergeTransitionComplete(st) == st.leph # DefaultPayloadHeader
IsExecutionEnabled(st, blk) == IsMergeTransitionComplete(st) \/ ~blk.payload.is_default

ComputeTimestampAtSlot(st, slot) == st.genesis_time + (slot - GENESIS_SLOT) * P.SECONDS_PER_SLOT

ProcessExecutionPayload(st, blk) ==
    LET pl == blk.payload
        h  == pl.header
    IN Require(/\ ((st.fork = "bellatrix" /\ ~IsMergeTransitionComplete(st))
                   \/ h.parent_hash = st.leph.block_hash)
               /\ h.prev_randao = RandaoMix(st, CurEpoch(st))
               /\ h.timestamp = ComputeTimestampAtSlot(st, st.slot)
               /\ (AtLeast(st, "deneb") => blk.n_commitments <= P.MAX_BLOBS_PER_BLOCK)
               \* bounds of the payload's SSZ list / byte-list types
               /\ pl.n_transactions <= P.MAX_TRANSACTIONS_PER_PAYLOAD
               /\ pl.extra_data_len <= P.MAX_EXTRA_DATA_BYTES
               /\ pl.engine_ok,
               [st EXCEPT !.leph = h])

HasEth1Credential(v) == v.wc.pfx = ETH1_ADDRESS_WITHDRAWAL_PREFIX
IsFullyWithdrawable(v, bal, epoch) == HasEth1Credential(v) /\ v.wd <= epoch /\ bal > 0
IsPartiallyWithdrawable(v, bal) ==
    HasEth1Credential(v) /\ v.eff = P.MAX_EFFECTIVE_BALANCE /\ bal > P.MAX_EFFECTIVE_BALANCE

\* get_expected_withdrawals
ExpectedWithdrawals(st) ==
    LET epoch == CurEpoch(st)
        n == NVal(st)
        bound == Min2(n, P.MAX_VALIDATORS_PER_WITHDRAWALS_SWEEP)
        res == FoldLeft(LAMBDA acc, j :
                  IF acc.done THEN acc
                  ELSE
                    LET vi  == acc.vi
                        v   == V(st, vi)
                        bal == st.balances[vi + 1]
                        w   == IF IsFullyWithdrawable(v, bal, epoch)
                                 THEN <<[index |-> acc.wi, validator |-> vi, addr |-> v.wc.addr, amount |-> bal]>>
                               ELSE IF IsPartiallyWithdrawable(v, bal)
                                 THEN <<[index |-> acc.wi, validator |-> vi, addr |-> v.wc.addr,
                                         amount |-> bal - P.MAX_EFFECTIVE_BALANCE]>>
                               ELSE <<>>
                        ws  == acc.ws \o w
                    IN IF Len(ws) = P.MAX_WITHDRAWALS_PER_PAYLOAD
                         THEN [acc EXCEPT !.ws = ws, !.wi = @ + Len(w), !.done = TRUE]
                         ELSE [acc EXCEPT !.ws = ws, !.wi = @ + Len(w), !.vi = (vi + 1) % n],
                [ws |-> <<>>, wi |-> st.next_wd_index, vi |-> st.next_wd_validator, done |-> FALSE],
                [j \in 1..bound |-> j])
    IN res.ws

ProcessWithdrawals(st, blk) ==
    LET exp == ExpectedWithdrawals(st)
        n == NVal(st)
    IN Require(blk.payload.withdrawals = exp,
         LET s1 == FoldLeft(LAMBDA acc, w : DecreaseBalance(acc, w.validator, w.amount), st, exp)
             s2 == IF Len(exp) # 0 THEN [s1 EXCEPT !.next_wd_index = exp[Len(exp)].index + 1] ELSE s1
         IN IF Len(exp) = P.MAX_WITHDRAWALS_PER_PAYLOAD
              THEN [s2 EXCEPT !.next_wd_validator = (exp[Len(exp)].validator + 1) % n]
              ELSE [s2 EXCEPT !.next_wd_validator = (@ + P.MAX_VALIDATORS_PER_WITHDRAWALS_SWEEP) % n])

\* ======================================================================
\* process_block
\* ======================================================================
ProcessBlock(st, blk, orc, dv) ==
    IF blk.fork_body # st.fork THEN Bad           \* the body is not of the fork's SSZ type
    ELSE
    LET s1 == ProcessBlockHeader(st, blk, orc)
        s2 == IF st.fork \in {"phase0", "altair"} THEN s1
              ELSE IF st.fork = "bellatrix"
                THEN Then(s1, LAMBDA s : IF IsExecutionEnabled(s, blk) THEN ProcessExecutionPayload(s, blk) ELSE s)
              ELSE Then(Then(s1, LAMBDA s : ProcessWithdrawals(s, blk)),
                        LAMBDA s : ProcessExecutionPayload(s, blk))
        s3 == Then(s2, LAMBDA s : ProcessRandao(s, blk, orc))
        s4 == Then(s3, LAMBDA s : ProcessEth1Data(s, blk))
        s5 == Then(s4, LAMBDA s : ProcessOperations(s, blk, orc))
    IN IF st.fork = "phase0" THEN s5 ELSE Then(s5, LAMBDA s : ProcessSyncAggregate(s, blk, orc, dv))
=============================================================================
