CONSTANT P <- MCP
CONSTANT MaxSlot = 4
CONSTANT MCForks <- ForksEarly
INIT Init
NEXT Next
CHECK_DEADLOCK FALSE
INVARIANT BalancesNonNegative
INVARIANT CheckpointOrder
INVARIANT SlashedWithdrawableAfterExit
INVARIANT ExitChurnRespected
INVARIANT EffectiveBalanceWellFormed
INVARIANT WithdrawalCursorInRange
INVARIANT RegistryShapes
INVARIANT ForkMatchesSchedule
