---------------------------- MODULE BeaconTrace ----------------------------
(***************************************************************************)
(* Trace validation: an ndjson trace recorded from zrnt                    *)
(* (harness/cmd/beacon) is a behaviour of the reference specification.     *)
(*   {ev:"Init",  P, state}                  start of a history            *)
(*   {ev:"Slots", to, oracle:{slots}, post}  common.ProcessSlots           *)
(*   {ev:"Probe", to, oracle:{slots}, post}  common.ProcessSlots on a copy *)
(*   {ev:"Block", blk, oracle, accepted, post, root_ok}                    *)
(*   {ev:"Neg", variant, class, blk, oracle, accepted, post?, root_ok}     *)
(*                      StateTransition of a block variant on a copy (C03) *)
(*                                           common.StateTransition        *)
(* Every event must satisfy  post = <specification operator>(st, args)     *)
(* where st is the logged predecessor state; an event that does not is     *)
(* reported with PrintT (<<"MISMATCH", line, kind>> and the fields that    *)
(* differ).  The POSTCONDITION checks that the whole trace was consumed;   *)
(* the runner rejects the trace if any MISMATCH was printed.               *)
(***************************************************************************)
EXTENDS Beacon, Json

Trace == ndJsonDeserialize("trace.ndjson")
TraceP == Trace[1].P

VARIABLES l, st
vars == <<l, st>>

SeqFields == {"validators", "balances", "block_roots", "state_roots", "randao", "slashings",
              "inactivity", "prev_part", "cur_part", "historical_roots", "eth1_votes",
              "prev_atts", "cur_atts", "hist_summaries", "just_bits"}

DiffOne(f, x, y) ==
    IF f \in SeqFields
      THEN IF Len(x) # Len(y) THEN <<f, "len", Len(x), Len(y)>>
           ELSE <<f, {<<k - 1, x[k], y[k]>> : k \in {k \in 1..Len(x) : x[k] # y[k]}}>>
      ELSE <<f, x, y>>

\* fields in which the expected (specification) and the logged (zrnt) state differ:
\* <<field, expected, logged>> or <<field, {<<index, expected, logged>>}>>
DiffFields(exp, got) ==
    IF IsBad(exp) THEN {<<"specification rejects">>}
    ELSE {DiffOne(f, exp[f], got[f]) : f \in {f \in (DOMAIN exp) \cap (DOMAIN got) : exp[f] # got[f]}}
         \cup {<<f, "only in specification state">> : f \in (DOMAIN exp) \ (DOMAIN got)}
         \cup {<<f, "only in logged state">> : f \in (DOMAIN got) \ (DOMAIN exp)}

KnownDeviations == {"exit_queue_churn_not_reset", "stale_sync_committee_cache", "cur_target_stake_over_prev_active"}
DeviationSets == (SUBSET KnownDeviations) \ {{}}

\* F(dv) is the outcome the specification prescribes when zrnt's known deviations dv are followed
\* (F({}) = the specification itself); got is what zrnt produced.  A step explained only by known deviations
\* is reported as KNOWN (the runner turns it into KNOWN-FINDING), anything else as MISMATCH with the
\* differing fields.  Validation continues from the logged state in either case, so every event is judged
\* against its logged predecessor and the runner can attribute each report to C01 (Block) or C02 (Slots).
Explained(got, F(_)) == \E d \in DeviationSets : F(d) = got
Classify(k, kind, got, F(_)) ==
    IF F({}) = got THEN TRUE
    ELSE IF Explained(got, F)
      THEN PrintT(<<"KNOWN", k, kind, CHOOSE d \in DeviationSets : F(d) = got /\ \A d2 \in DeviationSets : F(d2) = got => Cardinality(d) <= Cardinality(d2)>>)
    ELSE PrintT(<<"MISMATCH", k, kind>>) /\ PrintT(<<"DIFF", k, DiffFields(F({}), got)>>)

\* The model continues from zrnt's LOGGED state after every event.  A deviating zrnt may log a state that is not
\* even well-formed (per-validator lists of different lengths); the specification's operators are not defined on
\* such a state, so events that start from one are not judged (the deviation that produced it was reported at
\* its own event).
WellFormed(s) ==
    /\ "validators" \in DOMAIN s
    /\ Len(s.balances) = Len(s.validators)
    /\ Len(s.block_roots) = SPHR /\ Len(s.state_roots) = SPHR /\ Len(s.randao) = EPHV /\ Len(s.slashings) = EPSV
    /\ (s.fork # "phase0" =>
           /\ Len(s.prev_part) = Len(s.validators) /\ Len(s.cur_part) = Len(s.validators)
           /\ Len(s.inactivity) = Len(s.validators))

Init == l = 0 /\ st = [none |-> TRUE]

\* start of a history; when the genesis state was upgraded in place at slot 0 (fork epochs equal to 0) the
\* event carries the pre-upgrade state and the upgrade is checked like a Slots event
TraceInit(e, k) ==
    /\ e.ev = "Init"
    /\ IF "genesis_pre" \in DOMAIN e
         THEN Classify(k, "Slots", e.state, LAMBDA dv : UpgradeMaybe(e.genesis_pre, e.genesis_oracle))
         ELSE TRUE
    /\ st' = e.state

TraceSlots(e, k) ==
    /\ e.ev = "Slots"
    /\ IF ~WellFormed(st) THEN PrintT(<<"NOTJUDGED", k, "Slots">>)
       ELSE IF ProcessSlotsDefined(st, e.to)
         THEN Classify(k, "Slots", e.post, LAMBDA dv : ProcessSlotsD(st, e.to, e.oracle.slots, dv))
         ELSE PrintT(<<"MISMATCH", k, "Slots">>)
              /\ PrintT(<<"DIFF", k, "process_slots is undefined for this target slot", st.slot, e.to>>)
    /\ st' = e.post

\* common.ProcessSlots on a COPY of the live state (the history does not advance): judged like a Slots event
TraceProbe(e, k) ==
    /\ e.ev = "Probe"
    /\ IF ~WellFormed(st) THEN PrintT(<<"NOTJUDGED", k, "Slots">>)
       ELSE IF ProcessSlotsDefined(st, e.to)
         THEN Classify(k, "Slots", e.post, LAMBDA dv : ProcessSlotsD(st, e.to, e.oracle.slots, dv))
         ELSE PrintT(<<"MISMATCH", k, "Slots">>)
              /\ PrintT(<<"DIFF", k, "process_slots is undefined for this target slot", st.slot, e.to>>)
    /\ st' = st

\* common.StateTransition(ctx, spec, epc, state, block, true).
\*   zrnt must accept exactly the blocks the specification accepts (BlockValid) and, for those, produce
\*   the state Apply(st, blk) field for field, whose root the block declares (root_ok: the harness compares
\*   the declared root with hash_tree_root of the logged post-state).
\*   expect_valid: the harness built the block as an honest valid block; if the MODEL rejects it that is a
\*   harness/model defect, reported as MODELREJECT (infrastructure), never a zrnt violation.
Outcome(r) == IF IsBad(r) THEN [accepted |-> FALSE] ELSE [accepted |-> TRUE, post |-> r]
TraceBlock(e, k) ==
    /\ e.ev = "Block"
    /\ LET Out(dv) == Outcome(StateTransitionD(st, e.blk, e.oracle, dv))
           got == IF e.accepted THEN [accepted |-> TRUE, post |-> e.post] ELSE [accepted |-> FALSE]
           spec == Out({})
       IN IF ~WellFormed(st) THEN PrintT(<<"NOTJUDGED", k, "Block">>)
          ELSE IF spec = got
            THEN IF e.accepted /\ ~e.root_ok
                   THEN PrintT(<<"MISMATCH", k, "Block">>)
                        /\ PrintT(<<"DIFF", k, "accepted block whose declared state root is not the post-state root">>)
                   ELSE TRUE
          ELSE IF ~spec.accepted /\ e.expect_valid THEN PrintT(<<"MODELREJECT", k, "Block">>)
          ELSE IF Explained(got, Out)
            THEN PrintT(<<"KNOWN", k, "Block", CHOOSE d \in DeviationSets : Out(d) = got /\ \A d2 \in DeviationSets : Out(d2) = got => Cardinality(d) <= Cardinality(d2)>>)
          ELSE IF spec.accepted /\ e.accepted
            THEN PrintT(<<"MISMATCH", k, "Block">>) /\ PrintT(<<"DIFF", k, DiffFields(spec.post, e.post)>>)
          ELSE IF spec.accepted
            THEN IF e.expect_valid \/ e.root_ok
                   THEN PrintT(<<"MISMATCH", k, "Block">>)
                        /\ PrintT(<<"DIFF", k, "zrnt rejected a block the specification accepts", e.err>>)
                   ELSE TRUE       \* valid up to the declared state root, which is wrong: rejecting is right
          ELSE PrintT(<<"MISMATCH", k, "BlockInvalid">>)
               /\ PrintT(<<"DIFF", k, "zrnt accepted a block the specification rejects">>)
    /\ st' = IF e.accepted THEN e.post ELSE st

\* C03: a variant of a block (single-fault corruption, replayed signature, byte-level mutation) run through
\* common.StateTransition on a COPY of the live state; the history does not advance.
\*   the specification rejects the variant  =>  zrnt must return an error (BlockInvalid otherwise);
\*   zrnt must never panic;
\*   the specification accepts it (a control) and zrnt accepts it => post = Apply(st, blk) and root_ok.
\*   (a control that zrnt rejects is not judged here: its declared state root cannot be confirmed, and
\*   completeness on valid blocks is C01's subject)
\*   An event may carry its own base state `pre` (a copy of the live state whose registry the harness edited
\*   to put a validator exactly at a boundary); it is then judged on that state.
TraceNeg(e, k) ==
    /\ e.ev = "Neg"
    /\ LET base == IF "pre" \in DOMAIN e THEN e.pre ELSE st
           r == StateTransition(base, e.blk, e.oracle)
           ok == ~IsBad(r)
       IN IF ~WellFormed(base) THEN PrintT(<<"NOTJUDGED", k, "Neg">>)
          ELSE IF "panic" \in DOMAIN e
            THEN PrintT(<<"MISMATCH", k, "Panic">>) /\ PrintT(<<"DIFF", k, e.variant, e.panic>>)
          ELSE IF ~ok /\ e.accepted
            THEN PrintT(<<"MISMATCH", k, "BlockInvalid">>)
                 /\ PrintT(<<"DIFF", k, "zrnt accepted a block the specification rejects", e.variant>>)
          ELSE IF ok /\ e.accepted
            THEN IF r = e.post /\ e.root_ok THEN PrintT(<<"CONTROL", k, "Neg">>)
                 ELSE IF r # e.post
                   THEN PrintT(<<"MISMATCH", k, "NegControl">>) /\ PrintT(<<"DIFF", k, e.variant, DiffFields(r, e.post)>>)
                 ELSE PrintT(<<"MISMATCH", k, "BlockInvalid">>)
                      /\ PrintT(<<"DIFF", k, "zrnt accepted a block whose declared state root is not the post-state root", e.variant>>)
          ELSE IF ok
            \* the specification accepts the block up to its declared state root, zrnt rejected it.  The harness
            \* ran the block once more without result validation: if that state is the specification's, its
            \* root decides whether the declared root was right.
            THEN IF "unvalidated" \in DOMAIN e /\ e.unvalidated = r
                   THEN IF e.unvalidated_root_ok
                          THEN PrintT(<<"MISMATCH", k, "NegControl">>)
                               /\ PrintT(<<"DIFF", k, "zrnt rejected a variant that the specification accepts", e.variant, e.err>>)
                          ELSE TRUE        \* only the declared state root is wrong: rejecting is right
                   ELSE PrintT(<<"UNJUDGED", k, "Neg">>)
          ELSE TRUE
    /\ st' = st

\* common.ProcessSlots on a COPY of the live state for a target slot that is not after the state's slot:
\* process_slots asserts state.slot < slot, so the call must return an error and leave the state as it was.
TraceSlotsNeg(e, k) ==
    /\ e.ev = "SlotsNeg"
    /\ IF ~WellFormed(st) THEN PrintT(<<"NOTJUDGED", k, "SlotsNeg">>)
       ELSE IF ProcessSlotsDefined(st, e.to) THEN PrintT(<<"NOTJUDGED", k, "SlotsNeg">>)     \* not a negative call
       ELSE IF "panic" \in DOMAIN e
         THEN PrintT(<<"MISMATCH", k, "Panic">>) /\ PrintT(<<"DIFF", k, "ProcessSlots", e.to, e.panic>>)
       ELSE IF e.ok
         THEN PrintT(<<"MISMATCH", k, "SlotsNeg">>)
              /\ PrintT(<<"DIFF", k, "ProcessSlots accepted a target slot that is not after the state's slot", st.slot, e.to>>)
       ELSE IF e.post # st
         THEN PrintT(<<"MISMATCH", k, "SlotsNeg">>)
              /\ PrintT(<<"DIFF", k, "the refused ProcessSlots call changed the state", DiffFields(st, e.post)>>)
       ELSE TRUE
    /\ st' = st

\* zrnt panicked outside a recorded call, while the harness advanced a pre-state / computed a state root / derived
\* the oracle with zrnt's own code on a history the model considers valid: always a deviation (the event carries
\* the scenario, the slot of the last recorded event, the frame the panic was raised in and the stack).
TraceCrash(e, k) ==
    /\ e.ev = "Crash"
    /\ PrintT(<<"MISMATCH", k, "Crash">>)
    /\ PrintT(<<"DIFF", k, "zrnt panicked", e.scenario, e.after_slot, e.origin, e.under, e.panic>>)
    /\ st' = st

Next ==
    /\ l < Len(Trace)
    /\ LET e == Trace[l + 1] IN TraceInit(e, l + 1) \/ TraceSlots(e, l + 1) \/ TraceProbe(e, l + 1) \/ TraceBlock(e, l + 1) \/ TraceNeg(e, l + 1) \/ TraceCrash(e, l + 1) \/ TraceSlotsNeg(e, l + 1)
    /\ l' = l + 1

Spec == Init /\ [][Next]_vars

Accepted == TLCGet("stats").diameter = Len(Trace) + 1
=============================================================================
