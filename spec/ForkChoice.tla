--------------------------- MODULE ForkChoice ---------------------------
(* Abstract specification of zrnt's fork-choice component (eth2/forkchoice):                *)
(* the public API of forkchoice.Forkchoice as actions over the inserted slot/block tree,    *)
(* the latest accepted vote per validator, the justified balances and the checkpoints.      *)
(* The head is DEFINED (LMD-GHOST over the fork-choice tree), not maintained.               *)
(* Properties C09 (head), C10 (justified/finalized updates and pruning), C11 (queries).     *)
(* Semantics are fixed in DESIGN.md appendix C.                                             *)
(*                                                                                          *)
(* For evaluation speed every derived relation (parents, ancestor sets, subtree weights,    *)
(* viability) is computed once per state into a context record `Ctx`, over node positions   *)
(* 1..N in insertion order; the reply operators take that context as an argument.          *)
EXTENDS Integers, Sequences, FiniteSets, TLC

CONSTANTS SPE,             \* slots per epoch
          KnownDeviations  \* set of names of recorded findings whose deviation branch is enabled

VARIABLES nodes,   \* sequence, in insertion order, of [root, slot, parent, je, fe]; identity <<root, slot>>
          votes,   \* [validator -> [root, slot, epoch]] for validators with an accepted vote
          bal,     \* sequence of justified balances; validator v has bal[v+1] (0 beyond the end)
          just,    \* [epoch, root]
          fin,     \* [epoch, root]
          pin,     \* <<>> or <<root, slot>>
          detached \* keys of block nodes cut off from their fork-choice parent by an incomplete prune
                   \* (empty unless a sink failed part-way or a recorded deviation was taken)

fcvars == <<nodes, votes, bal, just, fin, pin, detached>>

ZeroRoot == 0
NoRef == <<ZeroRoot, 0>>

---------------------------------------------------------------------------
(* The inserted tree                                                       *)

N == Len(nodes)
Idx == 1..N
Key(n) == <<n.root, n.slot>>
Keys == {Key(nodes[i]) : i \in Idx}
Has(k) == \E i \in Idx : nodes[i].root = k[1] /\ nodes[i].slot = k[2]
IdxOf(k) == CHOOSE i \in Idx : nodes[i].root = k[1] /\ nodes[i].slot = k[2]
Known(r) == \E i \in Idx : nodes[i].root = r
MinOf(S) == CHOOSE s \in S : \A t \in S : s <= t
MaxOf(S) == CHOOSE s \in S : \A t \in S : s >= t
SlotsOf(r) == {nodes[i].slot : i \in {j \in Idx : nodes[j].root = r}}
First(r) == MinOf(SlotsOf(r))           \* earliest retained slot of a known root
IsBlock(n) == n.root # n.parent          \* a node that carries a block (the anchor may be either kind)
EpochOf(s) == s \div SPE
StartSlot(e) == e * SPE
IdxOrZero(k) == IF Has(k) THEN IdxOf(k) ELSE 0

\* transition parent: block node -> pre-block slot node of the same slot; slot node -> previous slot of the same root
TParKey(n) == IF IsBlock(n) THEN <<n.parent, n.slot>> ELSE <<n.root, n.slot - 1>>
\* fork-choice parent: block node -> earliest retained node of the parent root; slot node -> previous slot
FParKey(n) == IF IsBlock(n)
              THEN (IF Known(n.parent) /\ Key(n) \notin detached THEN <<n.parent, First(n.parent)>> ELSE NoRef)
              ELSE <<n.root, n.slot - 1>>

BalOf(v) == IF v + 1 <= Len(bal) THEN bal[v + 1] ELSE 0
Voters == DOMAIN votes
Viable(n) == (n.je = just.epoch \/ just.epoch = 0) /\ (n.fe = fin.epoch \/ fin.epoch = 0)

RECURSIVE SumBal(_)
SumBal(S) == IF S = {} THEN 0 ELSE LET v == CHOOSE x \in S : TRUE IN BalOf(v) + SumBal(S \ {v})

\* ancestor sets (inclusive) by one pass in insertion order: a parent always precedes its children
RECURSIVE AncPass(_, _, _)
AncPass(par, i, acc) ==
    IF i > N THEN acc
    ELSE AncPass(par, i + 1,
                 Append(acc, {i} \cup (IF par[i] # 0 /\ par[i] < i THEN acc[par[i]] ELSE {})))

Ctx ==
    LET tpar == TLCEval([i \in Idx |-> LET p == IdxOrZero(TParKey(nodes[i])) IN IF p = i THEN 0 ELSE p])
        fpar == TLCEval([i \in Idx |-> LET p == IdxOrZero(FParKey(nodes[i])) IN IF p = i THEN 0 ELSE p])
        tanc == TLCEval(AncPass(tpar, 1, <<>>))
        fanc == TLCEval(AncPass(fpar, 1, <<>>))
        fsub == TLCEval([i \in Idx |-> {j \in Idx : i \in fanc[j]}])
        own == TLCEval([i \in Idx |-> SumBal({v \in Voters : votes[v].root = nodes[i].root /\ votes[v].slot = nodes[i].slot})])
        RECURSIVE SumOwn(_)
        SumOwn(S) == IF S = {} THEN 0 ELSE LET x == CHOOSE y \in S : TRUE IN own[x] + SumOwn(S \ {x})
        w == TLCEval([i \in Idx |-> SumOwn(fsub[i])])
        viable == TLCEval([i \in Idx |-> Viable(nodes[i])])
        leads == TLCEval([i \in Idx |-> \E j \in fsub[i] : viable[j]])
        kids == TLCEval([i \in Idx |-> {j \in Idx : fpar[j] = i}])
    IN [tpar |-> tpar, fpar |-> fpar, tanc |-> tanc, fanc |-> fanc, fsub |-> fsub, w |-> w,
        viable |-> viable, leads |-> leads, kids |-> kids]

TSubtreeI(c, a) == {j \in Idx : a \in c.tanc[j]}
KeyI(i) == Key(nodes[i])
KeysOfI(S) == {KeyI(i) : i \in S}

---------------------------------------------------------------------------
(* LMD-GHOST head                                                          *)

\* greatest weight, ties to the greater root (then slot)
BetterI(c, a, b) == \/ c.w[a] > c.w[b]
                    \/ c.w[a] = c.w[b] /\ nodes[a].root > nodes[b].root
                    \/ c.w[a] = c.w[b] /\ nodes[a].root = nodes[b].root /\ nodes[a].slot > nodes[b].slot
BestOfI(c, S) == CHOOSE a \in S : \A b \in S \ {a} : BetterI(c, a, b)

RECURSIVE GhostI(_, _)
GhostI(c, i) == LET ch == {k \in c.kids[i] : c.leads[k]}
                IN IF ch = {} THEN i ELSE GhostI(c, BestOfI(c, ch))

\* Children considered at the STARTING node of a head search. A gap-slot node <<P, u>> (not the earliest node
\* of its root) stands for "block P as of slot u": besides the empty continuation <<P, u+1>>, every block built
\* on P after slot u is a candidate. The implementation attaches blocks to the earliest node of their parent root
\* only ("legacy" in its own comments), so a search started at a gap-slot node - e.g. a justified checkpoint whose
\* epoch start slot was skipped - sees the empty continuation alone: recorded finding fc-gap-start (lg = TRUE).
StartKids(c, i, lg) ==
    IF lg \/ IsBlock(nodes[i]) \/ nodes[i].slot = First(nodes[i].root) THEN c.kids[i]
    ELSE c.kids[i] \cup {j \in Idx : /\ IsBlock(nodes[j]) /\ nodes[j].parent = nodes[i].root
                                     /\ nodes[j].slot > nodes[i].slot /\ Key(nodes[j]) \notin detached}
GhostFrom(c, i, lg) == LET ch == {k \in StartKids(c, i, lg) : c.leads[k]}
                       IN IF ch = {} THEN i ELSE GhostI(c, BestOfI(c, ch))

\* reply of FindHead(anchorRoot, anchorSlot): <<ok, key>>
FindHeadOf(c, k, lg) == IF ~Has(k) THEN <<FALSE, NoRef>>
                        ELSE LET h == GhostFrom(c, IdxOf(k), lg) IN IF c.viable[h] THEN <<TRUE, KeyI(h)>> ELSE <<FALSE, NoRef>>
HeadStart == IF pin # <<>> THEN pin ELSE <<just.root, StartSlot(just.epoch)>>
HeadOf(c, lg) == FindHeadOf(c, HeadStart, lg)

---------------------------------------------------------------------------
(* Queries (C11): direct walks of the inserted tree                        *)

\* InSubtree(anchorRoot, root): <<unknown, in>>; equal roots are "in" whether known or not
InSubtreeOf(c, a, r) ==
    IF a = r THEN <<FALSE, TRUE>>
    ELSE IF ~Known(a) \/ ~Known(r) THEN <<TRUE, FALSE>>
    ELSE <<FALSE, IdxOf(<<a, First(a)>>) \in c.tanc[IdxOf(<<r, First(r)>>)]>>

GetSlotOf(r) == IF Known(r) THEN <<TRUE, First(r)>> ELSE <<FALSE, 0>>

\* ClosestToSlot(anchor, t): the latest node of root `anchor` at or before slot t
ClosestOf(a, t) == IF ~Known(a) \/ t < First(a) THEN <<FALSE, NoRef>>
                   ELSE <<TRUE, <<a, MaxOf({s \in SlotsOf(a) : s <= t})>>>>

\* CanonicalChain(anchorRoot, anchorSlot): transition path from FindHead(anchor) back to the anchor, head first
RECURSIVE PathDownI(_, _, _)
PathDownI(c, i, stop) == IF i = stop \/ c.tpar[i] = 0 THEN <<KeyI(i)>>
                         ELSE <<KeyI(i)>> \o PathDownI(c, c.tpar[i], stop)
CanonChainOf(c, a, lg) == LET h == FindHeadOf(c, a, lg) IN
                      IF ~h[1] THEN <<FALSE, <<>>>>
                      ELSE <<TRUE, PathDownI(c, IdxOf(h[2]), IdxOf(a))>>

\* Search(anchor, parentRoot?, slot?): block nodes in the anchor's transition subtree matching the filters
BlockIdx == {i \in Idx : IsBlock(nodes[i])}
IsLeafBlockI(i) == ~\E j \in BlockIdx : nodes[j].parent = nodes[i].root /\ j # i
SearchOf(c, a, usePar, par, useSlot, slot, lg) ==
    LET h == FindHeadOf(c, a, lg) IN
    IF ~h[1] THEN <<FALSE, {}, {}>>
    ELSE LET ai == IdxOf(a)
             hi == IdxOf(h[2])
             cand == {i \in BlockIdx \cap TSubtreeI(c, ai) :
                        (usePar => nodes[i].parent = par) /\ (useSlot => nodes[i].slot = slot)}
             canon == {i \in cand : i \in c.tanc[hi]}
         IN <<TRUE, KeysOfI(canon), KeysOfI(cand \ canon)>>
\* without filter the call "searches for heads"; the statement (C11) only fixes search by parent or slot, so
\* the head search is constrained loosely: every leaf block of the subtree is reported, only blocks of the
\* subtree are reported, and the canonical/non-canonical split is right.
HeadSearchOK(c, a, ok, canon, non, lg) ==
    LET h == FindHeadOf(c, a, lg) IN
    IF ~h[1] THEN ~ok
    ELSE LET ai == IdxOf(a)
             hi == IdxOf(h[2])
             inview == KeysOfI(BlockIdx \cap TSubtreeI(c, ai))
             leaves == KeysOfI({i \in BlockIdx \cap TSubtreeI(c, ai) : IsLeafBlockI(i)})
             onpath == KeysOfI(c.tanc[hi])
         IN /\ ok
            /\ canon \cap non = {}
            /\ (canon \cup non) \subseteq inview
            /\ leaves \subseteq (canon \cup non)
            /\ canon \subseteq onpath
            /\ non \cap onpath = {}

\* CanonAtSlot(anchorRoot, t, withBlock): the node of the wanted kind at slot t on the canonical chain
\* from the earliest node of the anchor root. Reply <<ok, key>>; ok with NoRef = "empty slot".
\* Allowed replies form a set (the statement leaves t beyond the head open: head or error).
CanonAtAllowed(c, a, t, withBlock) ==
    IF ~Known(a) \/ t < First(a) THEN {<<FALSE, NoRef>>}
    ELSE LET start == <<a, First(a)>>
             si == IdxOf(start)
             h == FindHeadOf(c, start, FALSE) IN
         IF t = First(a)
         THEN (IF withBlock \/ ~IsBlock(nodes[si]) THEN {<<TRUE, start>>} ELSE {<<FALSE, NoRef>>})
         ELSE IF ~h[1] THEN {<<FALSE, NoRef>>}
         ELSE IF h[2][2] < t THEN {<<TRUE, h[2]>>, <<FALSE, NoRef>>}
         ELSE LET chain == c.tanc[IdxOf(h[2])] \cap TSubtreeI(c, si)
                  at == {i \in chain : nodes[i].slot = t /\ IsBlock(nodes[i]) = withBlock}
              IN IF at # {} THEN {<<TRUE, KeyI(CHOOSE i \in at : TRUE)>>}
                 ELSE IF withBlock /\ (\E i \in chain : nodes[i].slot = t) THEN {<<TRUE, NoRef>>}
                 ELSE {<<FALSE, NoRef>>}

---------------------------------------------------------------------------
(* Mutating calls                                                          *)

NewNode(r, s, p, je, fe) == [root |-> r, slot |-> s, parent |-> p, je |-> je, fe |-> fe]

\* slot nodes <<p, u>> missing for First(p) < u <= t, in increasing order
FillSlots(p, t, je, fe) ==
    LET have == SlotsOf(p)
        F[u \in First(p)..t] == IF u = First(p) THEN <<>>
                                ELSE F[u - 1] \o (IF u \notin have THEN <<NewNode(p, u, p, je, fe)>> ELSE <<>>)
    IN F[t]

\* precondition of the drivers: parent known, t > First(parent)
DoProcessSlot(p, t, je, fe) ==
    /\ nodes' = nodes \o FillSlots(p, t, je, fe)
    /\ UNCHANGED <<votes, bal, just, fin, pin, detached>>

\* reply of ProcessBlock: TRUE (inserted or already known), FALSE (parent unknown or not earlier)
ProcessBlockReply(p, r, s) == IF Known(r) THEN TRUE ELSE Known(p) /\ First(p) < s
DoProcessBlock(p, r, s, je, fe) ==
    /\ nodes' = IF Known(r) \/ ~(Known(p) /\ First(p) < s) THEN nodes
                ELSE (nodes \o FillSlots(p, s, je, fe)) \o <<NewNode(r, s, p, je, fe)>>
    /\ UNCHANGED <<votes, bal, just, fin, pin, detached>>

\* a vote is accepted iff the node exists; it replaces the stored one iff its target epoch is newer
AttestationReply(r, s) == Has(<<r, s>>)
DoProcessAttestation(v, r, s) ==
    /\ votes' = IF Has(<<r, s>>) /\ (v \notin Voters \/ EpochOf(s) > votes[v].epoch)
                THEN [x \in Voters \cup {v} |-> IF x = v THEN [root |-> r, slot |-> s, epoch |-> EpochOf(s)]
                                                 ELSE votes[x]]
                ELSE votes
    /\ UNCHANGED <<nodes, bal, just, fin, pin, detached>>

SetPinReply(r, s) == Has(<<r, s>>)
DoSetPin(r, s) ==
    /\ pin' = IF Has(<<r, s>>) THEN <<r, s>> ELSE pin
    /\ UNCHANGED <<nodes, votes, bal, just, fin, detached>>

(* UpdateJustified(trigger, j, f, balances | balErr, sink failing at call sinkFail (0 = never)).           *)
(* Outcome classes: "noop" (older/equal: nothing changes, ok), "refused" (error, nothing changes),         *)
(* "updated" (checkpoints and balances replaced; pruning if finalization changed).                         *)
UJClass(c, trigger, j, f, balErr) ==
    IF just.epoch >= j.epoch /\ fin.epoch >= f.epoch THEN "noop"
    ELSE IF pin # <<>> /\ trigger # pin[1] /\ InSubtreeOf(c, pin[1], trigger) # <<FALSE, TRUE>> THEN "refused"
    ELSE IF j.epoch < f.epoch THEN "refused"
    ELSE IF fin # f /\ (InSubtreeOf(c, fin.root, f.root) # <<FALSE, TRUE>> \/ fin.epoch > f.epoch) THEN "refused"
    ELSE IF just # j /\ (InSubtreeOf(c, f.root, j.root) # <<FALSE, TRUE>> \/ fin.epoch > j.epoch) THEN "refused"
    ELSE IF balErr THEN "refused"
    ELSE "updated"

PruneAnchor(f) == <<f.root, StartSlot(f.epoch)>>

\* nodes to drop when the finalized checkpoint becomes f: everything that is not a transition descendant of the anchor
ToPrune(c, f) == IF Has(PruneAnchor(f)) THEN KeysOfI(Idx \ TSubtreeI(c, IdxOf(PruneAnchor(f)))) ELSE {}
\* recorded finding fc-prune-order: the implementation drops the array prefix before the anchor
ToPruneByOrder(f) == IF Has(PruneAnchor(f)) THEN KeysOfI({i \in Idx : i < IdxOf(PruneAnchor(f))}) ELSE {}
\* the pruned nodes on the transition path to the anchor are canonical
CanonicalPruned(c, f) == KeysOfI(c.tanc[IdxOf(PruneAnchor(f))])

Remove(S) == SelectSeq(nodes, LAMBDA n : Key(n) \notin S)
\* retained blocks that lose their fork-choice parent when S is dropped; after a complete prune the blocks built
\* on the anchor root after the anchor slot stay attached (to the anchor <<root, slot>>)
DetachedBy(S, complete, anchor) ==
    {Key(nodes[i]) : i \in {j \in Idx : /\ Key(nodes[j]) \notin S /\ IsBlock(nodes[j])
                                        /\ FParKey(nodes[j]) \in S
                                        /\ ~(complete /\ nodes[j].parent = anchor[1] /\ nodes[j].slot > anchor[2])}}
=============================================================================
