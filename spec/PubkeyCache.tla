------------------------------ MODULE PubkeyCache ------------------------------
(***************************************************************************)
(* Property C16.  A tree of deposit histories shares one pubkey cache.     *)
(* A *handle* is what common.PubkeyCache.AddValidator returns; every       *)
(* handle answers lookups exactly according to the history it was built    *)
(* along.                                                                  *)
(*                                                                         *)
(* Abstract layer: handles 1..nh, parent[h], trusted[h], own[h] and        *)
(*    View(h) == SubSeq(View(parent[h]),1,trusted[h]) \o own[h].           *)
(* The ghost variable built[h] is the history itself (the sequence of keys *)
(* the holder of h deposited, defined without parent/trusted/own); the     *)
(* invariant ViewIsHistory ties the structural definition to it.           *)
(*                                                                         *)
(* Code-shaped layer (operators CodeIndex / CodePubkey / CodeAdd): the     *)
(* parent-delegating lookups and the recursive fork-out of                 *)
(* validator_pubkeys.go, parameterised by a set of deviation names.  With  *)
(* devs = {} it is the repaired design (delegation bounded by the trusted  *)
(* count) and refines the abstract layer (MC_PubkeyCacheCode.cfg); with    *)
(* "IndexDelegation" it is the code as found (delegation ignores the       *)
(* trusted count), which TLC refutes.  PubkeyCacheTrace.tla uses the very  *)
(* same operators to recognise the listed deviations on recorded traces.   *)
(***************************************************************************)
EXTENDS Integers, Sequences, FiniteSets, TLC, Json

CONSTANTS
  NKeys,            \* keys are "k0".."k<NKeys-1>"; fresh keys are taken in this order (symmetry by construction)
  MaxIndex,         \* indices 0..MaxIndex are offered
  MaxHandles,       \* bound on the number of handles
  MaxCalls,         \* bound on the number of calls of a behaviour
  InPlaceOnly,      \* TRUE: a fresh append is in place (what the code does); FALSE: also allow "new handle"
  GenLookups,       \* TRUE: Pubkey / Index calls are actions too
  KnownDeviations   \* deviation names that are listed findings (used by the code-shaped layer / trace spec)

NoKey == "-"
KeySeq == [x \in 1..NKeys |-> "k" \o ToString(x - 1)]
Keys  == {KeySeq[x] : x \in 1..Len(KeySeq)}

----------------------------------------------------------------------------
(* Structures are passed explicitly as records S = [nh, parent, trusted, own] *)
(* so that the same operators serve the model, the code layer and the trace.  *)

RECURSIVE ViewS(_, _)
ViewS(S, h) == IF S.parent[h] = 0 THEN S.own[h]
               ELSE SubSeq(ViewS(S, S.parent[h]), 1, S.trusted[h]) \o S.own[h]

IndexOf(s, k) == IF \E x \in 1..Len(s) : s[x] = k
                 THEN (CHOOSE x \in 1..Len(s) : s[x] = k) - 1
                 ELSE -1
KeyAt(s, i)   == IF i >= 0 /\ i < Len(s) THEN s[i + 1] ELSE NoKey
NoDupSeq(s)   == \A x, y \in 1..Len(s) : s[x] = s[y] => x = y

(* What the statement says a lookup on handle h answers. *)
PubkeyOf(S, h, i) == KeyAt(ViewS(S, h), i)
IndexOfKey(S, h, k) == IndexOf(ViewS(S, h), k)

NewHandle(S, par, tr, ow) ==
  [nh |-> S.nh + 1, parent |-> Append(S.parent, par),
   trusted |-> Append(S.trusted, tr), own |-> Append(S.own, ow)]

(* The cases of the statement.  "repeat": the key already sits at a smaller *)
(* index of this very history, so the pair cannot extend a deposit history.  *)
(* The statement does not say what the reply is; it does say that no handle  *)
(* may be disturbed and that lookups stay mutually inverse.  Allowed: an     *)
(* error without any change, or a NEW handle of whatever (well-formed)       *)
(* content; never an in-place change (or any reply naming the receiver).     *)
Class(S, h, i, p) ==
  LET v == ViewS(S, h)
      n == Len(v)
      j == IndexOf(v, p)
  IN  IF j = i THEN "known"
      ELSE IF i > n THEN "beyond"
      ELSE IF j # -1 /\ j < i THEN "repeat"
      ELSE IF i = n THEN "append"
      ELSE "conflict"

(* Outcomes the statement allows: records [kind, h2, S2]. *)
NormalOutcomes(S, h, i, p, inPlaceOnly) ==
  LET c == Class(S, h, i, p)
      v == ViewS(S, h)
  IN  CASE c = "known"    -> {[kind |-> "same", h2 |-> h, S2 |-> S]}
        [] c = "append"   -> {[kind |-> "same", h2 |-> h, S2 |-> [S EXCEPT !.own[h] = Append(@, p)]]}
                             \cup (IF inPlaceOnly THEN {}
                                   ELSE {[kind |-> "new", h2 |-> S.nh + 1,
                                          S2 |-> NewHandle(S, h, Len(v), <<p>>)]})
        [] c = "conflict" -> {[kind |-> "new", h2 |-> S.nh + 1, S2 |-> NewHandle(S, h, i, <<p>>)]}
        [] c = "beyond"   -> {[kind |-> "err", h2 |-> 0, S2 |-> S]}
        [] c = "repeat"   -> {[kind |-> "err", h2 |-> 0, S2 |-> S]}
                             \cup (IF inPlaceOnly THEN {}     \* representatives of "a new handle, whatever its content"
                                   ELSE {[kind |-> "new", h2 |-> S.nh + 1, S2 |-> NewHandle(S, h, i, <<>>)],
                                         [kind |-> "new", h2 |-> S.nh + 1, S2 |-> NewHandle(S, 0, 0, <<p>>)]})
        [] OTHER          -> {}

----------------------------------------------------------------------------
(* Code-shaped layer. *)

RECURSIVE CodeIndex(_, _, _, _)
CodeIndex(S, h, k, devs) ==          \* unsafeValidatorIndex
  LET pos == IndexOf(S.own[h], k)
  IN  IF pos # -1 THEN S.trusted[h] + pos
      ELSE IF S.parent[h] # 0
      THEN LET r == CodeIndex(S, S.parent[h], k, devs)
           IN  IF "IndexDelegation" \in devs THEN r                 \* as found: trusted count ignored
               ELSE IF r # -1 /\ r < S.trusted[h] THEN r ELSE -1    \* repaired
      ELSE -1

RECURSIVE CodePubkey(_, _, _)
CodePubkey(S, h, i) ==               \* unsafePubkey
  IF i >= S.trusted[h] THEN KeyAt(S.own[h], i - S.trusted[h])
  ELSE IF S.parent[h] # 0 THEN CodePubkey(S, S.parent[h], i)
  ELSE NoKey

Fuel == 6    \* recursion depth after which AddValidator is declared divergent (a terminating call forks at most twice)

RECURSIVE CodeAddRec(_, _, _, _, _, _)
CodeAddRec(S, h, i, p, devs, fuel) ==   \* AddValidator, line by line
  IF fuel = 0 THEN [kind |-> "diverge", h2 |-> 0, S2 |-> S]
  ELSE LET ei == CodeIndex(S, h, p, devs)
           ep == CodePubkey(S, h, i)
           Fork(t) == CodeAddRec(NewHandle(S, h, t, <<>>), S.nh + 1, i, p, devs, fuel - 1)
       IN  IF ei # -1 /\ ei # i THEN Fork(ei)
           ELSE IF ep # NoKey /\ ep # p THEN Fork(i)
           ELSE IF ei = i THEN [kind |-> "same", h2 |-> h, S2 |-> S]
           ELSE IF i # S.trusted[h] + Len(S.own[h]) THEN [kind |-> "err", h2 |-> 0, S2 |-> S]
           ELSE [kind |-> "same", h2 |-> h, S2 |-> [S EXCEPT !.own[h] = Append(@, p)]]

(* As seen by the caller: a result on another handle is a "new" handle; failed *)
(* calls leave nothing reachable behind.                                       *)
CodeOutcome(S, h, i, p, devs) ==
  LET r == CodeAddRec(S, h, i, p, devs, Fuel)
  IN  IF r.kind = "same" /\ r.h2 # h THEN [r EXCEPT !.kind = "new"]
      ELSE IF r.kind = "same" THEN r
      ELSE [r EXCEPT !.S2 = S]

----------------------------------------------------------------------------
(* The model. *)

VARIABLES nh, parent, trusted, own,   \* the handles
          built,                      \* ghost: built[h] = the history handle h was built along
          reply, calls, hist          \* last reply, number of calls, history (for behaviour export)

vars == <<nh, parent, trusted, own, built, reply, calls, hist>>
absView == <<nh, parent, trusted, own, built>>      \* VIEW: behaviours are exported along a BFS spanning tree

St == [nh |-> nh, parent |-> parent, trusted |-> trusted, own |-> own]
View(h) == ViewS(St, h)
SetSt(S2) == /\ nh' = S2.nh /\ parent' = S2.parent /\ trusted' = S2.trusted /\ own' = S2.own

Init == /\ nh = 1 /\ parent = <<0>> /\ trusted = <<0>> /\ own = << <<>> >>
        /\ built = << <<>> >>
        /\ reply = [op |-> "init"] /\ calls = 0 /\ hist = <<>>

UsedKeys == UNION {{own[h][x] : x \in 1..Len(own[h])} : h \in 1..nh}
(* keys offered: every key seen so far and the next fresh one *)
Offered  == {KeySeq[x] : x \in 1..(IF Cardinality(UsedKeys) < Len(KeySeq)
                                    THEN Cardinality(UsedKeys) + 1 ELSE Len(KeySeq))}

Add(h, i, p) ==
  /\ calls < MaxCalls
  /\ \E o \in NormalOutcomes(St, h, i, p, InPlaceOnly) :
        /\ o.kind = "new" => nh < MaxHandles
        /\ SetSt(o.S2)
        /\ built' = CASE o.kind = "new" /\ Class(St, h, i, p) = "repeat" -> Append(built, ViewS(o.S2, o.h2))
                      [] o.kind = "new"  -> Append(built, SubSeq(built[h], 1, i) \o <<p>>)
                      [] o.kind = "same" /\ o.S2 # St -> [built EXCEPT ![h] = Append(@, p)]
                      [] OTHER -> built
        /\ reply' = [op |-> "add", h |-> h, i |-> i, p |-> p, kind |-> o.kind, h2 |-> o.h2,
                     class |-> Class(St, h, i, p)]
        /\ hist' = Append(hist, [h |-> h, i |-> i, p |-> p, kind |-> o.kind, h2 |-> o.h2,
                                 class |-> Class(St, h, i, p),
                                 views |-> [x \in 1..o.S2.nh |-> ViewS(o.S2, x)]])
  /\ calls' = calls + 1

Pubkey(h, i) == /\ GenLookups /\ calls < MaxCalls
                /\ reply' = [op |-> "pubkey", h |-> h, i |-> i, key |-> PubkeyOf(St, h, i)]
                /\ calls' = calls + 1
                /\ UNCHANGED <<nh, parent, trusted, own, built, hist>>

Index(h, p)  == /\ GenLookups /\ calls < MaxCalls
                /\ reply' = [op |-> "index", h |-> h, p |-> p, idx |-> IndexOfKey(St, h, p)]
                /\ calls' = calls + 1
                /\ UNCHANGED <<nh, parent, trusted, own, built, hist>>

Next == \E h \in 1..nh :
          \/ \E i \in 0..MaxIndex, p \in Offered : i <= Len(View(h)) + 1 /\ Add(h, i, p)
          \/ \E i \in 0..MaxIndex : Pubkey(h, i)
          \/ \E p \in Keys : Index(h, p)

Spec == Init /\ [][Next]_vars

----------------------------------------------------------------------------
(* Invariants (DESIGN 5.2). *)

TypeOK ==
  /\ nh \in 1..MaxHandles
  /\ Len(parent) = nh /\ Len(trusted) = nh /\ Len(own) = nh /\ Len(built) = nh
  /\ \A h \in 1..nh : /\ parent[h] \in 0..(h - 1)
                      /\ trusted[h] \in 0..MaxIndex
                      /\ parent[h] = 0 => trusted[h] = 0
                      /\ \A x \in 1..Len(own[h]) : own[h][x] \in Keys

TrustedWithinParent == \A h \in 1..nh : parent[h] # 0 => trusted[h] <= Len(View(parent[h]))

(* the structural definition of View coincides with the history itself *)
ViewIsHistory == \A h \in 1..nh : View(h) = built[h]

(* index->pubkey and pubkey->index are mutually inverse on every handle *)
LookupsInverse ==
  \A h \in 1..nh :
    /\ NoDupSeq(View(h))
    /\ \A i \in 0..MaxIndex : PubkeyOf(St, h, i) # NoKey => IndexOfKey(St, h, PubkeyOf(St, h, i)) = i
    /\ \A k \in Keys : IndexOfKey(St, h, k) # -1 => PubkeyOf(St, h, IndexOfKey(St, h, k)) = k

(* no lookup on a forked handle answers with an entry that an ancestor holds at or beyond the trusted count,
   i.e. with something that is not on the handle's own history (also after the ancestor grew later) *)
SiblingIsolation ==
  \A h \in 1..nh :
    /\ \A k \in Keys : IndexOfKey(St, h, k) # -1 => KeyAt(built[h], IndexOfKey(St, h, k)) = k
    /\ \A i \in 0..MaxIndex : PubkeyOf(St, h, i) = KeyAt(built[h], i)
    /\ parent[h] # 0 => \A i \in trusted[h]..MaxIndex : PubkeyOf(St, h, i) = KeyAt(own[h], i - trusted[h])

(* action property: a call never changes what any existing handle answers, except the in-place append on its target *)
OldHandleUndisturbedStep ==
  \A h \in 1..nh :
     \/ ViewS(St', h) = View(h)
     \/ /\ reply'.op = "add" /\ reply'.kind = "same" /\ reply'.h = h
        /\ ViewS(St', h) = Append(View(h), reply'.p)
        /\ reply'.i = Len(View(h))
OldHandleUndisturbed == [][OldHandleUndisturbedStep]_vars

(* a pair whose key already sits at a smaller index never changes the handle it is offered to *)
RepeatNeverInPlace ==
  [][(reply'.op = "add" /\ reply'.class = "repeat") =>
        /\ reply'.kind \in {"err", "new"}
        /\ \A h \in 1..nh : ViewS(St', h) = View(h)]_vars

ForkOutIsNewHandle ==
  [][(reply'.op = "add" /\ reply'.kind = "new" /\ reply'.class # "repeat") =>
        /\ nh' = nh + 1 /\ reply'.h2 = nh'
        /\ ViewS(St', nh') = SubSeq(View(reply'.h), 1, reply'.i) \o <<reply'.p>>]_vars

----------------------------------------------------------------------------
(* Behaviour export: one line per explored transition (history of the BFS-tree path to the pre-state + the step). *)
EmitTransitions == (hist' # hist) => PrintT(<<"HIST", ToJson(hist')>>)
(* Behaviour export in simulation mode: print the history when the behaviour is complete. *)
EmitAtEnd == (calls = MaxCalls) => PrintT(<<"HIST", ToJson(hist)>>)
=============================================================================
