CONSTANT PresetName = "minimal"
INIT Init
NEXT Next
INVARIANT SelfConsistent
CHECK_DEADLOCK FALSE
