--------------------------- MODULE BeaconGenesis ---------------------------
(***************************************************************************)
(* Genesis of the beacon chain (phase0 beacon-chain.md, "Genesis"):        *)
(* initialize_beacon_state_from_eth1 and is_valid_genesis_state,           *)
(* transcribed from the consensus specification over the abstract state    *)
(* of DESIGN appendix F; process_deposit / apply_deposit are the operators *)
(* of BeaconBlock.tla that block processing uses.                          *)
(*                                                                         *)
(* Input record `g` (one Genesis event of the trace):                      *)
(*   eth1_block_hash, eth1_time                                            *)
(*   deposits : seq of abstract deposits (BeaconBlock.tla) with, in        *)
(*     addition, root_after = id of hash_tree_root(List[DepositData](      *)
(*     leaves[:index+1])) computed by the harness' own sha256 glue, and    *)
(*     pk_valid / sig_parses (the bytes decode as curve points)            *)
(*   empty_body_root : id of hash_tree_root(BeaconBlockBody())             *)
(*   gvr : id of hash_tree_root(validators) of the final registry          *)
(* Extra preset fields: GENESIS_DELAY, MIN_GENESIS_TIME,                   *)
(* MIN_GENESIS_ACTIVE_VALIDATOR_COUNT.                                     *)
(***************************************************************************)
EXTENDS BeaconBlock

EmptyCheckpoint == [epoch |-> 0, root |-> ZERO]

GenesisCandidate(g) ==
    [fork |-> "phase0",
     genesis_time |-> g.eth1_time + P.GENESIS_DELAY,
     gvr |-> ZERO, slot |-> GENESIS_SLOT,
     fork_rec |-> [prev |-> P.GENESIS_FORK_VERSION, cur |-> P.GENESIS_FORK_VERSION, epoch |-> GENESIS_EPOCH],
     lbh |-> [slot |-> 0, proposer |-> 0, parent |-> ZERO, state_root |-> ZERO, body_root |-> g.empty_body_root],
     block_roots |-> ConstSeq(SPHR, ZERO), state_roots |-> ConstSeq(SPHR, ZERO), historical_roots |-> <<>>,
     eth1 |-> [deposit_root |-> ZERO, count |-> Len(g.deposits), block_hash |-> g.eth1_block_hash],
     eth1_votes |-> <<>>, eth1_deposit_index |-> 0,
     validators |-> <<>>, balances |-> <<>>,
     randao |-> ConstSeq(EPHV, g.eth1_block_hash), slashings |-> ConstSeq(EPSV, 0),
     prev_atts |-> <<>>, cur_atts |-> <<>>,
     just_bits |-> <<FALSE, FALSE, FALSE, FALSE>>,
     prev_just |-> EmptyCheckpoint, cur_just |-> EmptyCheckpoint, fin |-> EmptyCheckpoint]

\* process_deposit as used by zrnt's helpers that skip signature and proof verification (kickstart):
\* every deposit whose pubkey and signature bytes decode counts as a valid one.
ProcessDepositUnverified(st, d) ==
    LET s1 == [st EXCEPT !.eth1_deposit_index = @ + 1]
        known == {i \in AllIndices(s1) : V(s1, i).pk = d.pk}
    IN IF known = {}
         THEN IF d.pk_valid /\ d.sig_parses THEN AddValidatorFromDeposit(s1, d) ELSE s1
         ELSE IncreaseBalance(s1, MinOfSet(known), d.amount)

\* initialize_beacon_state_from_eth1; Bad when a deposit proof does not verify against the incremental
\* deposit root (process_deposit asserts).  verify = FALSE: the "ignore signatures and proofs" variant.
InitializeBeaconStateFromEth1(g, verify) ==
    LET s0 == GenesisCandidate(g)
        s1 == FoldLeft(LAMBDA acc, d :
                  IF IsBad(acc) THEN acc
                  ELSE LET a1 == [acc EXCEPT !.eth1.deposit_root = d.root_after]
                       IN IF verify THEN ProcessDeposit(a1, d) ELSE ProcessDepositUnverified(a1, d),
                s0, g.deposits)
    IN IF IsBad(s1) THEN Bad
       ELSE
         LET vals == [p \in 1..NVal(s1) |->
                         LET v == s1.validators[p]
                             b == s1.balances[p]
                             eff == Min2(b - (b % INCR), P.MAX_EFFECTIVE_BALANCE)
                         IN IF eff = P.MAX_EFFECTIVE_BALANCE
                              THEN [v EXCEPT !.eff = eff, !.elig = GENESIS_EPOCH, !.act = GENESIS_EPOCH]
                              ELSE [v EXCEPT !.eff = eff]]
         IN [s1 EXCEPT !.validators = vals, !.gvr = g.gvr]

\* is_valid_genesis_state
IsValidGenesisState(st) ==
    /\ st.genesis_time >= P.MIN_GENESIS_TIME
    /\ Cardinality(ActiveIndices(st, GENESIS_EPOCH)) >= P.MIN_GENESIS_ACTIVE_VALIDATOR_COUNT
=============================================================================
