CONSTANTS
  HandleSeq <- TwoHandles
  Fields <- TinyFields
  NVals = 1
  MaxSteps = 3
  MaxAdvance = 1
INIT Init
NEXT Next
INVARIANT TypeOK
PROPERTIES FrameProperty CopyProperty StoreProperty RotateProperty
CHECK_DEADLOCK FALSE
