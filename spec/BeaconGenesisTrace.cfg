CONSTANT P <- TraceP
INIT Init
NEXT Next
CHECK_DEADLOCK FALSE
POSTCONDITION Accepted
