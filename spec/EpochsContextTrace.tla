------------------------ MODULE EpochsContextTrace ------------------------
(***************************************************************************)
(* Validates context observations recorded from the real zrnt code         *)
(* (harness/cmd/epc) against EpochsContext.tla. One ndjson line per event. *)
(*                                                                         *)
(* Init event: the constants of the chain's preset (spe, inc, target,      *)
(* maxc, period, unit1 = amounts are exact Gwei).                          *)
(*                                                                         *)
(* Ctx event: one point of one line of the chain (after a slot, a block,   *)
(* an epoch boundary, a deposit, an upgrade):                              *)
(*   reg, sync, sck, snk  the abstract registry of the state and the       *)
(*                        pubkey ids of its sync committees                *)
(*   live                 projection of the long-lived EpochsContext       *)
(*   fresh                projection of NewEpochsContext(spec, state)      *)
(*   out, root            outcome / post-state root of the step on the     *)
(*                        long-lived line; chainroot = the chain's root    *)
(*   fs                   the same step executed from the serialized and   *)
(*                        reloaded pre-state with a fresh context          *)
(*   peer                 (reload lines) results and live context of the   *)
(*                        long-lived line at the same step                 *)
(*                                                                         *)
(* Demanded: (1) live = fresh, field by field; (2) live = the context the  *)
(* specification defines from the registry (active sets, epochs, committee *)
(* counts and partition, proposers among the active, effective balances,   *)
(* total active stake, integer square root, sync-committee indices,        *)
(* pubkey <-> index lookups); (3) the reloaded continuation gives the same *)
(* outcome, root and context as the long-lived one.                        *)
(* A violated clause prints a MISMATCH tuple (line, event id, what) and a  *)
(* DETAIL tuple; a tolerated known deviation prints a DEVIATION tuple.     *)
(***************************************************************************)
EXTENDS EpochsContext, Json

CONSTANT KnownDeviations

Trace == ndJsonDeserialize("trace.ndjson")

VARIABLES l, cfg
tvars == <<l, cfg>>

E == Trace[l]
B(i) == i = 1
Mismatch(what, a, b) == PrintT(<<"MISMATCH", l, E.id, what>>) /\ PrintT(<<"DETAIL", l, what, a, b>>)
Deviation(name) == PrintT(<<"DEVIATION", l, E.id, name>>)
Check(ok, what, a, b) == IF ok THEN TRUE ELSE Mismatch(what, a, b)

TraceInit == l = 1 /\ cfg = [spe |-> 0] /\ TLCSet(1, 1)

DoInit == /\ E.ev = "Init"
          /\ cfg' = E
          /\ l' = l + 1

---------------------------------------------------------------------------
IsPrefixOf(s, t) == Len(s) <= Len(t) /\ s = SubSeq(t, 1, Len(s))

\* effective balances: equal, or (known deviation) the cached list lacks exactly validators appended by
\* deposits since the context last loaded its balances (n0 = registry size at that moment)
EffClass(c, f, n0) ==
    IF c = f THEN "equal"
    ELSE IF "epc-eff-short-after-deposit" \in KnownDeviations /\ Len(c) < Len(f) /\ Len(c) >= n0 /\ IsPrefixOf(c, f)
    THEN "short"
    ELSE "differs"

Fields == <<"pe", "ce", "ne", "pa", "ca", "na", "pcm", "ccm", "ncm", "pcnt", "ccnt", "ncnt", "props",
            "total", "sqrt", "sqrtn", "hassync", "sc", "sn", "sck", "snk", "pk", "ix">>

\* (1) two projections coincide (eff handled by EffClass)
SameCtx(a, b, n0, what) ==
    /\ \A i \in 1..Len(Fields) :
          Check(a[Fields[i]] = b[Fields[i]], what \o ": " \o Fields[i], a[Fields[i]], b[Fields[i]])
    /\ LET c == EffClass(a.eff, b.eff, n0) IN
       IF c = "equal" THEN TRUE
       ELSE IF c = "short" THEN Deviation("epc-eff-short-after-deposit")
       ELSE Mismatch(what \o ": eff", a.eff, b.eff)

\* (2) the specification's context of the registry
EpochOK(L, ep, active, comms, cnt, what) ==
    LET want == ActiveIndices(E.reg, ep) IN
    /\ Check(active = want, "active indices of the " \o what \o " epoch differ from the registry's", want, active)
    /\ Check(cnt = CommitteeCount(Len(want), cfg.spe, cfg.target, cfg.maxc), "committee count of the " \o what \o " epoch",
             CommitteeCount(Len(want), cfg.spe, cfg.target, cfg.maxc), cnt)
    /\ Check(Len(comms) = cfg.spe /\ \A s \in 1..Len(comms) : Len(comms[s]) = cnt,
             "committee table shape of the " \o what \o " epoch", <<cfg.spe, cnt>>, comms)
    /\ Check(IsPartition(comms, want), "committees of the " \o what \o " epoch do not partition the active set", want, comms)

SpecCtxOK(L) ==
    LET reg == E.reg
        ce == E.slot \div cfg.spe
        total == TotalActive(reg, ce, cfg.inc)
        effc == EffClass(L.eff, EffBalances(reg), E.n0)
    IN
    /\ Check(<<L.pe, L.ce, L.ne>> = <<PrevEpochOf(ce), ce, ce + 1>>, "epoch numbers", <<PrevEpochOf(ce), ce, ce + 1>>, <<L.pe, L.ce, L.ne>>)
    /\ EpochOK(L, PrevEpochOf(ce), L.pa, L.pcm, L.pcnt, "previous")
    /\ EpochOK(L, ce, L.ca, L.ccm, L.ccnt, "current")
    /\ EpochOK(L, ce + 1, L.na, L.ncm, L.ncnt, "next")
    /\ Check(Len(L.props) = cfg.spe /\ Range(L.props) \subseteq Range(ActiveIndices(reg, ce)),
             "proposers are not active validators of the current epoch", ActiveIndices(reg, ce), L.props)
    /\ (IF effc = "equal" THEN TRUE
        ELSE IF effc = "short" THEN Deviation("epc-eff-short-after-deposit")
        ELSE Mismatch("effective balances differ from the registry's", EffBalances(reg), L.eff))
    /\ Check(L.total = total, "total active stake", total, L.total)
    /\ Check(B(cfg.unit1) => L.sqrtn = ISqrt(total), "integer square root of the total active stake", ISqrt(total), L.sqrtn)
    /\ Check(B(E.sync) = (L.hassync = 2) /\ (~B(E.sync) => L.hassync = 0), "presence of sync committees", E.sync, L.hassync)
    /\ Check(B(E.sync) => L.sc = SyncIndices(reg, E.sck) /\ L.sck = E.sck, "current sync committee indices",
             <<E.sck, SyncIndices(reg, E.sck)>>, <<L.sck, L.sc>>)
    /\ Check(B(E.sync) => L.sn = SyncIndices(reg, E.snk) /\ L.snk = E.snk, "next sync committee indices",
             <<E.snk, SyncIndices(reg, E.snk)>>, <<L.snk, L.sn>>)
    /\ Check(L.pk = [i \in 1..Len(reg) |-> reg[i].k], "index -> pubkey lookups", [i \in 1..Len(reg) |-> reg[i].k], L.pk)
    /\ Check(L.ix = [i \in 1..Len(reg) |-> i - 1], "pubkey -> index lookups", [i \in 1..Len(reg) |-> i - 1], L.ix)
    \* pubkeys outside the registry: unknown, or (documented tolerance of the shared cache) an index beyond the registry
    /\ LET bad == {j \in 1..Len(L.xi) : L.xi[j] >= 0 /\ L.xi[j] < Len(reg)} IN
       IF bad = {} THEN TRUE
       ELSE IF "epc-shared-cache-sibling-lookup" \in KnownDeviations THEN Deviation("epc-shared-cache-sibling-lookup")
       ELSE Mismatch("lookup of a pubkey outside the registry answers with the index of another validator",
                     {<<L.xk[j], L.xi[j]>> : j \in bad}, Len(reg))

\* Deposit j of the block carries a pubkey that is not in the registry, yet the long-lived (shared) pubkey cache
\* reports it at an index that is, or - once the earlier new depositors of this block are appended - becomes,
\* the index of ANOTHER validator: ProcessDeposit then tops that validator up instead of appending a new one.
NewBefore(j) == Cardinality({i \in 1..(j - 1) : E.deplook[i].reg = -1 /\ E.deplook[i].k # E.deplook[j].k})
SiblingLookup(j) == LET d == E.deplook[j] IN d.reg = -1 /\ d.cache >= 0 /\ d.cache < E.pren + NewBefore(j)

CtxChecks ==
    IF E.out # "ok"
    THEN IF "epc-shared-cache-sibling-lookup" \in KnownDeviations /\ E.out = "err" /\ E.fs.out = "ok"
            /\ \E j \in 1..Len(E.deplook) : SiblingLookup(j)
         THEN Deviation("epc-shared-cache-sibling-lookup")
         ELSE Mismatch("the long-lived line " \o E.out \o " on a step the chain accepted", E.line, E.kind)
    ELSE
    /\ Check(E.root = E.chainroot, "post-state root differs from the chain's", E.chainroot, E.root)
    /\ Check(E.fs.out = "ok" /\ E.fs.root = E.root, "the step from the reloaded pre-state with a fresh context gives another result",
             <<E.out, E.root>>, E.fs)
    /\ SameCtx(E.live, E.fresh, E.n0, "live vs fresh")
    /\ Check(\A j \in 1..Len(E.fresh.xi) : E.fresh.xi[j] = -1, "a fresh context knows a pubkey outside the registry", E.fresh.xk, E.fresh.xi)
    /\ SpecCtxOK(E.live)
    /\ (E.peer.has = 1 =>
          /\ Check(E.peer.out = E.out /\ E.peer.root = E.root, "reloaded continuation and long-lived continuation disagree",
                   <<E.peer.out, E.peer.root>>, <<E.out, E.root>>)
          /\ (E.peer.out = "ok" => SameCtx(E.peer.live, E.live, E.peer.n0, "long-lived vs reloaded continuation")))

DoCtx == /\ E.ev = "Ctx"
         /\ CtxChecks
         /\ UNCHANGED cfg
         /\ l' = l + 1

TraceNext == /\ l <= Len(Trace)
             /\ (DoInit \/ DoCtx)
             /\ TLCSet(1, l')

TraceSpec == TraceInit /\ [][TraceNext]_tvars
TraceAccepted == TLCGet(1) = Len(Trace) + 1
=============================================================================
