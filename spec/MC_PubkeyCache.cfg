\* exhaustive check of the abstract layer: keys {k0..k3}, index <= 4, <= 4 handles, bounded calls
CONSTANTS
  NKeys = 4
  MaxIndex = 4
  MaxHandles = 4
  MaxCalls = 6
  InPlaceOnly = FALSE
  GenLookups = TRUE
  KnownDeviations = {}
INIT Init
NEXT Next
VIEW absView
INVARIANTS TypeOK TrustedWithinParent ViewIsHistory LookupsInverse SiblingIsolation
PROPERTIES OldHandleUndisturbed ForkOutIsNewHandle RepeatNeverInPlace
CHECK_DEADLOCK FALSE
