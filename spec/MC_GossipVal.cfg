SPECIFICATION Spec
CONSTANTS
  Topic = "att"
  KeyUniverse = {"a", "b"}
  Mutant = "none"
INVARIANTS
  NoViolation
  SeenIsAccepted
  TypeOK
