--------------------------- MODULE PubkeyCacheTrace ---------------------------
(***************************************************************************)
(* Validates ndjson traces recorded from the real common.PubkeyCache       *)
(* (harness/cmd/pk) against PubkeyCache.tla.  One event per AddValidator   *)
(* call: handle id, arguments, outcome (same | new | err | crash |         *)
(* timeout) and the complete observed view of EVERY live handle            *)
(* (Pubkey(i) for all i below nidx, ValidatorIndex(k) for every key).      *)
(* After every call the specification's View must equal the observation    *)
(* for every live handle.  Histories are separated by Reset events.        *)
(*                                                                         *)
(* Known findings are NAMED deviations, tried only when the normal action  *)
(* does not explain the event, only when listed in KnownDeviations, and    *)
(* only in the pre-state class in which the code-shaped layer of           *)
(* PubkeyCache.tla (with the listed defects) produces exactly the logged   *)
(* outcome.  Each use prints <<"DEV", name, job, line>>.                   *)
(***************************************************************************)
EXTENDS PubkeyCache

VARIABLES l,      \* next trace line
          dead,   \* the process under test died in this history: only Reset may follow
          cov     \* coverage counters (vacuity guards of the runner)

Trace == ndJsonDeserialize("trace.ndjson")

tvars == <<nh, parent, trusted, own, built, reply, calls, hist, l, dead, cov>>

EmptySt == [nh |-> 1, parent |-> <<0>>, trusted |-> <<0>>, own |-> << <<>> >>]

(* does the observation of all live handles agree with structure S2 (allowing the listed lookup deviation)? *)
ObsOK(views, S2, devs) ==
  /\ Len(views) = S2.nh
  /\ \A h \in 1..S2.nh :
       LET v == ViewS(S2, h) IN
       /\ Len(views[h].pubs) > Len(v)       \* the interrogation reached beyond the end of the history
       /\ \A x \in 1..Len(views[h].pubs) : views[h].pubs[x] = KeyAt(v, x - 1)
       /\ \A k \in DOMAIN views[h].idx :
            LET want == IndexOf(v, k)
                got  == views[h].idx[k]
            IN  \/ got = want
                \/ /\ got # want
                   /\ "IndexDelegation" \in devs     \* Dev_IndexDelegation: an ancestor's entry at or beyond the
                   /\ want = -1                       \* trusted count is reported for a key not on this history
                   /\ got = CodeIndex(S2, h, k, devs)

(* Caller-level events (the cache driven through phase0.ProcessDeposit) carry the deposit history of the branch   *)
(* (state + epochs context) that made the call and the handle its context holds afterwards: that handle must     *)
(* answer along the branch's own history.                                                                        *)
IsCaller(e) == "hist" \in DOMAIN e
BranchOK(e, S2) ==
  IsCaller(e) =>
    /\ e.bh \in 1..S2.nh
    /\ Len(ViewS(S2, e.bh)) >= Len(e.hist)
    /\ SubSeq(ViewS(S2, e.bh), 1, Len(e.hist)) = e.hist
CallerCov(e, S, kind) ==
  IF IsCaller(e)
  THEN {"callerAdds"} \cup (IF kind = "new" /\ Class(S, e.h, e.i, e.p) = "conflict" THEN {"callerConflictNewHandle"} ELSE {})
                     \cup (IF Class(S, e.h, e.i, e.p) = "known" THEN {"callerKnownPair"} ELSE {})
  ELSE {}

RetEq(o, ret) == /\ o.kind = ret.kind
                 /\ o.kind \in {"same", "new"} => o.h2 = ret.h2

Keep == UNCHANGED <<built, reply, calls, hist>>

RECURSIVE Depth(_, _)
Depth(S, h) == IF S.parent[h] = 0 THEN 1 ELSE 1 + Depth(S, S.parent[h])

CovZero == [known |-> 0, append |-> 0, conflictFresh |-> 0, conflictKnownLater |-> 0, beyond |-> 0,
            beyondKnownKey |-> 0, forkFromChild |-> 0, deepLookup |-> 0, appendOnForked |-> 0,
            parentGrowsAfterFork |-> 0, repeat |-> 0, repeatAtNextIndex |-> 0, repeatForked |-> 0,
            callerAdds |-> 0, callerConflictNewHandle |-> 0, callerKnownPair |-> 0, callerTopUps |-> 0,
            histories |-> 0, adds |-> 0, maxHandles |-> 0,
            devIndexDelegation |-> 0, devAddDiverges |-> 0, devAddSiblingNoop |-> 0]

Bump(c, names) == [f \in DOMAIN c |-> IF f \in names THEN c[f] + 1 ELSE c[f]]

(* coverage facts of one Add event, from the pre-structure S, the arguments, and the post-structure S2 *)
CovNames(S, h, i, p, kind, S2) ==
  LET c == Class(S, h, i, p)
      j == IndexOf(ViewS(S, h), p)
  IN  {"adds"}
      \cup (IF c = "known" THEN {"known"} ELSE {})
      \cup (IF c = "append" THEN {"append"} ELSE {})
      \cup (IF c = "append" /\ S.parent[h] # 0 THEN {"appendOnForked"} ELSE {})
      \cup (IF c = "append" /\ \E x \in 1..S.nh : S.parent[x] = h THEN {"parentGrowsAfterFork"} ELSE {})
      \cup (IF c = "conflict" /\ j = -1 THEN {"conflictFresh"} ELSE {})
      \cup (IF c = "conflict" /\ j # -1 THEN {"conflictKnownLater"} ELSE {})
      \cup (IF c = "beyond" THEN {"beyond"} ELSE {})
      \cup (IF c = "repeat" THEN {"repeat"} ELSE {})
      \cup (IF c = "repeat" /\ i = Len(ViewS(S, h)) THEN {"repeatAtNextIndex"} ELSE {})
      \cup (IF c = "repeat" /\ kind = "new" THEN {"repeatForked"} ELSE {})
      \cup (IF c = "beyond" /\ j # -1 THEN {"beyondKnownKey"} ELSE {})
      \cup (IF kind = "new" /\ S.parent[h] # 0 THEN {"forkFromChild"} ELSE {})
      \cup (IF \E x \in 1..S2.nh : /\ Depth(S2, x) >= 3 /\ S2.trusted[x] > 0
                                     /\ S2.trusted[S2.parent[x]] > 0
            THEN {"deepLookup"} ELSE {})

TraceInit ==
  /\ Init
  /\ l = 1 /\ dead = FALSE /\ cov = CovZero

TraceReset ==
  LET e == Trace[l] IN
  /\ e.ev = "Reset"
  /\ ObsOK(e.views, EmptySt, {}) = TRUE
  /\ SetSt(EmptySt)
  /\ dead' = FALSE
  /\ l' = l + 1
  /\ cov' = Bump(cov, {"histories"})
  /\ Keep

TraceAdd ==
  LET e  == Trace[l]
      S  == St
      N  == NormalOutcomes(S, e.h, e.i, e.p, FALSE)
      c0 == {o \in N : RetEq(o, e.ret) /\ ObsOK(e.views, o.S2, {}) /\ BranchOK(e, o.S2)}
      c1 == {o \in N : RetEq(o, e.ret) /\ ObsOK(e.views, o.S2, KnownDeviations) /\ BranchOK(e, o.S2)}
      dv == CodeOutcome(S, e.h, e.i, e.p, KnownDeviations)
      \* "repeat" answered with a new handle of whatever content: the content is what the code shows for it
      obsOwn == LET pubs == e.views[S.nh + 1].pubs
                    n == IF \E x \in 1..Len(pubs) : pubs[x] = NoKey
                         THEN (CHOOSE x \in 1..Len(pubs) : pubs[x] = NoKey /\ \A y \in 1..(x - 1) : pubs[y] # NoKey) - 1
                         ELSE Len(pubs)
                IN  SubSeq(pubs, 1, n)
      rf == NewHandle(S, 0, 0, obsOwn)
  IN
  /\ e.ev = "Add"
  /\ ~dead
  /\ e.h \in 1..nh
  /\ l' = l + 1
  /\ Keep
  /\ IF /\ Class(S, e.h, e.i, e.p) = "repeat" /\ e.ret.kind = "new" /\ e.ret.h2 = S.nh + 1
        /\ Len(e.views) = S.nh + 1
     THEN \* lenient rule: a fork of whatever content, provided every live handle (the old ones unchanged) is
          \* well-formed: no key twice, lookups mutually inverse on the view
          /\ NoDupSeq(obsOwn)
          /\ ObsOK(e.views, rf, {}) = TRUE
          /\ BranchOK(e, rf) = TRUE
          /\ SetSt(rf) /\ dead' = FALSE
          /\ cov' = Bump(cov, CovNames(S, e.h, e.i, e.p, "new", rf))
     ELSE IF c0 # {}
     THEN \* the normal action explains the event
          \E o \in c0 : /\ SetSt(o.S2) /\ dead' = FALSE
                        /\ cov' = Bump(cov, CovNames(S, e.h, e.i, e.p, o.kind, o.S2) \cup CallerCov(e, S, o.kind))
     ELSE IF c1 # {}
     THEN \* normal reply; some ValidatorIndex observation needs Dev_IndexDelegation
          \E o \in c1 : /\ SetSt(o.S2) /\ dead' = FALSE
                        /\ cov' = Bump(cov, CovNames(S, e.h, e.i, e.p, o.kind, o.S2) \cup {"devIndexDelegation"})
                        /\ PrintT(<<"DEV", "IndexDelegation", e.job, l>>)
     ELSE
       \/ \* Dev_AddDiverges: the code-shaped AddValidator recurses without progress
          /\ "AddDiverges" \in KnownDeviations
          /\ e.ret.kind \in {"crash", "timeout"}
          /\ dv.kind = "diverge"
          /\ CodeIndex(S, e.h, e.p, KnownDeviations) \notin {-1, e.i}
          /\ SetSt(S) /\ dead' = TRUE
          /\ cov' = Bump(cov, CovNames(S, e.h, e.i, e.p, "diverge", S) \cup {"devAddDiverges"})
          /\ PrintT(<<"DEV", "AddDiverges", e.job, l>>)
       \/ \* Dev_AddSiblingNoop: the key is on a sibling history only, at this very index, and is taken as present
          /\ "AddSiblingNoop" \in KnownDeviations
          /\ dv.kind \in {"same", "new"}
          /\ IndexOf(ViewS(S, e.h), e.p) = -1
          /\ CodeIndex(S, e.h, e.p, KnownDeviations) = e.i
          /\ RetEq(dv, e.ret)
          /\ ObsOK(e.views, dv.S2, KnownDeviations) = TRUE
          /\ SetSt(dv.S2) /\ dead' = FALSE
          /\ cov' = Bump(cov, CovNames(S, e.h, e.i, e.p, dv.kind, dv.S2) \cup {"devAddSiblingNoop"})
          /\ PrintT(<<"DEV", "AddSiblingNoop", e.job, l>>)

(* no call: the branch's handle (and every other live handle) is looked at after a top-up deposit *)
TraceObs ==
  LET e == Trace[l] IN
  /\ e.ev = "Obs"
  /\ ~dead
  /\ ObsOK(e.views, St, {}) = TRUE
  /\ BranchOK(e, St) = TRUE
  /\ l' = l + 1
  /\ cov' = Bump(cov, {"callerTopUps"})
  /\ UNCHANGED <<nh, parent, trusted, own, dead>> /\ Keep

TraceEnd == /\ l = Len(Trace) + 1
            /\ PrintT(<<"COV", ToJson(cov)>>)
            /\ l' = l + 1
            /\ UNCHANGED <<nh, parent, trusted, own, dead, cov>> /\ Keep

TraceNext == \/ l <= Len(Trace) /\ (TraceReset \/ TraceAdd \/ TraceObs)
             \/ TraceEnd

TraceSpec == TraceInit /\ [][TraceNext]_tvars

(* the whole trace was consumed *)
TraceAccepted ==
  LET d == TLCGet("stats").diameter IN
  IF d - 2 = Len(Trace) THEN TRUE
  ELSE Print(<<"TRACE-REJECTED at line", d, "of", Len(Trace)>>, FALSE)
=============================================================================
