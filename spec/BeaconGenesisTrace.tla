------------------------ MODULE BeaconGenesisTrace ------------------------
(***************************************************************************)
(* Trace validation for C13: every Genesis event recorded from zrnt        *)
(* (harness/cmd/genesis) agrees with initialize_beacon_state_from_eth1 /   *)
(* is_valid_genesis_state of BeaconGenesis.tla.                            *)
(*   {ev:"Genesis", fn, g:{eth1_block_hash, eth1_time, deposits,           *)
(*    empty_body_root, gvr}, time, ok, err, state, valid, epc_ok,          *)
(*    deposit_root_ok}   (the first event also carries the preset P)       *)
(* fn = "eth1"            phase0.GenesisFromEth1, proofs and signatures on *)
(*      "eth1_unverified" the same with verification switched off          *)
(*      "kickstart"       phase0.KickStartState (unverified, eth1 time 0,  *)
(*                        then genesis_time := time)                       *)
(*      "kickstart_sigs"  phase0.KickStartStateWithSignatures (the same,   *)
(*                        zrnt signs the deposits with the given keys)     *)
(* Events are independent of each other.  Reports are printed with PrintT  *)
(* (<<"MISMATCH", line, "Genesis">>, <<"DIFF", line, ...>>); zrnt refusing *)
(* to build a state the specification defines is tolerated only for the    *)
(* two documented restrictions of zrnt's constructor (fewer validators     *)
(* than slots per epoch; no active validator), reported as SKIP.           *)
(***************************************************************************)
EXTENDS BeaconGenesis, Json

Trace == ndJsonDeserialize("trace.ndjson")
TraceP == Trace[1].P

VARIABLES l

SeqFields == {"validators", "balances", "block_roots", "state_roots", "randao", "slashings",
              "historical_roots", "eth1_votes", "prev_atts", "cur_atts", "just_bits"}
DiffOne(f, x, y) ==
    IF f \in SeqFields
      THEN IF Len(x) # Len(y) THEN <<f, "len", Len(x), Len(y)>>
           ELSE <<f, {<<k - 1, x[k], y[k]>> : k \in {k \in 1..Len(x) : x[k] # y[k]}}>>
      ELSE <<f, x, y>>
DiffFields(exp, got) ==
    {DiffOne(f, exp[f], got[f]) : f \in {f \in (DOMAIN exp) \cap (DOMAIN got) : exp[f] # got[f]}}
    \cup {<<f, "only in specification state">> : f \in (DOMAIN exp) \ (DOMAIN got)}
    \cup {<<f, "only in logged state">> : f \in (DOMAIN got) \ (DOMAIN exp)}

Expected(e) ==
    CASE e.fn = "eth1" -> InitializeBeaconStateFromEth1(e.g, TRUE)
      [] e.fn = "eth1_unverified" -> InitializeBeaconStateFromEth1(e.g, FALSE)
      [] e.fn \in {"kickstart", "kickstart_sigs"} ->
            \* kickstart_sigs signs every deposit with the secret key handed in and refuses a key that does not
            \* belong to the deposit's pubkey (key_mismatch, also for undecodable pubkeys)
            IF e.fn = "kickstart_sigs" /\ e.key_mismatch THEN Bad
            ELSE LET r == InitializeBeaconStateFromEth1(e.g, FALSE)
                 IN IF IsBad(r) THEN r ELSE [r EXCEPT !.genesis_time = e.time]

Report(k, what) == PrintT(<<"MISMATCH", k, "Genesis">>) /\ PrintT(<<"DIFF", k, what>>)

Check(e, k) ==
    LET exp == Expected(e)
    IN IF IsBad(exp)
         THEN IF e.ok THEN Report(k, "zrnt built a genesis state from an input the specification rejects (bad proof / foreign key)")
              ELSE TRUE
       ELSE IF ~e.ok
         THEN IF NVal(exp) < SPE \/ ActiveIndices(exp, GENESIS_EPOCH) = {}
                THEN PrintT(<<"SKIP", k, "Genesis">>)
                ELSE Report(k, <<"zrnt refused a deposit list the specification accepts", e.err>>)
       ELSE IF exp # e.state THEN Report(k, DiffFields(exp, e.state))
       ELSE IF e.valid # IsValidGenesisState(exp)
         THEN Report(k, <<"is_valid_genesis_state", IsValidGenesisState(exp), "zrnt", e.valid>>)
       ELSE IF ~e.epc_ok THEN Report(k, "returned epochs context differs from one rebuilt from the state")
       ELSE IF ~e.deposit_root_ok THEN Report(k, "final eth1_data.deposit_root is not the root of the full deposit list")
       ELSE TRUE

Init == l = 0
Next ==
    /\ l < Len(Trace)
    /\ Trace[l + 1].ev = "Genesis"
    /\ Check(Trace[l + 1], l + 1)
    /\ l' = l + 1

Accepted == TLCGet("stats").diameter = Len(Trace) + 1
=============================================================================
