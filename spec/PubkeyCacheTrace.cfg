\* KnownDeviations is rewritten by the runner from known_findings.d/pubkeys.json
CONSTANTS
  NKeys = 1
  MaxIndex = 1
  MaxHandles = 1
  MaxCalls = 1
  InPlaceOnly = FALSE
  GenLookups = FALSE
  KnownDeviations = {}
INIT TraceInit
NEXT TraceNext
POSTCONDITION TraceAccepted
CHECK_DEADLOCK FALSE
