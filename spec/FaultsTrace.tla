---------------------------- MODULE FaultsTrace ----------------------------
(***************************************************************************)
(* Validates fault-injection runs recorded from the real zrnt transition   *)
(* (harness/cmd/faults) against the rule of Faults.tla. One ndjson line    *)
(* per event.                                                              *)
(*                                                                         *)
(* Step event: fields id, kind (slots, block, blocknv, epoch, badblock),    *)
(* fork,                                                                   *)
(* exec (0 or 1), P (polls of the undisturbed run), ncalls, calls (one     *)
(* record per engine call: name, gotPayload, wantPayload, gotPbr, wantPbr, *)
(* gotVh = the versioned hashes zrnt passed as byte lists, shas = the      *)
(* crypto/sha256 digests of the blob commitments of the block body in      *)
(* order), und = outcome and post-state root of the undisturbed run under  *)
(* a counting context and a recording engine, plain = the same step with   *)
(* context.Background and the default engine. The want fields are computed *)
(* by the harness from the block alone.                                    *)
(*                                                                         *)
(* Fault event: fields id (of its Step), fault (kind cancel with k, or     *)
(* kind engine with c and v in invalid, error, errortrue), polls, ncalls, callnames, argsok, res: the   *)
(* same step re-run from a fresh copy of the same pre-state under exactly  *)
(* one fault.                                                              *)
(*                                                                         *)
(* A violated clause is printed as a MISMATCH tuple (line, step id, what,  *)
(* ...) and validation goes on (events are independent given their Step),  *)
(* so one run reports every offending fault point.                         *)
(***************************************************************************)
EXTENDS Faults, Json

Trace == ndJsonDeserialize("trace.ndjson")

VARIABLES l,      \* index of the event being processed
          step    \* the Step event the following Fault events refer to
tvars == <<l, step>>

E == Trace[l]
B(i) == i = 1
Mismatch(what, a, b) == PrintT(<<"MISMATCH", l, E.id, what>>) /\ PrintT(<<"DETAIL", l, a, b>>)

NoStep == [id |-> -1]

TraceInit == l = 1 /\ step = NoStep /\ TLCSet(1, 1)

FaultOf(f) == IF f.kind = "cancel" THEN Cancel(f.k)
              ELSE IF f.kind = "engine" THEN Engine(f.c, f.v)
              ELSE NoFault

\* the arguments of one recorded engine call are the prescribed ones
ArgsOK(c, fork) ==
    /\ c.gotPayload = c.wantPayload
    /\ (fork = "deneb" /\ c.name \in {"IsValidBlockHash", "NotifyNewPayload"}) => c.gotPbr = c.wantPbr
    /\ c.name = "IsValidVersionedHashes" =>
          /\ Len(c.gotVh) = Len(c.shas)
          /\ c.gotVh = VersionedHashes(c.shas)

CallNames(cs) == [i \in 1..Len(cs) |-> cs[i].name]

StepChecks ==
    LET want == PrescribedCalls(E.fork, B(E.exec))
        names == CallNames(E.calls)
        c1 == IF SameResult(E.und, E.plain) THEN TRUE
              ELSE Mismatch("undisturbed run under the counting context differs from the plain run", E.und, E.plain)
        c2 == IF (E.und.out = "ok" /\ E.kind \in {"block", "blocknv"}) => names = want THEN TRUE
              ELSE Mismatch("engine calls of an accepted block differ from the prescribed ones", want, names)
        c3 == IF IsPrefix(names, want) THEN TRUE
              ELSE Mismatch("engine calls are not a prefix of the prescribed ones", want, names)
        c4 == IF \A i \in 1..Len(E.calls) : ArgsOK(E.calls[i], E.fork) THEN TRUE
              ELSE Mismatch("engine was shown other arguments than the specification prescribes",
                            [i \in 1..Len(E.calls) |-> ArgsOK(E.calls[i], E.fork)], E.calls)
        c5 == IF E.ncalls = Len(E.calls) THEN TRUE ELSE Mismatch("call count", E.ncalls, Len(E.calls))
    IN c1 /\ c2 /\ c3 /\ c4 /\ c5

DoStep == /\ E.ev = "Step"
          /\ StepChecks
          /\ step' = E
          /\ l' = l + 1

FaultChecks ==
    LET f == FaultOf(E.fault)
        c0 == IF step.id = E.id THEN TRUE ELSE Mismatch("fault event without its step", step.id, E.id)
        c1 == IF step.id # E.id \/ Allowed(f, E.polls, E.ncalls, E.res, step.und) THEN TRUE
              ELSE Mismatch(Why(f, E.polls, E.ncalls, E.res, step.und), E.fault,
                            <<"polls", E.polls, "calls", E.ncalls, "result", E.res, "undisturbed", step.und>>)
        \* a fault that lies on the undisturbed path must be reached (the runs are deterministic)
        c2 == IF step.id # E.id \/ E.res.out = "panic" \/ TookEffect(f, E.polls, E.ncalls)
                 \/ (f.kind = "cancel" /\ f.k > step.P) \/ (f.kind = "engine" /\ f.c > step.ncalls)
              THEN TRUE
              ELSE Mismatch("fault on the undisturbed path was not reached", E.fault, <<E.polls, E.ncalls>>)
        c3 == IF step.id # E.id \/ (B(E.argsok) /\ IsPrefix(E.callnames, CallNames(step.calls))) THEN TRUE
              ELSE Mismatch("engine calls of the disturbed run differ from the undisturbed run's", E.callnames, E.argsok)
    IN c0 /\ c1 /\ c2 /\ c3

DoFault == /\ E.ev = "Fault"
           /\ FaultChecks
           /\ UNCHANGED step
           /\ l' = l + 1

TraceNext == /\ l <= Len(Trace)
             /\ (DoStep \/ DoFault)
             /\ TLCSet(1, l')

TraceSpec == TraceInit /\ [][TraceNext]_tvars

\* every line was consumed (violations are the MISMATCH lines)
TraceAccepted == TLCGet(1) = Len(Trace) + 1
=============================================================================
