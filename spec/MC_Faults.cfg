SPECIFICATION Spec
CONSTANTS
  MaxPolls = 6
  MaxCalls = 3
  Sticky = TRUE
  Sloppy = TRUE
  Dev_SwallowLast = FALSE
  Dev_InvalidIsValid = FALSE
  Dev_ErrorIgnored = FALSE
  Dev_ErrorOnlyWhenNotOk = FALSE
  Dev_EarlySuccess = FALSE
INVARIANTS
  RuleHolds
  SuccessIsComplete
  EveryFaultReached
CHECK_DEADLOCK FALSE
