---------------------------- MODULE StateStoreSim ----------------------------
(* Per-fork simulation instance of StateStore.  The field table (module StateStoreFields) is written by the runner
   from `statestore caps`, which derives it from the schema of <fork>.BeaconState (Schemas.tla, exported by TLC) and the
   accessor binding.  TLC -simulate picks a successor uniformly, so a step is split in two: first the KIND of step is
   chosen (uniform over the enabled kinds: copies and state transitions are as likely as element writes), then its
   parameters.  A finished behaviour is printed once; the replayer executes it on real states. *)
EXTENDS StateStore, Json, StateStoreFields

VARIABLE kind
simvars == <<store, live, nadv, hist, kind>>

ThreeHandles == <<"h1", "h2", "h3">>
SimFields == ForkFields

SimInit == Init /\ kind = ""
Choose == /\ kind = "" /\ Len(hist) < MaxSteps
          \* every behaviour ends with the caller scribbling over everything it passed in or got back
          /\ IF Len(hist) = MaxSteps - 1 /\ ENABLED DoKind("scribble") THEN kind' = "scribble"
             ELSE \E k \in Kinds : ENABLED DoKind(k) /\ kind' = k
          /\ UNCHANGED vars
Do == kind # "" /\ DoKind(kind) /\ kind' = ""
Finish == /\ kind = "" /\ Len(hist) = MaxSteps
          /\ PrintT(<<"BEHAVIOUR", ToJson(hist)>>)
          /\ UNCHANGED simvars
SimNext == Choose \/ Do \/ Finish
=============================================================================
