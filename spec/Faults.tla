------------------------------- MODULE Faults -------------------------------
(* C18 - cancellation and execution-engine faults always surface as errors.                        *)
(*                                                                                                  *)
(* A transition (ProcessSlots, process_epoch, StateTransition of one block) is a finite PATH of     *)
(* fault points: "poll" (the transition consults ctx.Err()) and "call" (it asks the execution       *)
(* engine something). A FAULT is                                                                    *)
(*   Cancel(k)      the caller's context reports Canceled from its k-th consultation on (sticky:    *)
(*                  a cancelled context stays cancelled, as every real context.Context does), or    *)
(*   Engine(c, v)   the c-th engine call of the transition is answered v, one of "invalid" =        *)
(*                  (false, nil), "error" = (false, err), "errortrue" = (true, err): an engine       *)
(*                  answer is a pair (ok, err) and ANY non-nil err must surface, whatever ok says.   *)
(*                                                                                                  *)
(* THE RULE (operators TookEffect / Allowed, used unchanged by FaultsTrace.tla on real runs):       *)
(*   a run that returned success saw no fault: the context never reported the cancellation to it    *)
(*   and every engine answer it received was "valid"; a run whose fault never took effect is        *)
(*   indistinguishable from the undisturbed run (same outcome, same post-state).                    *)
(*                                                                                                  *)
(* MC_Faults.tla is a tiny machine that walks a path under a fault. TLC explores                   *)
(* every path with <= MaxPolls polls and <= MaxCalls calls under every fault and shows              *)
(*   (1) a transition that honours every poll and every verdict satisfies the rule;                 *)
(*   (2) stickiness: a transition that SWALLOWS a poll which is followed by another poll on the     *)
(*       same path still satisfies the rule (the later poll reports the same cancellation) - which  *)
(*       is why the binding enumerates sticky cancellations only: a one-shot fault would flag such  *)
(*       code although the statement does not forbid it (Sticky = FALSE makes the invariant fail);  *)
(*   (3) swallowing the LAST poll of a path, treating a non-valid verdict as valid, or returning    *)
(*       success early violate the rule (the Dev_* switches; used by the self-test to show that     *)
(*       the invariants are not vacuous).                                                           *)
EXTENDS Integers, Sequences, FiniteSets, TLC

-----------------------------------------------------------------------------
(* Faults *)
NoFault == [kind |-> "none"]
Cancel(k) == [kind |-> "cancel", k |-> k]
Engine(c, v) == [kind |-> "engine", c |-> c, v |-> v]

\* An engine answer is a pair (ok, err); "valid" = (TRUE, nil). The payload is approved iff ok /\ ~err.
Answer(v) == [ok |-> v \in {"valid", "errortrue"}, err |-> v \in {"error", "errortrue"}]
Approves(v) == Answer(v).ok /\ ~Answer(v).err
Verdicts == {"valid", "invalid", "error", "errortrue"}
BadVerdicts == {v \in Verdicts : ~Approves(v)}

\* Did the fault reach the transition? polls / calls = how many consultations of the context and
\* how many engine calls the run made.
TookEffect(f, polls, calls) ==
    \/ f.kind = "cancel" /\ f.k <= polls
    \/ f.kind = "engine" /\ f.c <= calls /\ f.v \in BadVerdicts

\* out \in {"ok", "err", "panic"}; root = post-state root (meaningful for "ok" only)
SameResult(r, u) == r.out = u.out /\ (r.out = "ok" => r.root = u.root)

\* The rule. r = result of the disturbed run, u = result of the undisturbed run of the same step.
Allowed(f, polls, calls, r, u) ==
    IF TookEffect(f, polls, calls) THEN r.out = "err" ELSE SameResult(r, u)

\* Which clause is violated (for reports).
Why(f, polls, calls, r, u) ==
    IF TookEffect(f, polls, calls)
    THEN IF r.out = "ok" THEN "success reported although the fault took effect"
         ELSE "fault surfaced as " \o r.out \o " instead of an error"
    ELSE "run without effective fault differs from the undisturbed run"

-----------------------------------------------------------------------------
(* What the engine must be shown (consensus-specs verify_and_notify_new_payload, per fork). *)
PrescribedCalls(fork, exec) ==
    IF ~exec THEN <<>>
    ELSE IF fork = "deneb" THEN <<"IsValidBlockHash", "IsValidVersionedHashes", "NotifyNewPayload">>
    ELSE IF fork \in {"bellatrix", "capella"} THEN <<"IsValidBlockHash", "NotifyNewPayload">>
    ELSE <<>>

IsPrefix(s, t) == Len(s) <= Len(t) /\ \A i \in 1..Len(s) : s[i] = t[i]

\* kzg_commitment_to_versioned_hash: VERSIONED_HASH_VERSION_KZG (0x01) followed by bytes 1..31 of
\* sha256(commitment). sha = the 32 bytes of the SHA-256 oracle for that commitment.
VersionedHash(sha) == <<1>> \o SubSeq(sha, 2, 32)
VersionedHashes(shas) == [i \in 1..Len(shas) |-> VersionedHash(shas[i])]
=============================================================================
