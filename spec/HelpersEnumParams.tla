-------------------------- MODULE HelpersEnumParams --------------------------
(* Default parameters of HelpersEnum; the runner overwrites this file in its  *)
(* scratch copy of spec/ (part, bounds, TLC-chosen hash oracle tables).       *)
Part == "num"            \* "num" | "big" | "merkle"
MaxN == 256              \* small-domain bound for one-argument helpers
MerkleDepth == 2
\* hash oracle over the alphabet <<"a","b","c">>: entry (l-1)*3+r is H(l, r)
Table == <<"b", "c", "a", "c", "a", "b", "a", "b", "c">>
TableId == 0
=============================================================================
