SPECIFICATION MCSpec
CONSTANTS
  SPE = 2
  KnownDeviations = {}
  MaxRoot = 3
  MaxSlot = 3
  NVal = 2
  MaxCalls = 4
  MaxEpoch = 1
INVARIANTS TypeOK ParentsFirst FcWithinTransition WeightsAddUp HeadSound HeadInFinalizedSubtree QueriesAgree UnknownStaysUnknown
PROPERTIES VotesOnlyAdvance CheckpointsMonotone PruneExact RetainedUnchanged
VIEW View
CHECK_DEADLOCK FALSE
