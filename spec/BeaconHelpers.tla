--------------------------- MODULE BeaconHelpers ---------------------------
(***************************************************************************)
(* Helper functions of the consensus specification (phase0 "Helper         *)
(* functions", "Beacon state accessors", "Beacon state mutators", and the  *)
(* altair/capella/deneb additions), over the abstract state record of      *)
(* DESIGN appendix F.                                                      *)
(*                                                                         *)
(* Abstract signatures: a signature is a record                            *)
(*   [signers : seq of pubkey ids, msg : root id, dom : domain-type name,  *)
(*    ver : fork-version id, gvr : genesis-validators-root id]             *)
(* describing what the harness signed (garbage = record with msg           *)
(* "garbage").  SigOK compares it with what the specification requires.    *)
(***************************************************************************)
EXTENDS BeaconTypes

NVal(st) == Len(st.validators)
V(st, i) == st.validators[i + 1]
ValidIndex(st, i) == i >= 0 /\ i < NVal(st)
AllIndices(st) == 0..(NVal(st) - 1)

CurEpoch(st) == EpochAtSlot(st.slot)
PrevEpoch(st) == LET c == CurEpoch(st) IN IF c = GENESIS_EPOCH THEN GENESIS_EPOCH ELSE c - 1

\* ---- predicates --------------------------------------------------------------
IsActive(v, epoch) == v.act <= epoch /\ epoch < v.exit
IsEligibleForActivationQueue(v) == v.elig = FAR /\ v.eff = P.MAX_EFFECTIVE_BALANCE
IsEligibleForActivation(st, v) == v.elig <= st.fin.epoch /\ v.act = FAR
IsSlashableValidator(v, epoch) == (~v.slashed) /\ v.act <= epoch /\ epoch < v.wd

\* Checkpoints / attestation data are compared field by field (records)
IsSlashableAttestationData(d1, d2) ==
    \/ (d1 # d2 /\ d1.tgt.epoch = d2.tgt.epoch)
    \/ (d1.src.epoch < d2.src.epoch /\ d2.tgt.epoch < d1.tgt.epoch)

\* ---- accessors ---------------------------------------------------------------
\* get_block_root_at_slot: defined only when slot < state.slot <= slot + SPHR
BlockRootDefined(st, slot) == slot < st.slot /\ st.slot <= slot + SPHR
BlockRootAtSlot(st, slot) == st.block_roots[(slot % SPHR) + 1]
BlockRoot(st, epoch) == BlockRootAtSlot(st, StartSlot(epoch))
RandaoMix(st, epoch) == st.randao[(epoch % EPHV) + 1]

ActiveIndices(st, epoch) == {i \in AllIndices(st) : IsActive(V(st, i), epoch)}

\* get_total_balance: at least one increment
TotalBalance(st, S) == Max2(INCR, SumOver(S, LAMBDA i : V(st, i).eff))
TotalActiveBalance(st) == TotalBalance(st, ActiveIndices(st, CurEpoch(st)))

ChurnLimit(st) ==
    Max2(P.MIN_PER_EPOCH_CHURN_LIMIT,
         Cardinality(ActiveIndices(st, CurEpoch(st))) \div P.CHURN_LIMIT_QUOTIENT)
\* deneb (EIP-7514)
ActivationChurnLimit(st) == Min2(P.MAX_PER_EPOCH_ACTIVATION_CHURN_LIMIT, ChurnLimit(st))

CommitteeCountPerSlot(st, epoch) ==
    Max2(1, Min2(P.MAX_COMMITTEES_PER_SLOT,
                 (Cardinality(ActiveIndices(st, epoch)) \div SPE) \div P.TARGET_COMMITTEE_SIZE))

\* get_domain: previous version before the fork epoch of the state's fork record
DomainOf(st, domType, epoch) ==
    [dom |-> domType,
     ver |-> IF epoch < st.fork_rec.epoch THEN st.fork_rec.prev ELSE st.fork_rec.cur,
     gvr |-> st.gvr]
\* compute_domain with explicit fork version and genesis validators root
DomainFixed(domType, ver, gvr) == [dom |-> domType, ver |-> ver, gvr |-> gvr]

\* bls.Verify / FastAggregateVerify on abstract signatures: exactly these keys (as a multiset: a sync
\* committee may contain a validator twice) signed exactly this message under exactly this domain.
RangeOf(s) == {s[k] : k \in 1..Len(s)}
SameBag(a, b) ==
    /\ Len(a) = Len(b)
    /\ \A x \in RangeOf(a) \cup RangeOf(b) : CountEq(a, x) = CountEq(b, x)
\* The harness' secret keys are small integers (P.KEYS : pubkey id -> secret scalar).  BLS signatures are
\* linear in the secret key, so an aggregate over one message verifies against a list of public keys iff
\* the secret scalars add up to the same sum: that is the exact verification condition for the
\* signatures the harness can produce (two signer sets with equal key sums yield the same signature bytes).
SignersOK(sig, pks) ==
    \/ SameBag(sig.signers, pks)
    \/ /\ sig.key_sum >= 0
       /\ \A k \in 1..Len(pks) : pks[k] \in DOMAIN P.KEYS
       /\ SumSeq([k \in 1..Len(pks) |-> P.KEYS[pks[k]]]) = sig.key_sum
SigOK(sig, pks, msg, d) ==
    /\ sig.msg = msg
    /\ sig.dom = d.dom
    /\ sig.ver = d.ver
    /\ sig.gvr = d.gvr
    /\ SignersOK(sig, pks)

\* ---- mutators ----------------------------------------------------------------
IncreaseBalance(st, i, d) == [st EXCEPT !.balances[i + 1] = @ + d]
DecreaseBalance(st, i, d) == [st EXCEPT !.balances[i + 1] = IF d > @ THEN 0 ELSE @ - d]

\* initiate_validator_exit
InitiateValidatorExit(st, i) ==
    IF V(st, i).exit # FAR THEN st
    ELSE
      LET base  == ActivationExitEpoch(CurEpoch(st))
          qe0   == MaxOver({j \in AllIndices(st) : V(st, j).exit # FAR}, LAMBDA j : V(st, j).exit, base)
          churn == Cardinality({j \in AllIndices(st) : V(st, j).exit = qe0})
          qe    == IF churn >= ChurnLimit(st) THEN qe0 + 1 ELSE qe0
      IN [st EXCEPT !.validators[i + 1].exit = qe,
                    !.validators[i + 1].wd = qe + P.MIN_VALIDATOR_WITHDRAWABILITY_DELAY]

\* slash_validator; `proposer` is get_beacon_proposer_index(state) (oracle),
\* whistleblower defaults to the proposer (no caller passes another one).
SlashValidator(st, i, proposer) ==
    LET epoch == CurEpoch(st)
        s1 == InitiateValidatorExit(st, i)
        v1 == V(s1, i)
        s2 == [s1 EXCEPT !.validators[i + 1].slashed = TRUE,
                         !.validators[i + 1].wd = Max2(v1.wd, epoch + EPSV),
                         !.slashings[(epoch % EPSV) + 1] = @ + v1.eff]
        s3 == DecreaseBalance(s2, i, v1.eff \div MinSlashingPenaltyQuotient(st.fork))
        wbReward == v1.eff \div P.WHISTLEBLOWER_REWARD_QUOTIENT
        propReward == IF st.fork = "phase0"
                        THEN wbReward \div P.PROPOSER_REWARD_QUOTIENT
                        ELSE (wbReward * PROPOSER_WEIGHT) \div WEIGHT_DENOMINATOR
        s4 == IncreaseBalance(s3, proposer, propReward)
    IN IncreaseBalance(s4, proposer, wbReward - propReward)

\* ---- committees from the per-event oracle -------------------------------------
\* orc.comm_start : first slot covered, orc.comms[slot - comm_start + 1][index + 1] : seq of validator indices
CommitteeKnown(orc, slot, index) ==
    /\ slot >= orc.comm_start /\ slot - orc.comm_start < Len(orc.comms)
    /\ index >= 0 /\ index < Len(orc.comms[slot - orc.comm_start + 1])
Committee(orc, slot, index) == orc.comms[slot - orc.comm_start + 1][index + 1]

\* get_attesting_indices for an aggregation bitlist (seq of 0/1) of the committee's length
AttestingIndices(orc, data, bits) ==
    LET c == Committee(orc, data.slot, data.index)
    IN {c[k] : k \in {k \in 1..Len(c) : bits[k] = 1}}
=============================================================================
