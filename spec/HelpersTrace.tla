---------------------------- MODULE HelpersTrace ----------------------------
(***************************************************************************)
(* C19, code -> spec: every line of trace.ndjson is one call of a real     *)
(* zrnt helper recorded by harness/cmd/helpers (arguments and result as    *)
(* BigNat limbs, panics recovered and logged as out = "panic").  TLC       *)
(* evaluates Helpers!Post on every event.  The walk never blocks: the line *)
(* numbers of events that violate their postcondition are collected in     *)
(* `bad` and printed at the end, so the runner can tell a listed finding   *)
(* (specific input class) from any other deviation.                        *)
(***************************************************************************)
EXTENDS Helpers, Json

Trace == ndJsonDeserialize("trace.ndjson")

VARIABLES l, bad

Init == l = 1 /\ bad = <<>>

Step == /\ l <= Len(Trace)
        /\ l' = l + 1
        /\ bad' = IF Post(Trace[l]) THEN bad ELSE Append(bad, l)

Done == /\ l = Len(Trace) + 1
        /\ PrintT(<<"HELPERS_TRACE_DONE", Len(Trace), bad>>)
        /\ UNCHANGED <<l, bad>>

Next == Step \/ Done

Spec == Init /\ [][Next]_<<l, bad>>

\* accepted only if every line was evaluated (deterministic walk: diameter = lines + 1)
AllEvaluated == TLCGet("stats").diameter = Len(Trace) + 1
=============================================================================
