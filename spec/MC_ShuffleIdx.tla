---------------------------- MODULE MC_ShuffleIdx ----------------------------
(***************************************************************************)
(* Per-index shuffling (compute_shuffled_index and its inverse) for HUGE   *)
(* list sizes: 2^16 +- 1, 2^24 +- 1, 2^24 + 2^16 + 257, 2^31 - 1 and       *)
(* pseudo-random sizes between 2^24 and 2^31.  The per-index functions do  *)
(* not need the list, so such sizes are cheap.  Indices and pivots are     *)
(* chosen so that the position (max(index, flip)) reaches 2^24 and beyond, *)
(* i.e. the 4-byte window number position // 256 in the hash pre-image has *)
(* a non-zero third byte.  (TLC integers are 32-bit: sizes >= 2^31, which  *)
(* would make the fourth byte non-zero, are outside this model.)           *)
(*                                                                         *)
(* TLC chooses size, round count, pivots and a coin rule; the oracle table *)
(* holds exactly the pre-images those indices need (built by the encoders  *)
(* of Shuffle.tla), so a code path that hashes a different pre-image       *)
(* misses the table.  Every case is printed for harness/cmd/shuffle replay.*)
(***************************************************************************)
EXTENDS Shuffle, TLC, Json

CONSTANTS GenSeed, NRandom, Rounds, Emit

VARIABLE c      \* the case [n, R, j, k]; n = 0 in the start state

M == 32749
Mix(a, b) == ((a % M) * 1103 + (b % M) * 2221 + 977) % M
Sq(x) == ((x % M) * (x % M) + 5) % M
Rnd(a, b, d) == Sq(Sq(Mix(Mix(a, b), d)) + (d % M))

T16 == 65536
T24 == 16777216

FixedSizes == {T16 - 1, T16 + 1, T24 - 1, T24 + 1, T24 + T16 + 257, 2147483647}
RandomSizes == {T24 + Rnd(GenSeed, q, 1) * M + Rnd(GenSeed, q, 2) : q \in 1 .. NRandom}     \* < 2^24 + 2^30

SetToSeq(S) ==
    LET RECURSIVE go(_)
        go(T) == IF T = {} THEN << >> ELSE LET x == CHOOSE y \in T : TRUE IN << x >> \o go(T \ {x})
    IN go(S)
SortedSeq(S) ==
    LET RECURSIVE go(_)
        go(T) == IF T = {} THEN << >>
                 ELSE LET x == CHOOSE y \in T : \A z \in T : y <= z IN << x >> \o go(T \ {x})
    IN go(S)

PivotChoices(n) == SortedSeq({0, 1, n - 1, n \div 2, T24 + 5, T24 + T16 + 300, T16 * 257, n - T24 - 3, 255} \cap (0 .. n - 1))
\* indices: both ends, around 2^24 and 2^24 + 2^16, and for each of them the index 2^24 lower (same window number
\* modulo 2^16: a pre-image with a truncated window number then hits the WRONG entry of the table)
IndexChoices(n) ==
    LET base == {0, 1, 255, 256, n - 1, n - 2, n \div 2, T24, T24 + 255, T24 + 256, T24 + T16 + 257, T16 * 257 + 3,
                 n - 1 - T24, T24 - 1, T16, T16 + 1}
    IN SortedSeq((base \cup {x - T24 : x \in base}) \cap (0 .. n - 1))

RuleNames == << "win3", "mix", "ones", "prand", "win", "zeros" >>
Coin(rule, pos, salt) ==
    CASE rule = "ones"  -> 1
      [] rule = "zeros" -> 0
      [] rule = "win"   -> (pos \div 256) % 2
      [] rule = "win3"  -> (pos \div T24) % 2                 \* third byte of the window number
      [] rule = "mix"   -> (((pos \div 256) % 2) + ((pos \div T16) % 2) + ((pos \div T24) % 2) + (pos % 2)) % 2
      [] rule = "prand" -> Rnd(salt, pos % M, pos \div M) % 2

\* round r (0-based) of case cs: pivot and coin rule rotate with the round
PivOf(cs) == [r \in 0 .. cs.R - 1 |-> LET ps == PivotChoices(cs.n) IN ps[((cs.j + 3 * r) % Len(ps)) + 1]]
RuleOf(cs, r) == RuleNames[((cs.k + r) % Len(RuleNames)) + 1]
\* (a function over 0 .. n-1 that TLC never enumerates: it is only applied)
BitOfCase(cs) == [r \in 0 .. cs.R - 1 |-> [pos \in 0 .. cs.n - 1 |-> Coin(RuleOf(cs, r), pos, GenSeed + r)]]

SeedOf(cs) == [q \in 1 .. 32 |-> (q * 11 + cs.j * 7 + cs.k * 3 + cs.R) % 256]

Init == c = [n |-> 0, R |-> 0, j |-> 0, k |-> 0]
Next == /\ c.n = 0
        /\ \E n \in FixedSizes \cup RandomSizes, R \in Rounds, j \in 0 .. 7, k \in 0 .. Len(RuleNames) - 1 :
              c' = [n |-> n, R |-> R, j |-> j, k |-> k]

Expected(cs) ==
    LET n == cs.n
        R == cs.R
        piv == PivOf(cs)
        bit == BitOfCase(cs)
        idx == IndexChoices(n)
        seed == SeedOf(cs)
        wins == UNION {FwdWindows(idx[q], n, 0, R, piv, bit) \cup BwdWindows(idx[q], n, R - 1, piv, bit) : q \in 1 .. Len(idx)}
        ws == SetToSeq(wins)
    IN [n |-> n, rounds |-> R, tag |-> cs.j * 10 + cs.k, seed |-> seed,
        piv |-> [r \in 1 .. R |-> piv[r - 1]],
        indices |-> idx,
        table |-> [r \in 1 .. R |-> << PivotPre(seed, r - 1), PivotDigestBig(piv[r - 1], GenSeed + r) >>]
                  \o [q \in 1 .. Len(ws) |->
                        << SourcePre(seed, ws[q][1], ws[q][2]), SourceDigest(bit[ws[q][1]], ws[q][2], n, GenSeed + q) >>],
        perm |-> [q \in 1 .. Len(idx) |-> PermIdx(idx[q], n, R, piv, bit)],
        unperm |-> [q \in 1 .. Len(idx) |-> UnpermIdx(idx[q], n, R, piv, bit)],
        maxwin |-> LET m == CHOOSE w \in wins : \A v \in wins : v[2] <= w[2] IN m[2],
        input |-> << >>, shuffled |-> << >>, unshuffled |-> << >>, bits |-> << >>]

Inv ==
    c.n # 0 =>
        LET x == Expected(c)
            n == c.n
            piv == PivOf(c)
            bit == BitOfCase(c)
        IN /\ \A q \in 1 .. Len(x.indices) :
                 /\ x.perm[q] \in 0 .. n - 1 /\ x.unperm[q] \in 0 .. n - 1
                 \* mutually inverse
                 /\ UnpermIdx(x.perm[q], n, c.R, piv, bit) = x.indices[q]
                 /\ PermIdx(x.unperm[q], n, c.R, piv, bit) = x.indices[q]
           \* the encoders decode to the chosen pivots (big-number route)
           /\ \A r \in 1 .. c.R : PivotOfBig(x.table[r][2], n) = piv[r - 1]
           /\ Cardinality({x.table[q][1] : q \in DOMAIN x.table}) = Len(x.table)
           /\ (Emit => PrintT(<< "CASE", ToJson(x) >>))
=============================================================================
