---- MODULE LockPrograms ----
\* Hand-written TOY instance of the module that harness/cmd/lockextract generates from the Go sources
\* (LockPrograms_<Component>.tla; the runner copies the generated module over this file in TLC's scratch
\* directory). It lets spec/Locks.tla be parsed and tried on its own, and runner/locks.py selftest() uses it:
\*   Get    reads `val` under the read lock                       (fine)
\*   Set    writes `val` under the write lock                     (fine)
\*   Lazy   fills `cache` under the READ lock                     (data race with itself and with Peek)
\*   Peek   reads `cache` without any lock                        (data race with Lazy)
\*   Twice  takes the write lock and calls Set, which takes it again (self-deadlock)
EXTENDS TLC

LP_Component == "Toy"
LP_Mutexes == {"mu"}
LP_Exported == {"Get", "Set", "Lazy", "Peek", "Twice"}
LP_HasParent == FALSE
LP_Prog ==
     "Get" :> << <<<<"Acq", "mu", "R", "self">>, <<"Rd", "val", "", "self">>, <<"Rel", "mu", "R", "self">>>> >>
  @@ "Set" :> << <<<<"Acq", "mu", "W", "self">>, <<"Wr", "val", "", "self">>, <<"Rel", "mu", "W", "self">>>> >>
  @@ "Lazy" :> << <<<<"Acq", "mu", "R", "self">>, <<"Rd", "cache", "", "self">>, <<"Rel", "mu", "R", "self">>>>,
                  <<<<"Acq", "mu", "R", "self">>, <<"Wr", "cache", "", "self">>, <<"Rel", "mu", "R", "self">>>> >>
  @@ "Peek" :> << <<<<"Rd", "cache", "", "self">>>> >>
  @@ "Twice" :> << <<<<"Acq", "mu", "W", "self">>, <<"Call", "Set", "", "self">>, <<"Rel", "mu", "W", "self">>>> >>
====
