----------------------------- MODULE MC_Committees -----------------------------
(***************************************************************************)
(* Model checking of Committees.tla (property C07) and generation of test  *)
(* cases for the spec -> code replay.                                      *)
(*                                                                         *)
(* Part A (INIT InitA / NEXT NextA), exhaustive: every registry of up to   *)
(* MaxV validators whose members are active / pending (activation = e+1) / *)
(* exited (exit = e) at the boundary of the activity window, every preset  *)
(* in a small grid, one shuffling round with EVERY pivot and (up to 4      *)
(* active validators) EVERY coin table: the committees of the epoch        *)
(* partition the active set, their number and sizes follow the formula.    *)
(*                                                                         *)
(* Part B (INIT InitB / NEXT NextB): pseudo-random registries, presets and *)
(* oracles (reproducible from GenSeed), in which TLC enumerates the first  *)
(* two sampling bytes of every proposer / sync-committee selection over    *)
(* the acceptance boundaries  eff * 255 >= MAX_EFFECTIVE_BALANCE * byte    *)
(* of the balances in use (equality, one below, one above, 0, 255).  The   *)
(* hash oracle is built with the encoders of Shuffle.tla, the expected     *)
(* answers are computed through the byte-level specification, checked      *)
(* (partition, proposer / sync members active, sync size) and printed as   *)
(* JSON for harness/cmd/committees replay.                                 *)
(***************************************************************************)
EXTENDS Committees, Json

CONSTANTS MaxV, GenSeed, NCases, Emit,
          MinV,        \* part A: smallest registry size
          TwoStatus    \* part A: TRUE = every validator is active or inactive (the inactive kind -- not yet activated /
                       \* exit epoch reached -- alternates with the index) and the coin tables are 4 structured ones for
                       \* every size; FALSE = active / pending / exited independently and all coin tables up to 4 active

VARIABLES c,      \* part A: 0; part B: case id (0 = start state)
          st      \* part A: [P, vals, piv, bit]; part B: [b1, b2] the enumerated sampling bytes (or << >>)

vars == << c, st >>

FAR == 1000000
E0 == 1          \* the epoch looked at in part A

(******************************** part A ***********************************)

PresetA(spe, maxc, tcs) ==
    [SLOTS_PER_EPOCH |-> spe, MAX_COMMITTEES_PER_SLOT |-> maxc, TARGET_COMMITTEE_SIZE |-> tcs,
     SHUFFLE_ROUND_COUNT |-> 1, MAX_EFFECTIVE_BALANCE |-> 32000, SYNC_COMMITTEE_SIZE |-> 4,
     EPOCHS_PER_HISTORICAL_VECTOR |-> 8, MIN_SEED_LOOKAHEAD |-> 1, EPOCHS_PER_SYNC_COMMITTEE_PERIOD |-> 2]

StatusVal(sx) ==
    CASE sx = "A" -> [act |-> E0, exit |-> E0 + 1, eff |-> 32000]       \* active exactly now
      [] sx = "P" -> [act |-> E0 + 1, exit |-> FAR, eff |-> 32000]      \* becomes active next epoch
      [] sx = "X" -> [act |-> 0, exit |-> E0, eff |-> 32000]            \* exit epoch reached

CoinTables(n) ==
    IF n <= 4 /\ ~TwoStatus THEN [0 .. n - 1 -> {0, 1}]
    ELSE {[pos \in 0 .. n - 1 |-> 0], [pos \in 0 .. n - 1 |-> 1], [pos \in 0 .. n - 1 |-> pos % 2],
          [pos \in 0 .. n - 1 |-> (pos \div 2) % 2]}

InitA ==
    /\ c = 0
    /\ \E nv \in MinV .. MaxV, spe \in 2 .. 4, maxc \in 1 .. 3, tcs \in 1 .. 2 :
         \E ss \in [1 .. nv -> IF TwoStatus THEN {"A", "I"} ELSE {"A", "P", "X"}] :
            st = [P |-> PresetA(spe, maxc, tcs),
                  vals |-> [k \in 1 .. nv |-> StatusVal(IF ss[k] = "I" THEN (IF k % 2 = 1 THEN "P" ELSE "X") ELSE ss[k])],
                  piv |-> -1, bit |-> << >>]

NextA ==
    /\ st.piv = -1
    /\ LET n == Len(ActiveIdx(st.vals, E0))
       IN /\ n > 0
          /\ \E p \in 0 .. n - 1, b \in CoinTables(n) : st' = [st EXCEPT !.piv = p, !.bit = b]
    /\ UNCHANGED c

InvA ==
    LET active == ActiveIdx(st.vals, E0)
        n == Len(active)
    IN /\ \A k \in 1 .. n : st.vals[active[k] + 1].act <= E0 /\ E0 < st.vals[active[k] + 1].exit
       /\ \A k \in 1 .. Len(st.vals) : IsActive(st.vals[k], E0) => \E j \in 1 .. n : active[j] = k - 1
       /\ \A k \in 1 .. n - 1 : active[k] < active[k + 1]
       /\ CommitteeCountPerSlot(st.P, n) \in 1 .. Max2(1, st.P.MAX_COMMITTEES_PER_SLOT)
       /\ st.piv >= 0 =>
             LET ctx == [n |-> n, R |-> 1, piv |-> [r \in {0} |-> st.piv], bit |-> [r \in {0} |-> st.bit]]
                 comms == EpochCommitteesOf(st.P, active, ctx)
             IN /\ PartitionOK(st.P, comms, active)
                \* members are placed exactly where compute_committee puts them
                /\ \A s \in 1 .. Len(comms) : \A k \in 1 .. Len(comms[s]) : \A m \in 1 .. Len(comms[s][k]) :
                      LET cps == CommitteeCountPerSlot(st.P, n)
                          idx == (s - 1) * cps + (k - 1)
                          start == (n * idx) \div (cps * st.P.SLOTS_PER_EPOCH)
                      IN comms[s][k][m] = active[PermIdx(start + m - 1, n, 1, ctx.piv, ctx.bit) + 1]

(******************************** part B ***********************************)

M == 32749
Mix(a, b) == ((a % M) * 1103 + (b % M) * 2221 + 977) % M
Sq(x) == ((x % M) * (x % M) + 5) % M
Rnd(a, b, d) == Sq(Sq(Mix(Mix(a, b), d)) + (d % M))
R1(k, what) == Rnd(GenSeed, k, what)             \* per-case pseudo-random numbers

\* two balance scales: increments of 1000 up to 32000, and increments of 100 up to 25500 (where every balance
\* has an exact acceptance boundary  eff * 255 = MAX * byte  at byte = eff / 100)
Scale(k) == R1(k, 1) % 2
MaxEff(k) == IF Scale(k) = 0 THEN 32000 ELSE 25500
EffSet(k) == IF Scale(k) = 0 THEN << 0, 1000, 8000, 16000, 24000, 31000, 32000, 32000, 32000 >>
             ELSE << 0, 100, 12700, 12800, 25400, 25500, 25500, 12800, 25500 >>
BSet(k) == IF Scale(k) = 0 THEN {0, 1, 7, 8, 63, 64, 127, 128, 191, 192, 247, 248, 255}
           ELSE {0, 1, 2, 126, 127, 128, 129, 253, 254, 255}

\* (case 1 of every run is pinned to a preset with several committees per slot, the others are drawn)
PresetB(k) ==
    [SLOTS_PER_EPOCH |-> IF k = 1 THEN 2 ELSE 2 + (R1(k, 2) % 3),
     MAX_COMMITTEES_PER_SLOT |-> IF k = 1 THEN 3 ELSE 1 + (R1(k, 3) % 3),
     TARGET_COMMITTEE_SIZE |-> IF k = 1 THEN 1 ELSE 1 + (R1(k, 4) % 3), SHUFFLE_ROUND_COUNT |-> 1 + (R1(k, 5) % 2),
     MAX_EFFECTIVE_BALANCE |-> MaxEff(k), SYNC_COMMITTEE_SIZE |-> 4 * (1 + (R1(k, 6) % 2)),
     EPOCHS_PER_HISTORICAL_VECTOR |-> 8, MIN_SEED_LOOKAHEAD |-> 1, EPOCHS_PER_SYNC_COMMITTEE_PERIOD |-> 2,
     EFFECTIVE_BALANCE_INCREMENT |-> IF Scale(k) = 0 THEN 1000 ELSE 100]

NVals(k) == LET spe == PresetB(k).SLOTS_PER_EPOCH IN IF k = 1 THEN MaxV ELSE spe + (R1(k, 7) % (MaxV - spe + 1))
EpochB(k) == 2 + (R1(k, 8) % 3)

ValsB(k) ==
    LET e == EpochB(k)
        nv == NVals(k)
        full1 == R1(k, 9) % nv
        full2 == (full1 + 1 + (R1(k, 10) % Max2(1, nv - 1))) % nv
    IN [i1 \in 1 .. nv |->
          IF i1 - 1 = full1 \/ i1 - 1 = full2 THEN [act |-> 0, exit |-> FAR, eff |-> MaxEff(k)]
          ELSE LET sx == R1(k, 100 + i1) % 8
                   eff == EffSet(k)[(R1(k, 200 + i1) % 9) + 1]
               IN CASE sx \in 0 .. 3 -> [act |-> 0, exit |-> FAR, eff |-> eff]
                    [] sx = 4 -> [act |-> e, exit |-> FAR, eff |-> eff]          \* activated this epoch
                    [] sx = 5 -> [act |-> 0, exit |-> e + 1, eff |-> eff]        \* leaves after this epoch
                    [] sx = 6 -> [act |-> e + 1, exit |-> FAR, eff |-> eff]      \* joins next epoch
                    [] sx = 7 -> [act |-> 0, exit |-> e, eff |-> eff]]           \* left: active in prev only

MixesB(k) == [m \in 1 .. 8 |-> [j \in 1 .. 32 |-> (m * 31 + j * 7 + k) % 256]]

SeedDigest(k, what) == [j \in 1 .. 32 |-> (what * 13 + j * 5 + k) % 256]

\* pseudo-random shuffling oracle under `seed` for lists of n entries
ShuffleEntries(k, what, n, seed) ==
    LET R == PresetB(k).SHUFFLE_ROUND_COUNT
        piv == [r \in 0 .. R - 1 |-> IF n = 0 THEN 0 ELSE Rnd(GenSeed + what, k, 300 + r) % n]
        bit == [r \in 0 .. R - 1 |-> [pos \in 0 .. n - 1 |-> Rnd(GenSeed + what, k * 7 + r, pos) % 2]]
    IN IF n = 0 THEN << >> ELSE OracleEntries(n, R, seed, piv, bit, what + k)

\* sampling-byte blocks under `seed`: the first two bytes are the enumerated ones, the last block is all zero
\* (a zero byte is accepted by every balance, so every selection terminates inside the table)
ByteBlocks(k, what, seed, nblocks, b1, b2) ==
    [b \in 1 .. nblocks |->
        << RandomBytePre(seed, (b - 1) * 32),
           [j \in 1 .. 32 |-> IF b = nblocks THEN 0
                              ELSE IF b = 1 /\ j = 1 THEN b1
                              ELSE IF b = 1 /\ j = 2 THEN b2
                              ELSE Rnd(GenSeed + what, k + b, 400 + j) % 256] >>]

EpochsB(k) == << EpochB(k) - 1, EpochB(k), EpochB(k) + 1 >>

TableB(k, b1, b2) ==
    LET P == PresetB(k)
        vals == ValsB(k)
        mixes == MixesB(k)
        es == EpochsB(k)
        e == EpochB(k)
        attSeed(j) == SeedDigest(k, j)                 \* attester seeds of prev, cur, next: 1, 2, 3
        att(j) == << << SeedPre(P, mixes, es[j], DOMAIN_BEACON_ATTESTER), attSeed(j) >> >>
                  \o ShuffleEntries(k, j, Len(ActiveIdx(vals, es[j])), attSeed(j))
        propEpochSeed == SeedDigest(k, 4)
        nCur == Len(ActiveIdx(vals, e))
        slotSeed(s) == SeedDigest(k, 10 + s)
        prop(s) == << << propEpochSeed \o LEBytes(e * P.SLOTS_PER_EPOCH + s, 8), slotSeed(s) >> >>
                   \o ShuffleEntries(k, 10 + s, nCur, slotSeed(s))
                   \o ByteBlocks(k, 10 + s, slotSeed(s), 3, b1, b2)
        RECURSIVE props(_)
        props(s) == IF s >= P.SLOTS_PER_EPOCH THEN << >> ELSE prop(s) \o props(s + 1)
        syncSeed == SeedDigest(k, 5)
        nNext == Len(ActiveIdx(vals, e + 1))
    IN att(1) \o att(2) \o att(3)
       \o << << SeedPre(P, mixes, e, DOMAIN_BEACON_PROPOSER), propEpochSeed >> >> \o props(0)
       \o << << SeedPre(P, mixes, e + 1, DOMAIN_SYNC_COMMITTEE), syncSeed >> >>
       \o ShuffleEntries(k, 5, nNext, syncSeed)
       \o ByteBlocks(k, 5, syncSeed, 4, b1, b2)

InitB == c = 0 /\ st = << >>

NextB ==
    \/ /\ c = 0
       /\ c' \in 1 .. NCases
       /\ st' = << >>
    \/ /\ c > 0 /\ st = << >>
       /\ \E b1 \in BSet(c), b2 \in BSet(c) : st' = << b1, b2 >>
       /\ UNCHANGED c

ExpectedB(k, b1, b2) ==
    LET P == PresetB(k)
        vals == ValsB(k)
        mixes == MixesB(k)
        tbl == TableB(k, b1, b2)
        HT == TableOf(tbl)
        es == EpochsB(k)
        props == EpochProposers(P, vals, mixes, HT, EpochB(k))
        sync == SyncCommitteeIndices(P, vals, mixes, HT, EpochB(k) + 1)
    IN [tag |-> k * 1000000 + b1 * 1000 + b2, P |-> P, epoch |-> EpochB(k),
        vals |-> [i1 \in 1 .. Len(vals) |-> << vals[i1].act, vals[i1].exit, vals[i1].eff >>],
        mixes |-> mixes, table |-> tbl,
        counts |-> [j \in 1 .. 3 |-> CommitteeCountPerSlot(P, Len(ActiveIdx(vals, es[j])))],
        comms |-> [j \in 1 .. 3 |-> EpochCommittees(P, vals, mixes, HT, es[j])],
        proposers |-> [s \in 1 .. P.SLOTS_PER_EPOCH |-> props[s].index],
        sync |-> sync.indices,
        focus |-> [b1 |-> b1, b2 |-> b2, propIters |-> [s \in 1 .. P.SLOTS_PER_EPOCH |-> props[s].iters],
                   syncIters |-> sync.iters]]

InvB ==
    (c > 0 /\ st # << >>) =>
        LET x == ExpectedB(c, st[1], st[2])
            vals == ValsB(c)
            es == EpochsB(c)
            keys == {x.table[j][1] : j \in DOMAIN x.table}
        IN /\ Cardinality(keys) = Len(x.table)           \* no pre-image is given two digests
           /\ \A j \in 1 .. 3 : PartitionOK(x.P, x.comms[j], ActiveIdx(vals, es[j]))
           /\ \A s \in DOMAIN x.proposers : IsActive(vals[x.proposers[s] + 1], EpochB(c))
           /\ Len(x.sync) = x.P.SYNC_COMMITTEE_SIZE
           /\ \A j \in DOMAIN x.sync : IsActive(vals[x.sync[j] + 1], EpochB(c) + 1)
           /\ (Emit => PrintT(<< "CASE", ToJson(x) >>))

(******************************** part C ***********************************)
(* Long rejection runs (INIT InitC / NEXT NextC): small registries (5..7 validators, none with the full balance)    *)
(* whose first K sampling bytes are 255 -- rejected by every balance below MAX_EFFECTIVE_BALANCE -- followed by      *)
(* zeros (accepted by everybody), for K = 33, 40, 65: the proposer of every slot and the sync committee are found  *)
(* only after K rejected candidates, i.e. the candidate counter runs past the first and the second 32-byte block   *)
(* of sampling bytes and wraps around the registry many times.                                                     *)

PresetC(k) ==
    [SLOTS_PER_EPOCH |-> 2 + (k % 2), MAX_COMMITTEES_PER_SLOT |-> 2, TARGET_COMMITTEE_SIZE |-> 1,
     SHUFFLE_ROUND_COUNT |-> 1 + (R1(k, 5) % 2), MAX_EFFECTIVE_BALANCE |-> 32000, SYNC_COMMITTEE_SIZE |-> 4,
     EPOCHS_PER_HISTORICAL_VECTOR |-> 8, MIN_SEED_LOOKAHEAD |-> 1, EPOCHS_PER_SYNC_COMMITTEE_PERIOD |-> 2,
     EFFECTIVE_BALANCE_INCREMENT |-> 1000]

EpochC(k) == 2 + (R1(k, 8) % 3)
ValsC(k, nv) ==
    [i1 \in 1 .. nv |-> [act |-> 0, exit |-> FAR,
                          eff |-> << 31000, 16000, 1000, 24000, 8000, 30000, 2000 >>[((i1 + R1(k, 9)) % 7) + 1]]]

BlocksC(seed, nblocks, K) ==
    [b \in 1 .. nblocks |->
        << RandomBytePre(seed, (b - 1) * 32),
           [j \in 1 .. 32 |-> IF (b - 1) * 32 + (j - 1) < K THEN 255 ELSE 0] >>]

\* like ShuffleEntries, for the presets of part C
ShuffleEntriesC(k, what, n, seed) ==
    LET R == PresetC(k).SHUFFLE_ROUND_COUNT
        piv == [r \in 0 .. R - 1 |-> Rnd(GenSeed + what, k, 300 + r) % n]
        bit == [r \in 0 .. R - 1 |-> [pos \in 0 .. n - 1 |-> Rnd(GenSeed + what, k * 7 + r, pos) % 2]]
    IN OracleEntries(n, R, seed, piv, bit, what + k)

TableC(k, nv, K) ==
    LET P == PresetC(k)
        mixes == MixesB(k)
        e == EpochC(k)
        es == << e - 1, e, e + 1 >>
        att(j) == << << SeedPre(P, mixes, es[j], DOMAIN_BEACON_ATTESTER), SeedDigest(k, j) >> >>
                  \o ShuffleEntriesC(k, j, nv, SeedDigest(k, j))
        propEpochSeed == SeedDigest(k, 4)
        slotSeed(s) == SeedDigest(k, 10 + s)
        nb == (K \div 32) + 2
        prop(s) == << << propEpochSeed \o LEBytes(e * P.SLOTS_PER_EPOCH + s, 8), slotSeed(s) >> >>
                   \o ShuffleEntriesC(k, 10 + s, nv, slotSeed(s)) \o BlocksC(slotSeed(s), nb, K)
        RECURSIVE props(_)
        props(s) == IF s >= P.SLOTS_PER_EPOCH THEN << >> ELSE prop(s) \o props(s + 1)
        syncSeed == SeedDigest(k, 5)
    IN att(1) \o att(2) \o att(3)
       \o << << SeedPre(P, mixes, e, DOMAIN_BEACON_PROPOSER), propEpochSeed >> >> \o props(0)
       \o << << SeedPre(P, mixes, e + 1, DOMAIN_SYNC_COMMITTEE), syncSeed >> >>
       \o ShuffleEntriesC(k, 5, nv, syncSeed) \o BlocksC(syncSeed, nb, K)

InitC == c = 0 /\ st = << >>
NextC ==
    /\ c = 0
    /\ c' \in 1 .. NCases
    /\ \E K \in {33, 40, 65}, nv \in 5 .. 7 : st' = << K, nv >>

ExpectedC(k, K, nv) ==
    LET P == PresetC(k)
        vals == ValsC(k, nv)
        mixes == MixesB(k)
        tbl == TableC(k, nv, K)
        HT == TableOf(tbl)
        e == EpochC(k)
        es == << e - 1, e, e + 1 >>
        props == EpochProposers(P, vals, mixes, HT, e)
        sync == SyncCommitteeIndices(P, vals, mixes, HT, e + 1)
    IN [tag |-> 2 * (k * 1000 + K * 10 + nv) + (nv % 2), P |-> P, epoch |-> e,
        vals |-> [i1 \in 1 .. nv |-> << vals[i1].act, vals[i1].exit, vals[i1].eff >>],
        mixes |-> mixes, table |-> tbl,
        counts |-> [j \in 1 .. 3 |-> CommitteeCountPerSlot(P, nv)],
        comms |-> [j \in 1 .. 3 |-> EpochCommittees(P, vals, mixes, HT, es[j])],
        proposers |-> [s \in 1 .. P.SLOTS_PER_EPOCH |-> props[s].index],
        sync |-> sync.indices,
        focus |-> [b1 |-> 255, b2 |-> 255, rejected |-> K,
                   propIters |-> [s \in 1 .. P.SLOTS_PER_EPOCH |-> props[s].iters], syncIters |-> sync.iters]]

InvC ==
    c > 0 =>
        LET x == ExpectedC(c, st[1], st[2])
        IN /\ Cardinality({x.table[j][1] : j \in DOMAIN x.table}) = Len(x.table)
           \* exactly K candidates are rejected before the first acceptance
           /\ \A s \in DOMAIN x.focus.propIters : x.focus.propIters[s] = st[1] + 1
           /\ x.focus.syncIters = st[1] + x.P.SYNC_COMMITTEE_SIZE
           /\ Len(x.sync) = x.P.SYNC_COMMITTEE_SIZE
           /\ \A j \in 1 .. 3 : PartitionOK(x.P, x.comms[j], ActiveIdx(ValsC(c, st[2]), EpochC(c)))
           /\ (Emit => PrintT(<< "CASE", ToJson(x) >>))

=============================================================================
