\* per-index shuffling at huge list sizes (one state per case)
CONSTANTS
  GenSeed = 1
  NRandom = 2
  Rounds = {1, 2}
  Emit = FALSE
INIT Init
NEXT Next
INVARIANT Inv
CHECK_DEADLOCK FALSE
