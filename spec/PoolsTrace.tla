------------------------------ MODULE PoolsTrace ------------------------------
(***************************************************************************)
(* Validates ndjson traces recorded from the real pools of eth2/pool       *)
(* (harness/cmd/pools) against Pools.tla: every logged reply, Search / All *)
(* result and sync-window snapshot must be one the operators of Pools.tla  *)
(* allow in the current abstract state.  Histories start with a New event. *)
(* A named deviation is used only when no normal outcome matches the       *)
(* event, only when listed in KnownDeviations and only in its pre-state    *)
(* class; each use prints <<"DEV", name, job, line>>.                      *)
(***************************************************************************)
EXTENDS Pools

VARIABLES l, cov

Trace == ndJsonDeserialize("trace.ndjson")
tvars == <<att, keyed, sync, calls, hist, l, cov>>
Keep  == UNCHANGED <<calls, hist>>

CovZero == [histories |-> 0, addSingle |-> 0, addAggregate |-> 0, aggStored |-> 0, aggCovered |-> 0,
            aggAllVoted |-> 0, dupAbsorbed |-> 0, conflictSingle |-> 0, mixSingleAggregate |-> 0,
            search |-> 0, searchNonEmpty |-> 0, searchFiltered |-> 0, searchOmitsMay |-> 0,
            prune |-> 0, pruneRemoves |-> 0, pruneWithSurvivors |-> 0, addAfterPruneSameEpoch |-> 0,
            keyedStore |-> 0, keyedDuplicate |-> 0, allNonEmpty |-> 0,
            syncStore |-> 0, syncRefuse |-> 0, syncBeforeReset |-> 0, syncReplace |-> 0,
            syncRotateKeeps |-> 0, syncRotateDrops |-> 0, syncRotateBack |-> 0, syncJump |-> 0, syncSame |-> 0,
            holdsMoreThan32ps |-> 0, holdsMoreThan32as |-> 0, holdsMoreThan32ex |-> 0,
            holdsMoreThan32aggregatesOfOneData |-> 0, holdsMoreThan32datas |-> 0, holdsMoreThan32singles |-> 0,
            holdsMoreThan32syncMsgs |-> 0, holdsMoreThan32syncContribs |-> 0,
            holdsMoreThan128ps |-> 0, holdsMoreThan128as |-> 0, holdsMoreThan128ex |-> 0,
            illFormedRefused |-> 0,
            select |-> 0, selectNonEmpty |-> 0, selectMemberWithoutMessage |-> 0, selectOtherRoot |-> 0,
            selectDuplicateMember |-> 0, selectEmptyMembers |-> 0, selectFiltersAndKeeps |-> 0,
            packProbeAtt |-> 0, packProbeKeyed |-> 0, packProbeSync |-> 0, devSelectNilMember |-> 0,
            devAggNilMap |-> 0, devSearchNilAgg |-> 0, devSyncNilMap |-> 0]
Bump(c, names) == [f \in DOMAIN c |-> IF f \in names THEN c[f] + 1 ELSE c[f]]
If(b, name) == IF b THEN {name} ELSE {}

TraceInit == Init /\ l = 1 /\ cov = CovZero

TraceNew ==
  /\ Trace[l].ev = "New"
  /\ att' = AttEmpty /\ keyed' = KeyedEmpty /\ sync' = SyncEmpty
  /\ cov' = Bump(cov, {"histories"})

TraceAddAtt ==
  LET e  == Trace[l]
      a  == e.att
      d  == DataOf(a)
      n  == Cardinality(Participants(a))
      c0 == {o \in AttAddOutcomes(att, a) : o.ret = e.ret}
  IN
  /\ e.ev = "AddAtt"
  /\ UNCHANGED <<keyed, sync>>
  /\ IF IllFormed(att, a)
     THEN /\ e.ret \in {"err", "ok"}
          /\ att' = [att EXCEPT !.datas = @ \cup {d}]
          /\ cov' = Bump(cov, {"illFormedRefused"})
     ELSE IF c0 # {}
     THEN \E o \in c0 :
            /\ att' = o.P2
            /\ cov' = Bump(cov, If(n = 1, "addSingle") \cup If(n > 1, "addAggregate")
                        \cup If(n > 1 /\ o.ret = "ok" /\ Core(a) \in o.P2.must, "aggStored")
                        \cup If(n > 1 /\ o.ret = "ok" /\ Core(a) \notin o.P2.must, "aggCovered")
                        \cup If(n > 1 /\ o.ret = "err", "aggAllVoted")
                        \cup If(n = 1 /\ o.ret = "err", "conflictSingle")
                        \cup If(n = 1 /\ o.ret = "err" /\ Cardinality(att.singles) > 32, "holdsMoreThan32singles")
                        \cup If(o.ret = "ok" /\ (Core(a) \in att.acc \/ Core(a) \in att.accS), "dupAbsorbed")
                        \cup If((n > 1 /\ \E s \in att.singles : s.data = d) \/ (n = 1 /\ AggsFor(att, d) # {}),
                                "mixSingleAggregate"))
     ELSE \E o \in AttAddDeviations(att, a) :
            /\ o.ret = e.ret
            /\ att' = o.P2
            /\ cov' = Bump(cov, {"addAggregate", "dev" \o o.dev})
            /\ PrintT(<<"DEV", o.dev, e.job, l>>)

TraceSearch ==
  LET e == Trace[l]
      R == Range(e.res)
  IN
  /\ e.ev = "Search"
  /\ UNCHANGED <<att, keyed, sync>>
  /\ IF e.ret = "ok" /\ SearchOK(att, e.fs, e.fc, R)
     THEN cov' = Bump(cov, {"search"} \cup If(R # {}, "searchNonEmpty")
                            \cup If(R # {} /\ (e.fs # -1 \/ e.fc # -1) /\ R # SearchMay(att, -1, -1), "searchFiltered")
                            \cup If(R # SearchMay(att, e.fs, e.fc), "searchOmitsMay")
                            \cup If(\E x \in R : Cardinality({y \in R : DataOf(y) = DataOf(x)}) > 32,
                                    "holdsMoreThan32aggregatesOfOneData")
                            \cup If(Cardinality({DataOf(x) : x \in R}) > 32, "holdsMoreThan32datas"))
     ELSE /\ e.ret = "panic"
          /\ SearchDeviates(att, e.fs, e.fc)
          /\ cov' = Bump(cov, {"search", "devSearchNilAgg"})
          /\ PrintT(<<"DEV", "SearchNilAgg", e.job, l>>)

TracePrune ==
  LET e  == Trace[l]
      P2 == AttPrune(att, e.epoch)
      size(P) == Cardinality(P.acc) + Cardinality(P.singles)
  IN
  /\ e.ev = "Prune"
  /\ e.ret = "ok"
  /\ att' = P2
  /\ UNCHANGED <<keyed, sync>>
  /\ cov' = Bump(cov, {"prune"} \cup If(size(P2) < size(att), "pruneRemoves")
                       \cup If(size(P2) < size(att) /\ size(P2) > 0, "pruneWithSurvivors"))

TraceAddKeyed ==
  LET e == Trace[l] IN
  /\ e.ev = "AddKeyed"
  /\ \E o \in KeyedAddOutcomes(keyed[e.pool], e.key, e.id) :
       /\ o.ret = e.ret
       /\ keyed' = [keyed EXCEPT ![e.pool] = o.K2]
       /\ cov' = Bump(cov, If(o.K2 # keyed[e.pool], "keyedStore") \cup If(o.K2 = keyed[e.pool], "keyedDuplicate"))
  /\ UNCHANGED <<att, sync>>

TraceAll ==
  LET e == Trace[l] IN
  /\ e.ev = "All"
  /\ e.ret = "ok"
  /\ Range(e.res) = KeyedAll(keyed[e.pool])            \* everything stored, nothing else, nothing altered
  /\ Len(e.res) = Cardinality(Range(e.res))
  /\ cov' = Bump(cov, If(Len(e.res) > 1, "allNonEmpty")
                       \cup If(Len(e.res) > 32, "holdsMoreThan32" \o e.pool)
                       \cup If(Len(e.res) > 128, "holdsMoreThan128" \o e.pool))
  /\ UNCHANGED <<att, keyed, sync>>

(* the snapshot of the real pool shows exactly the abstract window Y2, every item in the buffer of its slot     *)
(* (compared as sets: the same contribution offered twice may be listed twice)                               *)
SnapOK(snap, Y2) ==
  LET ids == {x.id : x \in Range(snap.items)} IN
  /\ snap.cur = Y2.cur
  /\ ids = {x.id : x \in Y2.held}
  /\ Y2.cur # -1 => \A x \in Range(snap.items) : \E it \in Y2.held : it.id = x.id /\ x.buf = BufOf(Y2.cur, it.slot)

TraceSyncAdd ==
  LET e  == Trace[l]
      it == e.item
      c0 == {o \in SyncAddOutcomes(sync, it) : o.ret = e.ret /\ SnapOK(e.snap, o.Y2)}
  IN
  /\ e.ev = "SyncAdd"
  /\ UNCHANGED <<att, keyed>>
  /\ IF c0 # {}
     THEN \E o \in c0 :
            /\ sync' = o.Y2
            /\ cov' = Bump(cov, If(o.ret = "ok", "syncStore") \cup If(o.ret = "err", "syncRefuse")
                                \cup If(sync.cur = -1, "syncBeforeReset")
                                \cup If(o.ret = "ok" /\ SameSender(sync.held, it) # {} /\ it \notin sync.held, "syncReplace"))
     ELSE \E o \in SyncAddDeviations(sync, it) :
            /\ o.ret = e.ret
            /\ SnapOK(e.snap, o.Y2)
            /\ sync' = o.Y2
            /\ cov' = Bump(cov, {"dev" \o o.dev} \cup If(sync.cur = -1, "syncBeforeReset"))
            /\ PrintT(<<"DEV", o.dev, e.job, l>>)

TraceSyncReset ==
  LET e  == Trace[l]
      c0 == {o \in SyncResetOutcomes(sync, e.slot) : o.ret = e.ret /\ SnapOK(e.snap, o.Y2)}
  IN
  /\ e.ev = "SyncReset"
  /\ UNCHANGED <<att, keyed>>
  /\ \E o \in c0 :
       /\ sync' = o.Y2
       /\ cov' = Bump(cov, If(sync.cur # -1 /\ e.slot = sync.cur + 1 /\ o.Y2.held # {}, "syncRotateKeeps")
                           \cup If(sync.cur # -1 /\ e.slot = sync.cur + 1 /\ o.Y2.held # sync.held, "syncRotateDrops")
                           \cup If(sync.cur # -1 /\ e.slot = sync.cur - 1 /\ o.Y2.held # {}, "syncRotateBack")
                           \cup If(sync.cur # -1 /\ e.slot = sync.cur, "syncSame")
                           \cup If(Cardinality({x \in o.Y2.held : x.kind = "msg"}) > 32, "holdsMoreThan32syncMsgs")
                           \cup If(Cardinality({x \in o.Y2.held : x.kind = "contrib"}) > 32, "holdsMoreThan32syncContribs")
                           \cup If(sync.cur # -1 /\ (e.slot > sync.cur + 1 \/ e.slot < sync.cur - 1) /\ sync.held # {},
                                   "syncJump"))

(* harness-side insert into a SyncCommitteeMessages map of its own (msgs[v] = message) *)
TraceSelPut ==
  LET e == Trace[l] IN
  /\ e.ev = "SelPut"
  /\ sync' = [sync EXCEPT !.sel = SelPutInto(@, e.v, e.root, e.id)]
  /\ UNCHANGED <<att, keyed, cov>>

TraceSelect ==
  LET e    == Trace[l]
      want == Select(sync.sel, e.root, e.members)
      ms   == e.members
      missing == \E x \in 1..Len(ms) : ~ \E m \in sync.sel : m.v = ms[x]
  IN
  /\ e.ev = "Select"
  /\ UNCHANGED <<att, keyed, sync>>
  /\ IF e.ret = "ok" /\ e.res = want
     THEN cov' = Bump(cov, {"select"} \cup If(want # <<>>, "selectNonEmpty") \cup If(missing, "selectMemberWithoutMessage")
                           \cup If(\E x \in 1..Len(ms) : \E m \in sync.sel : m.v = ms[x] /\ m.root # e.root, "selectOtherRoot")
                           \cup If(\E x, y \in 1..Len(ms) : x # y /\ ms[x] = ms[y], "selectDuplicateMember")
                           \cup If(ms = <<>>, "selectEmptyMembers")
                           \cup If(want # <<>> /\ Len(want) < Len(ms), "selectFiltersAndKeeps"))
     ELSE /\ e.ret = "panic"
          /\ SelectDeviates(sync.sel, e.members)
          /\ cov' = Bump(cov, {"select", "selectMemberWithoutMessage", "devSelectNilMember"})
          /\ PrintT(<<"DEV", "SelectNilMember", e.job, l>>)

(* Pack* / Packing are unimplemented upstream (stubs returning nothing): nothing to bind, except that the call     *)
(* returns (ok: neither panic nor a lock left behind - the next call would time out) and leaves the pool as it is  *)
TracePack ==
  LET e == Trace[l] IN
  /\ e.ev = "Pack"
  /\ \/ e.ret = "implemented"      \* no longer a stub: the driver ends the history and the runner refuses to judge
     \/ /\ e.ret = "ok"
        /\ e.n = 0
        /\ e.which \in {"contrib", "aggregate"} => SnapOK(e.snap, sync)
  /\ UNCHANGED <<att, keyed, sync>>
  /\ cov' = Bump(cov, If(e.which = "att", "packProbeAtt") \cup If(e.which \in {"ps", "as", "ex"}, "packProbeKeyed")
                       \cup If(e.which \in {"contrib", "aggregate"}, "packProbeSync"))

TraceEnd == /\ l = Len(Trace) + 1
            /\ PrintT(<<"COV", ToJson(cov)>>)
            /\ UNCHANGED <<att, keyed, sync, cov>>

TraceNext ==
  /\ l' = l + 1
  /\ Keep
  /\ \/ l <= Len(Trace) /\ (TraceNew \/ TraceAddAtt \/ TraceSearch \/ TracePrune \/ TraceAddKeyed \/ TraceAll
                            \/ TraceSyncAdd \/ TraceSyncReset \/ TraceSelPut \/ TraceSelect \/ TracePack)
     \/ TraceEnd

TraceAccepted ==
  LET d == TLCGet("stats").diameter IN
  IF d - 2 = Len(Trace) THEN TRUE
  ELSE Print(<<"TRACE-REJECTED at line", d, "of", Len(Trace)>>, FALSE)
=============================================================================
