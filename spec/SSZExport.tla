----------------------------- MODULE SSZExport -----------------------------
(* Exports the schema table of every preset as JSON: the one source shared by TLC and the Go harness. *)
EXTENDS Schemas, Json

ExportPreset(p) ==
    LET t == SchemaTable(p)
    IN [preset |-> p,
        types  |-> [i \in 1..Len(t) |->
                      [name |-> t[i][1], schema |-> t[i][2], public |-> t[i][3], src |-> t[i][4],
                       fixed |-> IsFixed(t[i][2]), fixedlen |-> FixedLen(t[i][2])]]]

ASSUME \A i \in 1..Len(Presets) :
          JsonSerialize("schemas_" \o Presets[i].name \o ".json", ExportPreset(Presets[i]))

\* sanity of the table itself: names unique, same names under every preset
ASSUME \A i \in 1..Len(Presets) :
          LET n == TypeNames(Presets[i])
          IN /\ Cardinality({n[k] : k \in 1..Len(n)}) = Len(n)
             /\ n = TypeNames(Presets[1])

VARIABLE done
Init == done = FALSE
Next == ~done /\ done' = TRUE
=============================================================================
