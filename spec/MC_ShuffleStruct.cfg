\* structured corner cases around multiples of 8 / 256 (one state per case); Emit = TRUE prints them
CONSTANTS
  MaxN = 0
  MinN = 0
  MaxR = 0
  Emit = FALSE
  GenSizes = {2, 3, 8, 9, 255, 256, 257, 258, 511, 512, 513, 514}
  GenRounds = {1, 2}
  GenSeed = 1
  NRandom = 0
  RandMaxN = 2
INIT InitGen
NEXT NextStructured
INVARIANTS
  InvDerived
  InvBig
  InvCodec
CONSTRAINT EmitCase
CHECK_DEADLOCK FALSE
