------------------------------- MODULE Helpers -------------------------------
(***************************************************************************)
(* C19: postconditions of zrnt's numeric / time / Merkle helpers, stated   *)
(* over limb-encoded naturals (BigNat) so that the full uint64 domain is   *)
(* covered.  Transcribed from the consensus specification (phase0          *)
(* beacon-chain.md: integer_squareroot, compute_epoch_at_slot,             *)
(* compute_start_slot_at_epoch, compute_activation_exit_epoch,             *)
(* get_validator_churn_limit, get_committee_count_per_slot,                *)
(* is_valid_merkle_branch; deneb: get_validator_activation_churn_limit;    *)
(* bellatrix: compute_timestamp_at_slot; p2p-interface: propagation slot   *)
(* range check), NOT from zrnt.                                            *)
(*                                                                         *)
(* One call of a helper is one EVENT record                                *)
(*     [fn, a (sequence of BigNat arguments), out \in {"ok","err","panic"},*)
(*      r (BigNat result; booleans are One/Zero), ...fn specific fields]   *)
(* and Post(e) says whether the observed outcome is allowed.  The same     *)
(* operator is used in both directions:                                    *)
(*   HelpersEnum.tla  : TLC enumerates arguments, computes the value,      *)
(*                      asserts Post, emits the events; Go replays them.   *)
(*   HelpersTrace.tla : Go records calls of the real functions, TLC        *)
(*                      evaluates Post on every recorded event.            *)
(*                                                                         *)
(* What is demanded follows the statement of C19:                          *)
(*  - never "panic" for arguments in the documented domain (divisor        *)
(*    parameters of the configuration are non-zero; that is the only       *)
(*    domain restriction);                                                 *)
(*  - the mathematical value whenever it fits 64 bits;                     *)
(*  - functions that HAVE an error result (TimeAtSlot, EpochStartSlot,     *)
(*    CheckSlotSpan) return "err" iff the value does not fit; functions    *)
(*    WITHOUT one are unconstrained when the value does not fit;           *)
(*  - NextPowerOfTwo(0) = 0 (pinned by the repository's own test table).   *)
(***************************************************************************)
EXTENDS BigNat, TLC

Bool(b) == IF b THEN One ELSE Zero
Two == <<2>>

IsFloorSqrt(n, r) == Le(Mul(r, r), n) /\ Lt(n, Mul(Succ(r), Succ(r)))

(* r = max(lo, floor(n/d)) without computing the division *)
IsMaxWithQuot(lo, n, d, r) ==
    /\ Le(lo, r)
    /\ Lt(n, Mul(Succ(r), d))                 \* floor(n/d) <= r
    /\ (r = lo \/ Le(Mul(r, d), n))           \* r = lo or r <= floor(n/d)

(* get_validator_activation_churn_limit (deneb):
     min(MAX_PER_EPOCH_ACTIVATION_CHURN_LIMIT, get_validator_churn_limit(state))
   with get_validator_churn_limit = max(MIN_PER_EPOCH_CHURN_LIMIT, active // CHURN_LIMIT_QUOTIENT).
   There is NO lower clamp: a cap below the minimum churn (also 0) is the result. *)
IsActivationChurn(active, lo, d, cap, r) ==
    LET capLeChurn == Le(cap, lo) \/ Le(Mul(cap, d), active)   \* cap <= max(lo, floor(active/d))
    IN  IF capLeChurn THEN r = cap ELSE IsMaxWithQuot(lo, active, d, r)

(* get_committee_count_per_slot:
   max(1, min(MAX_COMMITTEES_PER_SLOT, active // SLOTS_PER_EPOCH // TARGET_COMMITTEE_SIZE))
   with floor(floor(a/x)/y) = floor(a/(x*y)) *)
IsCommitteeCount(active, spe, tcs, maxc, r) ==
    LET D == Mul(spe, tcs)
        cGeMaxc == Le(Mul(maxc, D), active)   \* c >= maxc, c = floor(active/D)
    IN  IF cGeMaxc THEN r = MaxB(One, maxc)
        ELSE IF Lt(active, D) THEN r = One    \* c = 0
        ELSE IsQuot(active, D, r)             \* 1 <= c < maxc

(* ---------------- Merkle branch over a hash ORACLE ---------------- *)
(* tab is a sequence of triples <<left, right, hash>> of opaque value ids.
   A pair that is not in the table hashes to Unknown, which is absorbing
   and different from every id: sound when the table contains the pre-image
   pair of every tree node / candidate root the harness built (collision
   resistance), and exact when the table is total (TLC-chosen oracle). *)
Unknown == "?"

HLookup(tab, l, r) ==
    IF l = Unknown \/ r = Unknown THEN Unknown
    ELSE LET S == {i \in DOMAIN tab : tab[i][1] = l /\ tab[i][2] = r}
         IN  IF S = {} THEN Unknown ELSE tab[CHOOSE i \in S : TRUE][3]

TabIsFunction(tab) ==
    \A i, j \in DOMAIN tab : (tab[i][1] = tab[j][1] /\ tab[i][2] = tab[j][2]) => tab[i][3] = tab[j][3]

RECURSIVE MerkleFold(_, _, _, _, _, _)
\* is_valid_merkle_branch: for i in range(depth): bit i of index set ? hash(branch[i] + value) : hash(value + branch[i])
MerkleFold(tab, value, branch, index, i, depth) ==
    IF i = depth THEN value
    ELSE LET sib == branch[i + 1]
             nv == IF Bit(index, i) = 1 THEN HLookup(tab, sib, value) ELSE HLookup(tab, value, sib)
         IN  MerkleFold(tab, nv, branch, index, i + 1, depth)

MerkleAccepts(tab, leaf, branch, depth, index, root) ==
    /\ Le(depth, FromInt(Len(branch)))        \* a branch shorter than depth does not hash to anything
    /\ MerkleFold(tab, leaf, branch, index, 0, ToInt(depth)) = root

(* ---------------- bytes ---------------- *)
RECURSIVE XorN(_, _)
XorN(x, y) == IF x = 0 THEN y ELSE IF y = 0 THEN x
              ELSE (((x % 2) + (y % 2)) % 2) + (2 * XorN(x \div 2, y \div 2))

(* ---------------- the postcondition of one event ---------------- *)
Ok(e) == e.out = "ok"
A(e, i) == e.a[i]

PostExactOrErr(e, exact) ==     \* functions with an error result
    IF FitsU64(exact) THEN Ok(e) /\ e.r = exact ELSE e.out = "err"

PostExactIfFits(e, exact) ==    \* functions without an error result
    Ok(e) /\ (FitsU64(exact) => e.r = exact)

Post(e) ==
    CASE e.fn = "MaxU64" -> Ok(e) /\ e.r = MaxB(A(e, 1), A(e, 2))
      [] e.fn = "MinU64" -> Ok(e) /\ e.r = MinB(A(e, 1), A(e, 2))
      [] e.fn = "IntegerSquareroot" -> Ok(e) /\ IsFloorSqrt(A(e, 1), e.r)
      [] e.fn = "IntegerSquareRootPrysm" -> Ok(e) /\ IsFloorSqrt(A(e, 1), e.r)
      [] e.fn = "IsPowerOfTwo" -> Ok(e) /\ e.r = Bool(IsPow2(A(e, 1)))
      [] e.fn = "NextPowerOfTwo" ->
            LET n == A(e, 1) IN
            /\ Ok(e)
            /\ (n = Zero => e.r = Zero)
            /\ (n # Zero /\ Le(n, Pow2(63)) =>
                    IsPow2(e.r) /\ Le(n, e.r) /\ Lt(e.r, Mul(Two, n)))
      \* a = <<t, genesis, SECONDS_PER_SLOT>>; no error result; t < genesis has no spec value
      [] e.fn = "TimeToSlot" ->
            /\ Ok(e)
            /\ (Le(A(e, 2), A(e, 1)) => IsQuot(Sub(A(e, 1), A(e, 2)), A(e, 3), e.r))
      \* a = <<slot, genesis, SECONDS_PER_SLOT>>; compute_timestamp_at_slot
      [] e.fn = "TimeAtSlot" -> PostExactOrErr(e, Add(Mul(A(e, 1), A(e, 3)), A(e, 2)))
      \* a = <<slot, SLOTS_PER_EPOCH>>
      [] e.fn = "SlotToEpoch" -> Ok(e) /\ IsQuot(A(e, 1), A(e, 2), e.r)
      [] e.fn = "SlotPrevious" -> Ok(e) /\ e.r = (IF A(e, 1) = Zero THEN Zero ELSE Pred(A(e, 1)))
      [] e.fn = "EpochPrevious" -> Ok(e) /\ e.r = (IF A(e, 1) = Zero THEN Zero ELSE Pred(A(e, 1)))
      \* a = <<epoch, SLOTS_PER_EPOCH>>; compute_start_slot_at_epoch
      [] e.fn = "EpochStartSlot" -> PostExactOrErr(e, Mul(A(e, 1), A(e, 2)))
      \* a = <<epoch, MAX_SEED_LOOKAHEAD>>; compute_activation_exit_epoch
      [] e.fn = "ComputeActivationExitEpoch" -> PostExactIfFits(e, Add(Succ(A(e, 1)), A(e, 2)))
      \* a = <<active, MIN_PER_EPOCH_CHURN_LIMIT, CHURN_LIMIT_QUOTIENT>>; get_validator_churn_limit
      [] e.fn = "GetChurnLimit" -> Ok(e) /\ IsMaxWithQuot(A(e, 2), A(e, 1), A(e, 3), e.r)
      \* a = <<phase0 churn limit, MAX_PER_EPOCH_ACTIVATION_CHURN_LIMIT>>; get_validator_activation_churn_limit
      [] e.fn = "ActivationChurnLimit" -> Ok(e) /\ e.r = MinB(A(e, 2), A(e, 1))
      \* a = <<active, MIN_PER_EPOCH_CHURN_LIMIT, CHURN_LIMIT_QUOTIENT, MAX_PER_EPOCH_ACTIVATION_CHURN_LIMIT>>;
      \* the helper composed with get_validator_churn_limit exactly as process_registry_updates uses it, under a
      \* configuration that carries all three parameters (cap below / equal to / above the minimum churn)
      [] e.fn = "ValidatorActivationChurnLimit" ->
            Ok(e) /\ IsActivationChurn(A(e, 1), A(e, 2), A(e, 3), A(e, 4), e.r)
      \* a = <<active, SLOTS_PER_EPOCH, TARGET_COMMITTEE_SIZE, MAX_COMMITTEES_PER_SLOT>>
      [] e.fn = "CommitteeCount" -> Ok(e) /\ IsCommitteeCount(A(e, 1), A(e, 2), A(e, 3), A(e, 4), e.r)
      \* a = <<slot, span, minSlot (clock - disparity), maxSlot (clock + disparity)>>
      \* accepted iff minSlot <= slot + span /\ slot <= maxSlot; if slot+span is not representable the
      \* error result may be used, a success is allowed only when it is the mathematical answer
      [] e.fn = "CheckSlotSpan" ->
            LET sum == Add(A(e, 1), A(e, 2))
                inRange == Le(A(e, 3), sum) /\ Le(A(e, 1), A(e, 4))
            IN  IF FitsU64(sum) THEN (IF inRange THEN Ok(e) ELSE e.out = "err")
                ELSE e.out = "err" \/ (Ok(e) /\ inRange)
      \* a = <<epoch>>, act/exit = per-validator epochs, idx = returned indices (0-based, small ints)
      [] e.fn = "ActiveIndices" ->
            /\ Ok(e)
            /\ Len(e.act) = Len(e.exit)
            /\ LET want == {i \in 1..Len(e.act) : Le(e.act[i], A(e, 1)) /\ Lt(A(e, 1), e.exit[i])}
               IN  /\ {e.idx[k] + 1 : k \in DOMAIN e.idx} = want
                   /\ \A k \in 1..(Len(e.idx) - 1) : e.idx[k] < e.idx[k + 1]
      \* a = <<depth, index>>
      [] e.fn = "VerifyMerkleBranch" ->
            /\ Assert(TabIsFunction(e.tab), <<"hash table is not a function", e>>)
            /\ Ok(e)
            /\ e.r = Bool(MerkleAccepts(e.tab, e.leaf, e.branch, A(e, 1), A(e, 2), e.root))
      [] e.fn = "XorBytes32" ->
            /\ Ok(e)
            /\ Len(e.x) = 32 /\ Len(e.y) = 32 /\ Len(e.z) = 32
            /\ \A i \in 1..32 : e.z[i] = XorN(e.x[i], e.y[i])
      \* h = bytes returned by zrnt, o = SHA-256 of the same input from the oracle (crypto/sha256)
      [] e.fn \in {"Hash", "HashRepeat"} -> Ok(e) /\ e.h = e.o
      [] OTHER -> Assert(FALSE, <<"unknown helper", e.fn>>)

=============================================================================
