--------------------------- MODULE GossipValTrace ---------------------------
(* Validates what zrnt's gossip validators answered (harness/cmd/gossip) against GossipVal.tla.     *)
(* One ndjson event per validated message; histories (sequences sharing the seen-caches) start with *)
(* a "Reset" event. For every message the harness logs its CLAIM about each condition of the p2p    *)
(* specification (cond), the cache keys, the verdict zrnt returned and the Mark* calls zrnt made.   *)
(* The model keeps its own seen-caches and checks                                                   *)
(*   - the cond vector names exactly the cache-independent conditions of the topic's table,         *)
(*   - the harness's cache agrees with the model's ("pre"),                                         *)
(*   - Correct(seen, m, verdict, marks).                                                            *)
(* A failing event is first tried against the named deviations listed in KnownDeviations (known     *)
(* findings: each matches one precisely described case class), then reported as MISMATCH. After a   *)
(* deviation or mismatch the model adopts the marks zrnt really made, so the rest of the history is *)
(* judged against the cache state the node is really in.                                            *)
EXTENDS GossipVal, Json

CONSTANT KnownDeviations

Trace == ndJsonDeserialize("trace.ndjson")

VARIABLES l, seen
tvars == <<l, seen>>

E == Trace[l]
ToSet(s) == {s[i] : i \in DOMAIN s}

Msg == [topic |-> E.topic,
        cond |-> [n \in DOMAIN E.cond |-> E.cond[n] = 1],
        key |-> [k \in DOMAIN E.key |-> ToSet(E.key[k])]]
LoggedMarks == {<<p[1], p[2]>> : p \in ToSet(E.marks)}

WellFormed == /\ E.topic \in Topics
              /\ DOMAIN E.cond = CondNames(E.topic)
              /\ DOMAIN E.key = CachesOf(E.topic)
              /\ DOMAIN E.pre = CachesOf(E.topic)

\* the harness's claim about subnet membership is recomputed from ALL committee seats of the validator / aggregator
SeatsAgree ==
    CASE E.topic = "syncmsg" -> Msg.cond["subnet_valid"] = SubnetValid(ToSet(E.seats), E.subsize, E.subnet)
      [] E.topic = "contrib" /\ Msg.cond["subcommittee_index"] ->
            Msg.cond["aggregator_in_subcommittee"] = SubnetValid(ToSet(E.seats), E.subsize, E.subnet)
      [] OTHER -> TRUE

\* the harness's claim about an exit's signature is recomputed from the domain rule (a function of the epochs)
ExitSigAgrees == (E.topic = "exit" /\ Msg.cond["index_known"]) => (Msg.cond["signature"] = ExitSignatureValid(E.xdom))

PreAgrees == \A k \in CachesOf(E.topic) : (E.pre[k] = 1) = (Msg.key[k] \ seen[k] # {})

FailNames(m) == {r.n : r \in Failing(seen, m)}

\* ---------------------------------------------------------------- named deviations (known findings)
\* Each is a precise case class: topic, exactly which conditions fail, structural variant, what zrnt does.
Dev(d, m, v, marks) ==
  CASE d = "gossip-agg-outer-sig-truncated" ->
         \* ValidateAggregateAndProof verifies the outer signature over the first two bytes of the signing root:
         \* (a) every aggregate with a correct outer signature is REJECTed at that check,
         \* (b) one whose outer signature was made over that 2-byte prefix passes it.
         /\ m.topic = "agg"
         /\ \/ (FailNames(m) = {} /\ v = "REJECT" /\ marks = {} /\ E.variant # "outer-sig-prefix2")
            \/ (FailNames(m) = {"outer_signature"} /\ E.variant = "outer-sig-prefix2" /\ v = "ACCEPT" /\ marks = KeysOf(m))
    [] d = "gossip-block-mark-before-proposer-check" ->
         \* ValidateBeaconBlock marks (slot, proposer) right after the signature check, before the
         \* expected-proposer check: a block refused for its proposer index still occupies the cache.
         /\ m.topic = "block" /\ FailNames(m) = {"expected_proposer"} /\ v # "ACCEPT" /\ marks = KeysOf(m)
    [] d = "gossip-att-target-any-ancestor" ->
         \* ValidateAttestation only checks that the voted block is in the subtree of target.root, not that
         \* target.root is the checkpoint block of target.epoch: an older ancestor is ACCEPTed.
         /\ m.topic = "att" /\ FailNames(m) = {"target_ancestor"} /\ E.variant = "target-older-ancestor"
         /\ v = "ACCEPT" /\ marks = KeysOf(m)
    [] d = "gossip-agg-target-unchecked" ->
         \* ValidateAggregateAndProof has no target/ancestor check at all.
         /\ m.topic = "agg" /\ FailNames(m) \subseteq {"target_ancestor", "outer_signature"} /\ "target_ancestor" \in FailNames(m)
         /\ E.variant \in {"target-older-ancestor", "target-other-branch", "target-older-ancestor+outer-sig-prefix2", "target-other-branch+outer-sig-prefix2"}
         /\ ("outer_signature" \in FailNames(m)) = (E.variant \in {"target-older-ancestor+outer-sig-prefix2", "target-other-branch+outer-sig-prefix2"})
         /\ v = "ACCEPT" /\ marks = KeysOf(m)
    [] d = "gossip-sync-previous-slot" ->
         \* CheckSlotSpan(slot, 1) admits the previous slot: sync messages / contributions one slot old are ACCEPTed.
         /\ m.topic \in {"syncmsg", "contrib"} /\ FailNames(m) = {"current_slot"} /\ E.variant = "previous-slot"
         /\ v = "ACCEPT" /\ marks = KeysOf(m)
    [] d = "gossip-att-window-deneb" ->
         \* From deneb on (EIP-7045) the window is "current or previous epoch"; zrnt keeps the 32-slot range.
         /\ m.topic \in {"att", "agg"} /\ E.variant \in {"deneb-window", "deneb-window+outer-sig-prefix2"}
         /\ FailNames(m) \subseteq {"slot_window", "outer_signature"} /\ "slot_window" \in FailNames(m)
         /\ ("outer_signature" \in FailNames(m)) = (E.variant = "deneb-window+outer-sig-prefix2")
         /\ \/ v = "ACCEPT" /\ marks = KeysOf(m)
            \* while the outer-signature finding is open, such an aggregate (not stopped at the window check)
            \* with a CORRECT outer signature is REJECTed at the outer-signature check instead
            \/ /\ m.topic = "agg" /\ "gossip-agg-outer-sig-truncated" \in KnownDeviations
               /\ FailNames(m) = {"slot_window"} /\ v = "REJECT" /\ marks = {}
    [] d = "gossip-block-later-fork-conditions" ->
         \* ValidateBeaconBlock implements neither the bellatrix payload-timestamp nor the deneb blob-count condition.
         /\ m.topic = "block" /\ FailNames(m) # {} /\ FailNames(m) \subseteq {"payload_timestamp", "blob_count"}
         /\ v = "ACCEPT" /\ marks = KeysOf(m)
    [] d = "gossip-sync-period-boundary" ->
         \* At the last slot of a sync-committee period the specification selects the NEXT committee
         \* (compute_subnets_for_sync_committee uses the epoch of slot+1); zrnt always uses the current one.
         /\ m.topic \in {"syncmsg", "contrib"}
         /\ E.variant \in {"period-boundary", "period-boundary+single-participant", "period-boundary-old-committee"}
         /\ \/ (E.variant # "period-boundary-old-committee" /\ FailNames(m) = {} /\ v = "REJECT" /\ marks = {})
            \/ (E.variant = "period-boundary-old-committee" /\ FailNames(m) = {"subnet_valid"} /\ v = "ACCEPT" /\ marks = KeysOf(m))
    [] d = "gossip-contrib-single-participant" ->
         \* SyncCommitteeSubnetBits.OnesCount counts a bitVECTOR with the bitLIST routine (which drops the
         \* highest set bit as delimiter): a contribution with exactly one participant "has none".
         /\ m.topic = "contrib" /\ E.variant \in {"single-participant", "period-boundary+single-participant"}
         /\ FailNames(m) = {} /\ v = "REJECT" /\ marks = {}
    [] d = "gossip-exit-deneb-domain" ->
         \* ValidateVoluntaryExit always applies phase0's rule get_domain(state, VOLUNTARY_EXIT, epoch); from
         \* deneb on (EIP-7044) exits are signed under the capella fork version.
         /\ m.topic = "exit"
         /\ \/ (E.variant = "deneb-exit-capella-domain" /\ FailNames(m) = {} /\ v = "REJECT" /\ marks = {})
            \/ (E.variant = "deneb-exit-state-domain" /\ FailNames(m) = {"signature"} /\ v = "ACCEPT" /\ marks = KeysOf(m))
    [] d = "gossip-aslash-partial-mark" ->
         \* ValidateAttesterSlashing marks only the still-slashable part of the intersection.
         /\ m.topic = "aslash" /\ v = "ACCEPT" /\ FailNames(m) = {} /\ marks \subseteq KeysOf(m) /\ marks # {} /\ marks # KeysOf(m)
    [] OTHER -> FALSE

Explaining(m, v, marks) == {d \in KnownDeviations : Dev(d, m, v, marks)}

Report(kind, what, exp) ==
    PrintT(<<kind, l, E.h, E.i, E.topic, what, exp, E.verdict, E.marks>>)

Init == l = 1 /\ seen = EmptySeen /\ TLCSet(1, 1)

Adopt(marks) == seen' = Marked(seen, marks)

DoReset == /\ E.ev = "Reset"
           /\ seen' = EmptySeen
           /\ l' = l + 1

DoMsg ==
    /\ E.ev = "Msg"
    /\ l' = l + 1
    /\ IF ~WellFormed
       THEN Report("MISMATCH", "malformed event", <<CondNames(E.topic), CachesOf(E.topic)>>) /\ UNCHANGED seen
       ELSE LET m == Msg
                marks == LoggedMarks
                v == E.verdict
            IN  IF E.out # "ok"
                THEN Report("MISMATCH", "outcome " \o E.out, Allowed(seen, m)) /\ Adopt(marks)
                ELSE IF ~SeatsAgree
                THEN Report("MISMATCH", "subnet claim differs from the subnets of all committee seats",
                            <<E.seats, E.subsize, E.subnet>>) /\ Adopt(marks)
                ELSE IF ~ExitSigAgrees
                THEN Report("MISMATCH", "signature claim differs from the exit domain rule", E.xdom) /\ Adopt(marks)
                ELSE IF ~PreAgrees
                THEN Report("MISMATCH", "harness cache state differs from the model", seen) /\ Adopt(marks)
                ELSE IF Correct(seen, m, v, marks)
                THEN Adopt(marks)
                ELSE LET ds == Explaining(m, v, marks) IN
                     IF ds # {}
                     THEN Report("DEVIATION", ds, FailNames(m)) /\ Adopt(marks)
                     ELSE Report("MISMATCH", FailNames(m), <<Allowed(seen, m), "marks iff ACCEPT", KeysOf(m)>>) /\ Adopt(marks)

Next == /\ l <= Len(Trace)
        /\ (DoReset \/ DoMsg)
        /\ TLCSet(1, l')

Spec == Init /\ [][Next]_tvars

TraceAccepted == TLCGet(1) = Len(Trace) + 1
=============================================================================
