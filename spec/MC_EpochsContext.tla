-------------------------- MODULE MC_EpochsContext --------------------------
(***************************************************************************)
(* The incremental-maintenance machine of C08 (model checking only).       *)
(*                                                                         *)
(* st  : abstract registry state                                           *)
(*   epoch, vals (registry, see EpochsContext.tla), mix (randao mix id per *)
(*   epoch), fork ("phase0" | "altair"), sc / sn (pubkeys of the state's   *)
(*   current / next sync committee, <<>> before altair)                    *)
(* epc : the cached context, maintained the way zrnt's API structure does  *)
(*   prev, cur, next  shufflings = UNINTERPRETED function applications,    *)
(*                    represented by their arguments [epoch, active, seed] *)
(*   props            proposers, uninterpreted of [epoch, active, effs,    *)
(*                    seed]                                                *)
(*   eff, total, sqrt effective balances / total active stake / its sqrt   *)
(*   sc, sn           sync-committee validator indices (NoSync pre-altair) *)
(*   k2i, i2k         pubkey cache                                         *)
(*                                                                         *)
(* Two records of arguments are equal iff the arguments are equal, so      *)
(* "epc = FromScratch(st)" can only fail when the incremental path fed a   *)
(* different argument to shuffling / proposer selection than the           *)
(* from-scratch path would (stale active set, stale seed, stale balances). *)
(*                                                                         *)
(* Invariant Matches is checked after every action. The Flaw_* switches    *)
(* (all FALSE in MC_EpochsContext.cfg) remove one maintenance step each;   *)
(* every one of them must make TLC find a violation (vacuity guard).       *)
(* Lookahead constants: MinLA = MIN_SEED_LOOKAHEAD, MaxLA =                *)
(* MAX_SEED_LOOKAHEAD. With MinLA = 0 the next-epoch shuffling would       *)
(* depend on the still-changing mix of the current epoch and with          *)
(* MaxLA = 0 exits would take effect in the next epoch: both make the      *)
(* cached next shuffling go stale (TLC finds it) - the design is sound     *)
(* only because both are >= 1.                                             *)
(***************************************************************************)
EXTENDS EpochsContext

CONSTANTS NV,          \* maximum registry size
          NGenesis,    \* validators active at genesis
          MaxEpoch,    \* explore epochs 0..MaxEpoch
          MinLA, MaxLA,
          Period,      \* EPOCHS_PER_SYNC_COMMITTEE_PERIOD
          AltairEpoch, \* epoch of the upgrade (may exceed MaxEpoch: never)
          KnownDeviations,
          Flaw_StaleNext, Flaw_NoProposerReload, Flaw_NoStakeReload, Flaw_StakeReloadOnlyIfEffChanged, Flaw_NoSyncRotate,
          Flaw_NoPubkeyExtend, Flaw_NoSyncLoadOnUpgrade

VARIABLES st, epc, nAtEpochStart
vars == <<st, epc, nAtEpochStart>>

Inc == 1            \* EFFECTIVE_BALANCE_INCREMENT in model units
NoSync == <<"nosync">>

---------------------------------------------------------------------------
(* from scratch *)
MixFor(s, ep) == LET m == ep - MinLA - 1 IN IF m < 0 THEN <<"genesis", m>> ELSE <<m, s.mix[m]>>
Shuf(s, ep) == [epoch |-> ep, active |-> ActiveIndices(s.vals, ep), seed |-> <<"attester", ep, MixFor(s, ep)>>]
\* proposer selection reads the effective balances of the candidates (the active validators) only
Props(s, active) == [epoch |-> s.epoch, active |-> active,
                     effs |-> [i \in 1..Len(active) |-> s.vals[active[i] + 1].e],
                     seed |-> <<"proposer", s.epoch, MixFor(s, s.epoch)>>]
KeyToIndex(vals) == [k \in {vals[i].k : i \in 1..Len(vals)} |-> IndexOfKey(vals, k)]
IndexToKey(vals) == [i \in 1..Len(vals) |-> vals[i].k]

FromScratch(s) ==
    [prev  |-> Shuf(s, PrevEpochOf(s.epoch)),
     cur   |-> Shuf(s, s.epoch),
     next  |-> Shuf(s, s.epoch + 1),
     props |-> Props(s, ActiveIndices(s.vals, s.epoch)),
     eff   |-> EffBalances(s.vals),
     total |-> TotalActive(s.vals, s.epoch, Inc),
     sqrt  |-> ISqrt(TotalActive(s.vals, s.epoch, Inc)),
     sc    |-> IF s.fork = "phase0" THEN NoSync ELSE SyncIndices(s.vals, s.sc),
     sn    |-> IF s.fork = "phase0" THEN NoSync ELSE SyncIndices(s.vals, s.sn),
     k2i   |-> KeyToIndex(s.vals),
     i2k   |-> IndexToKey(s.vals)]

\* zrnt keeps EffectiveBalances as loaded at the epoch start; validators appended by deposits
\* later in the epoch are missing until the next rotation (finding epc-eff-short-after-deposit).
EffOK(c, f) ==
    \/ c.eff = f.eff
    \/ /\ "epc-eff-short-after-deposit" \in KnownDeviations
       /\ Len(c.eff) < Len(f.eff) /\ Len(c.eff) >= nAtEpochStart
       /\ c.eff = SubSeq(f.eff, 1, Len(c.eff))

Matches == LET f == FromScratch(st) IN
           /\ [epc EXCEPT !.eff = <<>>] = [f EXCEPT !.eff = <<>>]
           /\ EffOK(epc, f)

---------------------------------------------------------------------------
(* the state *)
Genesis ==
    [epoch |-> 0,
     vals  |-> [i \in 1..NGenesis |-> [a |-> 0, x |-> FAR, e |-> 2, s |-> 0, k |-> i]],
     mix   |-> [m \in 0..(MaxEpoch + 2) |-> 0],
     fork  |-> IF AltairEpoch = 0 THEN "altair" ELSE "phase0",
     sc    |-> IF AltairEpoch = 0 THEN <<1, 2>> ELSE <<>>,
     sn    |-> IF AltairEpoch = 0 THEN <<2, 1>> ELSE <<>>]

Init == /\ st = Genesis
        /\ epc = FromScratch(Genesis)
        /\ nAtEpochStart = NGenesis

ActivationExitEpoch(ep) == ep + 1 + MaxLA
N == Len(st.vals)

\* hydrate a sync committee through the pubkey CACHE (not the registry)
Hydrate(c, keys) == [j \in 1..Len(keys) |-> IF keys[j] \in DOMAIN c.k2i THEN c.k2i[keys[j]] ELSE -1]

---------------------------------------------------------------------------
(* mid-epoch (block) actions: the registry changes, the context is maintained as zrnt does *)

\* process_randao: the mix of the current epoch changes; no context maintenance
Reveal == /\ st.mix[st.epoch] < 1
          /\ st' = [st EXCEPT !.mix[st.epoch] = @ + 1]
          /\ UNCHANGED <<epc, nAtEpochStart>>

\* initiate_validator_exit (voluntary exit, or as part of a slashing)
InitiateExit(v) == IF v.x = FAR THEN [v EXCEPT !.x = ActivationExitEpoch(st.epoch)] ELSE v
StaysAlive == Len(ActiveIndices(st.vals, ActivationExitEpoch(st.epoch))) > 1   \* zrnt needs >= 1 active validator
Exit(i) == /\ IsActive(st.vals[i], st.epoch) /\ st.vals[i].x = FAR /\ StaysAlive
           /\ st' = [st EXCEPT !.vals[i] = InitiateExit(@)]
           /\ UNCHANGED <<epc, nAtEpochStart>>
Slash(i) == /\ IsActive(st.vals[i], st.epoch) /\ StaysAlive /\ \A j \in 1..N : st.vals[j].s = 0   \* at most one slashing per history
            /\ st' = [st EXCEPT !.vals[i] = [InitiateExit(@) EXCEPT !.s = 1]]
            /\ UNCHANGED <<epc, nAtEpochStart>>

\* process_deposit of a new pubkey: validator appended (not active); ProcessDeposit extends the pubkey cache
Deposit == /\ N < NV
           /\ LET k == N + 1
                  v == [a |-> FAR, x |-> FAR, e |-> 2, s |-> 0, k |-> k] IN
              /\ st' = [st EXCEPT !.vals = Append(@, v)]
              \* since fix c7c81ac ProcessDeposit also appends the new validator's effective balance to the cached list;
              \* with the (now closed) finding epc-eff-short-after-deposit listed, the model shows the old behaviour
              /\ epc' = IF Flaw_NoPubkeyExtend THEN epc
                        ELSE [epc EXCEPT !.k2i = [kk \in DOMAIN @ \cup {k} |-> IF kk = k THEN N ELSE @[kk]],
                                         !.i2k = Append(@, k),
                                         !.eff = IF "epc-eff-short-after-deposit" \in KnownDeviations THEN @
                                                 ELSE Append(@, EffBalances(<<v>>)[1])]
           /\ UNCHANGED nAtEpochStart

---------------------------------------------------------------------------
(* the epoch boundary inside ProcessSlots: process_epoch; slot += 1; RotateEpochs; UpgradeMaybe *)

\* process_epoch, nondeterministic: at most one registry change (an activation of a deposited validator or
\* an effective-balance update) per boundary - several boundaries give the combinations. Ejections in
\* process_epoch initiate an exit with the same exit epoch as Exit(i) taken right before the boundary, so
\* they are covered by Exit. Sync committees: any pair of pubkeys of validators active in the new epoch
\* whose first member is the first active validator (keeps the branching small).
Committees(vals, ep) == LET act == ActiveIndices(vals, ep) IN
    {<<vals[act[1] + 1].k, vals[act[j] + 1].k>> : j \in 1..Len(act)}

Changes(s) == {<<"none", 0, 0>>}
              \cup {<<"activate", i, 0>> : i \in {j \in 1..Len(s.vals) : s.vals[j].a = FAR}}
              \cup {<<"eff", i, v>> : i \in 1..Min(2, Len(s.vals)), v \in {1, 2}}

EpochProcessed(s, ch, newSn) ==
    LET cur == s.epoch
        v2 == [i \in 1..Len(s.vals) |->
                 LET v == s.vals[i] IN
                 IF ch[1] = "activate" /\ i = ch[2] THEN [v EXCEPT !.a = ActivationExitEpoch(cur)]
                 ELSE IF ch[1] = "eff" /\ i = ch[2] THEN [v EXCEPT !.e = ch[3]]
                 ELSE v]
        rotSync == s.fork # "phase0" /\ (cur + 1) % Period = 0
    IN [s EXCEPT !.epoch = cur + 1,
                 !.vals = v2,
                 !.mix[cur + 1] = s.mix[cur],
                 !.sc = IF rotSync THEN s.sn ELSE @,
                 !.sn = IF rotSync THEN newSn ELSE @]

\* EpochsContext.RotateEpochs(state) as written in epochs_context.go
Rotate(c, pre, s) ==
    LET nextShuf == IF Flaw_StaleNext THEN Shuf(pre, s.epoch + 1) ELSE Shuf(s, s.epoch + 1)
        c1 == [c EXCEPT !.prev = c.cur, !.cur = c.next, !.next = nextShuf]
        \* LoadProposers: computed from the CACHED current active indices and the state
        c2 == IF Flaw_NoProposerReload THEN c1 ELSE [c1 EXCEPT !.props = Props(s, c1.cur.active)]
        \* loadCurrentStake: from the state
        \* (Flaw_StakeReloadOnlyIfEffChanged: reload skipped when no effective balance changed in this transition -
        \*  the total active stake then misses activations / exits that take effect now)
        c3 == IF Flaw_NoStakeReload \/ (Flaw_StakeReloadOnlyIfEffChanged /\ EffBalances(s.vals) = EffBalances(pre.vals)) THEN c2
              ELSE [c2 EXCEPT !.eff = EffBalances(s.vals),
                              !.total = TotalActive(s.vals, c2.cur.epoch, Inc),
                              !.sqrt = ISqrt(TotalActive(s.vals, c2.cur.epoch, Inc))]
        c4 == IF s.fork # "phase0" /\ c3.cur.epoch % Period = 0 /\ ~Flaw_NoSyncRotate
              THEN [c3 EXCEPT !.sc = IF c3.sn # NoSync THEN c3.sn ELSE Hydrate(c3, s.sc),
                              !.sn = Hydrate(c3, s.sn)]
              ELSE c3
    IN c4

\* UpgradeMaybe: upgrade_to_altair + LoadSyncCommittees
Upgrade(c, s, newSc, newSn) ==
    IF s.fork = "phase0" /\ s.epoch = AltairEpoch
    THEN <<[s EXCEPT !.fork = "altair", !.sc = newSc, !.sn = newSn],
           IF Flaw_NoSyncLoadOnUpgrade THEN c
           ELSE [c EXCEPT !.sc = Hydrate(c, newSc), !.sn = Hydrate(c, newSn)]>>
    ELSE <<s, c>>

EpochBoundary ==
    /\ st.epoch < MaxEpoch
    /\ ActiveIndices(st.vals, st.epoch + 1) # <<>>
    /\ \E ch \in Changes(st) :
         /\ (ch[1] = "eff" => st.vals[ch[2]].e # ch[3])
         /\ LET cands == Committees(st.vals, st.epoch + 1)
            IN \E newSn \in (IF st.fork # "phase0" /\ (st.epoch + 1) % Period = 0 THEN cands ELSE {<<>>}),
                  upSc \in (IF st.fork = "phase0" /\ st.epoch + 1 = AltairEpoch THEN cands ELSE {<<>>}) :
                 LET s1 == EpochProcessed(st, ch, newSn)
                     c1 == Rotate(epc, st, s1)
                     up == Upgrade(c1, s1, upSc, upSc)
                 IN /\ st' = up[1] /\ epc' = up[2]
                    /\ nAtEpochStart' = Len(s1.vals)

Next == \/ Reveal
        \/ \E i \in 1..N : Exit(i) \/ Slash(i)
        \/ Deposit
        \/ EpochBoundary

Spec == Init /\ [][Next]_vars

\* serialize + reload + fresh context = FromScratch(st): with Matches it is the live context, so
\* both continuations take the same steps (the transition reads nothing but st and epc).
ReloadIsLive == Matches
=============================================================================
