-------------------------------- MODULE Locks --------------------------------
(***************************************************************************)
(* Property C17, part A: the lock protocol of a shared component.          *)
(*                                                                         *)
(* The module LockPrograms is GENERATED from the Go sources on every run   *)
(* by harness/cmd/lockextract (LockPrograms_<Component>.tla, copied to     *)
(* LockPrograms.tla in TLC's scratch directory; the file of that name in   *)
(* spec/ is a hand-written toy used by the self-test).  It defines         *)
(*   LP_Prog      [method -> sequence of control-flow paths]               *)
(*   LP_Exported  the methods a client may call                            *)
(*   LP_HasParent whether instances are chained (pubkey cache)             *)
(* A path is a sequence of instructions                                    *)
(*    <<"Acq", mutex, "W"|"R", tgt>>   <<"Rel", mutex, "W"|"R", tgt>>      *)
(*    <<"Rd", field, "", tgt>>         <<"Wr", field, "", tgt>>            *)
(*    <<"Call", method, "", tgt>>      tgt \in {"self","parent","fresh"}   *)
(* This module gives them the semantics of Go's sync.Mutex / sync.RWMutex  *)
(* and runs a few threads, each calling one arbitrary exported method      *)
(* (arbitrary path) on ONE shared instance "o" - or, for a component with  *)
(* a parent link, on the child "o" or on its parent "p".                   *)
(*                                                                         *)
(*  - sync.(RW)Mutex is not re-entrant: Lock by a thread that already      *)
(*    holds the mutex (in any mode) is never enabled => deadlock state.    *)
(*  - a writer that found the mutex taken announces itself (waitW); from   *)
(*    then on no NEW reader is admitted (Go's writer preference), which    *)
(*    is what makes recursive read-locking deadlock-prone.                 *)
(*  - an instance is identified by its chain <<self, parent, ...>>;        *)
(*    "fresh" instances (created inside a call, e.g. the forked-out pubkey *)
(*    cache) are private to the thread but their parent is the creator.    *)
(*                                                                         *)
(* A thread's control state is its CONTINUATION: the remaining             *)
(* instructions with instances resolved (a Call is replaced by one of the  *)
(* callee's paths when it is reached), so states with the same future      *)
(* coincide.                                                               *)
(*                                                                         *)
(* Checked: NoDataRace, NoBadUnlock, NoLockLeak (invariants), absence of   *)
(* deadlock (TLC), Termination under weak fairness.                        *)
(***************************************************************************)
EXTENDS Integers, Sequences, FiniteSets, TLC, Json, LockPrograms

CONSTANTS Threads,      \* set of thread ids (integers, or model values when SYMMETRY ThreadSym is used)
          MaxDepth,     \* bound on the call depth (deeper calls are skipped)
          MaxFresh,     \* bound on the number of nested fresh instances (a fork-out of a fork-out ...)
          Collect       \* TRUE: RacesLogged prints every distinct race (instead of NoDataRace stopping at the first)

Prog == LP_Prog
Exported == LP_Exported
StartChains == IF LP_HasParent THEN {<<"o", "p">>, <<"p">>} ELSE {<<"o">>}

VARIABLES st,     \* [t -> "idle" | "run" | "done"]
          root,   \* [t -> [m, chain]] the call the thread makes ("" before it starts)
          cont,   \* [t -> sequence of resolved instructions still to execute]
          held,   \* [t -> sequence (bag) of <<obj, mutex, mode>>]
          waitW   \* set of <<t, obj, mutex>>: writers that announced themselves

vars == <<st, root, cont, held, waitW>>

---------------------------------------------------------------------------
NeedsParent(path) == \E i \in 1..Len(path) : path[i][4] = "parent"
Eligible(chain, m, p) == NeedsParent(Prog[m][p]) => Len(chain) >= 2

(* Resolved instructions: <<op, a, b, obj, method>> and <<"Call", method, <<depth, nfresh>>, chain, caller>>.     *)
(* nfresh = number of fresh (thread-private) instances at the front of the chain.  Operations on a fresh        *)
(* instance are dropped: nobody else can reach it; a Call on it is kept, because its parent is shared.          *)
FreshName(d) == "f" \o ToString(d)
ResolveIns(x, chain, d, m) ==
  IF x[1] = "Call"
  THEN <<"Call", x[2],
         <<d[1] + 1, CASE x[4] = "fresh" -> d[2] + 1 [] x[4] = "parent" -> (IF d[2] > 0 THEN d[2] - 1 ELSE 0) [] OTHER -> d[2]>>,
         CASE x[4] = "parent" -> Tail(chain)
           [] x[4] = "fresh"  -> <<FreshName(d[1])>> \o chain
           [] OTHER           -> chain,
         m>>
  ELSE <<x[1], x[2], x[3], IF x[4] = "parent" THEN chain[2] ELSE chain[1], m>>

OnFresh(x, d) == \/ x[4] = "fresh"
                 \/ x[4] = "self" /\ d[2] > 0
                 \/ x[4] = "parent" /\ d[2] > 1

Resolve(path, chain, d, m) ==
  LET keep == SelectSeq(path, LAMBDA x : x[1] = "Call" \/ ~OnFresh(x, d))
  IN [i \in 1..Len(keep) |-> ResolveIns(keep[i], chain, d, m)]

Running(t) == st[t] = "run"
HeadI(t) == cont[t][1]
IsAccess(i) == i[1] \in {"Rd", "Wr"}

(* Reductions (sound for races and deadlocks, because the merged steps are local to the thread):          *)
(*  - a Call at the head of a continuation is expanded immediately (the choice of the callee's path does  *)
(*    not depend on shared state), so the head of a settled continuation is never a Call;                  *)
(*  - a maximal run of data accesses at the head is ONE step: no lock changes hands inside it, so every    *)
(*    access of the run is co-enabled with whatever the other threads are at.                              *)
RECURSIVE Settle(_, _)
Settle(c, t) ==
  IF c = <<>> \/ c[1][1] # "Call" THEN {c}
  ELSE LET i == c[1]
           m2 == i[2]
           d == i[3]
           chain2 == i[4]
           elig == IF m2 \in DOMAIN Prog THEN {p \in 1..Len(Prog[m2]) : Eligible(chain2, m2, p)} ELSE {}
       IN IF d[1] > MaxDepth \/ d[2] > MaxFresh \/ elig = {}
          THEN Settle(Tail(c), t)
          ELSE UNION {Settle(Resolve(Prog[m2][p], chain2, d, m2) \o Tail(c), t) : p \in elig}

RECURSIVE RunLen(_)
RunLen(c) == IF c = <<>> \/ ~IsAccess(c[1]) THEN 0 ELSE 1 + RunLen(Tail(c))

\* continue thread t with the continuation `rest` (settled); the thread is done when nothing is left
Continue(t, rest) ==
  \E c2 \in Settle(rest, t) :
     /\ cont' = [cont EXCEPT ![t] = c2]
     /\ st' = [st EXCEPT ![t] = IF c2 = <<>> THEN "done" ELSE "run"]

HeldSet(t) == {held[t][i] : i \in 1..Len(held[t])}
Holds(t, obj, mu) == \E e \in HeldSet(t) : e[1] = obj /\ e[2] = mu
WriterHolds(obj, mu) == \E t \in Threads : <<obj, mu, "W">> \in HeldSet(t)
AnyHolds(obj, mu) == \E t \in Threads : Holds(t, obj, mu)
WriterWaits(obj, mu) == \E w \in waitW : w[2] = obj /\ w[3] = mu

RemoveOne(s, e) == LET i == CHOOSE j \in 1..Len(s) : s[j] = e
                   IN SubSeq(s, 1, i - 1) \o SubSeq(s, i + 1, Len(s))

---------------------------------------------------------------------------
Init == /\ st = [t \in Threads |-> "idle"]
        /\ root = [t \in Threads |-> [m |-> "", chain |-> <<>>]]
        /\ cont = [t \in Threads |-> <<>>]
        /\ held = [t \in Threads |-> <<>>]
        /\ waitW = {}
        /\ TLCSet(1, {})

Start(t) ==
  /\ st[t] = "idle"
  /\ \E c \in StartChains, m \in Exported :
       \E p \in 1..Len(Prog[m]) :
          /\ Eligible(c, m, p)
          /\ root' = [root EXCEPT ![t] = [m |-> m, chain |-> c]]
          /\ Continue(t, Resolve(Prog[m][p], c, <<1, 0>>, m))
  /\ UNCHANGED <<held, waitW>>

Access(t) ==
  /\ Running(t) /\ IsAccess(HeadI(t))
  /\ Continue(t, SubSeq(cont[t], RunLen(cont[t]) + 1, Len(cont[t])))
  /\ UNCHANGED <<root, held, waitW>>

AcqR(t) ==
  /\ Running(t) /\ HeadI(t)[1] = "Acq" /\ HeadI(t)[3] = "R"
  /\ LET i == HeadI(t) IN
       /\ ~WriterHolds(i[4], i[2])
       /\ ~WriterWaits(i[4], i[2])
       /\ held' = [held EXCEPT ![t] = Append(@, <<i[4], i[2], "R">>)]
  /\ Continue(t, Tail(cont[t]))
  /\ UNCHANGED <<root, waitW>>

AcqW(t) ==
  /\ Running(t) /\ HeadI(t)[1] = "Acq" /\ HeadI(t)[3] = "W"
  /\ LET i == HeadI(t) IN
       IF ~AnyHolds(i[4], i[2])
       THEN /\ held' = [held EXCEPT ![t] = Append(@, <<i[4], i[2], "W">>)]
            /\ waitW' = waitW \ {<<t, i[4], i[2]>>}
            /\ Continue(t, Tail(cont[t]))
       ELSE /\ <<t, i[4], i[2]>> \notin waitW          \* announce; afterwards blocked until the mutex is free
            /\ waitW' = waitW \cup {<<t, i[4], i[2]>>}
            /\ UNCHANGED <<st, cont, held>>
  /\ UNCHANGED root

Rel(t) ==
  /\ Running(t) /\ HeadI(t)[1] = "Rel"
  /\ LET e == <<HeadI(t)[4], HeadI(t)[2], HeadI(t)[3]>> IN
       held' = [held EXCEPT ![t] = IF e \in HeldSet(t) THEN RemoveOne(@, e) ELSE @]
  /\ Continue(t, Tail(cont[t]))
  /\ UNCHANGED <<root, waitW>>

ThreadNext(t) == Start(t) \/ Access(t) \/ AcqR(t) \/ AcqW(t) \/ Rel(t)

AllDone == (\A t \in Threads : st[t] = "done") /\ UNCHANGED vars

Next == (\E t \in Threads : ThreadNext(t)) \/ AllDone

Spec == Init /\ [][Next]_vars /\ \A t \in Threads : WF_vars(ThreadNext(t))

---------------------------------------------------------------------------
(* Data races.  Two threads are AT conflicting accesses in the same state: both accesses are enabled, *)
(* nothing orders them.  Because the mutex semantics above are exact, this is equivalent to "no common *)
(* lock of the object is held with at least one side in W mode" (such a lock would have excluded the   *)
(* state).                                                                                              *)

AccessAt(t) ==
  IF Running(t)
  THEN {[obj |-> cont[t][k][4], field |-> cont[t][k][2], kind |-> cont[t][k][1], root |-> root[t].m, top |-> cont[t][k][5]] :
          k \in 1..RunLen(cont[t])}
  ELSE {}

RaceWitnesses ==
  UNION {{<<a.root, b.root, a.field, a.kind, b.kind, a.obj, a.top, b.top>> :
            <<a, b>> \in {<<x, y>> \in AccessAt(t1) \X AccessAt(t2) :
                            /\ x.obj = y.obj /\ x.field = y.field
                            /\ (x.kind = "Wr" \/ y.kind = "Wr")}} :
         <<t1, t2>> \in {<<u, v>> \in Threads \X Threads : u # v}}

NoDataRace == \A w \in RaceWitnesses : PrintT(<<"RACE", w>>) /\ FALSE

LogOnce(w) == IF w \in TLCGet(1) THEN TRUE ELSE TLCSet(1, TLCGet(1) \cup {w}) /\ PrintT(<<"RACE", w>>)
RacesLogged == Collect => \A w \in RaceWitnesses : LogOnce(w)

\* Unlock of a mutex the thread does not hold (Go: fatal error "Unlock of unlocked RWMutex")
NoBadUnlock ==
  \A t \in Threads :
    (Running(t) /\ HeadI(t)[1] = "Rel")
      => (<<HeadI(t)[4], HeadI(t)[2], HeadI(t)[3]>> \in HeldSet(t)
          \/ (PrintT(<<"BADUNLOCK", root[t].m, HeadI(t)[2], HeadI(t)[5]>>) /\ FALSE))

\* a call returns while still holding a lock
NoLockLeak ==
  \A t \in Threads : st[t] = "done" => (held[t] = <<>> \/ (PrintT(<<"LOCKLEAK", root[t].m, held[t]>>) /\ FALSE))

Termination == <>(\A t \in Threads : st[t] = "done")

ThreadSym == Permutations(Threads)

\* what the error trace shows (parsed by runner/locks.py)
Pretty ==
  [json |-> ToJson([t \in Threads |->
       [st |-> st[t],
        root |-> IF st[t] = "idle" THEN "" ELSE root[t].m,
        chain |-> IF st[t] = "idle" THEN <<>> ELSE root[t].chain,
        at |-> IF Running(t) THEN <<HeadI(t)[1], HeadI(t)[2], ToString(HeadI(t)[3]), ToString(HeadI(t)[4]), HeadI(t)[5]>> ELSE <<>>,
        held |-> held[t],
        waits |-> {<<w[2], w[3]>> : w \in {x \in waitW : x[1] = t}}]])]
=============================================================================
