\* exhaustive check of the keyed pool rules
CONSTANTS
  KnownDeviations = {}
  Which = "keyed"
  MaxCalls = 4
INIT Init
NEXT Next
VIEW stateView
INVARIANTS AttTypeOK OneSinglePerEpoch SearchSound KeyedOK SyncWindow
PROPERTIES StoredUntilPruned PruneExact KeyedKept SyncRotationKeeps
CHECK_DEADLOCK FALSE
