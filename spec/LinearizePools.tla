---------------------------- MODULE LinearizePools ----------------------------
(***************************************************************************)
(* Property C17, part B (operation pools): recorded concurrent histories   *)
(* of the real pools (harness/cmd/conc) must be linearizable with respect  *)
(* to the sequential specification Pools.tla.                              *)
(*                                                                         *)
(* trace.ndjson: one call per line {h, id, g, inv, rs, out, ev, args,      *)
(* reply}; inv / rs are the invocation and response numbers drawn from one *)
(* atomic counter.  index.ndjson: one line {first, last} per history (its  *)
(* lines are contiguous).  Every history is an initial state; an operation *)
(* may be placed once every operation that RETURNED before its INVOCATION  *)
(* has been placed and its recorded reply is one the specification allows  *)
(* in the state reached.  A history is linearizable iff some path places   *)
(* all its operations; the set of those histories is reported at the end   *)
(* (register 2).  TLC runs depth-first (StateDeque, one worker); once a    *)
(* history is complete its remaining branches are cut.                     *)
(***************************************************************************)
EXTENDS Pools

CONSTANTS Diag   \* TRUE: print the dead ends of the search (used on rejected histories only)

VARIABLES hh,     \* the history this behaviour linearizes
          done,   \* lines of the history placed so far
          order   \* the order in which they were placed (not part of the VIEW)

Trace == ndJsonDeserialize("trace.ndjson")
Index == ndJsonDeserialize("index.ndjson")

lvars == <<att, keyed, sync, calls, hist, hh, done, order>>
linView == <<att, keyed, sync, hh, done>>

Ops(k) == Index[k].first..Index[k].last
E(i) == Trace[i]
\* every operation that returned before i was invoked is placed
Minimal(i) == \A j \in Ops(hh) \ done : j = i \/ E(j).rs > E(i).inv

CoreOf(x) == [slot |-> x.slot, index |-> x.index, epoch |-> x.epoch, var |-> x.var, bits |-> x.bits, sig |-> x.sig]
ItemOf(x) == [id |-> x.id, kind |-> x.kind, slot |-> x.slot, v |-> x.v, root |-> x.root, sub |-> x.sub]

SnapOK(snap, Y2) ==
  LET ids == {x.id : x \in Range(snap.items)} IN
  /\ snap.cur = Y2.cur
  /\ ids = {x.id : x \in Y2.held}
  /\ Y2.cur # -1 => \A x \in Range(snap.items) : \E it \in Y2.held : it.id = x.id /\ x.buf = BufOf(Y2.cur, it.slot)

(* the (reply-compatible) outcomes of placing line i now: a set of [att, keyed, sync] post-states *)
Outcomes(i) ==
  LET e == E(i)
      same == [att |-> att, keyed |-> keyed, sync |-> sync]
  IN
  IF e.out # "ok" THEN {}
  ELSE CASE e.ev = "AddAtt" ->
              IF PosSet(e.att.bits) = {} THEN (IF e.ret = "err" THEN {same} ELSE {})   \* an empty attestation is refused
              ELSE IF ~WellFormed(e.att) THEN {}
              ELSE {[same EXCEPT !.att = o.P2] : o \in {x \in AttAddOutcomes(att, e.att) : x.ret = e.ret}}
         [] e.ev = "Search" ->
              IF e.ret = "ok" /\ SearchOK(att, e.fs, e.fc, {CoreOf(x) : x \in Range(e.resatts)}) THEN {same} ELSE {}
         [] e.ev = "Prune" ->
              IF e.ret = "ok" THEN {[same EXCEPT !.att = AttPrune(att, e.epoch)]} ELSE {}
         [] e.ev = "AddKeyed" ->
              {[same EXCEPT !.keyed = [keyed EXCEPT ![e.pool] = o.K2]] :
                  o \in {x \in KeyedAddOutcomes(keyed[e.pool], e.key, e.kid) : x.ret = e.ret}}
         [] e.ev = "All" ->
              IF /\ e.ret = "ok" /\ Range(e.resids) = KeyedAll(keyed[e.pool])
                 /\ Len(e.resids) = Cardinality(Range(e.resids))
              THEN {same} ELSE {}
         [] e.ev = "SyncAdd" ->
              {[same EXCEPT !.sync = o.Y2] : o \in {x \in SyncAddOutcomes(sync, ItemOf(e.item)) : x.ret = e.ret}}
         [] e.ev = "SyncReset" ->
              {[same EXCEPT !.sync = o.Y2] : o \in {x \in SyncResetOutcomes(sync, e.slot) : x.ret = e.ret}}
         [] e.ev = "Obs" ->
              IF SnapOK(e.snap, sync) THEN {same} ELSE {}
         [] OTHER -> {}

\* what the specification would have allowed (diagnostics)
Expected(i) ==
  LET e == E(i) IN
  CASE e.ev = "AddAtt" -> IF PosSet(e.att.bits) = {} THEN {"err"} ELSE {o.ret : o \in AttAddOutcomes(att, e.att)}
    [] e.ev = "Search" -> <<"must", SearchMust(att, e.fs, e.fc), "may", SearchMay(att, e.fs, e.fc)>>
    [] e.ev = "AddKeyed" -> {o.ret : o \in KeyedAddOutcomes(keyed[e.pool], e.key, e.kid)}
    [] e.ev = "All" -> KeyedAll(keyed[e.pool])
    [] e.ev = "SyncAdd" -> {o.ret : o \in SyncAddOutcomes(sync, ItemOf(e.item))}
    [] e.ev = "Obs" -> sync
    [] OTHER -> "ok"

LinInit ==
  /\ att = AttEmpty /\ keyed = KeyedEmpty /\ sync = SyncEmpty /\ calls = 0 /\ hist = <<>>
  /\ hh \in 1..Len(Index)
  /\ done = {} /\ order = <<>>
  /\ TLCSet(2, {})

Place(i) ==
  /\ Minimal(i)
  /\ \E o \in Outcomes(i) : att' = o.att /\ keyed' = o.keyed /\ sync' = o.sync
  /\ done' = done \cup {i}
  /\ order' = Append(order, E(i).id)
  /\ UNCHANGED <<hh, calls, hist>>
  /\ IF done' = Ops(hh) THEN TLCSet(2, TLCGet(2) \cup {hh}) ELSE TRUE

LinNext == /\ hh \notin TLCGet(2)
           /\ \E i \in Ops(hh) \ done : Place(i)

LinSpec == LinInit /\ [][LinNext]_lvars

DiagInv ==
  (Diag /\ done # Ops(hh) /\ \A i \in Ops(hh) \ done : ~(Minimal(i) /\ Outcomes(i) # {}))
    => PrintT(<<"DEADEND", hh, Cardinality(done), order,
                {<<E(i).id, E(i).ev, Expected(i)>> : i \in {j \in Ops(hh) \ done : Minimal(j)}}>>)

Report == PrintT(<<"LINEARIZED", TLCGet(2)>>)
=============================================================================
