----------------------------- MODULE LinearizeFC -----------------------------
(***************************************************************************)
(* Property C17, part B (fork-choice wrapper): recorded concurrent         *)
(* histories of the real forkchoice.ProtoForkChoice (harness/cmd/conc)     *)
(* must be linearizable with respect to the sequential specification       *)
(* ForkChoice.tla.  The reply rules are those of ForkChoiceTrace.tla; see  *)
(* LinearizePools.tla for the search scheme.                               *)
(*                                                                         *)
(* UpdateJustified with a finalization change is evaluated as the code     *)
(* does (update, then prune in the updated state) in a sub-phase "prune"   *)
(* during which no other operation may be placed, i.e. as one atomic step. *)
(***************************************************************************)
EXTENDS ForkChoice, Json

CONSTANTS Diag

VARIABLES hh, done, order,
          ph,       \* "call" | "prune"
          cur,      \* line whose prune phase is pending (0: none)
          nilsink   \* the history runs without a prune sink

Trace == ndJsonDeserialize("trace.ndjson")
HIndex == ndJsonDeserialize("index.ndjson")

lvars == <<nodes, votes, bal, just, fin, pin, detached, hh, done, order, ph, cur, nilsink>>
linView == <<nodes, votes, bal, just, fin, pin, detached, hh, done, ph, cur, nilsink>>

Ops(k) == HIndex[k].first..HIndex[k].last
E(i) == Trace[i]
Minimal(i) == \A j \in Ops(hh) \ done : j = i \/ E(j).rs > E(i).inv

ToSet(s) == {s[i] : i \in DOMAIN s}
B(x) == x = 1
CPRec(c) == [epoch |-> c.epoch, root |-> c.root]

Keep == UNCHANGED <<nodes, votes, bal, just, fin, pin, detached, nilsink>>

---------------------------------------------------------------------------
(* queries: reply e.ret allowed in the current state *)
QueryOK(e, c, lg) ==
    LET r == e.ret
        gotRef == <<B(r.ok), <<r.root, r.slot>>>>
    IN CASE e.q = "Head" -> gotRef = HeadOf(c, lg)
         [] e.q = "FindHead" -> gotRef = FindHeadOf(c, <<e.anchor, e.slot>>, lg)
         [] e.q = "CanonicalChain" ->
              LET exp == CanonChainOf(c, <<e.anchor, e.slot>>, lg) IN
              /\ B(r.ok) = exp[1]
              /\ exp[1] => /\ Len(r.chain) = Len(exp[2])
                           /\ \A i \in DOMAIN r.chain :
                                 /\ <<r.chain[i][1], r.chain[i][2]>> = exp[2][i]
                                 /\ r.chain[i][3] = nodes[IdxOf(exp[2][i])].parent
         [] e.q = "InSubtree" ->
              \/ (e.anchor = e.root /\ ~Known(e.anchor))
              \/ <<B(r.unknown), B(r.in)>> = InSubtreeOf(c, e.anchor, e.root)
         [] e.q = "ClosestToSlot" -> gotRef = ClosestOf(e.anchor, e.slot)
         [] e.q = "CanonAtSlot" -> gotRef \in CanonAtAllowed(c, e.anchor, e.slot, B(e.withblock))
         [] e.q = "GetSlot" -> <<B(r.ok), r.slot>> = GetSlotOf(e.root)
         [] e.q = "Search" ->
              IF e.usepar = 0 /\ e.useslot = 0
              THEN /\ Len(r.canon) = Cardinality(ToSet(r.canon)) /\ Len(r.non) = Cardinality(ToSet(r.non))
                   /\ HeadSearchOK(c, <<e.anchor, e.slot>>, B(r.ok), ToSet(r.canon), ToSet(r.non), lg)
              ELSE LET exp == SearchOf(c, <<e.anchor, e.slot>>, B(e.usepar), e.parent, B(e.useslot), e.fe, lg) IN
                   /\ B(r.ok) = exp[1]
                   /\ exp[1] => ToSet(r.canon) = exp[2] /\ ToSet(r.non) = exp[3]
                                /\ Len(r.canon) = Cardinality(exp[2]) /\ Len(r.non) = Cardinality(exp[3])
         [] e.q = "Justified" -> r.ok = 1 /\ <<r.slot, r.root>> = <<just.epoch, just.root>>
         [] e.q = "Finalized" -> r.ok = 1 /\ <<r.slot, r.root>> = <<fin.epoch, fin.root>>
         [] e.q = "Pin" -> IF pin = <<>> THEN r.ok = 0 ELSE r.ok = 1 /\ <<r.root, r.slot>> = pin
         [] OTHER -> FALSE

QueryExpected(e, c) ==
    CASE e.q = "Head" -> HeadOf(c, FALSE)
      [] e.q = "FindHead" -> FindHeadOf(c, <<e.anchor, e.slot>>, FALSE)
      [] e.q = "CanonicalChain" -> CanonChainOf(c, <<e.anchor, e.slot>>, FALSE)
      [] e.q = "InSubtree" -> InSubtreeOf(c, e.anchor, e.root)
      [] e.q = "ClosestToSlot" -> ClosestOf(e.anchor, e.slot)
      [] e.q = "CanonAtSlot" -> CanonAtAllowed(c, e.anchor, e.slot, B(e.withblock))
      [] e.q = "GetSlot" -> GetSlotOf(e.root)
      [] e.q = "Search" -> IF e.usepar = 0 /\ e.useslot = 0 THEN "head search (loose)"
                           ELSE SearchOf(c, <<e.anchor, e.slot>>, B(e.usepar), e.parent, B(e.useslot), e.fe, FALSE)
      [] e.q = "Justified" -> just
      [] e.q = "Finalized" -> fin
      [] e.q = "Pin" -> pin
      [] OTHER -> "?"

\* listed sequential finding fc-gap-start (C09/C11): a head search started at a gap-slot node may answer by the
\* legacy start rule; for linearization a head-dependent reply is explained if it equals either value
GapDev == "fc-gap-start" \in KnownDeviations

ObsOK(e) ==
    LET o == e.obs IN
    /\ ToSet(o.nodes) = Keys /\ Len(o.nodes) = Cardinality(Keys)
    /\ o.just = <<just.epoch, just.root>> /\ o.fin = <<fin.epoch, fin.root>> /\ o.pin = pin
    /\ (\/ o.hashead = 0
        \/ <<B(o.head[1]), <<o.head[2], o.head[3]>>>> = HeadOf(Ctx, FALSE)
        \/ GapDev /\ <<B(o.head[1]), <<o.head[2], o.head[3]>>>> = HeadOf(Ctx, TRUE))

---------------------------------------------------------------------------
(* the call phase of line i; sets ph', cur' *)
StayCall == ph' = "call" /\ cur' = 0

Apply(i) ==
  LET e == E(i) IN
  /\ e.out = "ok"
  /\ CASE e.ev = "Init" ->
            /\ nodes = <<>>
            /\ e.ret.ok = 1 /\ e.j.epoch >= e.f.epoch /\ e.spe = SPE
            /\ nodes' = <<NewNode(e.root, e.slot, e.parent, e.j.epoch, e.f.epoch)>>
            /\ votes' = <<>> /\ detached' = {}
            /\ bal' = e.bal
            /\ just' = CPRec(e.j) /\ fin' = CPRec(e.f)
            /\ pin' = <<e.root, e.slot>>
            /\ nilsink' = B(e.nilsink)
            /\ StayCall
       [] e.ev = "ProcessBlock" ->
            /\ nodes # <<>>
            /\ B(e.ret.ok) = ProcessBlockReply(e.parent, e.root, e.slot)
            /\ DoProcessBlock(e.parent, e.root, e.slot, e.je, e.fe)
            /\ UNCHANGED nilsink /\ StayCall
       [] e.ev = "ProcessSlot" ->
            /\ nodes # <<>>
            /\ Known(e.parent) /\ e.slot > First(e.parent)       \* documented precondition (the driver guarantees it)
            /\ DoProcessSlot(e.parent, e.slot, e.je, e.fe)
            /\ UNCHANGED nilsink /\ StayCall
       [] e.ev = "ProcessAttestation" ->
            /\ nodes # <<>>
            /\ B(e.ret.ok) = AttestationReply(e.root, e.slot)
            /\ DoProcessAttestation(e.v, e.root, e.slot)
            /\ UNCHANGED nilsink /\ StayCall
       [] e.ev = "SetPin" ->
            /\ nodes # <<>>
            /\ B(e.ret.ok) = SetPinReply(e.root, e.slot)
            /\ DoSetPin(e.root, e.slot)
            /\ UNCHANGED nilsink /\ StayCall
       [] e.ev = "UpdateJustified" ->
            /\ nodes # <<>>
            /\ LET j == CPRec(e.j)
                   f == CPRec(e.f)
                   cls == UJClass(Ctx, e.trigger, j, f, B(e.balerr)) IN
               CASE cls = "noop" -> e.ret.ok = 1 /\ e.pruned = <<>> /\ Keep /\ StayCall
                 [] cls = "refused" -> e.ret.ok = 0 /\ e.pruned = <<>> /\ Keep /\ StayCall
                 [] OTHER ->
                      /\ (fin = f) => (e.ret.ok = 1 /\ e.pruned = <<>>)
                      /\ just' = j /\ fin' = f /\ bal' = e.bal
                      /\ pin' = IF fin # f THEN <<>> ELSE pin
                      /\ UNCHANGED <<nodes, votes, detached, nilsink>>
                      /\ IF fin # f THEN ph' = "prune" /\ cur' = i ELSE StayCall
       [] e.ev = "Query" ->
            /\ nodes # <<>>
            /\ LET c == Ctx IN QueryOK(e, c, FALSE) \/ (GapDev /\ QueryOK(e, c, TRUE))
            /\ Keep /\ StayCall
       [] e.ev = "Obs" ->
            /\ nodes # <<>>
            /\ ObsOK(e)
            /\ Keep /\ StayCall
       [] OTHER -> FALSE

(* prune phase of line cur, evaluated in the updated state (fin is the new finalized checkpoint) *)
ReportOK(e, P, canon, k) ==
    LET rep == e.pruned
        expSet == {<<p[1], p[2], IF p \in canon THEN 1 ELSE 0>> : p \in P}
    IN IF nilsink THEN rep = <<>> /\ e.ret.ok = 1
       ELSE IF k = 0 \/ k > Cardinality(P)
       THEN e.ret.ok = 1 /\ Len(rep) = Cardinality(P) /\ ToSet(rep) = expSet
       ELSE e.ret.ok = 0 /\ Len(rep) = k /\ ToSet(rep) \subseteq expSet /\ Cardinality(ToSet(rep)) = k
Removed(e, P, k) ==
    IF nilsink \/ k = 0 \/ k > Cardinality(P) THEN P
    ELSE {<<e.pruned[i][1], e.pruned[i][2]>> : i \in 1..(IF Len(e.pruned) >= k THEN k - 1 ELSE Len(e.pruned))} \cap P

PrunePhase ==
    /\ ph = "prune"
    /\ LET e == E(cur)
           c == Ctx
           a == PruneAnchor(fin)
           P == ToPrune(c, fin)
           P2 == ToPruneByOrder(fin)
           canon == IF Has(a) THEN CanonicalPruned(c, fin) ELSE {}
           k == e.sinkfail
           dev == "fc-prune-order" \in KnownDeviations
       IN
       \* exact rule, or (listed finding fc-prune-order) the array prefix before the anchor; when both explain the
       \* report (no sink: nothing is reported) the later observations decide
       \/ /\ ReportOK(e, P, canon, k)
          /\ nodes' = Remove(Removed(e, P, k))
          /\ detached' = (detached \ Removed(e, P, k)) \cup DetachedBy(Removed(e, P, k), Removed(e, P, k) = P, PruneAnchor(fin))
          /\ UNCHANGED <<votes, bal, just, fin, pin, nilsink>>
       \/ /\ dev /\ P2 # P /\ ReportOK(e, P2, canon, k)
          /\ nodes' = Remove(Removed(e, P2, k))
          /\ detached' = (detached \ Removed(e, P2, k)) \cup DetachedBy(Removed(e, P2, k), Removed(e, P2, k) = P2, PruneAnchor(fin))
          /\ UNCHANGED <<votes, bal, just, fin, pin, nilsink>>
    /\ ph' = "call" /\ cur' = 0
    /\ UNCHANGED <<hh, done, order>>

Mark == IF ph' = "call" /\ done' = Ops(hh) THEN TLCSet(2, TLCGet(2) \cup {hh}) ELSE TRUE

Place(i) ==
  /\ ph = "call"
  /\ Minimal(i)
  /\ Apply(i)
  /\ done' = done \cup {i}
  /\ order' = Append(order, E(i).id)
  /\ UNCHANGED hh

LinInit ==
  /\ nodes = <<>> /\ votes = <<>> /\ bal = <<>> /\ detached = {}
  /\ just = [epoch |-> 0, root |-> 0] /\ fin = [epoch |-> 0, root |-> 0] /\ pin = <<>>
  /\ nilsink = FALSE
  /\ hh \in 1..Len(HIndex)
  /\ done = {} /\ order = <<>> /\ ph = "call" /\ cur = 0
  /\ TLCSet(2, {})

LinNext == /\ hh \notin TLCGet(2)
           /\ (PrunePhase \/ \E i \in Ops(hh) \ done : Place(i))
           /\ Mark

LinSpec == LinInit /\ [][LinNext]_lvars

\* diagnostics: what the specification expects of the operations that could be placed next
Expected(i) ==
  LET e == E(i) IN
  IF nodes = <<>> THEN "no object yet"
  ELSE CASE e.ev = "ProcessBlock" -> ProcessBlockReply(e.parent, e.root, e.slot)
         [] e.ev = "ProcessSlot" -> <<"precondition", Known(e.parent)>>
         [] e.ev = "ProcessAttestation" -> AttestationReply(e.root, e.slot)
         [] e.ev = "SetPin" -> SetPinReply(e.root, e.slot)
         [] e.ev = "UpdateJustified" -> UJClass(Ctx, e.trigger, CPRec(e.j), CPRec(e.f), B(e.balerr))
         [] e.ev = "Query" -> QueryExpected(e, Ctx)
         [] e.ev = "Obs" -> <<Keys, just, fin, pin, HeadOf(Ctx, FALSE)>>
         [] OTHER -> "?"

DiagInv ==
  (Diag /\ ph = "call" /\ done # Ops(hh) /\ \A i \in Ops(hh) \ done : ~(Minimal(i) /\ ENABLED Place(i)))
    => PrintT(<<"DEADEND", hh, Cardinality(done), order,
                {<<E(i).id, E(i).ev, E(i).q, Expected(i)>> : i \in {j \in Ops(hh) \ done : Minimal(j)}}>>)

DiagPruneInv ==
  (Diag /\ ph = "prune" /\ ~ENABLED PrunePhase)
    => PrintT(<<"DEADEND", hh, Cardinality(done), order,
                {<<E(cur).id, "UpdateJustified/prune", "", <<"expected", ToPrune(Ctx, fin), "reported", E(cur).pruned, E(cur).ret.ok>>>>}>>)

Report == PrintT(<<"LINEARIZED", TLCGet(2)>>)
=============================================================================
