------------------------------ MODULE SSZEval ------------------------------
(***************************************************************************)
(* Evaluates the SSZ specification on concrete cases (trace-validation     *)
(* style).  Input  cases.ndjson : one {id, t, v, m, ol} per line           *)
(*    t  = type name in Schemas!SchemaTable, v = value tree,               *)
(*    m  = mutation selector (0 = no malformed encodings for this case),   *)
(*    ol = TRUE when v deliberately exceeds a list/bitlist limit.          *)
(* Output results.ndjson : for every case the encoding, lengths, merkle    *)
(* plan, canonical text tree and the malformed encodings that the decoder  *)
(* of the specification refuses.  The state machine walks the cases and    *)
(* checks the specification against itself (Dec inverts Ser, fixed sizes,  *)
(* plans are well formed, over-limit values are refused).                  *)
(***************************************************************************)
EXTENDS Schemas, Json

CONSTANT PresetName

P == Preset(PresetName)
Cases == ndJsonDeserialize("cases.ndjson")

\* the sub-schema / sub-value reached by a path of (1-based) container field positions
RECURSIVE SubSchema(_, _), SubValue(_, _)
SubSchema(s, path) == IF path = <<>> THEN s ELSE SubSchema(s[2][path[1]][2], Tail(path))
SubValue(v, path) == IF path = <<>> THEN v ELSE SubValue(v[path[1]], Tail(path))

Eval(c) ==
    LET s   == SchemaOf(P, c.t)
        v   == c.v
        ser == Ser(s, v)
    IN IF c.ol
       THEN [id |-> c.id, t |-> c.t, ol |-> TRUE, ser |-> ser, fixed |-> FixedLen(s), isfixed |-> IsFixed(s),
             plan |-> <<>>, subplan |-> <<>>, json |-> <<>>, mal |-> <<>>, ncand |-> 0,
             olwhy |-> IF ValidEncoding(s, ser) THEN "" ELSE Dec(s, ser)[2], olpath |-> c.olpath,
             selfok |-> ~WellFormed(s, v) /\ ~ValidEncoding(s, ser)]
       ELSE LET plan == Plan(s, v)
                cand == IF c.m = 0 THEN <<>> ELSE TruncationMutants(s, v, c.m) \o OffsetMutants(s, v, c.m)
                why  == [k \in 1..Len(cand) |-> Dec(s, cand[k][2])]
                mal  == SelectSeq([k \in 1..Len(cand) |-> IF why[k][1] THEN <<>> ELSE <<cand[k][1], cand[k][2], why[k][2]>>],
                                  LAMBDA x : x # <<>>)
            IN [id |-> c.id, t |-> c.t, ol |-> FALSE, ser |-> ser, fixed |-> FixedLen(s), isfixed |-> IsFixed(s),
                plan |-> plan,
                \* merkle plan of one designated field (block message, execution payload): the oracle for the
                \* root-preserving conversions (SignedHeader, Shallow)
                subplan |-> IF c.sub = <<>> THEN <<>> ELSE Plan(SubSchema(s, c.sub), SubValue(v, c.sub)),
                json |-> JsonTree(s, v), mal |-> mal, ncand |-> Len(cand), olwhy |-> "", olpath |-> "",
                selfok |-> /\ WellFormed(s, v)
                           /\ Dec(s, ser) = <<TRUE, v>>
                           /\ PlanWellFormed(plan)
                           /\ (IsFixed(s) => Len(ser) = FixedLen(s))
                           /\ (~IsFixed(s) => FixedLen(s) = 0)]

VARIABLES i, ok
Init == i = 0 /\ ok = TRUE
\* evaluation happens inside the action (TLC worker threads run with the large -Xss stack, ASSUME does not)
Next == /\ i < Len(Cases)
        /\ i' = i + 1
        /\ LET r == Eval(Cases[i + 1])
           IN /\ JsonSerialize("res_" \o ToString(i + 1) \o ".json", r)
              /\ ok' = r.selfok
SelfConsistent == ok
=============================================================================
