----------------------------- MODULE ForksParams -----------------------------
(* Bound of Forks.tla; the runner overwrites this file in its scratch copy of spec/ *)
(* (4 in the quick tier: 462 schedules, 5 in the thorough tier: 924 schedules).     *)
MaxForkEpoch == 4
=============================================================================
