------------------------------ MODULE BitsEval ------------------------------
(* Enumerates cases for every operator of Bits.tla (bit fields of length 0..17, i.e. across the byte boundaries 7/8/9 and
   15/16/17; validator sets over 0..4) and writes them with the results the operators give; the harness (`ssz bits`)
   executes the same calls on the real types and compares. *)
EXTENDS Bits, TLC, Json

MaxLen == 17
Lens == 0..MaxLen

\* bit patterns of one length
Pat(n, k) == CASE k = 1 -> [i \in 1..n |-> 0]
               [] k = 2 -> [i \in 1..n |-> 1]
               [] k = 3 -> [i \in 1..n |-> i % 2]
               [] k = 4 -> [i \in 1..n |-> (i + 1) % 2]
               [] k = 5 -> [i \in 1..n |-> IF i = 1 THEN 1 ELSE 0]
               [] k = 6 -> [i \in 1..n |-> IF i = n THEN 1 ELSE 0]
               [] k = 7 -> [i \in 1..n |-> IF i = (n + 1) \div 2 THEN 1 ELSE 0]
               [] k = 8 -> [i \in 1..n |-> IF (i * i * 7 + n * 3 + i) % 5 < 2 THEN 1 ELSE 0]
               [] k = 9 -> [i \in 1..n |-> IF (i * 11 + n) % 3 = 0 THEN 1 ELSE 0]
Pats == 1..9
Committee(n) == [i \in 1..n |-> 100 + 3 * i]
Idx(n) == {0, 6, 7, 8, 9, 15, 16, n - 1} \cap 0..(n - 1)

RECURSIVE SetToSeqAny(_)
SetToSeqAny(S) == IF S = {} THEN <<>> ELSE LET x == CHOOSE x \in S : TRUE IN <<x>> \o SetToSeqAny(S \ {x})
UnaryCases == { [op |-> "unary", n |-> n, a |-> Pat(n, k), committee |-> Committee(n),
                 bitlen |-> BitLen(Pat(n, k)), ones |-> OnesCount(Pat(n, k)),
                 participants |-> Participants(Pat(n, k), Committee(n)),
                 nonparticipants |-> NonParticipants(Pat(n, k), Committee(n)),
                 single |-> SingleParticipant(Pat(n, k), Committee(n)),
                 bits |-> [i \in 1..n |-> GetBit(Pat(n, k), i - 1)]] : n \in Lens, k \in Pats }
SetCases == UNION { { [op |-> "setbit", n |-> n, a |-> Pat(n, k), i |-> i, v |-> v, result |-> SetBit(Pat(n, k), i, v)]
                      : i \in Idx(n), v \in {0, 1} } : n \in Lens, k \in {1, 2, 3, 8} }
PairCases == { [op |-> "pair", n |-> n, a |-> Pat(n, k), b |-> Pat(n, m),
                or |-> Or(Pat(n, k), Pat(n, m)), covers |-> Covers(Pat(n, k), Pat(n, m))] : n \in Lens, k \in Pats, m \in Pats }

Universe == 0..4
Lists == UNION { [1..m -> 0..2] : m \in 0..4 }
DedupCases == { [op |-> "dedup", list |-> l, result |-> Dedup(l)] : l \in Lists }
VSets == SUBSET Universe
VPairCases == { [op |-> "vpair", a |-> SortedSeq(A), b |-> SortedSeq(B), intersects |-> Intersects(SortedSeq(A), SortedSeq(B)),
                 disjoint |-> A \cap B = {},
                 merged |-> IF A \cap B = {} THEN MergeDisjoint(SortedSeq(A), SortedSeq(B)) ELSE <<>>] : A \in VSets, B \in VSets }
SwapCases == { [op |-> "swap", s |-> <<5, 7, 9, 11>>, i |-> i, j |-> j, result |-> Swap(<<5, 7, 9, 11>>, i, j)] : i \in 0..3, j \in 0..3 }
VersionCases == { [op |-> "version", v |-> v, value |-> VersionToUint32(v)]
                  : v \in {<<0, 0, 0, 0>>, <<0, 0, 0, 1>>, <<1, 0, 0, 0>>, <<0, 1, 2, 3>>, <<127, 255, 255, 255>>, <<4, 0, 16, 32>>, <<0, 0, 255, 0>>} }

AllCases == SetToSeqAny(UnaryCases) \o SetToSeqAny(SetCases) \o SetToSeqAny(PairCases) \o SetToSeqAny(DedupCases)
            \o SetToSeqAny(VPairCases) \o SetToSeqAny(SwapCases) \o SetToSeqAny(VersionCases)

VARIABLE done
Init == done = FALSE
\* evaluated inside the action (worker thread); also checks a few algebraic laws of the operators themselves
Next == /\ ~done /\ done' = TRUE
        /\ ndJsonSerialize("bits.ndjson", AllCases)
Laws == /\ \A c \in PairCases : Covers(c.or, c.a) /\ Covers(c.or, c.b) /\ (c.covers <=> c.or = c.a)
        /\ \A c \in UnaryCases : Len(c.participants) + Len(c.nonparticipants) = c.n
        /\ \A c \in VPairCases : c.intersects <=> ~c.disjoint
=============================================================================
