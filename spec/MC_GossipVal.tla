---------------------------- MODULE MC_GossipVal ----------------------------
(* Exhaustive model of GossipVal for ONE topic: every truth assignment to the topic's conditions,   *)
(* every key combination over KeyUniverse (2 keys per cache; attester slashings: every non-empty    *)
(* subset), every verdict the rule allows, from every reachable seen-cache state. The state also    *)
(* carries the history abstraction `acc` (keys of ACCEPTed messages, maintained independently of the *)
(* caches), so message sequences of ANY length over the key universe are covered (the reachable     *)
(* state space is finite and fully explored; sequences of <= 4 messages are a subset). Refused      *)
(* messages need no history: the invariants below hold in EVERY reachable state, i.e. after every   *)
(* sequence of earlier refusals with the same or another key.                                       *)
(*                                                                                                  *)
(* Checked (viol = "" in every reachable state):                                                    *)
(*   accept-invalid  : a message with a failing condition is never ACCEPTed                         *)
(*   dup-after-accept: an otherwise valid message all of whose keys (of some cache) were ACCEPTed   *)
(*                     before is IGNOREd                                                            *)
(*   suppressed      : an otherwise valid message with a never-ACCEPTed key in every cache is       *)
(*                     ACCEPTed, however many messages with the same key were refused before        *)
(*   mark-on-refuse  : the caches change only on ACCEPT                                             *)
(*   timing-reject   : a message failing only T conditions is not REJECTed                          *)
(* Mutant # "none" switches a deliberate design error on (used by the self-test to show that the    *)
(* invariants are not vacuous).                                                                     *)
EXTENDS GossipVal

CONSTANTS Topic, KeyUniverse, Mutant

VARIABLES seen, acc, viol
vars == <<seen, acc, viol>>

KeySets(k) == IF k = "aslash" THEN SUBSET KeyUniverse \ {{}} ELSE {{x} : x \in KeyUniverse}

Msgs == {[topic |-> Topic, cond |-> c, key |-> ks] :
            c \in [CondNames(Topic) -> BOOLEAN],
            ks \in {f \in [CachesOf(Topic) -> SUBSET KeyUniverse] : \A k \in CachesOf(Topic) : f[k] \in KeySets(k)}}

AllCondsTrue(m) == \A n \in CondNames(m.topic) : m.cond[n]

\* what the (possibly mutated) design answers
MAllowed(m) == IF Mutant = "reject-timing" /\ Failing(seen, m) # {} THEN {"REJECT"} ELSE Allowed(seen, m)
MMarks(m, v) ==
    CASE Mutant = "mark-on-ignore" /\ v = "IGNORE" -> KeysOf(m)
      [] Mutant = "mark-before-last" /\ v # "ACCEPT" /\
            Failing(seen, m) = {Table(m.topic)[Len(Table(m.topic))]} -> KeysOf(m)
      [] OTHER -> ExpectedMarks(m, v)

Violation(m, v, seen2) ==
    LET dup == \E k \in CachesOf(m.topic) : m.key[k] \subseteq acc[k]
    IN CASE v = "ACCEPT" /\ ~AllCondsTrue(m) -> "accept-invalid"
         [] v = "ACCEPT" /\ dup -> "dup-after-accept"
         [] AllCondsTrue(m) /\ dup /\ v # "IGNORE" -> "dup-after-accept"
         [] AllCondsTrue(m) /\ ~dup /\ v # "ACCEPT" -> "suppressed"
         [] v # "ACCEPT" /\ seen2 # seen -> "mark-on-refuse"
         [] v = "REJECT" /\ (\A r \in Failing(seen, m) : r.c = "T") -> "timing-reject"
         [] OTHER -> ""

Init == seen = EmptySeen /\ acc = EmptySeen /\ viol = ""

Next == \E m \in Msgs : \E v \in MAllowed(m) :
          LET marks == MMarks(m, v)
              seen2 == Marked(seen, marks)
          IN /\ seen' = seen2
             /\ acc' = IF v = "ACCEPT" THEN Marked(acc, KeysOf(m)) ELSE acc
             /\ viol' = Violation(m, v, seen2)

Spec == Init /\ [][Next]_vars

NoViolation == viol = ""
SeenIsAccepted == seen = acc
TypeOK == /\ \A k \in Caches : seen[k] \subseteq KeyUniverse
          /\ \A k \in Caches \ CachesOf(Topic) : seen[k] = {}
=============================================================================
