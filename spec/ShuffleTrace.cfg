CONSTANTS
  TraceFile = "trace.ndjson"
  Diagnose = FALSE
INIT Init
NEXT Next
POSTCONDITION AllAccepted
CHECK_DEADLOCK FALSE
