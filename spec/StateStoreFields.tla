-------------------------- MODULE StateStoreFields --------------------------
(* Placeholder: the runner overwrites this module in its scratch copy with the field table of the fork being simulated. *)
ForkFields == << [name |-> "slot", kind |-> "scalar", len |-> 0, cap |-> 0, ops |-> <<"load", "set">>] >>
=============================================================================
