------------------------- MODULE ForkChoiceTrace -------------------------
(* Validates executions recorded from the real fork choice (harness/cmd/fc) against ForkChoice.tla. *)
(* One ndjson line per public call; several histories per file, each started by an "Init" event.    *)
(* Every event is checked in phases: "call" (reply + abstract state change), for UpdateJustified a  *)
(* separate "prune" phase evaluated in the updated state (as the code does: update, then prune),    *)
(* and "obs" (the observation battery logged after a mutating call: node set, checkpoints, head).   *)
(* A mismatch is printed ("MISMATCH", line, what, expected, logged) and the rest of that history is *)
(* skipped (poison), so one run reports every failing history.                                      *)
EXTENDS ForkChoice, Json

Trace == ndJsonDeserialize("trace.ndjson")

VARIABLES l,        \* index of the event being processed
          ph,       \* "call" | "prune" | "obs"
          poison,   \* TRUE: ignore events until the next Init
          nilsink   \* the history runs without a prune sink

tvars == <<l, ph, poison, nilsink>>
allvars == <<nodes, votes, bal, just, fin, pin, detached, l, ph, poison, nilsink>>

E == Trace[l]
ToSet(s) == {s[i] : i \in DOMAIN s}
B(i) == i = 1
CPRec(c) == [epoch |-> c.epoch, root |-> c.root]
RefOf(r) == <<r.root, r.slot>>

Mismatch(what, exp, got) == PrintT(<<"MISMATCH", l, E.h, E.ev, what, exp, got>>)
Deviation(name) == PrintT(<<"DEVIATION", name, l, E.h>>)
Note(what) == PrintT(<<"NOTE", what, l, E.h>>)

\* continue with the next event / next phase
Advance == l' = l + 1 /\ ph' = "call"
ToObs == l' = l /\ ph' = "obs"
Fail == /\ poison' = TRUE /\ l' = l + 1 /\ ph' = "call"
        /\ UNCHANGED <<nodes, votes, bal, just, fin, pin, detached, nilsink>>

TraceInit == /\ l = 1 /\ ph = "call" /\ poison = TRUE /\ nilsink = FALSE
             /\ nodes = <<>> /\ votes = <<>> /\ bal = <<>> /\ detached = {}
             /\ just = [epoch |-> 0, root |-> 0] /\ fin = [epoch |-> 0, root |-> 0] /\ pin = <<>>
             /\ TLCSet(1, 1)

---------------------------------------------------------------------------
DoInit ==
    /\ E.ev = "Init"
    /\ IF E.out = "ok" /\ E.ret.ok = 1 /\ E.j.epoch >= E.f.epoch /\ E.spe = SPE
       THEN /\ nodes' = <<NewNode(E.root, E.slot, E.parent, E.j.epoch, E.f.epoch)>>
            /\ votes' = <<>> /\ detached' = {}
            /\ bal' = E.bal
            /\ just' = CPRec(E.j) /\ fin' = CPRec(E.f)
            /\ pin' = <<E.root, E.slot>>
            /\ poison' = FALSE /\ nilsink' = B(E.nilsink)
            /\ ToObs
       ELSE /\ Mismatch("init", "ok", E.out)
            /\ Fail

SkipPoisoned == /\ poison /\ E.ev # "Init"
                /\ l' = l + 1 /\ UNCHANGED <<nodes, votes, bal, just, fin, pin, detached, ph, poison, nilsink>>

\* a call that panicked or did not return within the watchdog
Crashed == /\ ~poison /\ E.ev # "Init" /\ ph = "call" /\ E.out # "ok"
           /\ Mismatch("outcome", "ok", E.out)
           /\ Fail

\* A reply or observation that differs from the specification is reported and validation CONTINUES from the
\* state the specification prescribes (only a crashed object or an input outside the drivers' precondition ends
\* the history), so that one defect is seen through every property it affects - a swallowed checkpoint update is
\* a wrong reply (C10) and, later, a wrong head (C09).
Chk(ok, what, exp, got) == IF ok THEN TRUE ELSE Mismatch(what, exp, got)

CallProcessBlock ==
    /\ E.ev = "ProcessBlock"
    /\ LET exp == ProcessBlockReply(E.parent, E.root, E.slot) IN
       /\ Chk(B(E.ret.ok) = exp, "ProcessBlock reply", exp, E.ret.ok)
       /\ DoProcessBlock(E.parent, E.root, E.slot, E.je, E.fe) /\ ToObs /\ UNCHANGED <<poison, nilsink>>

CallProcessSlot ==
    /\ E.ev = "ProcessSlot"
    /\ IF Known(E.parent) /\ E.slot > First(E.parent)
       THEN DoProcessSlot(E.parent, E.slot, E.je, E.fe) /\ ToObs /\ UNCHANGED <<poison, nilsink>>
       ELSE Note("ProcessSlot outside the documented precondition; history skipped") /\ Fail

CallProcessAttestation ==
    /\ E.ev = "ProcessAttestation"
    /\ LET exp == AttestationReply(E.root, E.slot) IN
       /\ Chk(B(E.ret.ok) = exp, "ProcessAttestation reply", exp, E.ret.ok)
       /\ DoProcessAttestation(E.v, E.root, E.slot) /\ ToObs /\ UNCHANGED <<poison, nilsink>>

CallSetPin ==
    /\ E.ev = "SetPin"
    /\ LET exp == SetPinReply(E.root, E.slot) IN
       /\ Chk(B(E.ret.ok) = exp, "SetPin reply", exp, E.ret.ok)
       /\ DoSetPin(E.root, E.slot) /\ ToObs /\ UNCHANGED <<poison, nilsink>>

CallUpdateJustified ==
    /\ E.ev = "UpdateJustified"
    /\ LET j == CPRec(E.j)
           f == CPRec(E.f)
           cls == UJClass(Ctx, E.trigger, j, f, B(E.balerr)) IN
       CASE cls = "noop" ->
              /\ Chk(E.ret.ok = 1 /\ E.pruned = <<>>, "UpdateJustified older/equal must be a no-op", <<1, <<>>>>, <<E.ret.ok, E.pruned>>)
              /\ ToObs /\ UNCHANGED <<nodes, votes, bal, just, fin, pin, detached, poison, nilsink>>
         [] cls = "refused" ->
              /\ Chk(E.ret.ok = 0 /\ E.pruned = <<>>, "UpdateJustified must refuse", <<0, <<>>>>, <<E.ret.ok, E.pruned>>)
              /\ ToObs /\ UNCHANGED <<nodes, votes, bal, just, fin, pin, detached, poison, nilsink>>
         [] OTHER ->
              /\ Chk(fin # f \/ (E.ret.ok = 1 /\ E.pruned = <<>>), "UpdateJustified accepted update", <<1, <<>>>>, <<E.ret.ok, E.pruned>>)
              /\ just' = j /\ fin' = f /\ bal' = E.bal
              /\ pin' = IF fin # f THEN <<>> ELSE pin
              /\ UNCHANGED <<nodes, votes, detached, poison, nilsink>>
              /\ IF fin # f THEN l' = l /\ ph' = "prune" ELSE ToObs

\* evaluated in the updated state: fin is the new finalized checkpoint
ReportOK(P, canon, k) ==
    LET rep == E.pruned
        \* canonical = on the transition path to the new finalized node
        expSet == {<<p[1], p[2], IF p \in canon THEN 1 ELSE 0>> : p \in P}
    IN IF nilsink THEN rep = <<>> /\ E.ret.ok = 1
       ELSE IF k = 0 \/ k > Cardinality(P)
       THEN E.ret.ok = 1 /\ Len(rep) = Cardinality(P) /\ ToSet(rep) = expSet
       ELSE E.ret.ok = 0 /\ Len(rep) = k /\ ToSet(rep) \subseteq expSet /\ Cardinality(ToSet(rep)) = k
\* what the call removed: everything, or (sink failing at call k) the nodes reported before the failing call
Removed(P, k) ==
    IF nilsink \/ k = 0 \/ k > Cardinality(P) THEN P
    ELSE {<<E.pruned[i][1], E.pruned[i][2]>> : i \in 1..(IF Len(E.pruned) >= k THEN k - 1 ELSE Len(E.pruned))} \cap P

\* the node set observed right after the call is what remains when S is dropped
NodesAfter(S) == ToSet(E.obs.nodes) = Keys \ S

PhasePrune ==
    /\ ph = "prune" /\ ~poison
    /\ LET c == Ctx
           a == PruneAnchor(fin)
           P == ToPrune(c, fin)
           P2 == ToPruneByOrder(fin)
           canon == IF Has(a) THEN CanonicalPruned(c, fin) ELSE {}
           k == E.sinkfail
           exact == ReportOK(P, canon, k) /\ NodesAfter(Removed(P, k))
           useDev == ~exact /\ "fc-prune-order" \in KnownDeviations /\ P2 # P
                     /\ ReportOK(P2, canon, k) /\ NodesAfter(Removed(P2, k))
           R == IF useDev THEN Removed(P2, k) ELSE Removed(P, k)
       IN
       /\ IF useDev THEN Deviation("fc-prune-order")
          ELSE IF P = {} THEN Chk(E.ret.ok = 1 /\ E.pruned = <<>>, "nothing to prune", <<1, <<>>>>, <<E.ret.ok, E.pruned>>)
          ELSE Chk(exact, "prune report", <<P, canon>>, <<E.ret.ok, E.pruned, E.obs.nodes>>)
       /\ nodes' = Remove(R)
       /\ detached' = (detached \ R) \cup DetachedBy(R, R = (IF useDev THEN P2 ELSE P), PruneAnchor(fin))
       /\ ToObs /\ UNCHANGED <<votes, bal, just, fin, pin, poison, nilsink>>

QueryOK(c, lg) ==
    LET r == E.ret
        gotRef == <<B(r.ok), <<r.root, r.slot>>>>
    IN CASE E.q = "Head" -> gotRef = HeadOf(c, lg)
         [] E.q = "FindHead" -> gotRef = FindHeadOf(c, <<E.anchor, E.slot>>, lg)
         [] E.q = "CanonicalChain" ->
              LET exp == CanonChainOf(c, <<E.anchor, E.slot>>, lg) IN
              /\ B(r.ok) = exp[1]
              /\ exp[1] => /\ Len(r.chain) = Len(exp[2])
                           /\ \A i \in DOMAIN r.chain :
                                 /\ <<r.chain[i][1], r.chain[i][2]>> = exp[2][i]
                                 /\ r.chain[i][3] = nodes[IdxOf(exp[2][i])].parent
         [] E.q = "InSubtree" ->
              \/ (E.anchor = E.root /\ ~Known(E.anchor))
              \/ <<B(r.unknown), B(r.in)>> = InSubtreeOf(c, E.anchor, E.root)
         [] E.q = "ClosestToSlot" -> gotRef = ClosestOf(E.anchor, E.slot)
         [] E.q = "CanonAtSlot" -> gotRef \in CanonAtAllowed(c, E.anchor, E.slot, B(E.withblock))
         [] E.q = "GetSlot" -> <<B(r.ok), r.slot>> = GetSlotOf(E.root)
         \* emitted by the driver only when a result handed out by an earlier CanonicalChain / Search call changed
         \* its content after a later call (aliasing of an internal buffer): a returned value is a value
         [] E.q = "ResultStable" -> r.ok = 1
         [] E.q = "Search" ->
              IF E.usepar = 0 /\ E.useslot = 0
              THEN /\ Len(r.canon) = Cardinality(ToSet(r.canon)) /\ Len(r.non) = Cardinality(ToSet(r.non))
                   /\ HeadSearchOK(c, <<E.anchor, E.slot>>, B(r.ok), ToSet(r.canon), ToSet(r.non), lg)
              ELSE LET exp == SearchOf(c, <<E.anchor, E.slot>>, B(E.usepar), E.parent, B(E.useslot), E.fe, lg) IN
                   /\ B(r.ok) = exp[1]
                   /\ exp[1] => ToSet(r.canon) = exp[2] /\ ToSet(r.non) = exp[3]
                                /\ Len(r.canon) = Cardinality(exp[2]) /\ Len(r.non) = Cardinality(exp[3])
         [] OTHER -> FALSE

QueryExpected(c) ==
    CASE E.q = "Head" -> HeadOf(c, FALSE)
      [] E.q = "FindHead" -> FindHeadOf(c, <<E.anchor, E.slot>>, FALSE)
      [] E.q = "CanonicalChain" -> CanonChainOf(c, <<E.anchor, E.slot>>, FALSE)
      [] E.q = "InSubtree" -> InSubtreeOf(c, E.anchor, E.root)
      [] E.q = "ClosestToSlot" -> ClosestOf(E.anchor, E.slot)
      [] E.q = "CanonAtSlot" -> CanonAtAllowed(c, E.anchor, E.slot, B(E.withblock))
      [] E.q = "GetSlot" -> GetSlotOf(E.root)
      [] E.q = "ResultStable" -> "earlier results unchanged"
      [] E.q = "Search" -> IF E.usepar = 0 /\ E.useslot = 0 THEN "head search (loose)"
                           ELSE SearchOf(c, <<E.anchor, E.slot>>, B(E.usepar), E.parent, B(E.useslot), E.fe, FALSE)
      [] OTHER -> "?"

GapDev == "fc-gap-start" \in KnownDeviations

CallQuery ==
    /\ E.ev = "Query"
    /\ LET c == Ctx IN
       /\ IF QueryOK(c, FALSE) THEN TRUE
          ELSE IF GapDev /\ QueryOK(c, TRUE) THEN Deviation("fc-gap-start")
          ELSE Mismatch(E.q, QueryExpected(c), E.ret)
       /\ Advance /\ UNCHANGED <<nodes, votes, bal, just, fin, pin, detached, poison, nilsink>>

PhaseCall == /\ ph = "call" /\ ~poison /\ E.ev # "Init" /\ E.out = "ok"
             /\ \/ CallProcessBlock \/ CallProcessSlot \/ CallProcessAttestation
                \/ CallSetPin \/ CallUpdateJustified \/ CallQuery

PhaseObs ==
    /\ ph = "obs" /\ ~poison
    /\ LET o == E.obs
           okNodes == ToSet(o.nodes) = Keys /\ Len(o.nodes) = Cardinality(Keys)
           okCps == o.just = <<just.epoch, just.root>> /\ o.fin = <<fin.epoch, fin.root>> /\ o.pin = pin
           c == Ctx
           gotHead == <<B(o.head[1]), <<o.head[2], o.head[3]>>>>
           okHead == o.hashead = 0 \/ gotHead = HeadOf(c, FALSE)
           devHead == ~okHead /\ GapDev /\ gotHead = HeadOf(c, TRUE)
           \* internal node table (verif hook), logged when Head() succeeded: the weight of every node that has a
           \* fork-choice parent, and every best-child / best-descendant link, as the specification defines them
           ExpRow(i) == LET ch == {k \in c.kids[i] : c.leads[k]}
                            bc == IF ch = {} THEN NoRef ELSE KeyI(BestOfI(c, ch))
                            g == GhostI(c, i)
                            bd == IF g = i THEN NoRef ELSE KeyI(g)
                        IN <<nodes[i].root, nodes[i].slot, IF c.fpar[i] # 0 THEN c.w[i] ELSE 0, bc[1], bc[2], bd[1], bd[2]>>
           GotRow(r) == <<r[1], r[2], IF r[8] = 1 THEN r[3] ELSE 0, r[4], r[5], r[6], r[7]>>
           okTable == o.table = <<>> \/ (Len(o.table) = N /\ \A i \in Idx : GotRow(o.table[i]) = ExpRow(i))
       IN /\ Chk(okNodes, "nodes after call", Keys, o.nodes)
          /\ Chk(okCps, "checkpoints after call", <<just, fin, pin>>, <<o.just, o.fin, o.pin>>)
          /\ IF devHead THEN Deviation("fc-gap-start") ELSE Chk(okHead, "head after call", HeadOf(c, FALSE), o.head)
          \* the internal table is only consulted to LOCALISE a wrong head (diagnostic, never a verdict): when the head
          \* is right it is not evaluated at all (it costs O(nodes^2) per observation)
          /\ Chk((okHead \/ devHead) \/ okTable, "node table after Head", [i \in Idx |-> ExpRow(i)], o.table)
          /\ Advance /\ UNCHANGED <<nodes, votes, bal, just, fin, pin, detached, poison, nilsink>>

TraceNext ==
    /\ l <= Len(Trace)
    /\ \/ (ph = "call" /\ DoInit)
       \/ SkipPoisoned
       \/ Crashed
       \/ PhaseCall
       \/ PhasePrune
       \/ PhaseObs
    /\ TLCSet(1, l')

TraceSpec == TraceInit /\ [][TraceNext]_allvars

\* every line was consumed (mismatches are reported by the MISMATCH lines, not by rejection)
TraceAccepted == TLCGet(1) = Len(Trace) + 1
=============================================================================
