--------------------------- MODULE ForkChoiceGen ---------------------------
(* Behaviour generator: TLC simulates the fork-choice specification itself and prints each behaviour *)
(* as a JSON list of calls (same shape as the ops read by harness/cmd/fc exec). The calls are then   *)
(* executed on the real code and the recorded replies validated by ForkChoiceTrace. Because the      *)
(* arguments are drawn from the specification state, calls are proposed exactly when they are        *)
(* interesting: votes for existing nodes with newer epochs, checkpoints that pass every refusal      *)
(* rule, pins on existing nodes, blocks on every known parent including gap-slot parents.            *)
EXTENDS ForkChoice, Json

CONSTANT MaxDepth

VARIABLES hist, used, done
gvars == <<nodes, votes, bal, just, fin, pin, detached, hist, used, done>>

NV == 3
MaxRoot == 9
Bals == {<<10, 10, 10>>, <<32, 10, 0>>, <<10, 20>>, <<0, 32, 32>>}
Roots == 2..MaxRoot
KnownRoots == {nodes[i].root : i \in Idx}
LastSlot(r) == MaxOf(SlotsOf(r))
CP(e, r) == [epoch |-> e, root |-> r]

Op(ev) == [ev |-> ev, obshead |-> 1]

GenInit ==
    /\ nodes = <<NewNode(1, 0, 1, 0, 0)>>
    /\ votes = <<>> /\ bal = <<10, 10, 10>> /\ detached = {}
    /\ just = CP(0, 1) /\ fin = CP(0, 1) /\ pin = <<1, 0>>
    /\ used = {1} /\ done = FALSE
    /\ hist = << [ev |-> "Init", spe |-> SPE, root |-> 1, slot |-> 0, parent |-> 1, j |-> CP(0, 1), f |-> CP(0, 1),
                  bal |-> <<10, 10, 10>>, nilsink |-> 0, obshead |-> 1] >>

Log(op) == hist' = Append(hist, op)

\* Arguments are drawn with RandomElement so that every disjunct contributes at most one successor
\* (TLC's simulator enumerates all successors before picking one).
Pick(S) == RandomElement(S)

GBlock ==
    \E p \in {Pick(KnownRoots)}, gap \in {Pick(1..3)}, bump \in {Pick({0, 1})}, oh \in {Pick({0, 1, 1})} :
    /\ Roots \ used # {}
    /\ \E r \in {Pick(Roots \ used)} :
       LET s == IF gap = 3 /\ LastSlot(p) > First(p) THEN First(p) + 1 ELSE LastSlot(p) + gap
           pn == nodes[IdxOf(<<p, First(p)>>)]
           je == IF bump = 1 /\ EpochOf(s) > pn.je THEN EpochOf(s) ELSE pn.je
           fe == IF bump = 1 /\ je > pn.je THEN pn.je ELSE pn.fe IN
       /\ s > First(p)
       /\ DoProcessBlock(p, r, s, je, fe)
       /\ used' = used \cup {r}
       /\ Log([ev |-> "ProcessBlock", parent |-> p, root |-> r, slot |-> s, je |-> je, fe |-> fe, obshead |-> oh])
       /\ UNCHANGED done

GSlot ==
    \E p \in {Pick(KnownRoots)} :
    LET pn == nodes[IdxOf(<<p, LastSlot(p)>>)] IN
    /\ DoProcessSlot(p, LastSlot(p) + 1, pn.je, pn.fe)
    /\ Log([ev |-> "ProcessSlot", parent |-> p, slot |-> LastSlot(p) + 1, je |-> pn.je, fe |-> pn.fe, obshead |-> 0])
    /\ UNCHANGED <<used, done>>

GAtt ==
    \E v \in {Pick(0..(NV - 1))}, k \in {Pick(Keys)}, oh \in {Pick({0, 1, 1})} :
    /\ DoProcessAttestation(v, k[1], k[2])
    /\ Log([ev |-> "ProcessAttestation", v |-> v, root |-> k[1], slot |-> k[2], obshead |-> oh])
    /\ UNCHANGED <<used, done>>

\* checkpoints whose start-slot node exists; the accepted ones pass every refusal rule of UpdateJustified
ChainCPs == {CP(EpochOf(k[2]), k[1]) : k \in {x \in Keys : x[2] = StartSlot(EpochOf(x[2]))}}
GUJ ==
    \* a few random candidates per step; those that pass every refusal rule are proposed
    \E try \in 1..4 :
    \E t \in {Pick(KnownRoots)}, j \in {Pick(ChainCPs)}, f \in {Pick(ChainCPs)}, b \in {Pick(Bals)}, sf \in {Pick({0, 0, 0, 1, 2})} :
       /\ j.epoch >= f.epoch /\ (j.epoch > just.epoch \/ f.epoch > fin.epoch)
       /\ UJClass(Ctx, t, j, f, FALSE) = "updated"
       /\ just' = j /\ fin' = f /\ bal' = b
       /\ pin' = IF fin # f THEN <<>> ELSE pin
       /\ done' = (fin # f)       \* the behaviour ends with the pruning call
       /\ UNCHANGED <<nodes, votes, detached, used>>
       /\ Log([ev |-> "UpdateJustified", trigger |-> t, j |-> j, f |-> f, bal |-> b, balerr |-> 0, sinkfail |-> sf,
               obshead |-> 1])

GUJRefused ==
    \E t \in {Pick(KnownRoots)}, j \in {Pick(ChainCPs \cup {CP(3, 1)})}, f \in {Pick(ChainCPs)} :
    /\ UJClass(Ctx, t, j, f, FALSE) # "updated"
    /\ UNCHANGED <<nodes, votes, bal, just, fin, pin, detached, used, done>>
    /\ Log([ev |-> "UpdateJustified", trigger |-> t, j |-> j, f |-> f, bal |-> bal, balerr |-> 0, sinkfail |-> 0,
            obshead |-> 1])

GPin ==
    \E k \in {Pick(Keys)} :
    /\ DoSetPin(k[1], k[2])
    /\ Log([ev |-> "SetPin", root |-> k[1], slot |-> k[2], obshead |-> 1])
    /\ UNCHANGED <<used, done>>

GQuery ==
    \E q \in {Pick({"CanonicalChain", "InSubtree", "CanonAtSlot", "Search", "FindHead", "ClosestToSlot"})},
       a \in {Pick(Keys)}, k \in {Pick(Keys)}, wb \in {Pick({0, 1})} :
    /\ Log([ev |-> "Query", q |-> q, anchor |-> a[1], slot |-> (IF q \in {"CanonAtSlot", "ClosestToSlot"} THEN k[2] ELSE a[2]),
            root |-> k[1], withblock |-> wb, usepar |-> 1, parent |-> nodes[IdxOf(k)].parent, useslot |-> 0, fe |-> 0])
    /\ UNCHANGED <<nodes, votes, bal, just, fin, pin, detached, used, done>>

\* a complete behaviour is printed once by a final step, after which nothing is enabled
Finish == /\ (done \/ Len(hist) >= MaxDepth) /\ hist # <<>>
          /\ PrintT(ToJson(hist))
          /\ hist' = <<>>
          /\ UNCHANGED <<nodes, votes, bal, just, fin, pin, detached, used, done>>

GenNext == \/ (~done /\ hist # <<>> /\ Len(hist) < MaxDepth
              /\ (GBlock \/ GBlock \/ GSlot \/ GAtt \/ GAtt \/ GUJ \/ GUJRefused \/ GPin \/ GQuery))
           \/ Finish
=============================================================================
