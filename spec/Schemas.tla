------------------------------ MODULE Schemas ------------------------------
(***************************************************************************)
(* SSZ schemas of the consensus specifications (ethereum/consensus-specs   *)
(* v1.5.0-beta.2): phase0 / altair / bellatrix / capella / deneb / electra *)
(* beacon-chain.md, validator.md, p2p-interface.md, altair light-client    *)
(* sync-protocol.md, tests/formats/rewards (Deltas), parameterised by a    *)
(* preset record.  Transcribed from the specification text, not from zrnt. *)
(*                                                                         *)
(* The table at the end binds every SSZ type exported by zrnt (key         *)
(* "<package>.<GoType>") to the schema the specification gives for it.     *)
(* Entries are <<name, schema, public, source>>; public = FALSE marks      *)
(* types for which the current specification has no schema of that shape   *)
(* (library-internal helper containers / an older spec revision): for      *)
(* those the schema states what the library documents and the evidence     *)
(* marks them "internal consistency only".                                 *)
(***************************************************************************)
EXTENDS SSZ

---------------------------------------------------------------------------
(* constructors *)
U8   == <<"uint", 1>>
U64  == <<"uint", 8>>
U256 == <<"uint", 32>>
Boolean == <<"bool">>
BytesN(n) == <<"bytevector", n>>
ByteList(lim) == <<"bytelist", lim>>
Vec(e, n) == <<"vector", e, n>>
List(e, lim) == <<"list", e, lim>>
BitVec(n) == <<"bitvector", n>>
BitList(lim) == <<"bitlist", lim>>
Con(fields) == <<"container", fields>>
F(name, s) == <<name, s>>

---------------------------------------------------------------------------
(* presets: list limits are Lim pairs, vector lengths are integers *)

\* constants that are the same in every preset
DEPOSIT_CONTRACT_TREE_DEPTH == 32
JUSTIFICATION_BITS_LENGTH == 4
ATTESTATION_SUBNET_COUNT == 64
SYNC_COMMITTEE_SUBNET_COUNT == 4
BYTES_PER_LOGS_BLOOM == 256
MAX_EXTRA_DATA_BYTES == 32
FINALIZED_ROOT_GINDEX == 105          \* altair sync-protocol
NEXT_SYNC_COMMITTEE_GINDEX == 55

Mainnet == [
  name |-> "mainnet",
  MAX_COMMITTEES_PER_SLOT |-> 64, MAX_VALIDATORS_PER_COMMITTEE |-> 2048,
  SLOTS_PER_EPOCH |-> 32, EPOCHS_PER_ETH1_VOTING_PERIOD |-> 64,
  SLOTS_PER_HISTORICAL_ROOT |-> 8192, EPOCHS_PER_HISTORICAL_VECTOR |-> 65536,
  EPOCHS_PER_SLASHINGS_VECTOR |-> 8192,
  HISTORICAL_ROOTS_LIMIT |-> Pow2Lim(24), VALIDATOR_REGISTRY_LIMIT |-> Pow2Lim(40),
  MAX_PROPOSER_SLASHINGS |-> 16, MAX_ATTESTER_SLASHINGS |-> 2, MAX_ATTESTATIONS |-> 128,
  MAX_DEPOSITS |-> 16, MAX_VOLUNTARY_EXITS |-> 16,
  SYNC_COMMITTEE_SIZE |-> 512,
  MAX_BYTES_PER_TRANSACTION |-> Pow2Lim(30), MAX_TRANSACTIONS_PER_PAYLOAD |-> Pow2Lim(20),
  MAX_BLS_TO_EXECUTION_CHANGES |-> 16, MAX_WITHDRAWALS_PER_PAYLOAD |-> 16,
  MAX_BLOB_COMMITMENTS_PER_BLOCK |-> 4096,
  PENDING_DEPOSITS_LIMIT |-> Pow2Lim(27), PENDING_PARTIAL_WITHDRAWALS_LIMIT |-> Pow2Lim(27),
  PENDING_CONSOLIDATIONS_LIMIT |-> Pow2Lim(18),
  MAX_ATTESTER_SLASHINGS_ELECTRA |-> 1, MAX_ATTESTATIONS_ELECTRA |-> 8,
  MAX_CONSOLIDATION_REQUESTS_PER_PAYLOAD |-> 2, MAX_DEPOSIT_REQUESTS_PER_PAYLOAD |-> 8192,
  MAX_WITHDRAWAL_REQUESTS_PER_PAYLOAD |-> 16 ]

Minimal == [ Mainnet EXCEPT
  !.name = "minimal",
  !.MAX_COMMITTEES_PER_SLOT = 4,
  !.SLOTS_PER_EPOCH = 8, !.EPOCHS_PER_ETH1_VOTING_PERIOD = 4,
  !.SLOTS_PER_HISTORICAL_ROOT = 64, !.EPOCHS_PER_HISTORICAL_VECTOR = 64,
  !.EPOCHS_PER_SLASHINGS_VECTOR = 64,
  !.SYNC_COMMITTEE_SIZE = 32,
  !.MAX_WITHDRAWALS_PER_PAYLOAD = 4,
  !.MAX_BLOB_COMMITMENTS_PER_BLOCK = 32,
  !.PENDING_PARTIAL_WITHDRAWALS_LIMIT = Lim(64), !.PENDING_CONSOLIDATIONS_LIMIT = Lim(64),
  !.MAX_DEPOSIT_REQUESTS_PER_PAYLOAD = 4, !.MAX_WITHDRAWAL_REQUESTS_PER_PAYLOAD = 2 ]

\* two custom presets ("arbitrary custom presets": limits are configuration): small, mostly not powers
\* of two, so that every limit-dependent padding/packing rule is exercised off the published values
TinyA == [
  name |-> "tiny_a",
  MAX_COMMITTEES_PER_SLOT |-> 3, MAX_VALIDATORS_PER_COMMITTEE |-> 5,
  SLOTS_PER_EPOCH |-> 3, EPOCHS_PER_ETH1_VOTING_PERIOD |-> 2,
  SLOTS_PER_HISTORICAL_ROOT |-> 5, EPOCHS_PER_HISTORICAL_VECTOR |-> 6,
  EPOCHS_PER_SLASHINGS_VECTOR |-> 3,
  HISTORICAL_ROOTS_LIMIT |-> Lim(5), VALIDATOR_REGISTRY_LIMIT |-> Lim(11),
  MAX_PROPOSER_SLASHINGS |-> 1, MAX_ATTESTER_SLASHINGS |-> 1, MAX_ATTESTATIONS |-> 3,
  MAX_DEPOSITS |-> 2, MAX_VOLUNTARY_EXITS |-> 3,
  SYNC_COMMITTEE_SIZE |-> 12,
  MAX_BYTES_PER_TRANSACTION |-> Lim(40), MAX_TRANSACTIONS_PER_PAYLOAD |-> Lim(3),
  MAX_BLS_TO_EXECUTION_CHANGES |-> 2, MAX_WITHDRAWALS_PER_PAYLOAD |-> 3,
  MAX_BLOB_COMMITMENTS_PER_BLOCK |-> 3,
  PENDING_DEPOSITS_LIMIT |-> Lim(5), PENDING_PARTIAL_WITHDRAWALS_LIMIT |-> Lim(3),
  PENDING_CONSOLIDATIONS_LIMIT |-> Lim(2),
  MAX_ATTESTER_SLASHINGS_ELECTRA |-> 1, MAX_ATTESTATIONS_ELECTRA |-> 2,
  MAX_CONSOLIDATION_REQUESTS_PER_PAYLOAD |-> 1, MAX_DEPOSIT_REQUESTS_PER_PAYLOAD |-> 3,
  MAX_WITHDRAWAL_REQUESTS_PER_PAYLOAD |-> 2 ]

TinyB == [
  name |-> "tiny_b",
  MAX_COMMITTEES_PER_SLOT |-> 8, MAX_VALIDATORS_PER_COMMITTEE |-> 33,
  SLOTS_PER_EPOCH |-> 4, EPOCHS_PER_ETH1_VOTING_PERIOD |-> 1,
  SLOTS_PER_HISTORICAL_ROOT |-> 9, EPOCHS_PER_HISTORICAL_VECTOR |-> 17,
  EPOCHS_PER_SLASHINGS_VECTOR |-> 5,
  HISTORICAL_ROOTS_LIMIT |-> Lim(1), VALIDATOR_REGISTRY_LIMIT |-> Lim(300),
  MAX_PROPOSER_SLASHINGS |-> 2, MAX_ATTESTER_SLASHINGS |-> 3, MAX_ATTESTATIONS |-> 5,
  MAX_DEPOSITS |-> 1, MAX_VOLUNTARY_EXITS |-> 9,
  SYNC_COMMITTEE_SIZE |-> 36,
  MAX_BYTES_PER_TRANSACTION |-> Lim(33), MAX_TRANSACTIONS_PER_PAYLOAD |-> Lim(5),
  MAX_BLS_TO_EXECUTION_CHANGES |-> 1, MAX_WITHDRAWALS_PER_PAYLOAD |-> 5,
  MAX_BLOB_COMMITMENTS_PER_BLOCK |-> 7,
  PENDING_DEPOSITS_LIMIT |-> Lim(9), PENDING_PARTIAL_WITHDRAWALS_LIMIT |-> Lim(1),
  PENDING_CONSOLIDATIONS_LIMIT |-> Lim(17),
  MAX_ATTESTER_SLASHINGS_ELECTRA |-> 2, MAX_ATTESTATIONS_ELECTRA |-> 3,
  MAX_CONSOLIDATION_REQUESTS_PER_PAYLOAD |-> 3, MAX_DEPOSIT_REQUESTS_PER_PAYLOAD |-> 1,
  MAX_WITHDRAWAL_REQUESTS_PER_PAYLOAD |-> 5 ]

Presets == <<Mainnet, Minimal, TinyA, TinyB>>
Preset(n) == CHOOSE p \in {Presets[i] : i \in 1..Len(Presets)} : p.name = n

---------------------------------------------------------------------------
(* custom types (phase0 beacon-chain.md "Custom types" and later forks) *)
Slot == U64
Epoch == U64
CommitteeIndex == U64
ValidatorIndex == U64
Gwei == U64
Root == BytesN(32)
Hash32 == BytesN(32)
Bytes32 == BytesN(32)
Version == BytesN(4)
DomainType == BytesN(4)
ForkDigest == BytesN(4)
Domain == BytesN(32)
BLSPubkey == BytesN(48)
BLSSignature == BytesN(96)
ParticipationFlags == U8                  \* altair
ExecutionAddress == BytesN(20)            \* bellatrix
WithdrawalIndex == U64                    \* capella
KZGCommitment == BytesN(48)               \* deneb
Transaction(P) == ByteList(P.MAX_BYTES_PER_TRANSACTION)

---------------------------------------------------------------------------
(* phase0 containers *)
Fork == Con(<<F("previous_version", Version), F("current_version", Version), F("epoch", Epoch)>>)
ForkData == Con(<<F("current_version", Version), F("genesis_validators_root", Root)>>)
Checkpoint == Con(<<F("epoch", Epoch), F("root", Root)>>)
Validator == Con(<<
    F("pubkey", BLSPubkey), F("withdrawal_credentials", Bytes32), F("effective_balance", Gwei),
    F("slashed", Boolean), F("activation_eligibility_epoch", Epoch), F("activation_epoch", Epoch),
    F("exit_epoch", Epoch), F("withdrawable_epoch", Epoch)>>)
AttestationData == Con(<<
    F("slot", Slot), F("index", CommitteeIndex), F("beacon_block_root", Root),
    F("source", Checkpoint), F("target", Checkpoint)>>)
AttestingIndices(P) == List(ValidatorIndex, Lim(P.MAX_VALIDATORS_PER_COMMITTEE))
IndexedAttestation(P) == Con(<<
    F("attesting_indices", AttestingIndices(P)), F("data", AttestationData), F("signature", BLSSignature)>>)
AggregationBits(P) == BitList(Lim(P.MAX_VALIDATORS_PER_COMMITTEE))
PendingAttestation(P) == Con(<<
    F("aggregation_bits", AggregationBits(P)), F("data", AttestationData),
    F("inclusion_delay", Slot), F("proposer_index", ValidatorIndex)>>)
Eth1Data == Con(<<F("deposit_root", Root), F("deposit_count", U64), F("block_hash", Hash32)>>)
HistoricalRootsVector(P) == Vec(Root, P.SLOTS_PER_HISTORICAL_ROOT)
HistoricalBatch(P) == Con(<<F("block_roots", HistoricalRootsVector(P)), F("state_roots", HistoricalRootsVector(P))>>)
DepositMessage == Con(<<F("pubkey", BLSPubkey), F("withdrawal_credentials", Bytes32), F("amount", Gwei)>>)
DepositData == Con(<<
    F("pubkey", BLSPubkey), F("withdrawal_credentials", Bytes32), F("amount", Gwei), F("signature", BLSSignature)>>)
BeaconBlockHeader == Con(<<
    F("slot", Slot), F("proposer_index", ValidatorIndex), F("parent_root", Root),
    F("state_root", Root), F("body_root", Root)>>)
SigningData == Con(<<F("object_root", Root), F("domain", Domain)>>)
SignedBeaconBlockHeader == Con(<<F("message", BeaconBlockHeader), F("signature", BLSSignature)>>)
ProposerSlashing == Con(<<F("signed_header_1", SignedBeaconBlockHeader), F("signed_header_2", SignedBeaconBlockHeader)>>)
AttesterSlashing(P) == Con(<<F("attestation_1", IndexedAttestation(P)), F("attestation_2", IndexedAttestation(P))>>)
Attestation(P) == Con(<<
    F("aggregation_bits", AggregationBits(P)), F("data", AttestationData), F("signature", BLSSignature)>>)
DepositProof == Vec(Bytes32, DEPOSIT_CONTRACT_TREE_DEPTH + 1)
Deposit == Con(<<F("proof", DepositProof), F("data", DepositData)>>)
VoluntaryExit == Con(<<F("epoch", Epoch), F("validator_index", ValidatorIndex)>>)
SignedVoluntaryExit == Con(<<F("message", VoluntaryExit), F("signature", BLSSignature)>>)

ProposerSlashings(P) == List(ProposerSlashing, Lim(P.MAX_PROPOSER_SLASHINGS))
AttesterSlashings(P) == List(AttesterSlashing(P), Lim(P.MAX_ATTESTER_SLASHINGS))
Attestations(P) == List(Attestation(P), Lim(P.MAX_ATTESTATIONS))
Deposits(P) == List(Deposit, Lim(P.MAX_DEPOSITS))
VoluntaryExits(P) == List(SignedVoluntaryExit, Lim(P.MAX_VOLUNTARY_EXITS))

Phase0BodyFields(P) == <<
    F("randao_reveal", BLSSignature), F("eth1_data", Eth1Data), F("graffiti", Bytes32),
    F("proposer_slashings", ProposerSlashings(P)), F("attester_slashings", AttesterSlashings(P)),
    F("attestations", Attestations(P)), F("deposits", Deposits(P)), F("voluntary_exits", VoluntaryExits(P))>>
Phase0BeaconBlockBody(P) == Con(Phase0BodyFields(P))
BlockOf(body) == Con(<<
    F("slot", Slot), F("proposer_index", ValidatorIndex), F("parent_root", Root),
    F("state_root", Root), F("body", body)>>)
SignedOf(msg) == Con(<<F("message", msg), F("signature", BLSSignature)>>)

HistoricalRoots(P) == List(Root, P.HISTORICAL_ROOTS_LIMIT)
Eth1DataVotes(P) == List(Eth1Data, Lim(P.EPOCHS_PER_ETH1_VOTING_PERIOD * P.SLOTS_PER_EPOCH))
Validators(P) == List(Validator, P.VALIDATOR_REGISTRY_LIMIT)
Balances(P) == List(Gwei, P.VALIDATOR_REGISTRY_LIMIT)
RandaoMixes(P) == Vec(Bytes32, P.EPOCHS_PER_HISTORICAL_VECTOR)
Slashings(P) == Vec(Gwei, P.EPOCHS_PER_SLASHINGS_VECTOR)
PendingAttestations(P) == List(PendingAttestation(P), Lim(P.MAX_ATTESTATIONS * P.SLOTS_PER_EPOCH))
JustificationBits == BitVec(JUSTIFICATION_BITS_LENGTH)

StateHead(P) == <<
    F("genesis_time", U64), F("genesis_validators_root", Root), F("slot", Slot), F("fork", Fork),
    F("latest_block_header", BeaconBlockHeader),
    F("block_roots", HistoricalRootsVector(P)), F("state_roots", HistoricalRootsVector(P)),
    F("historical_roots", HistoricalRoots(P)),
    F("eth1_data", Eth1Data), F("eth1_data_votes", Eth1DataVotes(P)), F("eth1_deposit_index", U64),
    F("validators", Validators(P)), F("balances", Balances(P)),
    F("randao_mixes", RandaoMixes(P)), F("slashings", Slashings(P))>>
StateFinality == <<
    F("justification_bits", JustificationBits),
    F("previous_justified_checkpoint", Checkpoint), F("current_justified_checkpoint", Checkpoint),
    F("finalized_checkpoint", Checkpoint)>>
Phase0BeaconState(P) == Con(StateHead(P) \o <<
    F("previous_epoch_attestations", PendingAttestations(P)),
    F("current_epoch_attestations", PendingAttestations(P))>> \o StateFinality)

\* validator.md
AggregateAndProofOf(att) == Con(<<
    F("aggregator_index", ValidatorIndex), F("aggregate", att), F("selection_proof", BLSSignature)>>)

\* p2p-interface.md
Status == Con(<<
    F("fork_digest", ForkDigest), F("finalized_root", Root), F("finalized_epoch", Epoch),
    F("head_root", Root), F("head_slot", Slot)>>)
ENRForkID == Con(<<F("fork_digest", ForkDigest), F("next_fork_version", Version), F("next_fork_epoch", Epoch)>>)
Attnets == BitVec(ATTESTATION_SUBNET_COUNT)
Syncnets == BitVec(SYNC_COMMITTEE_SUBNET_COUNT)
MetaDataAltair == Con(<<F("seq_number", U64), F("attnets", Attnets), F("syncnets", Syncnets)>>)

\* tests/formats/rewards
Deltas(P) == Con(<<F("rewards", List(U64, P.VALIDATOR_REGISTRY_LIMIT)),
                   F("penalties", List(U64, P.VALIDATOR_REGISTRY_LIMIT))>>)

---------------------------------------------------------------------------
(* altair *)
SyncCommitteePubkeys(P) == Vec(BLSPubkey, P.SYNC_COMMITTEE_SIZE)
SyncCommittee(P) == Con(<<F("pubkeys", SyncCommitteePubkeys(P)), F("aggregate_pubkey", BLSPubkey)>>)
SyncCommitteeBits(P) == BitVec(P.SYNC_COMMITTEE_SIZE)
SyncAggregate(P) == Con(<<
    F("sync_committee_bits", SyncCommitteeBits(P)), F("sync_committee_signature", BLSSignature)>>)
ParticipationList(P) == List(ParticipationFlags, P.VALIDATOR_REGISTRY_LIMIT)
InactivityScores(P) == List(U64, P.VALIDATOR_REGISTRY_LIMIT)
AltairBodyFields(P) == Phase0BodyFields(P) \o <<F("sync_aggregate", SyncAggregate(P))>>
AltairBeaconBlockBody(P) == Con(AltairBodyFields(P))
AltairStateFields(P) == StateHead(P) \o <<
    F("previous_epoch_participation", ParticipationList(P)),
    F("current_epoch_participation", ParticipationList(P))>> \o StateFinality \o <<
    F("inactivity_scores", InactivityScores(P)),
    F("current_sync_committee", SyncCommittee(P)), F("next_sync_committee", SyncCommittee(P))>>
AltairBeaconState(P) == Con(AltairStateFields(P))

\* altair validator.md
SyncCommitteeMessage == Con(<<
    F("slot", Slot), F("beacon_block_root", Root), F("validator_index", ValidatorIndex),
    F("signature", BLSSignature)>>)
SyncSubcommitteeBits(P) == BitVec(P.SYNC_COMMITTEE_SIZE \div SYNC_COMMITTEE_SUBNET_COUNT)
SyncCommitteeContribution(P) == Con(<<
    F("slot", Slot), F("beacon_block_root", Root), F("subcommittee_index", U64),
    F("aggregation_bits", SyncSubcommitteeBits(P)), F("signature", BLSSignature)>>)
ContributionAndProof(P) == Con(<<
    F("aggregator_index", ValidatorIndex), F("contribution", SyncCommitteeContribution(P)),
    F("selection_proof", BLSSignature)>>)
SyncAggregatorSelectionData == Con(<<F("slot", Slot), F("subcommittee_index", U64)>>)

\* altair light client (sync-protocol.md).  zrnt implements the revision in which the update carries plain
\* BeaconBlockHeaders (consensus-specs v1.2.0); LightClientHeader{beacon} of later revisions has the same
\* encoding and the same root (single-field container), only its text form nests one level deeper.
NextSyncCommitteeBranch == Vec(Bytes32, FloorLog2(NEXT_SYNC_COMMITTEE_GINDEX))
FinalityBranch == Vec(Bytes32, FloorLog2(FINALIZED_ROOT_GINDEX))
LightClientUpdate(P) == Con(<<
    F("attested_header", BeaconBlockHeader), F("next_sync_committee", SyncCommittee(P)),
    F("next_sync_committee_branch", NextSyncCommitteeBranch),
    F("finalized_header", BeaconBlockHeader), F("finality_branch", FinalityBranch),
    F("sync_aggregate", SyncAggregate(P)), F("signature_slot", Slot)>>)
\* consensus-specs v1.1.x sync-protocol.md
LightClientSnapshot(P) == Con(<<
    F("header", BeaconBlockHeader), F("current_sync_committee", SyncCommittee(P)),
    F("next_sync_committee", SyncCommittee(P))>>)

---------------------------------------------------------------------------
(* bellatrix *)
PayloadHead == <<
    F("parent_hash", Hash32), F("fee_recipient", ExecutionAddress), F("state_root", Bytes32),
    F("receipts_root", Bytes32), F("logs_bloom", BytesN(BYTES_PER_LOGS_BLOOM)), F("prev_randao", Bytes32),
    F("block_number", U64), F("gas_limit", U64), F("gas_used", U64), F("timestamp", U64),
    F("extra_data", ByteList(Lim(MAX_EXTRA_DATA_BYTES))), F("base_fee_per_gas", U256),
    F("block_hash", Hash32)>>
Transactions(P) == List(Transaction(P), P.MAX_TRANSACTIONS_PER_PAYLOAD)
BellatrixExecutionPayload(P) == Con(PayloadHead \o <<F("transactions", Transactions(P))>>)
BellatrixExecutionPayloadHeader == Con(PayloadHead \o <<F("transactions_root", Root)>>)
BellatrixBeaconBlockBody(P) == Con(AltairBodyFields(P) \o <<F("execution_payload", BellatrixExecutionPayload(P))>>)
BellatrixBeaconState(P) == Con(AltairStateFields(P) \o <<
    F("latest_execution_payload_header", BellatrixExecutionPayloadHeader)>>)

---------------------------------------------------------------------------
(* capella *)
Withdrawal == Con(<<
    F("index", WithdrawalIndex), F("validator_index", ValidatorIndex),
    F("address", ExecutionAddress), F("amount", Gwei)>>)
BLSToExecutionChange == Con(<<
    F("validator_index", ValidatorIndex), F("from_bls_pubkey", BLSPubkey),
    F("to_execution_address", ExecutionAddress)>>)
SignedBLSToExecutionChange == SignedOf(BLSToExecutionChange)
HistoricalSummary == Con(<<F("block_summary_root", Root), F("state_summary_root", Root)>>)
Withdrawals(P) == List(Withdrawal, Lim(P.MAX_WITHDRAWALS_PER_PAYLOAD))
BLSChanges(P) == List(SignedBLSToExecutionChange, Lim(P.MAX_BLS_TO_EXECUTION_CHANGES))
HistoricalSummaries(P) == List(HistoricalSummary, P.HISTORICAL_ROOTS_LIMIT)
CapellaExecutionPayload(P) == Con(PayloadHead \o <<
    F("transactions", Transactions(P)), F("withdrawals", Withdrawals(P))>>)
CapellaExecutionPayloadHeader == Con(PayloadHead \o <<
    F("transactions_root", Root), F("withdrawals_root", Root)>>)
CapellaBeaconBlockBody(P) == Con(AltairBodyFields(P) \o <<
    F("execution_payload", CapellaExecutionPayload(P)), F("bls_to_execution_changes", BLSChanges(P))>>)
CapellaStateTail(P) == <<
    F("next_withdrawal_index", WithdrawalIndex), F("next_withdrawal_validator_index", ValidatorIndex),
    F("historical_summaries", HistoricalSummaries(P))>>
CapellaBeaconState(P) == Con(AltairStateFields(P) \o <<
    F("latest_execution_payload_header", CapellaExecutionPayloadHeader)>> \o CapellaStateTail(P))

---------------------------------------------------------------------------
(* deneb *)
BlobGas == <<F("blob_gas_used", U64), F("excess_blob_gas", U64)>>
DenebExecutionPayload(P) == Con(PayloadHead \o <<
    F("transactions", Transactions(P)), F("withdrawals", Withdrawals(P))>> \o BlobGas)
DenebExecutionPayloadHeader == Con(PayloadHead \o <<
    F("transactions_root", Root), F("withdrawals_root", Root)>> \o BlobGas)
KZGCommitments(P) == List(KZGCommitment, Lim(P.MAX_BLOB_COMMITMENTS_PER_BLOCK))
DenebBeaconBlockBody(P) == Con(AltairBodyFields(P) \o <<
    F("execution_payload", DenebExecutionPayload(P)), F("bls_to_execution_changes", BLSChanges(P)),
    F("blob_kzg_commitments", KZGCommitments(P))>>)
DenebBeaconState(P) == Con(AltairStateFields(P) \o <<
    F("latest_execution_payload_header", DenebExecutionPayloadHeader)>> \o CapellaStateTail(P))

---------------------------------------------------------------------------
(* electra *)
DepositRequest == Con(<<
    F("pubkey", BLSPubkey), F("withdrawal_credentials", Bytes32), F("amount", Gwei),
    F("signature", BLSSignature), F("index", U64)>>)
WithdrawalRequest == Con(<<
    F("source_address", ExecutionAddress), F("validator_pubkey", BLSPubkey), F("amount", Gwei)>>)
ConsolidationRequest == Con(<<
    F("source_address", ExecutionAddress), F("source_pubkey", BLSPubkey), F("target_pubkey", BLSPubkey)>>)
DepositRequests(P) == List(DepositRequest, Lim(P.MAX_DEPOSIT_REQUESTS_PER_PAYLOAD))
WithdrawalRequests(P) == List(WithdrawalRequest, Lim(P.MAX_WITHDRAWAL_REQUESTS_PER_PAYLOAD))
ConsolidationRequests(P) == List(ConsolidationRequest, Lim(P.MAX_CONSOLIDATION_REQUESTS_PER_PAYLOAD))
ExecutionRequests(P) == Con(<<
    F("deposits", DepositRequests(P)), F("withdrawals", WithdrawalRequests(P)),
    F("consolidations", ConsolidationRequests(P))>>)
PendingDeposit == Con(<<
    F("pubkey", BLSPubkey), F("withdrawal_credentials", Bytes32), F("amount", Gwei),
    F("signature", BLSSignature), F("slot", Slot)>>)
PendingPartialWithdrawal == Con(<<
    F("validator_index", ValidatorIndex), F("amount", Gwei), F("withdrawable_epoch", Epoch)>>)
PendingConsolidation == Con(<<F("source_index", ValidatorIndex), F("target_index", ValidatorIndex)>>)
PendingDeposits(P) == List(PendingDeposit, P.PENDING_DEPOSITS_LIMIT)
PendingPartialWithdrawals(P) == List(PendingPartialWithdrawal, P.PENDING_PARTIAL_WITHDRAWALS_LIMIT)
PendingConsolidations(P) == List(PendingConsolidation, P.PENDING_CONSOLIDATIONS_LIMIT)

ElectraCommitteeLimit(P) == Lim(P.MAX_VALIDATORS_PER_COMMITTEE * P.MAX_COMMITTEES_PER_SLOT)
ElectraAggregationBits(P) == BitList(ElectraCommitteeLimit(P))
ElectraCommitteeBits(P) == BitVec(P.MAX_COMMITTEES_PER_SLOT)
ElectraAttestation(P) == Con(<<
    F("aggregation_bits", ElectraAggregationBits(P)), F("data", AttestationData),
    F("signature", BLSSignature), F("committee_bits", ElectraCommitteeBits(P))>>)
ElectraAttestingIndices(P) == List(ValidatorIndex, ElectraCommitteeLimit(P))
ElectraIndexedAttestation(P) == Con(<<
    F("attesting_indices", ElectraAttestingIndices(P)), F("data", AttestationData),
    F("signature", BLSSignature)>>)
SingleAttestation == Con(<<
    F("committee_index", CommitteeIndex), F("attester_index", ValidatorIndex),
    F("data", AttestationData), F("signature", BLSSignature)>>)
ElectraAttesterSlashing(P) == Con(<<
    F("attestation_1", ElectraIndexedAttestation(P)), F("attestation_2", ElectraIndexedAttestation(P))>>)
ElectraAttesterSlashings(P) == List(ElectraAttesterSlashing(P), Lim(P.MAX_ATTESTER_SLASHINGS_ELECTRA))
ElectraAttestations(P) == List(ElectraAttestation(P), Lim(P.MAX_ATTESTATIONS_ELECTRA))
ElectraBodyHead(P) == <<
    F("randao_reveal", BLSSignature), F("eth1_data", Eth1Data), F("graffiti", Bytes32),
    F("proposer_slashings", ProposerSlashings(P)), F("attester_slashings", ElectraAttesterSlashings(P)),
    F("attestations", ElectraAttestations(P)), F("deposits", Deposits(P)),
    F("voluntary_exits", VoluntaryExits(P)), F("sync_aggregate", SyncAggregate(P))>>
ElectraBeaconBlockBody(P) == Con(ElectraBodyHead(P) \o <<
    F("execution_payload", DenebExecutionPayload(P)), F("bls_to_execution_changes", BLSChanges(P)),
    F("blob_kzg_commitments", KZGCommitments(P)), F("execution_requests", ExecutionRequests(P))>>)
ElectraBeaconState(P) == Con(AltairStateFields(P) \o <<
    F("latest_execution_payload_header", DenebExecutionPayloadHeader)>> \o CapellaStateTail(P) \o <<
    F("deposit_requests_start_index", U64), F("deposit_balance_to_consume", Gwei),
    F("exit_balance_to_consume", Gwei), F("earliest_exit_epoch", Epoch),
    F("consolidation_balance_to_consume", Gwei), F("earliest_consolidation_epoch", Epoch),
    F("pending_deposits", PendingDeposits(P)),
    F("pending_partial_withdrawals", PendingPartialWithdrawals(P)),
    F("pending_consolidations", PendingConsolidations(P))>>)

---------------------------------------------------------------------------
(* library-internal "shallow" block bodies: the block body with the execution payload replaced by its
   hash-tree-root (documented in zrnt as having the same root as the full body) *)
ReplaceField(fields, name, new) == [i \in 1..Len(fields) |-> IF fields[i][1] = name THEN new ELSE fields[i]]
Shallow(body) == Con(ReplaceField(body[2], "execution_payload", F("execution_payload_root", Root)))

---------------------------------------------------------------------------
(* the binding table: Go type -> schema *)
S == "spec"
SchemaTable(P) == <<
  \* ---- common
  <<"common.AttnetBits", Attnets, TRUE, "p2p MetaData.attnets">>,
  <<"common.BLSDomain", Domain, TRUE, "phase0 Domain">>,
  <<"common.BLSDomainType", DomainType, TRUE, "phase0 DomainType">>,
  <<"common.BLSPubkey", BLSPubkey, TRUE, "phase0 BLSPubkey">>,
  <<"common.BLSSignature", BLSSignature, TRUE, "phase0 BLSSignature">>,
  <<"common.BLSToExecutionChange", BLSToExecutionChange, TRUE, "capella">>,
  <<"common.BeaconBlockHeader", BeaconBlockHeader, TRUE, "phase0">>,
  <<"common.Checkpoint", Checkpoint, TRUE, "phase0">>,
  <<"common.CommitteeIndex", CommitteeIndex, TRUE, "phase0">>,
  <<"common.CommitteeIndices", AttestingIndices(P), TRUE, "phase0 IndexedAttestation.attesting_indices">>,
  <<"common.ConsolidationRequest", ConsolidationRequest, TRUE, "electra">>,
  <<"common.ConsolidationRequests", ConsolidationRequests(P), TRUE, "electra ExecutionRequests.consolidations">>,
  <<"common.Deposit", Deposit, TRUE, "phase0">>,
  <<"common.DepositData", DepositData, TRUE, "phase0">>,
  <<"common.DepositIndex", U64, TRUE, "phase0 uint64 (eth1_deposit_index)">>,
  <<"common.DepositMessage", DepositMessage, TRUE, "phase0">>,
  <<"common.DepositProof", DepositProof, TRUE, "phase0 Deposit.proof">>,
  <<"common.DepositRequest", DepositRequest, TRUE, "electra">>,
  <<"common.DepositRequests", DepositRequests(P), TRUE, "electra ExecutionRequests.deposits">>,
  <<"common.Epoch", Epoch, TRUE, "phase0">>,
  <<"common.Eth1Address", ExecutionAddress, TRUE, "bellatrix ExecutionAddress">>,
  <<"common.Eth1Data", Eth1Data, TRUE, "phase0">>,
  <<"common.Eth2Data", ENRForkID, TRUE, "p2p ENRForkID">>,
  <<"common.ExtraData", ByteList(Lim(MAX_EXTRA_DATA_BYTES)), TRUE, "bellatrix ExecutionPayload.extra_data">>,
  <<"common.Fork", Fork, TRUE, "phase0">>,
  <<"common.ForkData", ForkData, TRUE, "phase0">>,
  <<"common.ForkDigest", ForkDigest, TRUE, "phase0">>,
  <<"common.Goodbye", U64, TRUE, "p2p Goodbye">>,
  <<"common.Gwei", Gwei, TRUE, "phase0">>,
  <<"common.GweiList", List(U64, P.VALIDATOR_REGISTRY_LIMIT), TRUE, "rewards test format Deltas.rewards">>,
  <<"common.Deltas", Deltas(P), TRUE, "rewards test format Deltas">>,
  <<"common.JustificationBits", JustificationBits, TRUE, "phase0 BeaconState.justification_bits">>,
  <<"common.KZGCommitment", KZGCommitment, TRUE, "deneb">>,
  <<"common.LogsBloom", BytesN(BYTES_PER_LOGS_BLOOM), TRUE, "bellatrix ExecutionPayload.logs_bloom">>,
  <<"common.MetaData", MetaDataAltair, TRUE, "altair p2p MetaData">>,
  <<"common.NetworkMessageDomain", DomainType, TRUE, "p2p MESSAGE_DOMAIN_* DomainType">>,
  <<"common.PayloadTransactions", Transactions(P), TRUE, "bellatrix ExecutionPayload.transactions">>,
  <<"common.PendingConsolidation", PendingConsolidation, TRUE, "electra">>,
  <<"common.PendingConsolidations", PendingConsolidations(P), TRUE, "electra BeaconState.pending_consolidations">>,
  <<"common.PendingDeposit", PendingDeposit, TRUE, "electra">>,
  <<"common.PendingDeposits", PendingDeposits(P), TRUE, "electra BeaconState.pending_deposits">>,
  <<"common.PendingPartialWithdrawal", PendingPartialWithdrawal, TRUE, "electra">>,
  <<"common.PendingPartialWithdrawals", PendingPartialWithdrawals(P), TRUE, "electra BeaconState.pending_partial_withdrawals">>,
  <<"common.Ping", U64, TRUE, "p2p Ping">>,
  <<"common.Pong", U64, TRUE, "p2p Ping response">>,
  <<"common.SeqNr", U64, TRUE, "p2p MetaData.seq_number">>,
  <<"common.SignedBLSToExecutionChange", SignedBLSToExecutionChange, TRUE, "capella">>,
  <<"common.SignedBLSToExecutionChanges", BLSChanges(P), TRUE, "capella BeaconBlockBody.bls_to_execution_changes">>,
  <<"common.SignedBeaconBlockHeader", SignedBeaconBlockHeader, TRUE, "phase0">>,
  <<"common.SigningData", SigningData, TRUE, "phase0">>,
  <<"common.Slot", Slot, TRUE, "phase0">>,
  <<"common.SlotCommitteeIndices", ElectraAttestingIndices(P), TRUE, "electra IndexedAttestation.attesting_indices">>,
  <<"common.Status", Status, TRUE, "p2p Status">>,
  <<"common.SyncCommittee", SyncCommittee(P), TRUE, "altair">>,
  <<"common.SyncCommitteePubkeys", SyncCommitteePubkeys(P), TRUE, "altair SyncCommittee.pubkeys">>,
  <<"common.SyncnetBits", Syncnets, TRUE, "altair p2p MetaData.syncnets">>,
  <<"common.Timestamp", U64, TRUE, "uint64">>,
  <<"common.Transaction", Transaction(P), TRUE, "bellatrix Transaction">>,
  <<"common.ValidatorIndex", ValidatorIndex, TRUE, "phase0">>,
  <<"common.Version", Version, TRUE, "phase0">>,
  <<"common.Withdrawal", Withdrawal, TRUE, "capella">>,
  <<"common.Withdrawals", Withdrawals(P), TRUE, "capella ExecutionPayload.withdrawals">>,
  <<"common.WithdrawalIndex", WithdrawalIndex, TRUE, "capella">>,
  <<"common.WithdrawalRequest", WithdrawalRequest, TRUE, "electra">>,
  <<"common.WithdrawalRequests", WithdrawalRequests(P), TRUE, "electra ExecutionRequests.withdrawals">>,
  \* ---- phase0
  <<"phase0.AggregateAndProof", AggregateAndProofOf(Attestation(P)), TRUE, "phase0 validator.md">>,
  <<"phase0.SignedAggregateAndProof", SignedOf(AggregateAndProofOf(Attestation(P))), TRUE, "phase0 validator.md">>,
  <<"phase0.Attestation", Attestation(P), TRUE, S>>,
  <<"phase0.Attestations", Attestations(P), TRUE, "BeaconBlockBody.attestations">>,
  <<"phase0.AttestationBits", AggregationBits(P), TRUE, "Attestation.aggregation_bits">>,
  <<"phase0.AttestationData", AttestationData, TRUE, S>>,
  <<"phase0.AttesterSlashing", AttesterSlashing(P), TRUE, S>>,
  <<"phase0.AttesterSlashings", AttesterSlashings(P), TRUE, "BeaconBlockBody.attester_slashings">>,
  <<"phase0.Balances", Balances(P), TRUE, "BeaconState.balances">>,
  <<"phase0.BeaconBlockBody", Phase0BeaconBlockBody(P), TRUE, S>>,
  <<"phase0.BeaconBlock", BlockOf(Phase0BeaconBlockBody(P)), TRUE, S>>,
  <<"phase0.SignedBeaconBlock", SignedOf(BlockOf(Phase0BeaconBlockBody(P))), TRUE, S>>,
  <<"phase0.Deposits", Deposits(P), TRUE, "BeaconBlockBody.deposits">>,
  <<"phase0.Eth1DataVotes", Eth1DataVotes(P), TRUE, "BeaconState.eth1_data_votes">>,
  <<"phase0.HistoricalRoots", HistoricalRoots(P), TRUE, "BeaconState.historical_roots">>,
  <<"phase0.HistoricalBatchRoots", HistoricalRootsVector(P), TRUE, "HistoricalBatch.block_roots">>,
  <<"phase0.HistoricalBatch", HistoricalBatch(P), TRUE, S>>,
  <<"phase0.IndexedAttestation", IndexedAttestation(P), TRUE, S>>,
  <<"phase0.PendingAttestation", PendingAttestation(P), TRUE, S>>,
  <<"phase0.PendingAttestations", PendingAttestations(P), TRUE, "BeaconState.previous_epoch_attestations">>,
  <<"phase0.ProposerSlashing", ProposerSlashing, TRUE, S>>,
  <<"phase0.ProposerSlashings", ProposerSlashings(P), TRUE, "BeaconBlockBody.proposer_slashings">>,
  <<"phase0.RandaoMixes", RandaoMixes(P), TRUE, "BeaconState.randao_mixes">>,
  <<"phase0.RegistryIndices", List(ValidatorIndex, P.VALIDATOR_REGISTRY_LIMIT), FALSE, "library helper: List[ValidatorIndex, VALIDATOR_REGISTRY_LIMIT]">>,
  <<"phase0.ValidatorRegistry", Validators(P), TRUE, "BeaconState.validators">>,
  <<"phase0.SlashingsHistory", Slashings(P), TRUE, "BeaconState.slashings">>,
  <<"phase0.BeaconState", Phase0BeaconState(P), TRUE, S>>,
  <<"phase0.Validator", Validator, TRUE, S>>,
  <<"phase0.VoluntaryExit", VoluntaryExit, TRUE, S>>,
  <<"phase0.SignedVoluntaryExit", SignedVoluntaryExit, TRUE, S>>,
  <<"phase0.VoluntaryExits", VoluntaryExits(P), TRUE, "BeaconBlockBody.voluntary_exits">>,
  <<"phase0.DepositRootsView", List(Root, Pow2Lim(DEPOSIT_CONTRACT_TREE_DEPTH)), TRUE, "deposit contract: List[DepositData root, 2**DEPOSIT_CONTRACT_TREE_DEPTH] (view only)">>,
  \* ---- altair
  <<"altair.BeaconBlockBody", AltairBeaconBlockBody(P), TRUE, S>>,
  <<"altair.BeaconBlock", BlockOf(AltairBeaconBlockBody(P)), TRUE, S>>,
  <<"altair.SignedBeaconBlock", SignedOf(BlockOf(AltairBeaconBlockBody(P))), TRUE, S>>,
  <<"altair.InactivityScores", InactivityScores(P), TRUE, "BeaconState.inactivity_scores">>,
  <<"altair.FinalizedRootProofBranch", FinalityBranch, TRUE, "sync-protocol FinalityBranch">>,
  <<"altair.SyncCommitteeProofBranch", NextSyncCommitteeBranch, TRUE, "sync-protocol NextSyncCommitteeBranch">>,
  <<"altair.LightClientUpdate", LightClientUpdate(P), FALSE, "sync-protocol.md as of consensus-specs v1.2.0 (headers not yet wrapped in LightClientHeader)">>,
  <<"altair.LightClientSnapshot", LightClientSnapshot(P), FALSE, "sync-protocol.md as of consensus-specs v1.1.x (removed later)">>,
  <<"altair.ParticipationFlags", ParticipationFlags, TRUE, S>>,
  <<"altair.ParticipationRegistry", ParticipationList(P), TRUE, "BeaconState.previous_epoch_participation">>,
  <<"altair.BeaconState", AltairBeaconState(P), TRUE, S>>,
  <<"altair.SyncAggregate", SyncAggregate(P), TRUE, S>>,
  <<"altair.SyncAggregatorSelectionData", SyncAggregatorSelectionData, TRUE, "altair validator.md">>,
  <<"altair.SyncCommitteeBits", SyncCommitteeBits(P), TRUE, "SyncAggregate.sync_committee_bits">>,
  <<"altair.SyncCommitteeSubnetBits", SyncSubcommitteeBits(P), TRUE, "SyncCommitteeContribution.aggregation_bits">>,
  <<"altair.SyncCommitteeContribution", SyncCommitteeContribution(P), TRUE, "altair validator.md">>,
  <<"altair.ContributionAndProof", ContributionAndProof(P), TRUE, "altair validator.md">>,
  <<"altair.SignedContributionAndProof", SignedOf(ContributionAndProof(P)), TRUE, "altair validator.md">>,
  <<"altair.SyncCommitteeMessage", SyncCommitteeMessage, TRUE, "altair validator.md">>,
  \* ---- bellatrix
  <<"bellatrix.BeaconBlockBody", BellatrixBeaconBlockBody(P), TRUE, S>>,
  <<"bellatrix.BeaconBlockBodyShallow", Shallow(BellatrixBeaconBlockBody(P)), FALSE, "library helper: body with execution_payload replaced by its root">>,
  <<"bellatrix.BeaconBlock", BlockOf(BellatrixBeaconBlockBody(P)), TRUE, S>>,
  <<"bellatrix.SignedBeaconBlock", SignedOf(BlockOf(BellatrixBeaconBlockBody(P))), TRUE, S>>,
  <<"bellatrix.ExecutionPayloadHeader", BellatrixExecutionPayloadHeader, TRUE, S>>,
  <<"bellatrix.ExecutionPayload", BellatrixExecutionPayload(P), TRUE, S>>,
  <<"bellatrix.BeaconState", BellatrixBeaconState(P), TRUE, S>>,
  \* ---- capella
  <<"capella.BeaconBlockBody", CapellaBeaconBlockBody(P), TRUE, S>>,
  <<"capella.BeaconBlockBodyShallow", Shallow(CapellaBeaconBlockBody(P)), FALSE, "library helper: body with execution_payload replaced by its root">>,
  <<"capella.BeaconBlock", BlockOf(CapellaBeaconBlockBody(P)), TRUE, S>>,
  <<"capella.SignedBeaconBlock", SignedOf(BlockOf(CapellaBeaconBlockBody(P))), TRUE, S>>,
  <<"capella.ExecutionPayloadHeader", CapellaExecutionPayloadHeader, TRUE, S>>,
  <<"capella.ExecutionPayload", CapellaExecutionPayload(P), TRUE, S>>,
  <<"capella.HistoricalSummary", HistoricalSummary, TRUE, S>>,
  <<"capella.HistoricalSummaries", HistoricalSummaries(P), TRUE, "BeaconState.historical_summaries">>,
  <<"capella.BeaconState", CapellaBeaconState(P), TRUE, S>>,
  \* ---- deneb
  <<"deneb.BeaconBlockBody", DenebBeaconBlockBody(P), TRUE, S>>,
  <<"deneb.BeaconBlockBodyShallow", Shallow(DenebBeaconBlockBody(P)), FALSE, "library helper: body with execution_payload replaced by its root">>,
  <<"deneb.BeaconBlock", BlockOf(DenebBeaconBlockBody(P)), TRUE, S>>,
  <<"deneb.SignedBeaconBlock", SignedOf(BlockOf(DenebBeaconBlockBody(P))), TRUE, S>>,
  <<"deneb.KZGCommitments", KZGCommitments(P), TRUE, "BeaconBlockBody.blob_kzg_commitments">>,
  <<"deneb.ExecutionPayloadHeader", DenebExecutionPayloadHeader, TRUE, S>>,
  <<"deneb.ExecutionPayload", DenebExecutionPayload(P), TRUE, S>>,
  <<"deneb.BeaconState", DenebBeaconState(P), TRUE, S>>,
  \* ---- electra
  <<"electra.AggregateAndProof", AggregateAndProofOf(ElectraAttestation(P)), TRUE, "electra validator.md">>,
  <<"electra.SignedAggregateAndProof", SignedOf(AggregateAndProofOf(ElectraAttestation(P))), TRUE, "electra validator.md">>,
  <<"electra.Attestations", ElectraAttestations(P), TRUE, "BeaconBlockBody.attestations">>,
  <<"electra.SingleAttestation", SingleAttestation, TRUE, S>>,
  <<"electra.Attestation", ElectraAttestation(P), TRUE, S>>,
  <<"electra.IndexedAttestation", ElectraIndexedAttestation(P), TRUE, S>>,
  <<"electra.AttestationBits", ElectraAggregationBits(P), TRUE, "Attestation.aggregation_bits">>,
  <<"electra.AttesterSlashing", ElectraAttesterSlashing(P), TRUE, S>>,
  <<"electra.AttesterSlashings", ElectraAttesterSlashings(P), TRUE, "BeaconBlockBody.attester_slashings">>,
  <<"electra.BeaconBlockBody", ElectraBeaconBlockBody(P), TRUE, S>>,
  <<"electra.BeaconBlockBodyShallow", Shallow(ElectraBeaconBlockBody(P)), FALSE, "library helper: body with execution_payload replaced by its root">>,
  <<"electra.BeaconBlock", BlockOf(ElectraBeaconBlockBody(P)), TRUE, S>>,
  <<"electra.SignedBeaconBlock", SignedOf(BlockOf(ElectraBeaconBlockBody(P))), TRUE, S>>,
  <<"electra.CommitteeBits", ElectraCommitteeBits(P), TRUE, "Attestation.committee_bits">>,
  <<"electra.ExecutionRequests", ExecutionRequests(P), TRUE, S>>,
  <<"electra.BeaconState", ElectraBeaconState(P), TRUE, S>>
>>

TypeNames(P) == [i \in 1..Len(SchemaTable(P)) |-> SchemaTable(P)[i][1]]
SchemaOf(P, name) ==
    LET t == SchemaTable(P)
        i == CHOOSE i \in 1..Len(t) : t[i][1] = name
    IN t[i][2]

=============================================================================
