SPECIFICATION Spec
CONSTANTS
  NV = 4
  NGenesis = 2
  MaxEpoch = 3
  MinLA = 1
  MaxLA = 1
  Period = 2
  AltairEpoch = 1
  KnownDeviations = {"epc-eff-short-after-deposit"}
  Flaw_StaleNext = FALSE
  Flaw_NoProposerReload = FALSE
  Flaw_NoStakeReload = FALSE
  Flaw_StakeReloadOnlyIfEffChanged = FALSE
  Flaw_NoSyncRotate = FALSE
  Flaw_NoPubkeyExtend = FALSE
  Flaw_NoSyncLoadOnUpgrade = FALSE
INVARIANT Matches
CHECK_DEADLOCK FALSE
