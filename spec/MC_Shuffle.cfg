\* exhaustive theorems for all n <= MaxN, rounds <= MaxR, all pivots, all coin tables
CONSTANTS
  MaxN = 6
  MinN = 0
  MaxR = 2
  Emit = FALSE
  GenSizes = {}
  GenRounds = {}
  GenSeed = 1
  NRandom = 0
  RandMaxN = 2
INIT Init
NEXT Next
INVARIANTS
  InvDerived
  InvBijection
  InvImplEqSpec
  InvUnshuffle
  InvCodec
  InvFlip
CONSTRAINT EmitCase
CHECK_DEADLOCK FALSE
