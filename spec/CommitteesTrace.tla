---------------------------- MODULE CommitteesTrace ----------------------------
(***************************************************************************)
(* Code -> spec binding of property C07.  Every line of the trace is one   *)
(* REAL beacon state (registry projection, randao mixes, slot, preset)     *)
(* with the answers of zrnt's EpochsContext for it:                        *)
(*   epcs[k].counts / comms : GetCommitteeCountPerSlot / GetBeaconCommittee*)
(*        for the previous, current and next epoch, every slot and index   *)
(*   epcs[k].proposers      : GetBeaconProposer for each slot of the       *)
(*        current epoch                                                    *)
(*   epcs[k].sync_cur/next  : Current/NextSyncCommittee.Indices            *)
(*   state_sync_cur/next    : the state's sync-committee pubkeys mapped    *)
(*        back to validator indices                                        *)
(*   sync_direct            : ComputeSyncCommitteeIndices(state, cur + 1)  *)
(* and the SHA-256 oracle table H (pre-image, digest) computed by the      *)
(* harness with crypto/sha256.  Committees.tla recomputes every answer.    *)
(*                                                                         *)
(* Stored sync committees: the specification fixes them at the moment they *)
(* are produced (upgrade_to_altair: both = get_next_sync_committee(post);   *)
(* process_sync_committee_updates at a period boundary: current := next,   *)
(* next := get_next_sync_committee(state) with get_current_epoch = E - 1), *)
(* events carry boundary = "upgrade" / "rotate" exactly for states         *)
(* recorded right after that moment; in between the stored committees must *)
(* not change (variable sc remembers them along a chain).                  *)
(***************************************************************************)
EXTENDS Committees, Json

CONSTANT TraceFile, Diagnose,
         KnownDeviations   \* names of recorded zrnt defects whose (exactly characterised) effect is tolerated and reported

Trace == ndJsonDeserialize(TraceFile)

VARIABLES l, sc

ValsOf(e) == [k \in 1 .. Len(e.vals) |-> [act |-> e.vals[k][1], exit |-> e.vals[k][2], eff |-> e.vals[k][3]]]

CurEpoch(e) == e.slot \div e.P.SLOTS_PER_EPOCH
PrevEpoch(e) == IF CurEpoch(e) = 0 THEN 0 ELSE CurEpoch(e) - 1        \* get_previous_epoch
Epochs3(e) == << PrevEpoch(e), CurEpoch(e), CurEpoch(e) + 1 >>

\* what the specification computes from this state
Expected(e) ==
    LET P == e.P
        vals == ValsOf(e)
        HT == TableOf(e.H)
        es == Epochs3(e)
    IN [counts |-> [k \in 1 .. 3 |-> CommitteeCountPerSlot(P, Len(ActiveIdx(vals, es[k])))],
        comms |-> [k \in 1 .. 3 |-> EpochCommittees(P, vals, e.mixes, HT, es[k])],
        proposers |-> LET ps == EpochProposers(P, vals, e.mixes, HT, CurEpoch(e))
                      IN [s \in 1 .. P.SLOTS_PER_EPOCH |-> ps[s].index],
        proposerIters |-> LET ps == EpochProposers(P, vals, e.mixes, HT, CurEpoch(e))
                          IN [s \in 1 .. P.SLOTS_PER_EPOCH |-> ps[s].iters],
        \* get_next_sync_committee_indices(state): epoch = get_current_epoch(state) + 1
        syncNext |-> SyncCommitteeIndices(P, vals, e.mixes, HT, CurEpoch(e) + 1).indices,
        syncIters |-> SyncCommitteeIndices(P, vals, e.mixes, HT, CurEpoch(e) + 1).iters,
        \* the same function evaluated one slot earlier (state.slot was still in epoch E - 1): epoch = E
        syncAtRotation |-> IF e.boundary = "rotate"
                           THEN SyncCommitteeIndices(P, vals, e.mixes, HT, CurEpoch(e)).indices ELSE << >>]

(* Known deviation "RunningEpcSyncStale" (known_findings.d/shuffle.json): an EpochsContext carried through          *)
(* common.ProcessSlots never re-reads the state's sync committees at a period boundary (RotateEpochs type-asserts *)
(* the UpgradeableBeaconState wrapper, which does not expose them), so it keeps reporting exactly what it reported  *)
(* at the previous recorded state of the chain.  Only that precise effect is tolerated, and it is reported.         *)
StaleRunning(e, a, known, line) ==
    /\ "RunningEpcSyncStale" \in KnownDeviations
    /\ a.src = "running" /\ ~e.new_chain /\ known.hasRun
    /\ a.sync_cur = known.runCur /\ a.sync_next = known.runNext
    /\ PrintT(<< "DEVIATION", "RunningEpcSyncStale", line >>)

EpcChecks(e, a, x, known, line) ==
    LET vals == ValsOf(e)
        es == Epochs3(e)
        syncOK == a.sync_cur = e.state_sync_cur /\ a.sync_next = e.state_sync_next
    IN [noerr |-> ~("err" \in DOMAIN a),
        counts |-> a.counts = x.counts,
        committees |-> a.comms = x.comms,
        proposers |-> a.proposers = x.proposers,
        \* structural part of the property, on the logged answers themselves
        partition |-> /\ Len(a.comms) = 3
                      /\ \A k \in 1 .. 3 : PartitionOK(e.P, a.comms[k], ActiveIdx(vals, es[k])),
        hasSync |-> a.has_sync = e.has_sync,
        \* the context's sync committees are the state's
        sync |-> e.has_sync => (syncOK \/ StaleRunning(e, a, known, line))]

StateChecks(e, x, known) ==
    LET aggNext == AggregateOf(e.agg_oracle, x.syncNext)               \* aggregate_pubkey of get_next_sync_committee(state)
        aggRot == AggregateOf(e.agg_oracle, x.syncAtRotation)
    IN
    [direct |-> ~("sync_direct_err" \in DOMAIN e) /\ e.sync_direct = x.syncNext,
     \* IndicesToSyncCommittee: aggregate over the seats, repetitions included
     directAggregate |-> e.sync_direct_agg = aggNext,
     stored |-> IF ~e.has_sync THEN TRUE
                ELSE CASE e.boundary = "upgrade" ->
                            e.state_sync_cur = x.syncNext /\ e.state_sync_next = x.syncNext
                       [] e.boundary = "rotate" ->
                            /\ e.state_sync_next = x.syncAtRotation
                            /\ (known.known /\ ~e.new_chain) => e.state_sync_cur = known.next
                       [] OTHER ->
                            (known.known /\ ~e.new_chain) =>
                                e.state_sync_cur = known.cur /\ e.state_sync_next = known.next,
     storedAggregate |->
                IF ~e.has_sync THEN TRUE
                ELSE CASE e.boundary = "upgrade" ->
                            e.state_sync_cur_agg = aggNext /\ e.state_sync_next_agg = aggNext
                       [] e.boundary = "rotate" ->
                            /\ e.state_sync_next_agg = aggRot
                            /\ (known.known /\ ~e.new_chain) => e.state_sync_cur_agg = known.nextAgg
                       [] OTHER ->
                            (known.known /\ ~e.new_chain) =>
                                e.state_sync_cur_agg = known.curAgg /\ e.state_sync_next_agg = known.nextAgg]

AllTrue(r) == \A f \in DOMAIN r : r[f]

\* coverage facts only the specification knows (how many candidates the sampling loops looked at)
Cov(e, x, line) ==
    PrintT(<< "COV", line, ToJson([propIters |-> x.proposerIters, syncIters |-> x.syncIters]) >>)

Accept(e, known, line) ==
    LET x == Expected(e)
    IN /\ Len(e.epcs) >= 1
       /\ \A k \in 1 .. Len(e.epcs) : AllTrue(EpcChecks(e, e.epcs[k], x, known, line))
       /\ AllTrue(StateChecks(e, x, known))
       /\ Cov(e, x, line)

Diag(e, known, line) ==
    LET x == Expected(e)
    IN [epcs |-> [k \in 1 .. Len(e.epcs) |-> EpcChecks(e, e.epcs[k], x, known, line)],
        state |-> StateChecks(e, x, known),
        expected |-> x]

NoSync == [known |-> FALSE, cur |-> << >>, next |-> << >>, curAgg |-> << >>, nextAgg |-> << >>]
NoRun == [hasRun |-> FALSE, runCur |-> << >>, runNext |-> << >>]
Init == l = 1 /\ sc = NoSync @@ NoRun

RunOf(e) ==
    LET ks == {k \in 1 .. Len(e.epcs) : e.epcs[k].src = "running" /\ e.epcs[k].has_sync}
    IN IF ks = {} THEN NoRun
       ELSE LET k == CHOOSE k \in ks : TRUE
            IN [hasRun |-> TRUE, runCur |-> e.epcs[k].sync_cur, runNext |-> e.epcs[k].sync_next]

Next ==
    /\ l <= Len(Trace)
    \* all primed variables are assigned first: TLC caches LET definitions only once the successor is complete
    /\ l' = l + 1
    /\ LET e == Trace[l]
       IN sc' = (IF ~e.has_sync THEN NoSync
                 ELSE IF e.boundary # "" \/ (sc.known /\ ~e.new_chain)
                      THEN [known |-> TRUE, cur |-> e.state_sync_cur, next |-> e.state_sync_next,
                            curAgg |-> e.state_sync_cur_agg, nextAgg |-> e.state_sync_next_agg]
                      ELSE NoSync) @@ RunOf(e)
    /\ LET e == Trace[l]
       IN IF Diagnose
          THEN PrintT(<< "DIAG", l, ToJson(Diag(e, sc, l)) >>)
          ELSE Accept(e, sc, l)

AllAccepted == TLCGet("stats").diameter = Len(Trace) + 1
=============================================================================
