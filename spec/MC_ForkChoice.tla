--------------------------- MODULE MC_ForkChoice ---------------------------
(* Exhaustive model checking of the abstract fork-choice specification with small constants:    *)
(* every history of ProcessBlock / ProcessSlot / ProcessAttestation / UpdateJustified / SetPin   *)
(* calls within the bound is visited and the invariants below are evaluated in every state.      *)
EXTENDS ForkChoice

CONSTANTS MaxRoot, MaxSlot, NVal, MaxCalls, MaxEpoch
VARIABLES calls, used   \* used: roots ever inserted (a root is a hash: it never names two different blocks)
mcvars == <<nodes, votes, bal, just, fin, pin, detached, calls, used>>

Roots == 1..MaxRoot
KnownRoots == {nodes[i].root : i \in Idx}
CP(e, r) == [epoch |-> e, root |-> r]
Bals == {<<1, 1>>, <<2, 1>>, <<0, 3>>}

MCInit == /\ nodes = <<NewNode(1, 0, 1, 0, 0)>> /\ votes = <<>> /\ bal = <<1, 1>> /\ detached = {}
          /\ just = CP(0, 1) /\ fin = CP(0, 1) /\ pin = <<1, 0>> /\ calls = 0 /\ used = {1}

MBlock == \E p \in KnownRoots, r \in Roots \ used, s \in 1..MaxSlot, je \in 0..MaxEpoch, fe \in 0..MaxEpoch :
            /\ fe <= je /\ je <= EpochOf(s)
            /\ DoProcessBlock(p, r, s, je, fe)
            /\ used' = used \cup {r}
MSlot == \E p \in KnownRoots :
            /\ MaxOf(SlotsOf(p)) < MaxSlot
            /\ DoProcessSlot(p, MaxOf(SlotsOf(p)) + 1, 0, 0) /\ UNCHANGED used
MAtt == \E v \in 0..(NVal - 1), r \in Roots, s \in 0..MaxSlot : DoProcessAttestation(v, r, s) /\ UNCHANGED used
MPin == \E r \in KnownRoots, s \in 0..MaxSlot : DoSetPin(r, s) /\ UNCHANGED used

\* UpdateJustified with the exact pruning rule (the sink never fails here)
MUJ == \E t \in KnownRoots, jr \in KnownRoots, fr \in KnownRoots, je \in 0..MaxEpoch, fe \in 0..MaxEpoch, b \in Bals :
         LET c == Ctx
             j == CP(je, jr)
             f == CP(fe, fr)
             cls == UJClass(c, t, j, f, FALSE) IN
         \* well-formed checkpoints only: the root is the chain's block root at the epoch start, i.e. that node exists
         /\ Has(<<jr, StartSlot(je)>>) /\ Has(<<fr, StartSlot(fe)>>)
         /\ IF cls # "updated" THEN UNCHANGED fcvars
            ELSE /\ just' = j /\ fin' = f /\ bal' = b
                 /\ pin' = IF fin # f THEN <<>> ELSE pin
                 /\ nodes' = IF fin # f THEN Remove(ToPrune(c, f)) ELSE nodes
                 /\ UNCHANGED <<votes, detached>>

MCNext == /\ calls < MaxCalls /\ calls' = calls + 1
          /\ (MBlock \/ MSlot \/ MAtt \/ MPin \/ (MUJ /\ UNCHANGED used))

MCSpec == MCInit /\ [][MCNext]_mcvars
View == <<nodes, votes, bal, just, fin, pin, used>>

---------------------------------------------------------------------------
TypeOK == /\ \A i \in Idx : nodes[i].slot \in 0..MaxSlot /\ nodes[i].root \in Roots
          /\ \A i, j \in Idx : Key(nodes[i]) = Key(nodes[j]) => i = j                   \* node identity
          /\ \A v \in Voters : votes[v].epoch = EpochOf(votes[v].slot)

\* a parent always precedes its children in insertion order (the one-pass context relies on it)
ParentsFirst == LET c == Ctx IN \A i \in Idx : c.tpar[i] < i /\ c.fpar[i] < i

\* fork-choice descendants are transition descendants, so a head found from an anchor is below the anchor
FcWithinTransition == LET c == Ctx IN \A i \in Idx : c.fanc[i] \subseteq c.tanc[i]

\* subtree weights add up: own votes plus the children's weights
RECURSIVE SumW(_, _)
SumW(c, S) == IF S = {} THEN 0 ELSE LET x == CHOOSE y \in S : TRUE IN c.w[x] + SumW(c, S \ {x})
WeightsAddUp == LET c == Ctx IN
    \A i \in Idx : c.w[i] = SumBal({v \in Voters : votes[v].root = nodes[i].root /\ votes[v].slot = nodes[i].slot})
                            + SumW(c, c.kids[i])

\* the reported head is viable, has no eligible child, and lies below its starting node; with a known
\* finalized anchor and no pin it lies in the finalized subtree
HeadSound == LET c == Ctx
                 h == HeadOf(c, FALSE) IN
    h[1] => LET hi == IdxOf(h[2]) IN
            /\ c.viable[hi]
            /\ ~\E k \in c.kids[hi] : c.leads[k] /\ hi # IdxOf(HeadStart)
            /\ IdxOf(HeadStart) \in c.tanc[hi]
\* "finalized subtree" is read at root level, as UpdateJustified itself does: the subtree of the earliest retained
\* node of the finalized root (TLC shows the slot-level reading is not enforceable through this API: a finalized
\* checkpoint whose epoch-start node does not exist yet can be followed by a justified root that forked earlier)
HeadInFinalizedSubtree == LET c == Ctx
                              h == HeadOf(c, FALSE) IN
    (h[1] /\ pin = <<>> /\ Known(fin.root)) => IdxOf(<<fin.root, First(fin.root)>>) \in c.tanc[IdxOf(h[2])]

\* navigation queries agree with each other
QueriesAgree == LET c == Ctx IN
    /\ \A a \in KnownRoots, r \in KnownRoots :
         LET q == InSubtreeOf(c, a, r) IN
         /\ ~q[1]
         /\ (q[2] /\ a # r) => First(a) <= First(r)
    /\ \A k \in Keys :
         LET ch == CanonChainOf(c, k, FALSE)
             fh == FindHeadOf(c, k, FALSE) IN
         /\ ch[1] = fh[1]
         /\ ch[1] => /\ ch[2][1] = fh[2] /\ ch[2][Len(ch[2])] = k
                     /\ \A n \in 1..(Len(ch[2]) - 1) : IdxOf(ch[2][n + 1]) = c.tpar[IdxOf(ch[2][n])]
    /\ \A r \in KnownRoots, t \in 0..MaxSlot :
         LET cl == ClosestOf(r, t) IN cl[1] => (Has(cl[2]) /\ cl[2][2] <= t /\ (cl[2][2] = t \/ ~Has(<<r, cl[2][2] + 1>>)))

\* unknown roots are reported unknown
UnknownStaysUnknown == LET c == Ctx IN
    \A r \in Roots \ KnownRoots :
        /\ ~GetSlotOf(r)[1] /\ ~ClosestOf(r, MaxSlot)[1]
        /\ \A a \in KnownRoots : InSubtreeOf(c, a, r) = <<TRUE, FALSE>>

\* ---- action properties ----
\* a validator's stored vote only moves to a later target epoch
VotesOnlyAdvance == [][\A v \in Voters : v \in Voters' /\ votes'[v].epoch >= votes[v].epoch
                                          /\ (votes'[v] # votes[v] => votes'[v].epoch > votes[v].epoch)]_mcvars
\* older or equal checkpoints change nothing; checkpoints never go back
CheckpointsMonotone == [][just'.epoch >= just.epoch /\ fin'.epoch >= fin.epoch]_mcvars
\* nodes disappear only when finalization advances, and then exactly the non-descendants of the new anchor
PruneExact == [][(Keys' # Keys /\ ~(Keys \subseteq Keys')) =>
                   /\ fin' # fin
                   /\ Has(PruneAnchor(fin'))
                   /\ Keys' = KeysOfI(TSubtreeI(Ctx, IdxOf(PruneAnchor(fin'))))]_mcvars
\* retained nodes keep their place: same transition parent (unless it was dropped), same slots per root above the anchor
RetainedUnchanged == [][(~(Keys \subseteq Keys')) =>
                          \A n \in {nodes'[i] : i \in 1..Len(nodes')} : \E m \in {nodes[i] : i \in Idx} : m = n]_mcvars
=============================================================================
