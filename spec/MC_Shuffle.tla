------------------------------ MODULE MC_Shuffle ------------------------------
(***************************************************************************)
(* Exhaustive check of the shuffling theorems of property C06 for every    *)
(* list size n <= MaxN, every round count <= MaxR, EVERY pivot and EVERY   *)
(* coin table.  A behaviour picks n, then per step one more round          *)
(* (pivot, coin table) and applies that round with the implementation-     *)
(* shaped two-segment routine; the invariants compare with the per-index   *)
(* specification after every round.                                        *)
(*                                                                         *)
(* With Emit = TRUE every visited state is also printed as a JSON test     *)
(* case (hash-oracle table + the outputs the specification prescribes) for *)
(* the Go replayer, which installs the table as the hash function of the   *)
(* real process and runs the real ShuffleList / UnshuffleList /            *)
(* PermuteIndex / UnpermuteIndex.                                          *)
(***************************************************************************)
EXTENDS Shuffle, TLC, Json

CONSTANTS MaxN, MinN, MaxR, Emit,
          GenSizes,      \* list sizes of the structured corner cases (InitStructured)
          GenRounds,     \* round counts of the structured / pseudo-random cases
          GenSeed,       \* seed of the pseudo-random cases (VERIF_SEED)
          NRandom,       \* number of pseudo-random cases (InitRandom)
          RandMaxN       \* largest list size of a pseudo-random case

VARIABLES n, hist, cur,
          tag,    \* 0 in the exhaustive model; generators: -1 start, -2 / <= -3 size chosen, > 0 case id
          ps, us, \* derived: PermSeq / UnpermSeq of the specification for (n, hist)
          ents    \* derived: the hash-oracle table for (n, hist) as <<pre-image, digest>> pairs
\* (ps, us, ents are functions of n and hist; they are state variables only so that TLC evaluates them once
\*  per state -- LET definitions and operators are re-evaluated at every use.)

vars == << n, hist, cur, tag, ps, us, ents >>

Input(m) == [k \in 1 .. m |-> 100 + 3 * k]     \* distinct values, different from the indices

R == Len(hist)
HistPiv(h) == [r \in 0 .. Len(h) - 1 |-> h[r + 1].p]
HistBit(h) == [r \in 0 .. Len(h) - 1 |-> h[r + 1].b]
piv == HistPiv(hist)
bit == HistBit(hist)

SeedOf(m) == [k \in 1 .. 32 |-> (k * 7 + m * 13 + 5) % 256]
SaltOf(m, h) == m + 3 * Len(h)
Seed == SeedOf(n)

\* the derived variables for size m and history h
Derived(m, h) ==
    /\ ps' = TLCEval(PermSeq(m, Len(h), HistPiv(h), HistBit(h)))
    /\ us' = TLCEval(UnpermSeq(m, Len(h), HistPiv(h), HistBit(h)))
    /\ ents' = IF Emit THEN TLCEval(OracleEntries(m, Len(h), SeedOf(m), HistPiv(h), HistBit(h), SaltOf(m, h)))
               ELSE << >>      \* not carried in the state when nothing is emitted

Init == /\ n \in MinN .. MaxN
        /\ hist = << >>
        /\ cur = Input(n)
        /\ tag = 0
        /\ ps = [k \in 1 .. n |-> k - 1] /\ us = ps /\ ents = << >>

Next == /\ Len(hist) < MaxR
        /\ \E p \in 0 .. n - 1, b \in [0 .. n - 1 -> {0, 1}] :
              /\ hist' = Append(hist, [p |-> p, b |-> b])
              /\ cur' = ImplRound(cur, p, b)
        /\ Derived(n, hist')
        /\ UNCHANGED << n, tag >>

Spec == Init /\ [][Next]_vars

-----------------------------------------------------------------------------
(* Structured corner cases for sizes around multiples of 8 and 256: pivots at either end, at   *)
(* the mirror points and next to the 256-position windows; coin tables that distinguish the     *)
(* windows, the bytes inside a window and the bits inside a byte.  One state per case, no steps.*)

M == 32749
Mix(a, b) == ((a % M) * 1103 + (b % M) * 2221 + 977) % M
Sq(x) == ((x % M) * (x % M) + 5) % M
Rnd(a, b, c) == Sq(Sq(Mix(Mix(a, b), c)) + (c % M))

PatternNames == << "ones", "alt", "b255", "b0", "b7", "win", "byte", "prand" >>
Pattern(nm, m, salt) ==
    [pos \in 0 .. m - 1 |->
        CASE nm = "ones"  -> 1
          [] nm = "alt"   -> pos % 2
          [] nm = "b255"  -> IF pos % 256 = 255 THEN 1 ELSE 0     \* last position of every window
          [] nm = "b0"    -> IF pos % 256 = 0 THEN 1 ELSE 0       \* first position of every window
          [] nm = "b7"    -> IF pos % 8 = 7 THEN 1 ELSE 0
          [] nm = "win"   -> (pos \div 256) % 2                   \* distinguishes windows
          [] nm = "byte"  -> ((pos % 256) \div 8) % 2             \* distinguishes bytes
          [] nm = "prand" -> Rnd(salt, 17, pos) % 2]

CornerPivotSet(m) == {0, 1, m - 2, m - 1, m \div 2, (m \div 2) + 1, 7, 8, 254, 255, 256, 257, 510, 511, 512}
                        \cap (0 .. m - 1)
SetToSortedSeq(S) ==
    LET RECURSIVE go(_)
        go(T) == IF T = {} THEN << >>
                 ELSE LET x == CHOOSE y \in T : \A z \in T : y <= z IN << x >> \o go(T \ {x})
    IN go(S)
CornerPivots(m) == SetToSortedSeq(CornerPivotSet(m))

\* round r of case (i, j): pivots and patterns rotate so that later rounds differ from the first
StructHist(m, R0, i, j) ==
    LET cps == CornerPivots(m)
    IN [r \in 1 .. R0 |->
          [p |-> cps[((i + 5 * (r - 1)) % Len(cps)) + 1],
           b |-> Pattern(PatternNames[((j + 3 * (r - 1)) % Len(PatternNames)) + 1], m, m + r)]]

(* Generators start from one trivial state; the size is chosen in the first step and the rest of *)
(* the case in the second, so that the (deeply recursive) evaluation happens in TLC's worker      *)
(* threads, in parallel for different sizes.                                                       *)
InitGen == n = 0 /\ hist = << >> /\ cur = << >> /\ tag = -1 /\ ps = << >> /\ us = << >> /\ ents = << >>

NextStructured ==
    \/ /\ tag = -1
       /\ n' \in GenSizes
       /\ hist' = << >> /\ cur' = Input(n') /\ tag' = -2
       /\ Derived(n', << >>)
    \/ /\ tag = -2
       /\ \E R0 \in GenRounds, i \in 0 .. Cardinality(CornerPivotSet(n)) - 1, j \in 0 .. Len(PatternNames) - 1 :
             /\ hist' = StructHist(n, R0, i, j)
             /\ tag' = 1 + j + 100 * i + 10000 * R0
       /\ cur' = ImplShuffle(Input(n), Len(hist'), HistPiv(hist'), HistBit(hist'))
       /\ Derived(n, hist')
       /\ UNCHANGED n

\* pseudo-random cases, reproducible from GenSeed (no TLC-internal randomness involved)
RandHist(c, m, R0) ==
    [r \in 1 .. R0 |->
        [p |-> Rnd(GenSeed, c, 1000 + r) % m,
         b |-> [pos \in 0 .. m - 1 |-> Rnd(GenSeed + c, r, pos) % 2]]]

NextRandom ==
    \/ /\ tag = -1
       /\ \E c \in 1 .. NRandom :
             /\ n' = 2 + (Rnd(GenSeed, c, 1) % (RandMaxN - 1))
             /\ tag' = -2 - c
       /\ hist' = << >> /\ cur' = Input(n')
       /\ Derived(n', << >>)
    \/ /\ tag <= -3
       /\ LET c == -tag - 2
              rs == SetToSortedSeq(GenRounds)
              R0 == rs[(Rnd(GenSeed, c, 2) % Len(rs)) + 1]
          IN hist' = RandHist(c, n, R0) /\ tag' = c
       /\ cur' = ImplShuffle(Input(n), Len(hist'), HistPiv(hist'), HistBit(hist'))
       /\ Derived(n, hist')
       /\ UNCHANGED n

\* linear-cost version of the theorems for big lists (the quadratic definitional forms are in
\* InvBijection / InvImplEqSpec, checked exhaustively for small n)
InvBig ==
    LET un == ImplUnshuffle(Input(n), R, piv, bit)
    IN /\ \A k \in 1 .. n : ps[k] \in 0 .. n - 1 /\ us[k] \in 0 .. n - 1
       /\ \A k \in 1 .. n : us[ps[k] + 1] = k - 1 /\ ps[us[k] + 1] = k - 1
       /\ cur = [k \in 1 .. n |-> Input(n)[us[k] + 1]]          \* = ShuffleSpec(Input(n), R, piv, bit)
       /\ IsShuffleOf(cur, Input(n), ps)
       /\ ImplUnshuffle(cur, R, piv, bit) = Input(n)
       /\ un = [k \in 1 .. n |-> Input(n)[ps[k] + 1]]           \* = UnshuffleSpec(Input(n), R, piv, bit)
       /\ IsUnshuffleOf(un, Input(n), ps)

-----------------------------------------------------------------------------
\* per-index forward and inverse functions are mutually inverse bijections on 0..n-1
InvDerived ==     \* the derived variables are what their names say
    /\ ps = PermSeq(n, R, piv, bit)
    /\ us = UnpermSeq(n, R, piv, bit)
    /\ ents = IF Emit THEN OracleEntries(n, R, Seed, piv, bit, SaltOf(n, hist)) ELSE << >>

InvBijection ==
    /\ IsBijectionOnRange(ps, n)
    /\ IsBijectionOnRange(us, n)
    /\ \A k \in 1 .. n : us[ps[k] + 1] = k - 1 /\ ps[us[k] + 1] = k - 1

\* whole-list routine = per-index definition; the result is a permutation of the input
InvImplEqSpec ==
    /\ cur = ShuffleSpecDef(Input(n), R, piv, bit)
    /\ cur = ShuffleSpec(Input(n), R, piv, bit)
    /\ cur = ImplShuffle(Input(n), R, piv, bit)
    /\ IsShuffleOf(cur, Input(n), ps)
    /\ IsPermutationOf(cur, Input(n))

\* un-shuffling is the exact inverse, and is itself the per-index definition read backwards
InvUnshuffle ==
    LET un == ImplUnshuffle(Input(n), R, piv, bit)
    IN /\ ImplUnshuffle(cur, R, piv, bit) = Input(n)
       /\ un = UnshuffleSpec(Input(n), R, piv, bit)
       /\ IsUnshuffleOf(un, Input(n), ps)
       /\ ImplShuffle(un, R, piv, bit) = Input(n)
       /\ IsPermutationOf(un, Input(n))

\* encoders used for the spec -> code direction are right inverses of the byte-level decoders
InvFlip ==      \* the overflow-free form of flip is the formula of the specification text; so is the big-number pivot
    /\ \A i \in 0 .. n - 1, p \in 0 .. n - 1 : Flip(i, n, p) = FlipText(i, n, p)
    /\ \A r \in 1 .. Len(hist) :
          LET d == PivotDigest(hist[r].p, n, r) IN PivotOfBig(d, n) = PivotOf(d, n) /\ PivotOfBig(PivotDigestBig(hist[r].p, r), n) = hist[r].p

InvCodec ==
    LET es == IF Emit THEN ents ELSE OracleEntries(n, R, Seed, piv, bit, SaltOf(n, hist))
        HT == TableOf(es)
        pt == PivTable(n, R, Seed, HT)
        bt == BitTable(n, R, Seed, HT)
    IN /\ \A k \in DOMAIN es : Len(es[k][2]) = 32 /\ \A j \in 1 .. 32 : es[k][2][j] \in 0 .. 255
       /\ Cardinality(DOMAIN HT) = Len(es)
       /\ pt = piv
       /\ \A r \in 0 .. R - 1 : \A pos \in 0 .. n - 1 : bt[r][pos] = bit[r][pos]

-----------------------------------------------------------------------------
Case ==
    [n |-> n, rounds |-> R, seed |-> Seed, tag |-> tag,
     piv |-> [r \in 1 .. R |-> hist[r].p],
     bits |-> IF n <= 16 THEN [r \in 1 .. R |-> [k \in 1 .. n |-> hist[r].b[k - 1]]] ELSE << >>,
     table |-> ents,
     input |-> Input(n),
     shuffled |-> [k \in 1 .. n |-> Input(n)[us[k] + 1]],      \* ShuffleSpec(Input(n), R, piv, bit)
     unshuffled |-> [k \in 1 .. n |-> Input(n)[ps[k] + 1]],    \* UnshuffleSpec(Input(n), R, piv, bit)
     perm |-> ps,
     unperm |-> us]

EmitCase == IF Emit THEN PrintT(<< "CASE", ToJson(Case) >>) ELSE TRUE

=============================================================================
