-------------------------- MODULE BeaconScenario --------------------------
(***************************************************************************)
(* COARSE abstract model of a beacon-chain history, used as a behaviour    *)
(* GENERATOR (spec -> code direction): TLC -simulate walks this model and  *)
(* prints each behaviour as a JSON script of scenario INTENTS; the         *)
(* translator in harness/cmd/beacon (family "tlc") turns a script into     *)
(* chain.StepPlans, the real chain executes them through zrnt's public     *)
(* entry points, and the recorded trace is validated by BeaconTrace.tla    *)
(* exactly like every other history.                                       *)
(*                                                                         *)
(* The model keeps, per validator, the status and the epochs that matter   *)
(* (activation, exit, withdrawable, slashed), the credentials kind and a   *)
(* balance class; per epoch the participation class and the finality lag;  *)
(* the exit queue against the churn limit; the eth1 voting period; the     *)
(* fork of the current epoch.  An intent is ENABLED exactly when its       *)
(* consensus-spec precondition holds in this abstract registry, so the     *)
(* simulator proposes an exit when a validator is old enough, a slashing   *)
(* of a validator that is already exiting, a BLS change once capella is    *)
(* active, a top-up of an exited validator, ... - interactions a purely    *)
(* random script rarely reaches.  Each behaviour follows a GOAL that        *)
(* biases the choice among the enabled intents.                            *)
(*                                                                         *)
(* The numbers are coarse on purpose: intents the concrete chain cannot     *)
(* honour at that point are skipped (and counted) by the translator.        *)
(***************************************************************************)
EXTENDS Integers, Sequences, FiniteSets, TLC, Json

CONSTANTS MaxSlot      \* length of a behaviour in slots

N == 16                \* genesis validators 0..15 (14, 15 deposit less than the maximum: not active)
SPE == 4
CHURN == 2
SHARD == 2             \* SHARD_COMMITTEE_PERIOD
LOOKAHEAD == 2         \* MAX_SEED_LOOKAHEAD
WD_DELAY == 2          \* MIN_VALIDATOR_WITHDRAWABILITY_DELAY
EPSV == 4              \* EPOCHS_PER_SLASHINGS_VECTOR
LEAK_AFTER == 2        \* MIN_EPOCHS_TO_INACTIVITY_PENALTY
VP == 8                \* slots per eth1 voting period
FAR == 1000000

Schedules == {<<FAR, FAR, FAR, FAR>>, <<1, 2, 3, 4>>, <<2, 3, 5, 6>>, <<1, 1, 2, 2>>, <<0, 0, 0, 0>>, <<0, 0, 1, 3>>,
              <<3, 5, 7, 9>>, <<0, 0, 0, 4>>, <<2, 4, 4, 7>>, <<1, 2, 2, FAR>>}
Goals == {"exit_queue", "slash_exiting", "leak_fork", "topup", "bls_withdraw", "mass_slash", "eth1_edge", "late_inclusion", "mixed"}

VARIABLES slot, vals, part, lag, justPrev, qEnd, qCnt, hold, votes, pend, due, nextKey, hist, goal, forks, preset, opsInEpoch

vars == <<slot, vals, part, lag, justPrev, qEnd, qCnt, hold, votes, pend, due, nextKey, hist, goal, forks, preset, opsInEpoch>>

Pick(S) == RandomElement(S)
Epoch(s) == s \div SPE
ForkAt(e) == IF e >= forks[4] THEN "deneb" ELSE IF e >= forks[3] THEN "capella" ELSE IF e >= forks[2] THEN "bellatrix"
             ELSE IF e >= forks[1] THEN "altair" ELSE "phase0"
Idx == DOMAIN vals

\* ---- abstract registry predicates (consensus-spec preconditions) ----------------
Active(v, e) == vals[v].act <= e /\ e < vals[v].exit
CanExit(e) == {v \in Idx : Active(v, e) /\ vals[v].exit = FAR /\ ~vals[v].slashed /\ e >= vals[v].act + SHARD}
Slashable(e) == {v \in Idx : ~vals[v].slashed /\ vals[v].act <= e /\ e < vals[v].wd}
Exiting(e) == {v \in Slashable(e) : vals[v].exit # FAR}
SlashedLocked(e) == {v \in Idx : vals[v].slashed /\ e < vals[v].wd}     \* already slashed, still in the registry's slashing window
Healthy(e) == {v \in Idx : Active(v, e) /\ vals[v].exit = FAR /\ ~vals[v].slashed}
HasBLS == {v \in Idx : vals[v].cred = "bls"}
Exited(e) == {v \in Idx : vals[v].exit <= e}
Partial == {v \in Idx : vals[v].bal = "below" /\ vals[v].act = FAR}
InLeak == lag > LEAK_AFTER

\* initiate_validator_exit against the abstract queue
QueueExit(v, e) ==
    LET base == e + 1 + LOOKAHEAD
        end0 == IF qEnd < base THEN base ELSE qEnd
        cnt0 == IF qEnd < base THEN 0 ELSE qCnt
        end1 == IF cnt0 >= CHURN THEN end0 + 1 ELSE end0
        cnt1 == IF cnt0 >= CHURN THEN 1 ELSE cnt0 + 1
    IN [end |-> end1, cnt |-> cnt1, behind |-> (end1 > base)]

GenesisVal(i) ==
    [act |-> IF i >= 14 THEN FAR ELSE 0, exit |-> FAR, wd |-> FAR, slashed |-> FALSE,
     cred |-> IF i \in {1, 5, 9} THEN "eth1" ELSE "bls", bal |-> IF i >= 14 THEN "below" ELSE "max"]

Init ==
    /\ slot = 0
    /\ vals = [i \in 0..(N - 1) |-> GenesisVal(i)]
    /\ part = "full" /\ lag = 0 /\ justPrev = TRUE
    /\ qEnd = 0 /\ qCnt = 0 /\ hold = 0 /\ votes = 0 /\ pend = 0 /\ due = 0 /\ nextKey = N /\ opsInEpoch = 0
    \* many initial states: the simulator starts every behaviour from a randomly chosen one
    /\ goal \in Goals
    /\ forks \in Schedules
    /\ \E w \in 1..6 : preset = (IF w <= 4 THEN "S1" ELSE IF w = 5 THEN "S3" ELSE "S2")
    /\ hist = <<>>

\* ---- which operation intents are enabled in a block at this slot ------------------
EnabledKinds(e) ==
    {"none"}
    \cup (IF CanExit(e) # {} /\ Cardinality(Healthy(e)) > 8 THEN {"exit", "exit2"} ELSE {})
    \cup (IF Cardinality(Healthy(e)) > 8 /\ Slashable(e) # {} THEN {"pslash"} ELSE {})
    \cup (IF Cardinality(Healthy(e)) > 9 /\ Cardinality(Slashable(e)) >= 2 THEN {"aslash"} ELSE {})
    \cup (IF Exiting(e) # {} THEN {"slash_exiting"} ELSE {})
    \* attester slashing over a set that mixes an ALREADY SLASHED validator with a slashable one (valid: the
    \* non-slashable member is skipped)
    \cup (IF SlashedLocked(e) # {} /\ Cardinality(Healthy(e)) > 8 THEN {"aslash_mixed"} ELSE {})
    \cup (IF slot % VP <= 1 /\ pend = 0 /\ due = 0
            THEN {"deposit_new", "deposit_bad_pop", "topup", "deposit_partial"}
                 \cup (IF Exited(e) # {} THEN {"topup_exited"} ELSE {})
                 \cup (IF Partial # {} THEN {"topup_partial"} ELSE {})
            ELSE {})
    \cup (IF ForkAt(e) \in {"capella", "deneb"} /\ HasBLS # {} THEN {"bls_change"} ELSE {})

\* the goal's favourite kinds (taken with probability 3/4 when enabled)
Favourite(e) ==
    CASE goal = "exit_queue" -> {"exit2", "exit"}
      [] goal = "slash_exiting" -> IF Exiting(e) # {} THEN {"slash_exiting", "aslash_mixed"} ELSE {"exit"}
      [] goal = "mass_slash" -> {"aslash", "pslash", "aslash_mixed"}
      [] goal = "topup" -> {"topup_partial", "topup", "topup_exited", "deposit_partial"}
      [] goal = "bls_withdraw" -> {"bls_change", "exit"}
      [] goal = "eth1_edge" -> {"deposit_new", "deposit_bad_pop"}
      [] OTHER -> {}

ChooseKind(e) ==
    LET en == EnabledKinds(e)
        fav == Favourite(e) \cap en
    IN IF fav # {} /\ Pick(1..4) > 1 THEN Pick(fav)
       ELSE IF Pick(1..3) = 1 THEN Pick(en) ELSE "none"

\* participation of the whole epoch, drawn at its first slot
ChoosePart ==
    IF goal = "leak_fork"
      THEN IF lag >= LEAK_AFTER + 5 THEN "full" ELSE Pick({"below", "below", "below", "two_thirds"})
    ELSE IF goal = "late_inclusion" THEN Pick({"full", "full", "two_thirds"})
    ELSE Pick({"full", "full", "full", "two_thirds", "two_thirds", "below"})

Log(rec) == hist' = Append(hist, rec)

\* ---- one slot ---------------------------------------------------------------------------
\* Every random draw is bound once through a singleton \E (TLC's simulator enumerates all successors of an
\* action before picking one: each evaluation of Step therefore yields exactly one successor).
Step ==
    /\ slot < MaxSlot
    /\ LET s == slot + 1
           e == Epoch(s)
           newEpoch == s % SPE = 0
           justNow == part \in {"full", "two_thirds"}
           lag1 == IF ~newEpoch THEN lag ELSE IF justNow /\ justPrev THEN 1 ELSE lag + 1
           periodStart == s % VP = 0
           votes0 == IF periodStart THEN 0 ELSE votes
       IN \E skip \in {Pick(1..8) = 1} :
          \E part1 \in {IF newEpoch \/ s = 1 THEN ChoosePart ELSE part} :
          \E kind \in {IF skip THEN "none" ELSE ChooseKind(e)} :
          \E flavour \in {IF goal = "late_inclusion" THEN Pick({"ok", "ok", "wrong_head", "wrong_target"})
                           ELSE Pick({"ok", "ok", "ok", "ok", "ok", "wrong_head", "wrong_target", "none"})} :
          \* late inclusion: hold the pool for 1, 2 (= isqrt(SPE)), SPE or SPE+1 blocks, then release
          \E holdNow \in {~skip /\ (IF goal = "late_inclusion" THEN hold < Pick({1, 2, 4, 5}) /\ Pick(1..3) > 1
                                      ELSE Pick(1..12) = 1)} :
          \E sync \in {IF ForkAt(e) = "phase0" THEN "full" ELSE Pick({"full", "full", "partial", "partial", "none"})} :
          \E vExit \in {IF CanExit(e) # {} THEN Pick(CanExit(e)) ELSE 0} :
          \E vSlash \in {IF kind = "slash_exiting" THEN Pick(Exiting(e))
                          ELSE IF kind = "aslash_mixed" THEN Pick(SlashedLocked(e))
                          ELSE IF Slashable(e) # {} THEN Pick(Slashable(e)) ELSE 0} :
          \E vSlash2 \in {IF Cardinality(Slashable(e)) >= 2 THEN Pick(Slashable(e) \ {vSlash}) ELSE vSlash} :
          \E vExit2 \in {IF Cardinality(CanExit(e)) >= 2 THEN Pick(CanExit(e) \ {vExit}) ELSE vExit} :
          \E vTop \in {IF kind = "topup_exited" THEN Pick(Exited(e))
                        ELSE IF kind = "topup_partial" THEN Pick(Partial) ELSE Pick(Idx)} :
          \E vBls \in {IF HasBLS # {} THEN Pick(HasBLS) ELSE 0} :
          \E adv \in {Pick(1..2) = 1}, nf \in {Pick(1..4) = 1} :
          LET \* eth1 voting: deposits made at the start of a period are voted in; the "eth1_edge" goal stops one
              \* period at exactly half of the votes and completes the next one with half + 1
              wantVote == pend > 0 /\ ~skip /\
                          (IF goal = "eth1_edge" /\ (s \div VP) % 2 = 0 THEN votes0 < VP \div 2 ELSE TRUE)
              votes1 == IF wantVote THEN votes0 + 1 ELSE votes0
              adopted == wantVote /\ votes1 * 2 > VP
              q1 == QueueExit(vExit, e)
              offline == IF part1 = "below" THEN {v \in Idx : v % 2 = 1}
                         ELSE IF part1 = "two_thirds" THEN {v \in Idx : v % 4 = 3} ELSE {}
              isDep == kind \in {"deposit_new", "deposit_bad_pop", "topup", "topup_exited", "topup_partial", "deposit_partial"}
              slashed(vs0, v) == [vs0 EXCEPT ![v].slashed = TRUE,
                                             ![v].exit = IF @ = FAR THEN e + 1 + LOOKAHEAD ELSE @,
                                             ![v].wd = e + EPSV]
          IN /\ slot' = s
             /\ part' = part1
             /\ lag' = lag1
             /\ justPrev' = IF newEpoch THEN justNow ELSE justPrev
             /\ hold' = IF holdNow THEN hold + 1 ELSE 0
             /\ votes' = IF adopted THEN 0 ELSE votes1
             /\ opsInEpoch' = IF newEpoch THEN 0 ELSE opsInEpoch + (IF kind = "none" THEN 0 ELSE 1)
             /\ pend' = IF adopted THEN 0 ELSE IF isDep THEN pend + 1 ELSE pend
             /\ due' = IF adopted THEN due + pend ELSE IF ~skip /\ due > 0 THEN (IF due > 2 THEN due - 2 ELSE 0) ELSE due
             /\ nextKey' = IF kind \in {"deposit_new", "deposit_bad_pop", "deposit_partial"} THEN nextKey + 1 ELSE nextKey
             /\ UNCHANGED <<goal, forks, preset>>
             \* registry effects of the chosen operation (coarse)
             /\ vals' = IF kind = "exit" THEN [vals EXCEPT ![vExit].exit = q1.end, ![vExit].wd = q1.end + WD_DELAY]
                        ELSE IF kind = "exit2"
                          THEN [vals EXCEPT ![vExit].exit = q1.end, ![vExit].wd = q1.end + WD_DELAY,
                                            ![vExit2].exit = q1.end + 1, ![vExit2].wd = q1.end + 1 + WD_DELAY]
                        ELSE IF kind \in {"pslash", "slash_exiting"} THEN slashed(vals, vSlash)
                        ELSE IF kind = "aslash" THEN slashed(slashed(vals, vSlash), vSlash2)
                        ELSE IF kind = "aslash_mixed" THEN slashed(vals, vSlash2)
                        ELSE IF kind = "bls_change" THEN [vals EXCEPT ![vBls].cred = "eth1"]
                        ELSE IF kind = "topup_partial" THEN [vals EXCEPT ![vTop].bal = "max", ![vTop].act = e + 4]
                        ELSE vals
             /\ qEnd' = IF kind \in {"exit", "exit2"} THEN q1.end ELSE qEnd
             /\ qCnt' = IF kind \in {"exit", "exit2"} THEN q1.cnt ELSE qCnt
             /\ Log([slot |-> s, skip |-> skip, advance |-> (skip /\ adv),
                     part |-> part1, flavour |-> flavour, hold |-> holdNow, newest_first |-> nf,
                     offline |-> offline, sync |-> sync, vote_new |-> wantVote, kind |-> kind,
                     v |-> (CASE kind \in {"exit", "exit2"} -> vExit
                              [] kind \in {"pslash", "slash_exiting", "aslash", "aslash_mixed"} -> vSlash
                              [] kind \in {"topup", "topup_exited", "topup_partial"} -> vTop
                              [] kind = "bls_change" -> vBls [] OTHER -> 0),
                     v2 |-> (IF kind \in {"aslash", "aslash_mixed"} THEN vSlash2 ELSE IF kind = "exit2" THEN vExit2 ELSE 0),
                     fork |-> ForkAt(e), lag |-> lag1, behind |-> (kind \in {"exit", "exit2"} /\ q1.behind)])

\* a complete behaviour is printed once by a final step, after which nothing is enabled
Finish ==
    /\ slot >= MaxSlot /\ hist # <<>>
    /\ PrintT(ToJson([goal |-> goal, forks |-> forks, preset |-> preset, validators |-> N, steps |-> hist]))
    /\ hist' = <<>>
    /\ UNCHANGED <<slot, vals, part, lag, justPrev, qEnd, qCnt, hold, votes, pend, due, nextKey, goal, forks, preset, opsInEpoch>>

Next == Step \/ Finish
=============================================================================
