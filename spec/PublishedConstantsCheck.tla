---------------------- MODULE PublishedConstantsCheck ----------------------
(***************************************************************************)
(* C14: dump.ndjson holds one line {config, key, value} per constant that  *)
(* zrnt carries (harness/cmd/forks dump: every field of configs.Mainnet /  *)
(* configs.Minimal by reflection, and the spec-level Go constants).  TLC   *)
(* compares key by key with PublishedConstants and prints                  *)
(*   wrong   : lines whose value differs from the published one,           *)
(*   unknown : lines whose key the publication does not have,              *)
(*   missing : published keys that zrnt did not dump.                      *)
(***************************************************************************)
EXTENDS PublishedConstants, Integers, Sequences, SequencesExt, FiniteSets, TLC, Json

Dump == ndJsonDeserialize("dump.ndjson")

Known(d) == d.config \in DOMAIN Published /\ d.key \in DOMAIN Published[d.config]
Wrong == {i \in DOMAIN Dump : Known(Dump[i]) /\ Published[Dump[i].config][Dump[i].key] # Dump[i].value}
UnknownKeys == {i \in DOMAIN Dump : ~Known(Dump[i])}
Dumped(c) == {Dump[i].key : i \in {j \in DOMAIN Dump : Dump[j].config = c}}
Missing == UNION {{<<c, k>> : k \in DOMAIN Published[c] \ Dumped(c)} : c \in DOMAIN Published}
Duplicates == {i \in DOMAIN Dump : \E j \in DOMAIN Dump : j < i /\ Dump[j].config = Dump[i].config /\ Dump[j].key = Dump[i].key}

Result == [lines |-> Len(Dump),
           wrong |-> SetToSeq({[line |-> i, config |-> Dump[i].config, key |-> Dump[i].key, observed |-> Dump[i].value,
                                published |-> Published[Dump[i].config][Dump[i].key]] : i \in Wrong}),
           unknown |-> SetToSeq({[line |-> i, config |-> Dump[i].config, key |-> Dump[i].key] : i \in UnknownKeys \cup Duplicates}),
           missing |-> SetToSeq({[config |-> m[1], key |-> m[2]] : m \in Missing})]

ASSUME JsonSerialize("constants_result.json", Result)
ASSUME PrintT(<<"CONSTANTS_CHECK_DONE", Len(Dump), Cardinality(Wrong), Cardinality(UnknownKeys), Cardinality(Missing)>>)

VARIABLE done
Init == done = TRUE
Next == UNCHANGED done
=============================================================================
