"""./check setup : offline build of everything the checks need (warms the Go build cache, parses every spec)."""
import os
import lib


def main():
    cmds = sorted(d for d in os.listdir(os.path.join(lib.HARNESS_DIR, "cmd"))
                  if os.path.isdir(os.path.join(lib.HARNESS_DIR, "cmd", d)))
    for c in cmds:
        lib.build_harness(c)
        lib.log("built", c)
    return 0
