"""./check setup : offline warm-up (Go build cache for every harness command). Each check rebuilds what it
needs from /repo's working tree anyway, so a command that does not build yet is reported but does not fail setup."""
import os
import lib


def main():
    cmds = sorted(d for d in os.listdir(os.path.join(lib.HARNESS_DIR, "cmd"))
                  if os.path.isdir(os.path.join(lib.HARNESS_DIR, "cmd", d)))
    for c in cmds:
        try:
            lib.build_harness(c)
            lib.log("built", c)
        except lib.InfraError as e:
            lib.log("WARNING: %s does not build yet: %s" % (c, str(e)[:300]))
    return 0
