#!/usr/bin/env python3
"""Sensitivity experiment for C06 / C07: apply realistic single-line mutations to a scratch copy of the tree under
test and run the registered quick check against it (VERIF_REPO).  Not part of any registered command.

usage: runner/shuffle_mutants.py [C06|C07] [name-substring] [--tier quick]
"""
import os
import shutil
import subprocess
import sys
import tempfile
import time

VERIF = os.path.dirname(os.path.dirname(os.path.abspath(__file__)))
REPO = os.environ.get("VERIF_REPO", "/repo")

SH = "eth2/beacon/common/shuffle.go"
SHG = "eth2/beacon/common/shuffling.go"
PR = "eth2/beacon/common/proposers.go"
SY = "eth2/beacon/common/sync_committee.go"
RA = "eth2/beacon/common/randao.go"
EC = "eth2/beacon/common/epochs_context.go"

# (property, name, file, old, new, occurrence index or None=must be unique)
MUTANTS = [
    ("C06", "refresh256-seg2-offbyone", SH, "if j&0xff == 0xff {", "if j&0xff == 0x00 {", 1),
    ("C06", "refresh256-seg1-offbyone", SH, "if j&0xff == 0xff {", "if j&0xff == 0xfe {", 0),
    ("C06", "mirror1-offbyone", SH, "mirror := (pivot + 1) >> 1", "mirror := pivot >> 1", None),
    ("C06", "mirror2-offbyone", SH, "mirror = (pivot + listSize + 1) >> 1", "mirror = (pivot + listSize) >> 1", None),
    ("C06", "list-pivot-modulus", SH, "pivot := binary.LittleEndian.Uint64(h[:8]) % listSize\n\n",
     "pivot := binary.LittleEndian.Uint64(h[:8]) % (listSize - 1)\n\n", None),
    ("C06", "index-byte-slip", SH, "byteV := source[(position&0xff)>>3]", "byteV := source[(position&0x7f)>>3]", None),
    ("C06", "index-pivot-uint32", SH, "pivot := binary.LittleEndian.Uint64(h[:8]) % listSize\n\t\t// spec: flip",
     "pivot := uint64(binary.LittleEndian.Uint32(h[:4])) % listSize\n\t\t// spec: flip", None),
    ("C06", "unshuffle-forward-order", SH, "innerShuffleList(hashFn, rounds, input, seed, false)",
     "innerShuffleList(hashFn, rounds, input, seed, true)", None),
    ("C06", "index-window-shift", SH, "uint32(position>>8))", "uint32(position>>9))", None),
    ("C06", "byte-refresh-offbyone", SH, "if j&0x7 == 0x7 {", "if j&0x7 == 0x0 {", 1),
    ("C06", "list-end-window", SH, "binary.LittleEndian.PutUint32(buf[hPivotViewSize:], uint32(end>>8))",
     "binary.LittleEndian.PutUint32(buf[hPivotViewSize:], uint32(pivot>>8))", None),

    ("C07", "slice-offset-wrong-count", SHG, "startOffset := (validatorCount * index) / committeeCount",
     "startOffset := (validatorCount * index) / (committeeCount + 1)", None),
    ("C07", "committee-index-slots", SHG, "index := (slot * committeesPerSlot) + slotIndex",
     "index := (slot * uint64(spec.MAX_COMMITTEES_PER_SLOT)) + slotIndex", None),
    ("C07", "committee-count-no-max", SHG, "if uint64(spec.MAX_COMMITTEES_PER_SLOT) < committeesPerSlot {",
     "if false {", None),
    ("C07", "proposer-seed-epoch-start", PR, "binary.LittleEndian.PutUint64(buf[32:], uint64(startSlot+i))",
     "binary.LittleEndian.PutUint64(buf[32:], uint64(startSlot))", None),
    ("C07", "proposer-accept-gt", PR, "if effectiveBalance*0xff >= spec.MAX_EFFECTIVE_BALANCE*Gwei(randomByte) {",
     "if effectiveBalance*0xff > spec.MAX_EFFECTIVE_BALANCE*Gwei(randomByte) {", None),
    ("C07", "sync-accept-gt", SY, "if effectiveBalance*0xff >= spec.MAX_EFFECTIVE_BALANCE*Gwei(randomByte) {",
     "if effectiveBalance*0xff > spec.MAX_EFFECTIVE_BALANCE*Gwei(randomByte) {", None),
    ("C07", "next-shuffling-wrong-seed-epoch", EC,
     "epc.NextEpoch, err = ComputeShufflingEpoch(epc.Spec, state, indicesBounded, currentEpoch+1)",
     "epc.NextEpoch, err = ComputeShufflingEpoch(epc.Spec, state, indicesBounded, currentEpoch)\n\tif epc.NextEpoch != nil {\n\t\tepc.NextEpoch.Epoch = currentEpoch + 1\n\t}", None),
    ("C07", "sync-candidate-modulus", SY, "i%ValidatorIndex(len(active)),", "i%ValidatorIndex(len(active)+1)%ValidatorIndex(len(active)),", None),
    ("C07", "seed-lookahead", RA, "epoch + spec.EPOCHS_PER_HISTORICAL_VECTOR - spec.MIN_SEED_LOOKAHEAD - 1",
     "epoch + spec.EPOCHS_PER_HISTORICAL_VECTOR - spec.MIN_SEED_LOOKAHEAD", None),
    ("C07", "active-exit-inclusive", SHG, "if v.Activation <= epoch && epoch < v.Exit {",
     "if v.Activation <= epoch && epoch <= v.Exit {", None),
    ("C07", "proposer-byte-index", PR, "randomByte := h[j]", "randomByte := h[31-j]", None),
    ("C07", "sync-byte-slip", SY, "randomByte := h[i%32]", "randomByte := h[(i+1)%32]", None),
    ("C07", "sync-block-index", SY, "binary.LittleEndian.PutUint64(buf[32:32+8], uint64(i/32))", "binary.LittleEndian.PutUint64(buf[32:32+8], uint64(i/32)+1)", None),
    ("C07", "revert-epc-sync-unwrap", EC, "if wrapped, ok := state.(interface{ Unwrap() BeaconState }); ok {",
     "if wrapped, ok := state.(interface{ Unwrap() BeaconState }); ok && false {", None),
    ("C07", "proposer-domain", PR, "GetSeed(spec, mixes, epoch, DOMAIN_BEACON_PROPOSER)",
     "GetSeed(spec, mixes, epoch, DOMAIN_BEACON_ATTESTER)", None),
]


def apply(root, rel, old, new, occ):
    p = os.path.join(root, rel)
    s = open(p).read()
    cnt = s.count(old)
    if cnt == 0 or (occ is None and cnt != 1):
        raise SystemExit("mutant pattern %r occurs %d times in %s" % (old, cnt, rel))
    if occ is None:
        s = s.replace(old, new)
    else:
        idx = -1
        for _ in range(occ + 1):
            idx = s.index(old, idx + 1)
        s = s[:idx] + new + s[idx + len(old):]
    open(p, "w").write(s)


def main():
    args = [a for a in sys.argv[1:] if not a.startswith("--")]
    tier = "quick"
    if "--tier" in sys.argv:
        tier = sys.argv[sys.argv.index("--tier") + 1]
        args = [a for a in args if a != tier]
    prop = args[0] if args else None
    sub = args[1] if len(args) > 1 else ""
    results = []
    for (pid, name, rel, old, new, occ) in MUTANTS:
        if prop and pid != prop:
            continue
        if sub and sub not in name:
            continue
        d = tempfile.mkdtemp(prefix="mut-%s-" % name)
        root = os.path.join(d, "repo")
        shutil.copytree(REPO, root, ignore=shutil.ignore_patterns(".git"))
        try:
            apply(root, rel, old, new, occ)
            env = dict(os.environ, VERIF_REPO=root, VERIF_NO_EVIDENCE="1")
            t = time.time()
            p = subprocess.run([os.path.join(VERIF, "check"), pid, "--tier", tier], env=env, stdout=subprocess.PIPE,
                               stderr=subprocess.PIPE, text=True)
            verdict = {0: "MISSED", 1: "CAUGHT", 2: "INFRA"}.get(p.returncode, str(p.returncode))
            detail = [l for l in p.stderr.splitlines() if "violation detail" in l or "INFRA" in l][:1]
            print("%s %-34s %s %.0fs %s" % (pid, name, verdict, time.time() - t, (detail[0][:260] if detail else "")), flush=True)
            results.append((pid, name, verdict))
        finally:
            shutil.rmtree(d, ignore_errors=True)
    caught = sum(1 for r in results if r[2] == "CAUGHT")
    print("caught %d / %d" % (caught, len(results)))


if __name__ == "__main__":
    main()
