"""Gossip-validation family (C12).

Specification: spec/GossipVal.tla (per topic the ordered condition table of the p2p specification with
class T/R and cache keys; Correct(seen, msg, verdict, marks)), model-checked exhaustively per topic with
spec/MC_GossipVal.tla. Binding: harness/cmd/gossip drives zrnt's eight gossip validators over node views made
of real states and the real fork choice, logs one event per message (the harness's claim about every
condition, keys, zrnt's verdict, the Mark* calls); spec/GossipValTrace.tla decides every event and prints
MISMATCH / DEVIATION lines. Known findings are named deviations of the trace spec, enabled only while listed
in known_findings.d/gossip.json with kind "finding".
"""
import collections
import json
import os
import re
import shutil
import subprocess
import threading

import lib

PID = "C12"
TOPICS = ["block", "att", "agg", "exit", "pslash", "aslash", "syncmsg", "contrib"]

# cache-independent conditions per topic (must equal CondNames(t) of GossipVal.tla; the trace spec checks)
COND = {
    "block": ["not_future", "after_finalized", "signature", "parent_seen", "slot_gt_parent", "finalized_ancestor",
              "expected_proposer", "payload_timestamp", "blob_count"],
    "att": ["committee_index", "subnet", "slot_window", "epoch_target", "one_bit", "bits_len", "signature",
            "block_seen", "block_valid", "target_ancestor", "finalized_ancestor"],
    "agg": ["committee_index", "slot_window", "epoch_target", "bits_len", "has_participants", "is_aggregator",
            "aggregator_in_committee", "selection_proof", "outer_signature", "aggregate_signature", "block_seen",
            "block_valid", "target_ancestor", "finalized_ancestor"],
    "exit": ["index_known", "active", "not_exiting", "epoch_reached", "old_enough", "signature"],
    "pslash": ["same_slot", "same_proposer", "headers_differ", "slashable", "signature_1", "signature_2"],
    "aslash": ["slashable_data", "indices_1", "signature_1", "indices_2", "signature_2", "some_slashed"],
    "syncmsg": ["current_slot", "subnet_valid", "signature"],
    "contrib": ["current_slot", "subcommittee_index", "has_participants", "is_aggregator",
                "aggregator_in_subcommittee", "selection_proof", "outer_signature", "aggregate_signature"],
}
CACHES = {"block": ["block"], "att": ["att"], "agg": ["aggroot", "aggregator"], "exit": ["exit"], "pslash": ["pslash"],
          "aslash": ["aslash"], "syncmsg": ["syncmsg"], "contrib": ["contrib"]}

# For these deviations the error text zrnt returned must match as well (so that another cause of the same
# verdict is not absorbed by the finding).
DEVIATION_ERR = {
    "gossip-agg-outer-sig-truncated": (lambda e: e["verdict"] != "REJECT" or e["err"] == "invalid aggregate signature"),
    "gossip-block-mark-before-proposer-check": (lambda e: "expected proposer" in e["err"]),
    "gossip-sync-period-boundary": (lambda e: e["verdict"] != "REJECT" or "is not in sync committee subnet" in e["err"]
                                    or "could not find aggregator" in e["err"]
                                    # aggregator sits in both committees: the participants' signatures are then checked
                                    # against the outgoing committee's keys
                                    or "could not verify BLS signature for sync committee contribution" in e["err"]),
    "gossip-contrib-single-participant": (lambda e: "at least 1 participant" in e["err"]),
    "gossip-exit-deneb-domain": (lambda e: e["verdict"] != "REJECT" or "signature could not be verified" in e["err"]),
}

PRINT_RE = re.compile(r'<<\s*"(MISMATCH|DEVIATION)",\s*(\d+),\s*(\d+),\s*(\d+),\s*"(\w+)",(.*?)>>\n(?=<<|Model|\s*Estim|Error|Progress|Finished|$)', re.S)


def active_deviations():
    return sorted(e["id"] for e in lib.active_findings(PID) if e["id"].startswith("gossip-"))


def finding_text(fid):
    for e in lib.load_known_findings(PID):
        if e["id"] == fid:
            return e.get("signature", fid)
    return fid


def run_harness(gbin, tier, seed, out, extra=()):
    p = lib.run([gbin, "run", "-tier", tier, "-seed", str(seed), "-out", out] + list(extra),
                timeout=900 if tier == "quick" else 3000)
    if p.returncode != 0:
        raise lib.InfraError("gossip harness failed (rc=%d):\n%s" % (p.returncode, (p.stdout + p.stderr)[-4000:]))
    return p.stderr


def split_histories(events, parts):
    """split the event list into <= parts chunks at Reset boundaries"""
    hists = []
    for e in events:
        if e["ev"] == "Reset":
            hists.append([])
        hists[-1].append(e)
    n = max(1, min(parts, len(hists)))
    chunks = [[] for _ in range(n)]
    sizes = [0] * n
    for h in sorted(hists, key=len, reverse=True):
        i = sizes.index(min(sizes))
        chunks[i].append(h)
        sizes[i] += len(h)
    out = []
    for c in chunks:
        c.sort(key=lambda h: h[0]["h"])
        out.append([e for h in c for e in h])
    return [c for c in out if c]


def validate_chunk(events, deviations, timeout=1200):
    wd = lib.fresh_spec_copy()
    lib.write_ndjson(os.path.join(wd, "trace.ndjson"), events)
    devs = "{" + ", ".join('"%s"' % d for d in sorted(deviations)) + "}"
    open(os.path.join(wd, "gvt.cfg"), "w").write(
        "SPECIFICATION Spec\nCONSTANTS\n  KnownDeviations = %s\nPOSTCONDITION TraceAccepted\nCHECK_DEADLOCK FALSE\n" % devs)
    res = lib.tlc("GossipValTrace", cfg="gvt.cfg", workdir=wd, workers=1, timeout=timeout)
    shutil.rmtree(wd, ignore_errors=True)
    if res.rc != 0 or res.errors or "Model checking completed" not in res.out:
        raise lib.InfraError("TLC failed on a gossip trace chunk:\n%s" % res.out[-5000:])
    prints = []
    for kind, line, h, i, topic, rest in PRINT_RE.findall(res.out):
        prints.append({"kind": kind, "line": int(line), "h": int(h), "i": int(i), "topic": topic,
                       "rest": " ".join(rest.split())})
    return res, prints


def model_check(tier, mutant="none", topics=TOPICS):
    """Exhaustive MC of GossipVal per topic. Returns {topic: TLCResult}."""
    def one(t):
        wd = lib.fresh_spec_copy()
        # quick: 2 keys per cache; thorough: 3 keys (2 for the 14-condition aggregate topic)
        keys = '{"a", "b", "c"}' if (tier == "thorough" and t != "agg") else '{"a", "b"}'
        cfg = ("SPECIFICATION Spec\nCONSTANTS\n  Topic = \"%s\"\n  KeyUniverse = %s\n  Mutant = \"%s\"\n"
               "INVARIANTS\n  NoViolation\n  SeenIsAccepted\n  TypeOK\n" % (t, keys, mutant))
        open(os.path.join(wd, "mcg.cfg"), "w").write(cfg)
        res = lib.tlc("MC_GossipVal", cfg="mcg.cfg", workdir=wd, workers=4 if t == "agg" else 1, timeout=1500)
        shutil.rmtree(wd, ignore_errors=True)
        return t, res
    return dict(lib.parallel_map(one, topics, workers=len(topics)))


class Result:
    pass


def analyse(events, tier, seed, deviations):
    """validate events with TLC; returns Result with mismatches, deviations, coverage"""
    r = Result()
    r.states = r.transitions = 0
    r.mismatches = []
    r.dev_used = collections.Counter()
    r.dev_bad = []
    chunks = split_histories(events, 8 if len(events) > 1500 else 2)
    by_line = []

    def val(chunk):
        return chunk, validate_chunk(chunk, deviations)
    for chunk, (res, prints) in lib.parallel_map(val, chunks):
        r.states += res.distinct
        r.transitions += res.generated
        for p in prints:
            ev = chunk[p["line"] - 1]
            hist = [e for e in chunk[:p["line"]] if e["h"] == ev["h"]]
            if p["kind"] == "MISMATCH":
                r.mismatches.append((ev, hist, p["rest"]))
            else:
                # the set of listed deviations that explain the event structurally; at least one must also
                # agree with the error text zrnt returned
                m = re.match(r'\s*\{([^}]*)\}', p["rest"])
                names = re.findall(r'"([\w-]+)"', m.group(1)) if m else []
                good = [n for n in names if n not in DEVIATION_ERR or DEVIATION_ERR[n](ev)]
                if not good:
                    r.dev_bad.append((ev, hist, "deviation %s matched structurally but zrnt's error text differs: %s" % (names, ev["err"])))
                else:
                    r.dev_used[good[0]] += 1
    r.mismatches.sort(key=lambda x: (x[0]["h"], x[0]["i"]))
    return r


# class of every condition (must equal the c field of the tables in GossipVal.tla)
T_CLASS = {"block": {"not_future", "after_finalized", "parent_seen"}, "att": {"slot_window", "block_seen", "finalized_ancestor"},
           "agg": {"slot_window", "block_seen", "finalized_ancestor"}, "syncmsg": {"current_slot"}, "contrib": {"current_slot"}}
SOFT = collections.Counter()


def coverage(events):
    cov = {t: {c: [0, 0] for c in COND[t] + ["first:" + k for k in CACHES[t]]} for t in TOPICS}
    verdicts = {t: collections.Counter() for t in TOPICS}
    single = {t: collections.Counter() for t in TOPICS}
    SOFT.clear()
    for e in events:
        if e["ev"] != "Msg":
            continue
        t = e["topic"]
        failing = []
        for c, v in e["cond"].items():
            if c in cov[t]:
                cov[t][c][1 if v else 0] += 1
            if not v:
                failing.append(c)
        for k, v in e["pre"].items():
            cov[t]["first:" + k][1 if v else 0] += 1
            if not v:
                failing.append("first:" + k)
        verdicts[t][e["verdict"]] += 1
        if len(failing) == 1:
            single[t][failing[0]] += 1
        # informational: REJECT-class failures (only) answered with IGNORE - allowed by C12, noted in the evidence
        if failing and e["verdict"] == "IGNORE" and not any(f.startswith("first:") or f in T_CLASS.get(t, ()) for f in failing):
            SOFT["%s: %s" % (t, "+".join(sorted(failing)))] += 1
    return cov, verdicts, single


# boundary-value cases of the ordered comparisons in the tables (tag logged by the harness in "bnd"); every one must
# occur in every run
_EDGE = ["slot=current_slot:disparity-edge-inside", "slot=current_slot:disparity-edge-outside"]
_ATT = _EDGE + ["window-end:disparity-edge-inside", "window-end:disparity-edge-outside", "committee_index=count",
                "committee_index=count-1", "bits=len+1", "target_epoch=epoch+1", "target_epoch=epoch-1", "participants=0",
                "epoch=fork_epoch-1:head-past-fork"]
_SYNC = ["slot=current_slot:early-edge-inside", "slot=current_slot:early-edge-outside", "slot=current_slot:late-edge-inside",
         "slot=current_slot:late-edge-outside"]
REQUIRED_BOUNDARIES = {
    "block": _EDGE + ["slot=parent_slot", "slot=parent_slot+1", "slot=finalized_slot", "slot=finalized_slot+1",
                      "slot=finalized_slot:side-branch", "blobs=max", "blobs=max+1", "proposer_index=count"],
    "att": _ATT + ["bits=len-1", "participants=2"],
    "agg": _ATT,
    "exit": ["exit_epoch=current+1", "age=SHARD_COMMITTEE_PERIOD", "age=SHARD_COMMITTEE_PERIOD-1", "index=count", "index=count-1",
             "epoch=fork_epoch-1:head-past-fork"],
    "pslash": ["index=count", "index=count-1", "slot2=slot1+1", "epoch=fork_epoch-1:head-past-fork"],
    "aslash": ["index=count", "indices=0", "epoch=fork_epoch-1:head-past-fork"],
    # multi-seat validators: honest messages on the subnet of the first seat AND on the subnets of the later seats
    "syncmsg": _SYNC + ["index=count", "first-subnet-of-multi-seat-validator", "non-first-subnet-of-multi-seat-validator"],
    "contrib": _SYNC + ["subcommittee_index=count", "subcommittee_index=count-1", "participants=0", "index=count",
                        "aggregator-in-non-first-subcommittee-of-multi-seat-validator"],
}


# heads / slots sitting exactly on a fork upgrade (first epoch or slot of a fork, last one before it), for every
# topic whose rule or signature domain depends on the fork
_FORK_EDGE = {
    "exit": ["honest-exit@last-pre-deneb-epoch:exit_epoch<fork_epoch",
             "honest-exit@first-deneb-epoch:exit_epoch>=fork_epoch", "honest-exit@first-deneb-epoch:exit_epoch<fork_epoch",
             "honest-exit@second-deneb-epoch:exit_epoch>=fork_epoch", "honest-exit@second-deneb-epoch:exit_epoch<fork_epoch",
             "other-fork-version-exit@last-pre-deneb-epoch:exit_epoch<fork_epoch",
             "other-fork-version-exit@first-deneb-epoch:exit_epoch>=fork_epoch",
             "other-fork-version-exit@second-deneb-epoch:exit_epoch>=fork_epoch"],
    "att": ["slot@first-epoch-of-deneb", "slot@first-epoch-of-bellatrix", "slot@first-epoch-of-altair",
            "window-end-deneb-rule:edge-in", "window-end-deneb-rule:501ms"],
    "agg": ["slot@first-epoch-of-deneb", "slot@first-epoch-of-bellatrix", "slot@first-epoch-of-altair",
            "window-end-deneb-rule:edge-in", "window-end-deneb-rule:501ms"],
    "block": ["block@first-slot-of-bellatrix", "block@last-slot-before-bellatrix", "block@first-slot-of-deneb",
              "block@last-slot-before-deneb", "payload-timestamp@first-slot-of-bellatrix",
              "payload-timestamp@first-slot-of-deneb", "blob-count@first-slot-of-deneb"],
    "syncmsg": ["slot@first-slot-of-altair", "slot@first-slot-of-deneb", "slot@last-slot-before-deneb"],
    "contrib": ["slot@first-slot-of-altair", "slot@first-slot-of-deneb", "slot@last-slot-before-deneb"],
}
for _t, _l in _FORK_EDGE.items():
    REQUIRED_BOUNDARIES[_t] = REQUIRED_BOUNDARIES[_t] + _l


def boundary_coverage(events):
    out = {}
    for e in events:
        if e["ev"] == "Msg" and e.get("bnd"):
            for tag in e["bnd"].split("|"):
                d = out.setdefault(e["topic"], {}).setdefault(tag, collections.Counter())
                d[e["verdict"]] += 1
    return {t: {b: dict(c) for b, c in v.items()} for t, v in out.items()}


# every condition must also be exercised as the ONLY failing one, except where that is impossible:
NOT_SINGLE = {
    ("block", "after_finalized"): "a block at or before the finalized slot cannot descend from the finalized checkpoint",
}


def check_vacuity(cov, verdicts, single):
    missing = []
    for t in TOPICS:
        if sum(verdicts[t].values()) == 0:
            missing.append("topic %s never exercised" % t)
            continue
        for c, (f, tr) in cov[t].items():
            if tr == 0:
                missing.append("%s.%s never true" % (t, c))
            if f == 0:
                missing.append("%s.%s never false" % (t, c))
            if single[t][c] == 0 and (t, c) not in NOT_SINGLE and not c.startswith("first:"):
                missing.append("%s.%s never the only failing condition" % (t, c))
        for v in ("ACCEPT", "IGNORE", "REJECT"):
            if verdicts[t][v] == 0:
                missing.append("%s: verdict %s never returned" % (t, v))
    if missing:
        raise lib.InfraError("vacuous run: " + "; ".join(missing))


def replay_doc(ev, hist, detail, tier, seed):
    return {"property": PID, "tier": tier, "seed": ev.get("hseed", seed), "scen": ev["scen"], "history": ev["name"], "step": ev["i"],
            "detail": detail, "events": hist}


def run_check(pid, tier, seed, replay=None):
    assert pid == PID
    t0 = lib.elapsed()
    gbin = lib.build_harness("gossip")
    deviations = active_deviations()
    d = lib.scratch("gossip")
    trace = os.path.join(d, "trace.ndjson")
    extra = []
    if replay:
        doc = json.load(open(replay))
        tier, seed = doc.get("tier", tier), doc.get("seed", seed)
        extra = ["-scen", scen_of(doc["scen"]), "-hist", doc["scen"] + "|" + doc["history"]]

    mc_holder = {}
    if not replay:
        def mc():
            try:
                mc_holder["res"] = model_check(tier)
            except Exception as ex:  # noqa: BLE001
                mc_holder["err"] = ex
        th = threading.Thread(target=mc)
        th.start()

    # quick: one recording; thorough: three recordings with different chain variations and samples
    hseeds = [seed] if (tier == "quick" or replay) else [seed, seed + 1000, seed + 2000]
    events = []
    res = None
    not_built = []
    for k, hs in enumerate(hseeds):
        tr = os.path.join(d, "trace%d.ndjson" % k)
        log = run_harness(gbin, tier, hs, tr, extra)
        lib.log(log.strip())
        evs = lib.read_ndjson(tr)
        # scenarios / catalogues the harness could not build from the tree under test (zrnt refused an honest block,
        # a builder panicked, ...): the rest is still judged, but "held" is never reported with something missing
        meta = json.load(open(tr + ".meta.json"))
        not_built += ["seed %d: %s" % (hs, f) for f in (meta.get("failed") or [])]
        for e in evs:
            e["hseed"] = hs
        if not any(e["ev"] == "Msg" for e in evs):
            raise lib.InfraError("the harness produced no message events" + (" (replay history not found)" if replay else ""))
        r = analyse(evs, tier, hs, deviations)
        # make history numbers unique over the recordings
        for e in evs:
            e["h"] += k * 1000000
        events += evs
        if res is None:
            res = r
        else:
            res.states += r.states
            res.transitions += r.transitions
            res.mismatches += r.mismatches
            res.dev_bad += r.dev_bad
            res.dev_used.update(r.dev_used)

    mc_states = mc_trans = 0
    mc_info = {}
    if not replay:
        th.join()
        if "err" in mc_holder:
            raise mc_holder["err"]
        for t, r in mc_holder["res"].items():
            if r.rc != 0 or r.errors or "No error has been found" not in r.out:
                raise lib.InfraError("MC_GossipVal(%s) did not pass (specification problem, not a verdict):\n%s" % (t, r.out[-3000:]))
            mc_states += r.distinct
            mc_trans += r.generated
            mc_info[t] = {"distinct": r.distinct, "generated": r.generated}

    rc = 0
    for name, n in sorted(res.dev_used.items()):
        lib.report_known(PID, "%s: %s (%d occurrences this run)" % (name, finding_text(name), n))
    viol = res.mismatches + [(ev, hist, why) for ev, hist, why in res.dev_bad]
    seen_classes = set()
    shown = 0
    for ev, hist, detail in viol:
        failing = tuple(sorted(k for k, v in ev["cond"].items() if not v))
        cls = (ev["topic"], ev["desc"].split(" ")[0], failing, ev["verdict"])
        if cls in seen_classes and shown >= 3:
            continue
        seen_classes.add(cls)
        if shown < 8:
            name = "mismatch-%d-seed%s.json" % (shown, seed)
            rp = lib.save_replay(PID, name, replay_doc(ev, hist, detail, tier, seed))
            lib.report_violation(PID, rp, "%s %s/%s step %d '%s' failing=%s -> %s marks=%s err=%s | %s" % (
                ev["topic"], ev["scen"], ev["name"], ev["i"], ev["desc"], list(failing), ev["verdict"], ev["marks"], ev["err"][:120], detail[:300]))
            shown += 1
        rc = 1

    cov, verdicts, single = coverage(events)
    bnd = boundary_coverage(events)
    if rc == 0 and not_built:
        raise lib.InfraError("no deviation observed on the views that could be built, but these could not be built from the "
                             "tree under test (no verdict): " + "; ".join(x[:300] for x in not_built))
    if not replay and rc == 0:
        check_vacuity(cov, verdicts, single)
        missing = ["%s: %s" % (t, b) for t in REQUIRED_BOUNDARIES for b in REQUIRED_BOUNDARIES[t] if not bnd.get(t, {}).get(b)]
        if missing:
            raise lib.InfraError("vacuous run, boundary cases never exercised: " + "; ".join(missing))

    nmsg = sum(1 for e in events if e["ev"] == "Msg")
    nhist = sum(1 for e in events if e["ev"] == "Reset")
    digests = set()
    nontrivial = 0
    hist = []
    for e in events + [{"ev": "Reset"}]:
        if e["ev"] == "Reset":
            if hist:
                key = lib.digest([[x["topic"], x["desc"], x["cond"], x["verdict"], x["marks"], x["scen"], x["key"]] for x in hist])
                if key not in digests:
                    digests.add(key)
                    if len(hist) >= 2 and any(x["verdict"] != "ACCEPT" for x in hist) and any(x["verdict"] == "ACCEPT" for x in hist):
                        nontrivial += 1
            hist = []
        else:
            hist.append(e)
    samples = [{k: e[k] for k in ("topic", "scen", "desc", "cond", "key", "verdict", "marks", "err")}
               for e in events if e["ev"] == "Msg"][:400:67]
    covdoc = {
        "states": res.states + mc_states, "transitions": res.transitions + mc_trans,
        "traces_validated_against_impl": nhist - len({(ev["h"]) for ev, _, _ in viol}),
        "samples": samples,
        "evaluations": nmsg, "distinct_nontrivial": nontrivial,
        "rule": "one evaluation = one message handed to one of zrnt's gossip validators and judged by TLC against "
                "GossipVal.tla; histories are distinct by hash of (claims, keys, verdicts, marks) and non-trivial when "
                "they contain both an ACCEPT and a refusal (refused-then-valid, valid-then-duplicate)",
        "histories": nhist, "distinct_histories": len(digests),
        "condition_matrix": {t: {c: {"false": v[0], "true": v[1]} for c, v in cov[t].items()} for t in TOPICS},
        "single_condition_failures": {t: dict(single[t]) for t in TOPICS},
        "verdicts": {t: dict(verdicts[t]) for t in TOPICS},
        "boundary_cases": bnd,
        "not_built": not_built,
        "reject_class_failures_answered_ignore": dict(SOFT),
        "model_checking": mc_info,
        "exhaustive": False,
        "exhaustive_part": "MC_GossipVal per topic: every truth assignment to the topic's conditions x every key "
                           "combination over 2 keys per cache (thorough: 3, aggregate topic 2; attester slashing: every non-empty subset) x every allowed "
                           "verdict from every reachable cache state (message sequences of any length); invariants "
                           "accept-invalid, dup-after-accept, suppressed, mark-on-refuse, timing-reject",
        "known_deviations_enabled": deviations, "deviations_used": dict(res.dev_used),
    }
    lib.write_evidence(PID, tier, seed, covdoc, lib.elapsed() - t0, violations=len(viol),
                       assumptions=["TLC, SANY, CommunityModules Json", "harness/cmd/gossip: mock beacon.Chain over real states "
                                    "and the real fork choice, harness-side evaluation of the p2p conditions, corruption catalogue",
                                    "condition tables transcribed from consensus-specs p2p-interface.md (phase0, altair, "
                                    "bellatrix/deneb block additions, deneb attestation window)",
                                    "R-class failures may be answered IGNORE or REJECT (C12 demands 'never ACCEPT')"])
    return rc


def scen_of(view):
    if view.startswith("p0fork"):
        return "p0fork"
    for k, v in {"p0early": "p0", "p0lag": "p0", "p0ep2": "p0", "altmid": "alt", "latebel": "late", "late1": "late",
                 "late3": "late"}.items():
        if view == k:
            return v
    return view


CANNED_MUTANT = "att-subnet-check-dropped"


def selftest():
    """Binding demonstrations: (1) a recording of the real validators is accepted, and the same recording with one
    corrupted verdict / one removed Mark call / one dropped Reset is rejected by GossipValTrace; (2) deliberately
    wrong designs (Mutant constant of MC_GossipVal) violate the model-checked invariants; (3) a canned mutation of
    zrnt (the subnet check of ValidateAttestation dropped) in a scratch worktree makes the check print VIOLATION."""
    ok = True
    gbin = lib.build_harness("gossip")
    devs = active_deviations()
    d = lib.scratch("gossip-selftest")
    trace = os.path.join(d, "trace.ndjson")
    run_harness(gbin, "quick", 7, trace, ["-scen", "p0", "-topic", "att,block,exit"])
    events = lib.read_ndjson(trace)
    base = analyse(events, "quick", 7, devs)
    lib.log("selftest: unmodified recording: %d events, %d mismatches" % (len(events), len(base.mismatches) + len(base.dev_bad)))
    ok &= not base.mismatches and not base.dev_bad

    def corrupted(name, pred, change):
        nonlocal ok
        ev2 = json.loads(json.dumps(events))
        idx = pred if isinstance(pred, int) else next(i for i, e in enumerate(ev2) if pred(e))
        if change is None:
            del ev2[idx]
        else:
            change(ev2[idx])
        r = analyse(ev2, "quick", 7, devs)
        n = len(r.mismatches) + len(r.dev_bad)
        lib.log("selftest: %s at event %d -> %d mismatches" % (name, idx, n))
        ok &= n >= 1

    corrupted("honest ACCEPT logged as IGNORE", lambda e: e["ev"] == "Msg" and e["topic"] == "att" and e["verdict"] == "ACCEPT",
              lambda e: e.update(verdict="IGNORE"))
    corrupted("refused message logged as ACCEPT", lambda e: e["ev"] == "Msg" and e["topic"] == "block" and e["verdict"] == "REJECT" and not e["marks"],
              lambda e: e.update(verdict="ACCEPT"))
    corrupted("Mark call removed from an ACCEPT", lambda e: e["ev"] == "Msg" and e["verdict"] == "ACCEPT" and e["marks"],
              lambda e: e.update(marks=[]))
    corrupted("Mark call added to a refusal", lambda e: e["ev"] == "Msg" and e["topic"] == "exit" and e["verdict"] == "REJECT",
              lambda e: e.update(marks=[["exit", e["key"]["exit"][0]]]))
    corrupted("timing failure logged as REJECT", lambda e: e["ev"] == "Msg" and e["topic"] == "att" and e["desc"] == "head:unknown",
              lambda e: e.update(verdict="REJECT"))
    # dropping the Reset between two histories that use the same key makes the second start with a marked cache
    target = None
    accepted = set()
    for i, e in enumerate(events):
        if e["ev"] == "Reset":
            nxt = events[i + 1] if i + 1 < len(events) else None
            if nxt and nxt["ev"] == "Msg" and (nxt["topic"], json.dumps(nxt["key"], sort_keys=True)) in accepted:
                target = i
                break
            accepted = set()
        elif e["verdict"] == "ACCEPT":
            accepted.add((e["topic"], json.dumps(e["key"], sort_keys=True)))
    if target is not None:
        corrupted("Reset dropped between two histories with the same key", target, None)
    else:
        lib.log("selftest: no adjacent histories with a common key in this recording")
        ok = False

    # (2) design mutants violate the invariants
    for mutant, topic in (("mark-on-ignore", "att"), ("mark-before-last", "block"), ("reject-timing", "syncmsg")):
        res = model_check("quick", mutant=mutant, topics=[topic])[topic]
        bad = bool(res.invariant_violated)
        lib.log("selftest: MC_GossipVal(%s) with Mutant=%s -> invariant violated: %s" % (topic, mutant, res.invariant_violated))
        ok &= bad
    res = model_check("quick", topics=["pslash"])["pslash"]
    ok &= "No error has been found" in res.out

    # (3) canned code mutation
    import gossip_mutants
    m = next(x for x in gossip_mutants.MUTANTS if x[0] == CANNED_MUTANT)
    rc, viol, det, tail = gossip_mutants.run_one(m, False)
    lib.log("selftest: zrnt mutant %s -> rc=%d %s" % (CANNED_MUTANT, rc, viol[:1]))
    ok &= rc == 1 and bool(viol)
    return bool(ok)
