"""Family: executable TLA+ reference specification of the beacon-chain state transition (C01, C02).

Pipeline of one check run:
  1. build harness/cmd/beacon against lib.REPO and record ndjson traces of zrnt's public entry points
     (common.ProcessSlots -> "Slots" events, common.StateTransition -> "Block" events), one file per
     (preset, fork schedule);
  2. validate every file with TLC against spec/BeaconTrace.tla (up to 16 TLC processes, -workers 1 each):
     every event must satisfy  post = Spec(logged predecessor state, args)  field for field;
  3. C02 judges the Slots events, C01 the Block events.  A deviation explained exactly by a listed known
     finding (the spec carries zrnt's deviating computation as a named deviation) is a KNOWN-FINDING,
     any other deviation is a VIOLATION with a two-line replay (predecessor state + offending event).
"""
import json
import os
import re
import shutil
import time

import lib

KIND_OF = {"C01": "Block", "C02": "Slots"}

# counters (harness/beaconrec/counters.go) that must be non-zero for the run to mean anything
_C02_REQ = ["epochs", "epochs_in_leak", "epochs_finalizing", "epochs_justifying", "ejections", "activations",
            "activation_queue_entries", "slashing_penalties", "effective_balance_down", "effective_balance_up",
            "historical_roots_appended", "historical_summaries_appended", "eth1_votes_reset",
            "sync_committee_rotations", "upgrade_to_altair", "upgrade_to_bellatrix", "upgrade_to_capella",
            "upgrade_to_deneb", "upgrade_altair_with_pending_attestations", "inactivity_score_increases",
            "inactivity_score_decreases", "ejection_with_multi_epoch_exit_queue", "slots_events_multi",
            "epochs_phase0", "epochs_altair", "epochs_bellatrix", "epochs_capella", "epochs_deneb",
            "epochs_in_leak_phase0", "epochs_in_leak_altair", "epochs_in_leak_bellatrix", "epochs_in_leak_deneb",
            "epochs_with_prev_attestations", "epochs_with_prev_participation", "genesis_upgrades", "probe_events",
            # queue-vs-churn classes (idle S3 family with prepared queues)
            "deneb_activation_cap_binding", "activation_queue_exceeds_churn_pre_deneb",
            "activation_queue_exceeds_churn_phase0", "activation_queue_exceeds_churn_altair",
            "activation_queue_exceeds_churn_bellatrix", "activation_queue_exceeds_churn_capella",
            "ejections_exceed_churn_phase0", "ejections_exceed_churn_altair", "ejections_exceed_churn_bellatrix",
            "ejections_exceed_churn_capella", "ejections_exceed_churn_deneb",
            # interaction classes steered by the TLC-generated scenario scripts (spec/BeaconScenario.tla)
            "tlc_behaviours", "leak_across_fork_boundary", "correlated_slashing_penalties", "topup_crossed_hysteresis",
            # shortcut guards that are true while the work is not a no-op
            "penalties_without_any_previous_epoch_attestation", "eligibility_marked_without_activation_or_ejection",
            "effective_balance_change_with_unchanged_balance"]
_C01_REQ = ["blocks_phase0", "blocks_altair", "blocks_bellatrix", "blocks_capella", "blocks_deneb",
            "ops_pslash", "ops_aslash", "ops_atts", "ops_deposits", "ops_exits", "ops_bls_changes",
            "ops_atts_phase0", "ops_atts_altair", "ops_atts_deneb", "ops_exits_deneb", "ops_pslash_phase0",
            "ops_aslash_altair", "ops_deposits_phase0", "ops_deposits_altair",
            "withdrawals_full", "withdrawals_partial", "sync_aggregates_partial", "sync_aggregates_empty",
            "payloads_bellatrix", "payloads_capella", "payloads_deneb", "payloads_default_pre_merge",
            "deposits_new_validator", "deposits_topup_or_skipped", "eth1_data_changes", "validators_slashed",
            "exits_initiated_in_block", "blocks_after_skipped_slots", "blocks_at_epoch_start_with_epoch_processing",
            "blocks_with_several_operation_kinds", "atts_previous_epoch", "atts_beyond_one_epoch_deneb",
            "blocks_with_blob_commitments", "fork_upgrades",
            # every fork has its own AddValidator; payload fields that the cached header copies are distinct and non-zero
            "new_validator_deposit_in_phase0", "new_validator_deposit_in_altair", "new_validator_deposit_in_bellatrix",
            "new_validator_deposit_in_capella", "new_validator_deposit_in_deneb", "deneb_payload_blob_gas_fields_differ",
            "payload_header_fields_distinct_nonzero_bellatrix", "payload_header_fields_distinct_nonzero_capella",
            "payload_header_fields_distinct_nonzero_deneb",
            # interaction classes steered by the TLC-generated scenario scripts (spec/BeaconScenario.tla)
            "tlc_behaviours", "exit_queued_behind_earlier_exits", "slashed_while_exiting", "topup_of_exited_validator",
            "partial_withdrawal_after_bls_change", "full_withdrawal_after_bls_change",
            "eth1_vote_exactly_half_not_adopted", "eth1_vote_half_plus_one_adopted", "sync_partial_with_duplicate_members",
            "atts_delay_upto_sqrt", "atts_delay_upto_epoch", "atts_delay_beyond_epoch",
            "tlc_intent_exit_honoured", "tlc_intent_exit2_honoured", "tlc_intent_pslash_honoured", "tlc_intent_aslash_honoured",
            "tlc_intent_slash_exiting_honoured", "tlc_intent_bls_change_honoured", "tlc_intent_deposit_new_honoured",
            "tlc_intent_deposit_bad_pop_honoured", "tlc_intent_topup_honoured", "tlc_intent_topup_exited_honoured",
            "tlc_intent_topup_partial_honoured", "tlc_intent_aslash_mixed_honoured",
            # attester slashings whose intersection mixes slashable and non-slashable validators (valid: skipped)
            "attester_slashing_with_unslashable_member", "attester_slashing_includes_already_slashed",
            "attester_slashing_includes_not_yet_active", "attester_slashing_includes_withdrawable",
            # index sets that differ on both sides (only the intersection is slashed)
            "attester_slashing_partial_intersection_phase0", "attester_slashing_partial_intersection_altair",
            "attester_slashing_partial_intersection_bellatrix", "attester_slashing_partial_intersection_deneb",
            # every fork's AddValidator caps the effective balance of a new validator / rounds it down
            "new_validator_deposit_above_max_effective_balance_phase0", "new_validator_deposit_above_max_effective_balance_altair",
            "new_validator_deposit_above_max_effective_balance_bellatrix", "new_validator_deposit_above_max_effective_balance_capella",
            "new_validator_deposit_above_max_effective_balance_deneb",
            # several aggregates of one committee with overlapping attester sets (altair+: flags / proposer reward per
            # NEW flag only; an implementation must not stop at the first attester that has nothing new)
            "atts_partial_overlap_flagged_before_new_altair", "atts_partial_overlap_flagged_before_new_bellatrix",
            "atts_partial_overlap_flagged_before_new_capella", "atts_partial_overlap_flagged_before_new_deneb",
            "atts_partial_overlap_flagged_before_new_phase0", "atts_strict_superset_of_included_altair",
            "atts_strict_superset_of_included_deneb", "atts_all_attesters_already_included_altair",
            "atts_all_attesters_already_included_deneb",
            # withdrawals sweep bound larger than the registry (cursor advances by the preset value modulo the size)
            "sweep_bound_exceeds_registry_size_list_not_full", "sweep_bound_exceeds_registry_size_list_full",
            "sweep_bound_exceeds_registry_size_cursor_wraps_unevenly",
            # deposit signature-byte shapes x {new pubkey, top-up} in blocks
            "dep_block_topup_valid", "dep_block_topup_wrong", "dep_block_topup_zero", "dep_block_topup_ff",
            "dep_block_topup_undecodable", "dep_block_topup_infinity", "dep_block_new_valid", "dep_block_new_wrong",
            "dep_block_new_zero", "dep_block_new_ff", "dep_block_new_undecodable", "dep_block_new_infinity"]
REQUIRED = {"C02": {"quick": _C02_REQ, "thorough": _C02_REQ}, "C01": {"quick": _C01_REQ, "thorough": _C01_REQ}}

JAVA_OPTS = "-Xss512m -XX:TieredStopAtLevel=1 -XX:ParallelGCThreads=2 -XX:CICompilerCount=1"


TLC_SCRIPTS = {"quick": 30, "thorough": 300}
SCENARIO_SLOTS = 56


def generate_scripts(tier, seed):
    """Spec -> code direction: TLC simulates the coarse scenario model spec/BeaconScenario.tla (seeded) and prints
    one intent script per behaviour; returns (path of an ndjson file with one script per line, number of scripts)."""
    n = TLC_SCRIPTS[tier]
    wd = lib.fresh_spec_copy({"gen.cfg": "INIT Init\nNEXT Next\nCONSTANT MaxSlot = %d\n" % SCENARIO_SLOTS})
    res = lib.tlc("BeaconScenario", cfg="gen.cfg", workdir=wd, workers=1, timeout=900, simulate="num=%d" % n,
                  depth=SCENARIO_SLOTS + 4, seed=seed, deadlock=False, java_opts="-Xss512m")
    shutil.rmtree(wd, ignore_errors=True)
    scripts = []
    for line in res.out.splitlines():
        line = line.strip()
        if line.startswith('"{'):
            try:
                scripts.append(json.loads(line))
            except ValueError:
                pass
    if len(scripts) < n // 2:
        raise lib.InfraError("BeaconScenario produced %d of %d behaviours:\n%s" % (len(scripts), n, res.out[-3000:]))
    path = os.path.join(lib.scratch("beacon"), "scripts-%s-%d.ndjson" % (tier, seed))
    with open(path, "w") as f:
        for s in scripts:
            f.write(s + "\n")
    return path, len(scripts)


def record(tier, seed, family, extra_args=()):
    """Run the recorder (sharded over the cores); returns (directory, merged stats dict)."""
    binary = lib.build_harness("beacon")
    if "tlc" in family.split(","):
        path, _ = generate_scripts(tier, seed)
        extra_args = list(extra_args) + ["-scripts", path]
    out = os.path.join(lib.scratch("beacon"), "traces-%s-%d-%s" % (tier, seed, family.replace(",", "_")))
    if os.path.isdir(out):
        shutil.rmtree(out)
    os.makedirs(out)
    shards = min(16, lib.NCPU)

    def one(i):
        p = lib.run([binary, "-out", out, "-tier", tier, "-seed", str(seed), "-family", family,
                     "-shard", "%d/%d" % (i, shards)] + list(extra_args),
                    timeout=1500 if tier == "thorough" else 400)
        if p.returncode != 0:
            raise lib.InfraError("beacon recorder failed (rc=%d):\n%s" % (p.returncode, (p.stdout + p.stderr)[-4000:]))
        if p.stderr.strip():
            lib.log(p.stderr.strip()[:2000])
        return json.load(open(os.path.join(out, "stats.%d.json" % i)))

    parts = lib.parallel_map(one, list(range(shards)), workers=shards)
    stats = {"files": [], "counters": {}, "scenarios": 0}
    for st in parts:
        stats["files"] += st["files"] or []
        stats["scenarios"] += st["scenarios"]
        for k, v in st["counters"].items():
            stats["counters"][k] = stats["counters"].get(k, 0) + v
    return out, stats


_MARK = re.compile(r'<<\s*"(MISMATCH|KNOWN|MODELREJECT)",\s*(\d+),\s*"(\w+)"(?:,\s*\{([^}]*)\})?\s*>>')


def validate_file(path, timeout=1200, strict=True):
    """TLC-validate one trace file. Returns a dict; raises InfraError when TLC itself fails."""
    wd = lib.fresh_spec_copy()
    shutil.copy(path, os.path.join(wd, "trace.ndjson"))
    res = lib.tlc("BeaconTrace", cfg="BeaconTrace.cfg", workdir=wd, workers=1, timeout=timeout, java_opts=JAVA_OPTS)
    out = res.out
    mism, known, modelrej = [], [], []
    for m in _MARK.finditer(out):
        if m.group(1) == "MODELREJECT":
            modelrej.append(int(m.group(2)))
        elif m.group(1) == "MISMATCH":
            k = int(m.group(2))
            d = re.search(r'<<\s*"DIFF",\s*%d,(.*?)(?=\n<<"|\nModel checking|\nError|\Z)' % k, out, re.S)
            mism.append({"line": k, "kind": m.group(3), "diff": (d.group(1).strip()[:6000] if d else "")})
        else:
            devs = sorted(x.strip().strip('"') for x in (m.group(4) or "").split(",") if x.strip())
            known.append({"line": int(m.group(2)), "kind": m.group(3), "deviations": devs})
    ok = res.rc == 0 and "Model checking completed. No error has been found." in out
    if not ok:
        shutil.rmtree(wd, ignore_errors=True)
        raise lib.InfraError("TLC could not evaluate %s (rc=%d) - specification or harness problem, no verdict:\n%s"
                             % (os.path.basename(path), res.rc, out[-5000:]))
    shutil.rmtree(wd, ignore_errors=True)
    # A block the harness built as valid but the MODEL rejects is a harness/specification defect - unless an
    # earlier event of the file already deviated (the model then runs on from zrnt's deviating state, on
    # which e.g. the expected withdrawals of an honest block no longer match).
    first_dev = min([m["line"] for m in mism] + [k["line"] for k in known] + [1 << 30])
    modelrej = [x for x in modelrej if x < first_dev]
    if modelrej and strict:
        raise lib.InfraError("the reference specification rejects block(s) the harness built as valid (%s line(s) %s): "
                             "harness or specification defect, no verdict" % (os.path.basename(path), modelrej[:10]))
    return {"file": path, "generated": res.generated, "distinct": res.distinct, "depth": res.depth,
            "mismatches": mism, "known": known, "modelreject": modelrej, "wall": res.wall}


def state_before(evs, line):
    """The model's state right before event number `line` (1-based): the logged state of the last event that
    advances the history (Init, Slots, accepted Block); Probe events and rejected blocks leave it unchanged."""
    st = None
    for ev in evs[:line - 1]:
        k = ev.get("ev")
        if k == "Init":
            st = ev["state"]
        elif k == "Slots" or (k == "Block" and ev.get("accepted")):
            st = ev["post"]
    return st


def make_replay(path, line):
    """Two-event trace: Init with the logged predecessor state, then the offending event."""
    evs = lib.read_ndjson(path)
    first = evs[0]
    ev = evs[line - 1]
    if ev.get("ev") == "Init":
        return [ev]
    return [{"ev": "Init", "P": first["P"], "state": state_before(evs, line),
             "meta": {"replay_of": os.path.basename(path), "line": line}}, ev]


def ndjson_text(events):
    return "".join(json.dumps(e, separators=(",", ":")) + "\n" for e in events)


def summarize_events(files, kind):
    """evaluations / distinct / non-trivial counts and a few samples of the events of one kind
    (Probe events count as Slots events)."""
    n, digests, nontrivial, samples, histories = 0, set(), 0, [], 0
    for f in files:
        prev = None
        for ev in lib.read_ndjson(f):
            k = ev.get("ev")
            if k == "Init":
                histories += 1
                prev = ev["state"]
                continue
            if (k == kind) or (kind == "Slots" and k == "Probe"):
                n += 1
                body = {x: v for x, v in ev.items() if x not in ("post", "ev")}
                dg = lib.digest([prev.get("slot"), lib.digest(prev), body])
                if dg not in digests:
                    digests.add(dg)
                    if kind == "Slots":
                        nt = any("ep" in s for s in ev["oracle"]["slots"])
                    else:
                        b = ev.get("blk", {})
                        nt = any(len(b.get(x, [])) > 0 for x in ("pslash", "aslash", "atts", "deposits", "exits", "bls_changes"))
                    nontrivial += 1 if nt else 0
                if len(samples) < 3 and (n % 37 == 1):
                    s = {"ev": k, "pre_slot": prev.get("slot"), "pre_fork": prev.get("fork"),
                         "post_slot": ev["post"].get("slot"), "post_fork": ev["post"].get("fork")}
                    if kind == "Slots":
                        s["to"] = ev["to"]
                        s["epoch_boundaries"] = sum(1 for x in ev["oracle"]["slots"] if "ep" in x)
                    else:
                        s["accepted"] = ev.get("accepted")
                        s["ops"] = {x: len(ev["blk"].get(x, [])) for x in ("pslash", "aslash", "atts", "deposits", "exits", "bls_changes")}
                    samples.append(s)
            if k == "Slots" or (k == "Block" and ev.get("accepted")):
                prev = ev["post"]
    return n, len(digests), nontrivial, samples, histories


def run_check(pid, tier, seed, replay=None, family="idle,chain,tlc"):
    t0 = time.time()
    kind = KIND_OF[pid]
    if replay:
        return run_replay(pid, replay)
    # the specification's own sanity model runs concurrently with recording and trace validation
    from concurrent.futures import ThreadPoolExecutor
    mc_pool = ThreadPoolExecutor(max_workers=1)
    mc_future = mc_pool.submit(mc_sanity, tier)
    out, stats = record(tier, seed, family)
    files = [f["path"] for f in stats["files"] if f["events"] > 1]
    if not files:
        raise lib.InfraError("recorder produced no traces")
    lib.log("recorded %d trace files, %d events, %.1fs" % (len(files), sum(f["events"] for f in stats["files"]), time.time() - t0))
    results = lib.parallel_map(lambda f: validate_file(f, strict=False), files, workers=min(16, lib.NCPU))
    counters = stats["counters"]
    missing = [c for c in REQUIRED[pid][tier] if counters.get(c, 0) == 0]
    n, distinct, nontrivial, samples, histories = summarize_events(files, kind)
    if n == 0:
        raise lib.InfraError("no %s events were recorded" % kind)
    violations, known_hits = [], []
    findings = {f["signature"].split(":")[0]: f for f in lib.active_findings(pid)}
    for r in results:
        for m in r["mismatches"]:
            if m["kind"] == kind or m["kind"] == "Crash":   # a panic inside zrnt on a valid history concerns both
                violations.append((r["file"], m))
        for k in r["known"]:
            if k["kind"] == kind:
                unlisted = [d for d in k["deviations"] if d not in findings]
                if not unlisted:
                    known_hits.append((r["file"], k))
                else:
                    violations.append((r["file"], {"line": k["line"], "kind": kind,
                                                   "diff": "deviation %s (not a listed finding of %s)" % (unlisted, pid)}))
    if missing and not violations:
        # (with violations the run is not a claim that the property held; a deviating zrnt may also be the very
        # reason why a class was not reached, e.g. honest blocks it rejects)
        raise lib.InfraError("vacuity guard: these sub-transitions were never exercised: %s" % ", ".join(missing))
    rejected = [(os.path.basename(r["file"]), r["modelreject"][:5]) for r in results if r["modelreject"]]
    if rejected and not violations and not any(r["mismatches"] for r in results):
        # nothing deviates anywhere, yet the model refuses blocks the harness built as valid
        raise lib.InfraError("the reference specification rejects block(s) the harness built as valid: %s - harness or "
                             "specification defect, no verdict" % rejected[:5])
    other = sum(1 for r in results for m in r["mismatches"] if m["kind"] not in (kind, "Crash"))
    if other:
        lib.log("note: %d mismatch(es) on events judged by another property (not %s)" % (other, pid))
    accepted_files = [r for r in results if not any(m["kind"] == kind for m in r["mismatches"])]
    mc = mc_future.result()          # raises InfraError if the specification's sanity model fails
    mc_pool.shutdown()
    coverage = {
        "states": sum(r["distinct"] for r in results) + sum(m["distinct"] for m in mc),
        "transitions": sum(r["generated"] for r in results) + sum(m["generated"] for m in mc),
        "trace_states": sum(r["distinct"] for r in results),
        "mc_sanity": {"runs": [m for m in mc if m["mode"] == "inv"],
                      "invariants": MC_INVARIANTS,
                      "reachability_goals_confirmed": sorted({m["goal"] for m in mc if m["mode"] == "reach"})},
        "traces_validated_against_impl": histories if not violations else sum(
            1 for _ in accepted_files),
        "trace_files": len(files),
        "evaluations": n,
        "distinct_nontrivial": {"distinct": distinct, "nontrivial": nontrivial,
                                "rule": ("Slots event crossing at least one epoch boundary" if kind == "Slots"
                                         else "Block event carrying at least one operation")},
        "samples": samples,
        "counters": counters,
        "known_finding_hits": len(known_hits),
        "tlc_generated_behaviours": counters.get("tlc_behaviours", 0),
        "tlc_intents": {k[len("tlc_intent_"):]: v for k, v in counters.items() if k.startswith("tlc_intent_")},
        "tlc_goals": {k[len("tlc_goal_"):]: v for k, v in counters.items() if k.startswith("tlc_goal_")},
        "tlc_wall_s": round(sum(r["wall"] for r in results), 1),
    }
    seen = set()
    for f, k in known_hits:
        for dev in k["deviations"]:
            if dev in seen:
                continue
            seen.add(dev)
            rp = lib.save_replay(pid, "known-%s-%s-%d.ndjson" % (dev, os.path.basename(f)[:-7], k["line"]),
                                 ndjson_text(make_replay(f, k["line"])))
            lib.report_known(pid, "%s (%d occurrence(s) this run, e.g. replay=%s)" % (
                findings[dev]["signature"], sum(1 for _, x in known_hits if dev in x["deviations"]), rp))
    rc = 0
    for f, m in violations[:5]:
        rp = lib.save_replay(pid, "viol-%s-%d.ndjson" % (os.path.basename(f)[:-7], m["line"]),
                             ndjson_text(make_replay(f, m["line"])))
        what = "zrnt panicked while the chain was produced / prepared:" if m["kind"] == "Crash" else \
            "zrnt's post-state differs from the specification in:"
        lib.report_violation(pid, rp, "%s line %d (%s event): %s %s" % (os.path.basename(f), m["line"], m["kind"], what, m["diff"]))
        rc = 1
    if not os.environ.get("VERIF_NO_EVIDENCE"):      # runs against mutated copies must not touch evidence/
        lib.write_evidence(pid, tier, seed, coverage, time.time() - t0, violations=len(violations),
                           assumptions=ASSUMPTIONS)
    lib.log("%s %s: %d %s events (%d distinct, %d non-trivial), %d histories, %d TLC states, %d violation(s), %d known-finding hit(s), %.1fs"
            % (pid, tier, n, kind, distinct, nontrivial, histories, coverage["states"], len(violations), len(known_hits),
               time.time() - t0))
    return rc


ASSUMPTIONS = [
    "scaled presets S1-S4 (every quantity < 2^31); overflow behaviour at real Gwei magnitudes is out of scope",
    "hash_tree_root / BLS / shuffling are environment oracles: state and header roots come from the struct-form "
    "hash_tree_root and the harness' own sha256 glue, committees / proposers / sync-committee members from an "
    "EpochsContext rebuilt from scratch on a stepped copy of the state (validated independently by C06-C08)",
    "the reference specification is a transcription of consensus-specs v1.5.0-beta.2 (phase0..deneb)",
]


def run_replay(pid, path):
    r = validate_file(path)
    findings = {f["signature"].split(":")[0]: f for f in lib.active_findings(pid)}
    bad = [m for m in r["mismatches"]]
    for k in r["known"]:
        for dev in k["deviations"]:
            if dev in findings:
                lib.report_known(pid, findings[dev]["signature"] + " (replay)")
            else:
                bad.append({"line": k["line"], "kind": k["kind"], "diff": "deviation " + dev})
    if bad:
        for m in bad:
            lib.report_violation(pid, path, "line %d (%s event): %s" % (m["line"], m["kind"], m["diff"]))
        return 1
    lib.log("replay %s: every event agrees with the specification" % path)
    return 0


# ------------------------------------------------------------------------------------------------
# sensitivity: realistic zrnt mutants (text patches applied to a scratch COPY of the repository)

MUTANTS = {
    # name: (file, old, new, property expected to flag it)
    # (the obvious "proposer share quotient" mutant is equivalent: whistleblower == proposer gets both parts)
    # coverage round: branches no scenario reached before
    "zigzag_join_keeps_left_only_members": ("eth2/beacon/common/validator_indices.go",
                                            "\t\t\tif onOut != nil {\n\t\t\t\tonOut(iV)\n\t\t\t}\n\t\t\t// go to next\n\t\t\ti++\n\t\t\tupdateI()\n\t\t} else if iV > jV {",
                                            "\t\t\tif onIn != nil {\n\t\t\t\tonIn(iV)\n\t\t\t}\n\t\t\t// go to next\n\t\t\ti++\n\t\t\tupdateI()\n\t\t} else if iV > jV {", "C01"),
    "bellatrix_new_validator_effective_balance_uncapped": ("eth2/beacon/bellatrix/state.go",
                                                           "if effBalance > spec.MAX_EFFECTIVE_BALANCE {", "if false && effBalance > spec.MAX_EFFECTIVE_BALANCE {", "C01"),
    "slash_reward_to_slashed": ("eth2/beacon/phase0/slashings.go",
                                "if err := common.IncreaseBalance(bals, propIndex, proposerReward); err != nil {",
                                "if err := common.IncreaseBalance(bals, slashedIndex, proposerReward); err != nil {", "C01"),
    "altair_min_slashing_quotient": ("eth2/beacon/altair/state.go",
                                     "MinSlashingPenaltyQuotient:     uint64(spec.MIN_SLASHING_PENALTY_QUOTIENT_ALTAIR),",
                                     "MinSlashingPenaltyQuotient:     uint64(spec.MIN_SLASHING_PENALTY_QUOTIENT),", "C01"),
    "inclusion_window_strict": ("eth2/beacon/altair/attestation.go",
                                "if !(currentSlot <= data.Slot+spec.SLOTS_PER_EPOCH) {",
                                "if !(currentSlot < data.Slot+spec.SLOTS_PER_EPOCH) {", "C01"),
    "hysteresis_swapped": ("eth2/beacon/phase0/final.go",
                           "if balance+DOWNWARD_THRESHOLD < effBalance || effBalance+UPWARD_THRESHOLD < balance {",
                           "if balance+UPWARD_THRESHOLD < effBalance || effBalance+DOWNWARD_THRESHOLD < balance {", "C02"),
    "inactivity_score_not_decremented": ("eth2/beacon/altair/inactivity_scores.go",
                                         "\t\t\t\tnewScore -= 1\n", "\t\t\t\tnewScore -= 0\n", "C02"),
    "bellatrix_uses_altair_quotient": ("eth2/beacon/bellatrix/state.go",
                                       "InactivityPenaltyQuotient:      uint64(spec.INACTIVITY_PENALTY_QUOTIENT_BELLATRIX),",
                                       "InactivityPenaltyQuotient:      uint64(spec.INACTIVITY_PENALTY_QUOTIENT_ALTAIR),", "C02"),
    "sync_penalty_sign": ("eth2/beacon/altair/sync_aggregate.go",
                          "if err := common.DecreaseBalance(bals, validatorIndex, participantReward); err != nil {",
                          "if err := common.IncreaseBalance(bals, validatorIndex, participantReward); err != nil {", "C01"),
    "withdrawal_sweep_bound": ("eth2/beacon/capella/transition.go",
                               "if i >= validatorCount || i >= uint64(spec.MAX_VALIDATORS_PER_WITHDRAWALS_SWEEP) {",
                               "if i >= validatorCount || i > uint64(spec.MAX_VALIDATORS_PER_WITHDRAWALS_SWEEP) {", "C01"),
    "historical_summary_period": ("eth2/beacon/capella/transition.go",
                                  "if epc.NextEpoch.Epoch%spec.SlotToEpoch(spec.SLOTS_PER_HISTORICAL_ROOT) == 0 {\n\t\tif err := UpdateHistoricalSummaries(state)",
                                  "if epc.CurrentEpoch.Epoch%spec.SlotToEpoch(spec.SLOTS_PER_HISTORICAL_ROOT) == 0 {\n\t\tif err := UpdateHistoricalSummaries(state)", "C02"),
    "churn_from_registry_size": ("eth2/beacon/phase0/registry.go",
                                 "churnLimit := spec.GetChurnLimit(activeCount)",
                                 "churnLimit := spec.GetChurnLimit(uint64(count))", "C02"),
    "slashings_not_reset": ("eth2/beacon/phase0/final.go",
                            "return slashings.ResetSlashings(epc.NextEpoch.Epoch)",
                            "_ = slashings\n\treturn nil", "C02"),
    "inclusion_reward_to_attester": ("eth2/beacon/phase0/deltas.go",
                                     "res.InclusionDelay.Rewards[status.AttestedProposer] += proposerReward",
                                     "res.InclusionDelay.Rewards[i] += proposerReward", "C02"),
    # upgrade_to_bellatrix carries the NEXT sync committee over into current_sync_committee as well
    "upgrade_mixes_sync_committees": ("eth2/beacon/bellatrix/fork.go",
                                      "currentSyncCommitteeView, err := pre.CurrentSyncCommittee()",
                                      "currentSyncCommitteeView, err := pre.NextSyncCommittee()", "C02"),
    "upgrade_keeps_fork_epoch": ("eth2/beacon/capella/fork.go",
                                 "Epoch:           epoch,", "Epoch:           epoch - 1,", "C02"),
}


def mutated_repo(name):
    """Copy lib.REPO (without .git) into the scratch area and apply one mutant; returns the copy's path."""
    rel, old, new, _ = MUTANTS[name]
    dst = os.path.join(lib.scratch("beacon-mutants"), name)
    if os.path.isdir(dst):
        shutil.rmtree(dst)
    shutil.copytree(lib.REPO, dst, ignore=shutil.ignore_patterns(".git"))
    path = os.path.join(dst, rel)
    src = open(path).read()
    if src.count(old) != 1:
        raise lib.InfraError("mutant %s: pattern occurs %d times in %s" % (name, src.count(old), rel))
    open(path, "w").write(src.replace(old, new))
    return dst


def run_on_repo(repo, pid, tier="quick", seed=1):
    """Run ./check <pid> against another repository tree (subprocess, VERIF_REPO); returns (rc, output)."""
    p = lib.run([os.path.join(lib.VERIF, "check"), pid, "--tier", tier],
                env={"VERIF_REPO": repo, "VERIF_SEED": str(seed), "VERIF_NO_EVIDENCE": "1"},
                timeout=3000, cwd=lib.VERIF)
    return p.returncode, p.stdout + p.stderr


def selftest():
    """Binding self-test: the trace specification rejects a corrupted and a truncated trace, and a canned
    mutation of zrnt is reported as a VIOLATION by the real check commands."""
    report = []
    out, stats = record("quick", 1, "chain", ["-only", "random-0"])  # (no tlc family: plain chain histories)
    files = sorted(f["path"] for f in stats["files"] if f["events"] > 10)
    if not files:
        raise lib.InfraError("selftest: no trace recorded")
    path = files[0]
    base = validate_file(path)
    if base["mismatches"]:
        raise lib.InfraError("selftest: the unmodified trace is not accepted: %s" % base["mismatches"][:2])
    evs = lib.read_ndjson(path)
    # 1. corrupt one field of one logged post-state
    k = next(i for i, e in enumerate(evs) if e.get("ev") == "Block" and i > 5)
    bad = json.loads(json.dumps(evs))
    bad[k]["post"]["balances"][2] += 1
    p1 = os.path.join(os.path.dirname(path), "selftest-corrupt.ndjson")
    lib.write_ndjson(p1, bad)
    r1 = validate_file(p1)
    ok1 = any(m["line"] == k + 1 for m in r1["mismatches"])
    report.append(("corrupted post-state field rejected at the corrupted event", ok1))
    # 2. drop one event
    bad = evs[:k] + evs[k + 1:]
    p2 = os.path.join(os.path.dirname(path), "selftest-drop.ndjson")
    lib.write_ndjson(p2, bad)
    r2 = validate_file(p2, strict=False)
    ok2 = any(m["line"] == k + 1 for m in r2["mismatches"]) or (k + 1) in r2["modelreject"]
    report.append(("dropped event rejected at the following event", ok2))
    # 3. canned zrnt mutations -> VIOLATION from the real check
    for name in ("sync_penalty_sign", "hysteresis_swapped"):
        pid = MUTANTS[name][3]
        rc, txt = run_on_repo(mutated_repo(name), pid)
        ok = rc == 1 and ("VIOLATION property=%s" % pid) in txt
        report.append(("mutant %s flagged by %s" % (name, pid), ok))
        shutil.rmtree(os.path.join(lib.scratch("beacon-mutants"), name), ignore_errors=True)
    for what, ok in report:
        lib.log("selftest beacon: %-70s %s" % (what, "ok" if ok else "FAILED"))
    return all(ok for _, ok in report)


# ------------------------------------------------------------------------------------------------
# BeaconMC: sanity / vacuity guard of the reference specification itself (exhaustive, small bounds)

MC_INVARIANTS = ["BalancesNonNegative", "CheckpointOrder", "SlashedWithdrawableAfterExit", "ExitChurnRespected",
                 "EffectiveBalanceWellFormed", "WithdrawalCursorInRange", "RegistryShapes", "ForkMatchesSchedule"]
MC_RUNS = {
    # (forks operator, MaxSlot, reachability goals expected to be violated)
    "quick": [("ForksSpread", 6, ["NeverSlashes", "NeverExits", "NeverDeposits", "NeverAltair", "NeverBellatrix",
                                   "NeverCapella", "NeverJustifies"]),
              ("ForksNever", 6, ["NeverSlashes", "NeverExits", "NeverDeposits", "NeverJustifies"])],
    "thorough": [("ForksSpread", 8, ["NeverSlashes", "NeverExits", "NeverDeposits", "NeverAltair", "NeverBellatrix",
                                      "NeverCapella", "NeverDeneb", "NeverJustifies", "NeverFinalizes", "NeverWithdraws"]),
                 ("ForksEarly", 6, ["NeverDeneb", "NeverWithdraws", "NeverJustifies"]),
                 ("ForksNever", 7, ["NeverSlashes", "NeverExits", "NeverJustifies"]),
                 ("ForksAltairOnly", 6, ["NeverAltair", "NeverJustifies"])],
}


def _mc_cfg(forks, max_slot, invariants):
    return ("CONSTANT P <- MCP\nCONSTANT MaxSlot = %d\nCONSTANT MCForks <- %s\nINIT Init\nNEXT Next\nCHECK_DEADLOCK FALSE\n"
            % (max_slot, forks)) + "".join("INVARIANT %s\n" % i for i in invariants)


def mc_sanity(tier, workers=4):
    """Exhaustive check of BeaconMC: every honest block is accepted by the specification and the DESIGN 5.6
    invariants hold in every reachable state; then, as a vacuity guard, one short run per reachability goal
    (an "invariant" that TLC must find violated).  Any failure is a specification problem: InfraError, never a
    verdict about zrnt."""
    jobs = []
    for forks, ms, goals in MC_RUNS[tier]:
        jobs.append((forks, ms, "inv", MC_INVARIANTS))
        for g in goals:
            jobs.append((forks, ms, "reach", [g]))

    def one(job):
        forks, ms, mode, invs = job
        wd = lib.fresh_spec_copy({"mc.cfg": _mc_cfg(forks, ms, invs)})
        res = lib.tlc("BeaconMC", cfg="mc.cfg", workdir=wd, workers=((8 if ms >= 8 else workers) if mode == "inv" else 2), timeout=2400,
                      java_opts="-Xss512m -XX:TieredStopAtLevel=1" if mode == "reach" else "-Xss512m")
        shutil.rmtree(wd, ignore_errors=True)
        if mode == "inv":
            lib.tlc_must_pass(res, "BeaconMC %s MaxSlot=%d invariants" % (forks, ms))
        elif invs[0] not in res.invariant_violated or "honest block rejected" in res.out:
            raise lib.InfraError("BeaconMC %s MaxSlot=%d: goal %s is never reached (vacuous model) or an assertion failed:\n%s"
                                 % (forks, ms, invs[0], res.out[-3000:]))
        return {"forks": forks, "max_slot": ms, "mode": mode, "goal": (invs[0] if mode == "reach" else None),
                "distinct": res.distinct, "generated": res.generated, "wall": round(res.wall, 1)}

    return lib.parallel_map(one, jobs, workers=max(1, lib.NCPU // 3))
