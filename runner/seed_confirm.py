#!/usr/bin/env python3
"""Confirm a seeded change produced by an independent sub-agent and store it under /verif/seeded/<id>/.

  runner/seed_confirm.py <src_dir> <seed_id> <property> [--place path/in/repo_test.go] [--caught-by "C09,C10"] [--tests pkgs]

In a scratch worktree of /repo HEAD (outside /repo and /verif, removed afterwards) it checks:
  1. the demonstration passes on the unmodified tree,
  2. the patch applies and the tree still builds (go build ./...),
  3. the existing test suite still passes with the patch (go test -vet=off ./... without the demonstration),
  4. the demonstration fails with the patch.
Only if all four hold it writes seeded/<id>/{patch.diff, demo test, meta.json}."""
import json
import os
import re
import shutil
import subprocess
import sys
import tempfile

VERIF = os.path.dirname(os.path.dirname(os.path.abspath(__file__)))
ENV = dict(os.environ, GOFLAGS="-mod=mod", GOPROXY="off", GOSUMDB="off", GOTOOLCHAIN="local")


def sh(cmd, cwd, timeout=1800):
    p = subprocess.run(cmd, cwd=cwd, env=ENV, stdout=subprocess.PIPE, stderr=subprocess.STDOUT, text=True, timeout=timeout)
    return p.returncode, p.stdout


def main():
    a = sys.argv[1:]
    opts = {}
    race = []
    if "--race" in a:
        a.remove("--race")
        race = ["-race"]
    for k in ("--place", "--caught-by", "--tests", "--needs"):
        if k in a:
            i = a.index(k)
            opts[k] = a[i + 1]
            del a[i:i + 2]
    src, sid, prop = a[0], a[1], a[2]
    demo_src = os.path.join(src, "seeded_demo_test.go")
    head = open(demo_src).read(1500)
    place = opts.get("--place")
    if not place:
        m = re.search(r"(eth2/[\w/]+?_test\.go)", head)
        place = m.group(1) if m else None
    if not place:
        print("cannot determine where to place the demonstration; use --place")
        return 2
    pkg = "./" + os.path.dirname(place) + "/"
    wt = tempfile.mkdtemp(prefix="seedwt-")
    os.rmdir(wt)
    subprocess.run(["git", "-C", "/repo", "worktree", "add", "-q", "--detach", wt, "HEAD"], check=True)
    res = {}
    try:
        shutil.copy(demo_src, os.path.join(wt, place))
        rc, out = sh(["go", "test", "-count=1", "-vet=off"] + race + ["-run", "Seeded|seeded", pkg], wt)
        res["demo_on_unmodified"] = "pass" if rc == 0 and "no tests to run" not in out else "FAIL"
        res["demo_on_unmodified_tail"] = out[-400:]
        os.remove(os.path.join(wt, place))
        rc, out = sh(["git", "apply", os.path.join(src, "patch.diff")], wt)
        res["patch_applies"] = rc == 0
        rc, out = sh(["go", "build", "./..."], wt)
        res["builds"] = rc == 0
        rc, out = sh(["go", "test", "-count=1", "-vet=off", "-timeout", "25m"] + (opts.get("--tests", "./...").split()), wt)
        res["existing_tests_with_change"] = "pass" if rc == 0 else "FAIL"
        if rc != 0:
            res["existing_tests_tail"] = out[-800:]
        shutil.copy(demo_src, os.path.join(wt, place))
        rc, out = sh(["go", "test", "-count=1", "-vet=off"] + race + ["-run", "Seeded|seeded", pkg], wt)
        res["demo_with_change"] = "fail" if rc != 0 else "PASSES"
        res["demo_with_change_tail"] = out[-400:]
    finally:
        subprocess.run(["git", "-C", "/repo", "worktree", "remove", "--force", wt])
        shutil.rmtree(wt, ignore_errors=True)
    ok = (res.get("demo_on_unmodified") == "pass" and res.get("patch_applies") and res.get("builds")
          and res.get("existing_tests_with_change") == "pass" and res.get("demo_with_change") == "fail")
    print(json.dumps(res, indent=1)[:1500])
    if not ok:
        print("NOT CONFIRMED:", sid)
        return 1
    dst = os.path.join(VERIF, "seeded", sid)
    os.makedirs(dst, exist_ok=True)
    shutil.copy(os.path.join(src, "patch.diff"), dst)
    shutil.copy(demo_src, os.path.join(dst, "seeded_demo_test.go"))
    notes = ""
    if os.path.exists(os.path.join(src, "notes.md")):
        notes = open(os.path.join(src, "notes.md")).read()
        shutil.copy(os.path.join(src, "notes.md"), dst)
    head_commit = subprocess.run(["git", "-C", "/repo", "rev-parse", "--short", "HEAD"], stdout=subprocess.PIPE, text=True).stdout.strip()
    meta = {
        "id": sid, "breaks_property": prop,
        "needs_to_manifest": opts.get("--needs") or (notes.split("\n\n")[0][:600] if notes else ""),
        "demonstration": {"file": "seeded_demo_test.go", "place_at": place,
                          "run": "go test -count=1 -run 'Seeded|seeded' " + pkg},
        "confirmed_on_repo_commit": head_commit,
        "confirmation": {k: res[k] for k in ("demo_on_unmodified", "patch_applies", "builds",
                                             "existing_tests_with_change", "demo_with_change")},
        "what_was_run": ["git worktree add <scratch> HEAD", "demo on unmodified tree", "git apply patch.diff",
                         "go build ./...", "go test -vet=off " + opts.get("--tests", "./..."), "demo with change",
                         "runner/mutant_eval.py patch.diff " + prop],
        "caught_by": [c for c in opts.get("--caught-by", "").split(",") if c],
        "author": "independent sub-agent given only the property text and a scratch worktree",
    }
    json.dump(meta, open(os.path.join(dst, "meta.json"), "w"), indent=1)
    print("CONFIRMED and stored:", dst)
    return 0


if __name__ == "__main__":
    sys.exit(main())
