"""C08 - the incrementally maintained epochs context always matches the state.

Specification: spec/EpochsContext.tla (what the context of a registry is), spec/MC_EpochsContext.tla (the
incremental maintenance as a state machine, exhaustively checked against FromScratch), and
spec/EpochsContextTrace.tla (validation of observations of the real code). Binding: harness/cmd/epc keeps
long-lived (state, context) lines on real chains the way a client does, and after every slot / block logs the
live context, a fresh NewEpochsContext and the abstract registry; reload-and-continue lines and cache-sharing
branches included. TLC decides every observation.
"""
import collections
import json
import os
import re
import shutil
import subprocess
import sys

import lib

PID = "C08"
MISMATCH_RE = re.compile(r'<<\s*"MISMATCH",\s*(\d+),\s*(-?\d+),\s*"([^"]*)"\s*>>', re.S)
DEVIATION_RE = re.compile(r'<<\s*"DEVIATION",\s*(\d+),\s*(-?\d+),\s*"([^"]*)"\s*>>', re.S)

FLAWS = ["Flaw_StaleNext", "Flaw_NoProposerReload", "Flaw_NoStakeReload", "Flaw_StakeReloadOnlyIfEffChanged", "Flaw_NoSyncRotate",
         "Flaw_NoPubkeyExtend", "Flaw_NoSyncLoadOnUpgrade"]


def mc_cfg(tier, deviations, **over):
    if tier == "quick":
        c = {"NV": 4, "NGenesis": 2, "MaxEpoch": 3, "MinLA": 1, "MaxLA": 1, "Period": 2, "AltairEpoch": 1}
    else:
        c = {"NV": 4, "NGenesis": 3, "MaxEpoch": 4, "MinLA": 1, "MaxLA": 1, "Period": 2, "AltairEpoch": 2}
    for f in FLAWS:
        c[f] = "FALSE"
    c.update(over)
    devs = "{" + ", ".join('"%s"' % d for d in sorted(deviations)) + "}"
    lines = ["SPECIFICATION Spec", "CONSTANTS"] + ["  %s = %s" % kv for kv in c.items()] + \
            ["  KnownDeviations = " + devs, "INVARIANT Matches", "CHECK_DEADLOCK FALSE"]
    return "\n".join(lines) + "\n"


def model_check(tier, deviations):
    """Exhaustive MC of the incremental maintenance; each Flaw_* switch and each unsound look-ahead must violate."""
    wd = lib.fresh_spec_copy()
    open(os.path.join(wd, "mc.cfg"), "w").write(mc_cfg(tier, deviations))
    res = lib.tlc("MC_EpochsContext", cfg="mc.cfg", workdir=wd, workers=6 if tier == "quick" else 12,
                  timeout=1500 if tier == "quick" else 3000, heap="4g")
    if res.rc != 0 or res.errors or "No error has been found" not in res.out:
        raise lib.InfraError("MC_EpochsContext did not pass (specification problem, not a verdict):\n" + res.out[-4000:])
    flaws = {}
    variants = [(f, {f: "TRUE"}) for f in FLAWS] + [("MinLA=0", {"MinLA": 0}), ("MaxLA=0", {"MaxLA": 0})]

    def one(v):
        name, over = v
        cfgname = "mc_%s.cfg" % re.sub(r"\W", "_", name)
        open(os.path.join(wd, cfgname), "w").write(mc_cfg(tier, deviations, **over))
        r = lib.tlc("MC_EpochsContext", cfg=cfgname, workdir=wd, workers=2, timeout=1500, heap="2g")
        return name, r
    for name, r in lib.parallel_map(one, variants, workers=4):
        if "Matches" not in r.invariant_violated:
            raise lib.InfraError("MC_EpochsContext with %s does not violate Matches: the invariant is vacuous\n%s"
                                 % (name, r.out[-3000:]))
        flaws[name] = "violates Matches"
    # without the known deviation the model itself exhibits it (design-level confirmation of the finding)
    if deviations:
        open(os.path.join(wd, "mc_nodev.cfg"), "w").write(mc_cfg(tier, []))
        r = lib.tlc("MC_EpochsContext", cfg="mc_nodev.cfg", workdir=wd, workers=2, timeout=1500, heap="2g")
        flaws["KnownDeviations={}"] = "violates Matches" if "Matches" in r.invariant_violated else "holds"
    shutil.rmtree(wd, ignore_errors=True)
    return res, flaws


def validate_file(trace_path, deviations, timeout=2400):
    wd = lib.scratch("ect-" + os.path.basename(trace_path))
    for f in ("EpochsContext.tla", "EpochsContextTrace.tla"):
        shutil.copy(os.path.join(lib.SPEC_DIR, f), wd)
    shutil.copy(trace_path, os.path.join(wd, "trace.ndjson"))
    devs = "{" + ", ".join('"%s"' % d for d in sorted(deviations)) + "}"
    open(os.path.join(wd, "t.cfg"), "w").write(
        "SPECIFICATION TraceSpec\nCONSTANTS\n  KnownDeviations = %s\nPOSTCONDITION TraceAccepted\nCHECK_DEADLOCK FALSE\n" % devs)
    res = lib.tlc("EpochsContextTrace", cfg="t.cfg", workdir=wd, workers=1, timeout=timeout, heap="3g")
    shutil.rmtree(wd, ignore_errors=True)
    if res.rc != 0 or res.errors or "Model checking completed" not in res.out:
        raise lib.InfraError("TLC failed on %s:\n%s" % (trace_path, res.out[-5000:]))
    mism = [(int(a), int(b), c) for a, b, c in MISMATCH_RE.findall(res.out)]
    if len(mism) != res.out.count('"MISMATCH"'):
        raise lib.InfraError("could not parse every MISMATCH line of %s:\n%s" % (trace_path, res.out[-3000:]))
    devs_seen = collections.Counter(c for _, _, c in DEVIATION_RE.findall(res.out))
    return res, mism, devs_seen


def record(binp, tier, seed, idx, out):
    p = lib.run([binp, "rec", "-tier", tier, "-seed", str(seed), "-chain", str(idx), "-out", out], timeout=3000)
    crash = None
    if p.returncode != 0:
        txt = p.stdout + p.stderr
        if "stack overflow" in txt or "goroutine stack exceeds" in txt:
            crash = "fatal stack overflow (unbounded recursion) in the recorder process"
        else:
            raise lib.InfraError("epc rec failed for chain %d:\n%s" % (idx, txt[-3000:]))
    summ = None
    for line in reversed(p.stdout.strip().splitlines()):
        try:
            summ = json.loads(line)
            break
        except ValueError:
            continue
    if summ is None and not crash:
        raise lib.InfraError("epc rec: no summary for chain %d:\n%s" % (idx, (p.stdout + p.stderr)[-3000:]))
    return summ, crash, p.stderr


def signature(cfg, ev, what):
    script = cfg.get("script") or cfg.get("corner") or "random"
    lk = "reload" if ev.get("peer", {}).get("has") == 1 else ("branch" if ev["line"].startswith("branch") else "main")
    return "%s [line=%s kind=%s fork=%s script=%s flags=%s]" % (what, lk, ev.get("kind"), ev.get("fork"), script,
                                                             ",".join(ev.get("flags", [])))


def run_check(tier, seed, replay=None):
    t0 = lib.elapsed()
    binp = lib.build_harness("epc")
    d = lib.scratch("epc")
    findings = lib.active_findings(PID)
    deviations = sorted({f["deviation"] for f in findings if f.get("deviation")})

    if replay:
        rp = json.load(open(replay))
        tier_r, seed_r = rp["tier"], rp["seed"]
        p = lib.run([binp, "list", "-tier", tier_r, "-seed", str(seed_r)], timeout=60, check=True)
        cfgs = json.loads(p.stdout)
        todo = [rp["chain_index"]]
    else:
        tier_r, seed_r = tier, seed
        p = lib.run([binp, "list", "-tier", tier, "-seed", str(seed)], timeout=60, check=True)
        cfgs = json.loads(p.stdout)
        todo = list(range(len(cfgs)))

    mc_holder = {}
    if not replay:
        import threading

        def mc():
            try:
                mc_holder["res"] = model_check(tier, deviations)
            except Exception as ex:  # noqa: BLE001
                mc_holder["err"] = ex
        mc_thread = threading.Thread(target=mc)
        mc_thread.start()

    def job(i):
        out = os.path.join(d, "c%03d.ndjson" % i)
        summ, crash, err = record(binp, tier_r, seed_r, i, out)
        if os.path.getsize(out) == 0:   # zrnt could not build the chain: nothing to validate
            empty = lib.TLCResult(0, "", 0)
            return i, out, summ, crash, empty, [], collections.Counter()
        res, mism, devs_seen = validate_file(out, deviations)
        return i, out, summ, crash, res, mism, devs_seen
    results = lib.parallel_map(job, todo, workers=max(4, lib.NCPU - (0 if replay else 6)))

    tot = collections.Counter()
    steps, lines, flags, by_fork = (collections.Counter() for _ in range(4))
    devs_total = collections.Counter()
    samples = []
    states = transitions = accepted = 0
    violations = []
    known = collections.Counter()
    stopped = []
    unbuildable = []
    for i, path, s, crash, res, mism, devs_seen in results:
        states += res.distinct
        transitions += res.generated
        devs_total.update(devs_seen)
        cfg = cfgs[i]
        if s:
            for k in ("events", "reload_points", "branches", "peer_comparisons"):
                tot[k] += s[k]
            steps.update(s["steps"])
            lines.update(s["lines"])
            flags.update(s["flags"])
            by_fork.update(s["by_fork"])
            if len(samples) < 3 and s["sample"]:
                samples.append(s["sample"][0])
            if s.get("stopped"):
                stopped.append("%s: %s" % (cfg["name"], s["stopped"][:200]))
            if s.get("unbuildable"):
                unbuildable.append(cfg["name"])
        events = lib.read_ndjson(path) if (mism or crash) else []
        offending = []
        if crash:
            last = events[-1] if events else {"line": "?", "kind": "?", "fork": "?"}
            offending.append((len(events), signature(cfg, last, crash), last))
        for line, eid, what in mism:
            ev = events[line - 1]
            offending.append((line, signature(cfg, ev, what), ev))
        if not offending:
            accepted += 1
        for line, sig, ev in offending:
            kf = [f for f in findings if f.get("match") and re.search(f["match"], sig)]
            if kf:
                known[kf[0]["id"]] += 1
            else:
                violations.append((i, line, sig, ev))
    for dev, n in devs_total.items():
        for f in findings:
            if f.get("deviation") == dev:
                known[f["id"]] += n

    mres, flaws = (None, {})
    mc_err = None
    if not replay:
        mc_thread.join()
        if "err" in mc_holder:
            mc_err = mc_holder["err"]  # raised below, unless a violation was observed on the real code
        else:
            mres, flaws = mc_holder["res"]

    rc = 0
    for fid, n in known.items():
        f = [x for x in findings if x["id"] == fid][0]
        lib.report_known(PID, "%s: %s (%d occurrences this run)" % (fid, f["signature"], n))
    seen = set()
    for i, line, sig, ev in violations:
        key = re.sub(r"\d+", "#", sig)
        if key in seen:
            continue
        seen.add(key)
        if len(seen) > 6:
            break
        slim = {k: v for k, v in ev.items() if k not in ("peer",)}
        rp = lib.save_replay(PID, "ctx-%d-chain%d-line%d-seed%d.json" % (len(seen), i, line, seed_r),
                             {"tier": tier_r, "seed": seed_r, "chain_index": i, "chain": cfgs[i], "trace_line": line,
                              "signature": sig, "event": slim})
        lib.report_violation(PID, rp, sig)
        rc = 1
    if violations:
        lib.log("%d offending observations in total, %d distinct signatures reported" % (len(violations), len(seen)))
    for s in stopped:
        lib.log("note: scenario stopped early: " + s)
    if rc == 0 and mc_err is not None:
        raise mc_err
    if rc == 0 and unbuildable:
        raise lib.InfraError("zrnt could not build the genesis of %s and no deviation was observed elsewhere" % unbuildable)

    if not replay:
        need = ["epoch-boundary", "sync-period-boundary", "deposit-new-validator", "deposit-mid-epoch",
                "upgrade:altair", "upgrade:bellatrix", "upgrade:capella", "upgrade:deneb",
                # forks whose contexts are Clones of one context: one copy is stepped, the others are re-observed
                "recheck-parent", "recheck-sibling", "fork-both-deposit-different-amounts-same-epoch",
                "fork-one-deposits-other-rotates-first", "clone-eff-len-lt-cap", "clone-eff-len-eq-cap",
                # new-validator deposits observed mid-epoch (before the next rotation), by amount class
                "new-validator-amount-not-multiple-of-increment", "new-validator-amount-at-max", "new-validator-amount-above-max",
                "new-validator-amount-below-one-increment", "topup-of-validator-deposited-in-same-epoch",
                # epoch boundaries by which registry fact changed ALONE
                "active-set-changed-no-eff-change:activation", "active-set-changed-no-eff-change:exit",
                "active-set-changed-no-eff-change:both", "active-set-changed-no-eff-change:slashed-exit",
                "eff-changed-active-set-unchanged", "boundary-registry-unchanged"]
        missing = [k for k in need if flags[k] == 0]
        for k in ("slot", "block", "genesis"):
            if steps[k] == 0:
                missing.append("point kind " + k)
        for k in ("main", "reload", "branch"):
            if lines[k] == 0:
                missing.append("line kind " + k)
        if tot["reload_points"] == 0 or tot["peer_comparisons"] == 0:
            missing.append("reload points")
        if tot["branches"] == 0:
            missing.append("branches")
        if rc == 0 and len(stopped) > len(cfgs) // 3:
            missing.append("too many scenarios stopped early: %s" % stopped[:3])
        if missing and rc == 0:
            raise lib.InfraError("vacuous run, never exercised: %s" % missing)

    cov = {
        "states": states + (mres.distinct if mres else 0),
        "transitions": transitions + (mres.generated if mres else 0),
        "traces_validated_against_impl": accepted,
        "samples": samples or [["replay"]],
        "evaluations": sum(steps.values()),
        "distinct_nontrivial": sum(flags[k] for k in flags if k in ("epoch-boundary", "sync-period-boundary", "deposit-new-validator",
                                                                     "recheck-parent", "recheck-sibling") or k.startswith("upgrade:")),
        "rule": "one evaluation = one observation point (live context vs fresh context vs the specification's context of the "
                "logged registry, decided by TLC); non-trivial = points right after an epoch boundary, a sync-committee period "
                "boundary, a deposit that added validators or a fork upgrade, and re-observations of the unstepped parent / sibling "
                "copies of a context after a copy of it was stepped",
        "chains": len(todo), "points_by_kind": dict(steps), "points_by_line": dict(lines), "points_by_fork": dict(by_fork),
        "epoch_boundaries": flags["epoch-boundary"], "sync_period_boundaries": flags["sync-period-boundary"],
        "deposits_adding_validators": flags["deposit-new-validator"],
        "upgrades": {k.split(":")[1]: v for k, v in flags.items() if k.startswith("upgrade:")},
        "rechecks_of_unstepped_copies": {"parent": flags["recheck-parent"], "sibling": flags["recheck-sibling"]},
        "fork_scripts": {k: flags[k] for k in ("fork-both-deposit-different-amounts-same-epoch", "fork-one-deposits-other-rotates-first",
                                                "clone-eff-len-lt-cap", "clone-eff-len-eq-cap")},
        "new_validator_deposits_observed_before_next_rotation": {
            k: flags[k] for k in ("new-validator-amount-not-multiple-of-increment", "new-validator-amount-at-max",
                                  "new-validator-amount-above-max", "new-validator-amount-below-one-increment",
                                  "topup-of-validator-deposited-in-same-epoch")},
        "epoch_boundaries_by_changed_fact": {k: flags[k] for k in (
            "active-set-changed-no-eff-change:activation", "active-set-changed-no-eff-change:exit",
            "active-set-changed-no-eff-change:both", "active-set-changed-no-eff-change:slashed-exit",
            "eff-changed-active-set-unchanged", "boundary-registry-unchanged", "boundary-eff-and-active-set-changed",
            "active-set-changed-eff-values-unchanged-but-hysteresis-condition-met")},
        "reload_points": tot["reload_points"], "reload_comparisons": tot["peer_comparisons"], "branches": tot["branches"],
        "known_deviations_enabled": deviations, "deviations_used": dict(devs_total), "known_findings_seen": dict(known),
        "scenarios_stopped_early": stopped,
        "mc": {"distinct_states": mres.distinct if mres else 0, "depth": mres.depth if mres else 0,
               "bound": ("4 validators (2 at genesis + 2 deposits), epochs 0..3, altair upgrade at 1, sync period 2" if tier == "quick" else
                         "4 validators (3 at genesis + 1 deposit), epochs 0..4, altair upgrade at 2, sync period 2"),
               "vacuity": flaws},
        "exhaustive": False,
        "exhaustive_part": "MC_EpochsContext: every interleaving of reveals, exits, slashings, deposits and epoch boundaries "
                           "(activation / balance change / sync rotation / upgrade) within the bound",
    }
    if not replay:   # a replay must not replace the evidence of a tier run
        lib.write_evidence(PID, tier, seed, cov, lib.elapsed() - t0, violations=len(violations),
                       assumptions=["TLC, SANY, CommunityModules Json", "harness/chain block production",
                                    "harness/cmd/epc projection of EpochsContext and of the registry",
                                    "shuffling order / proposer selection are uninterpreted here (C06/C07)"])
    return rc


# ------------------------------------------------------------------ self-test

def copy_repo(name):
    dst = os.path.join(lib.scratch_root(), name)
    shutil.copytree(lib.REPO, dst, ignore=shutil.ignore_patterns(".git"))
    return dst


CANNED = ("rotate-skips-load-proposers", "eth2/beacon/common/epochs_context.go",
          "\tif err := epc.LoadProposers(state); err != nil {\n\t\treturn err\n\t}\n\tif err := epc.loadCurrentStake(state, indicesBounded); err != nil {",
          "\tif err := epc.loadCurrentStake(state, indicesBounded); err != nil {")


def selftest():
    """(a) corrupt logged fields / drop an event => the trace spec reports it; (b) canned zrnt mutation => VIOLATION."""
    binp = lib.build_harness("epc")
    d = lib.scratch("epc-selftest")
    out = os.path.join(d, "t.ndjson")
    record(binp, "quick", 1, 0, out)
    events = lib.read_ndjson(out)
    devs = sorted({f["deviation"] for f in lib.active_findings(PID) if f.get("deviation")})
    _, mism, _ = validate_file(out, devs)
    assert not mism, "clean trace rejected: %s" % mism[:3]
    ok = True

    def expect(name, evs):
        nonlocal ok
        p = os.path.join(d, name + ".ndjson")
        lib.write_ndjson(p, evs)
        try:
            _, m, _ = validate_file(p, devs)
        except lib.InfraError:
            m = [(0, 0, "rejected by TLC")]
        lib.log("selftest %-34s -> %s" % (name, "rejected (%s)" % m[0][2] if m else "ACCEPTED (bad)"))
        if not m:
            ok = False

    def pick(pred):
        return next(i for i, e in enumerate(events) if e["ev"] == "Ctx" and e["out"] == "ok" and pred(e))

    def mut(i, fn):
        evs = json.loads(json.dumps(events))
        fn(evs[i])
        return evs
    i = pick(lambda e: len(e["live"]["props"]) > 1)
    expect("live-proposer-changed", mut(i, lambda e: e["live"]["props"].__setitem__(0, (e["live"]["props"][0] + 1) % len(e["reg"]))))
    expect("both-total-stake-wrong", mut(i, lambda e: (e["live"].__setitem__("total", e["live"]["total"] + 1000),
                                                        e["fresh"].__setitem__("total", e["fresh"]["total"] + 1000))))
    expect("both-active-set-wrong", mut(i, lambda e: (e["live"]["na"].pop(), e["fresh"]["na"].pop())))
    j = pick(lambda e: e["sync"] == 1)
    expect("both-sync-index-wrong", mut(j, lambda e: (e["live"]["sc"].__setitem__(0, e["live"]["sc"][0] + 1),
                                                       e["fresh"]["sc"].__setitem__(0, e["fresh"]["sc"][0] + 1))))
    expect("pubkey-lookup-wrong", mut(i, lambda e: (e["live"]["ix"].__setitem__(1, 0), e["fresh"]["ix"].__setitem__(1, 0))))
    k = pick(lambda e: e["peer"]["has"] == 1)
    expect("reload-root-differs", mut(k, lambda e: e["peer"].__setitem__("root", "beef")))
    expect("fresh-step-differs", mut(i, lambda e: e["fs"].__setitem__("root", "beef")))
    expect("registry-exit-epoch-changed", mut(i, lambda e: e["reg"][0].__setitem__("x", e["live"]["ce"])))
    evs = [e for n, e in enumerate(events) if n != 0]  # drop the Init event
    expect("init-event-dropped", evs)

    root = copy_repo("zrnt-mut")
    p = os.path.join(root, CANNED[1])
    s = open(p).read()
    if CANNED[2] not in s:
        raise lib.InfraError("selftest mutation pattern not found")
    open(p, "w").write(s.replace(CANNED[2], CANNED[3], 1))
    env = dict(os.environ, VERIF_REPO=root, VERIF_SEED="1")
    evp = os.path.join(lib.EVIDENCE_DIR, PID + ".json")
    saved = open(evp).read() if os.path.exists(evp) else None
    pr = subprocess.run([os.path.join(lib.VERIF, "check"), PID, "--tier", "quick"], env=env, stdout=subprocess.PIPE,
                        stderr=subprocess.PIPE, text=True)
    hit = pr.returncode == 1 and "VIOLATION property=C08" in pr.stdout
    lib.log("selftest mutation %-28s -> %s" % (CANNED[0], "VIOLATION (good)" if hit else "rc=%d (bad)\n%s" % (pr.returncode, pr.stderr[-1500:])))
    shutil.rmtree(root, ignore_errors=True)
    if saved is not None:
        open(evp, "w").write(saved)
    return 0 if ok and hit else 1


if __name__ == "__main__":
    sys.exit(selftest())
