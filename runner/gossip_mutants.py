"""Mutation study for C12: applies realistic one-line mutations of eth2/gossipval (and the helpers it calls) to
scratch worktrees of /repo and runs the quick tier against each (VERIF_REPO). Usage:

    python3 runner/gossip_mutants.py [--fixed] [name ...]

--fixed applies out/proposed_fixes/gossip-*.diff first (several mutants are masked on the unchanged tree by the
open findings, e.g. anything behind the aggregate outer-signature check). Worktrees are removed afterwards.
"""
import glob
import os
import shutil
import subprocess
import sys
import tempfile

sys.path.insert(0, os.path.dirname(os.path.abspath(__file__)))
import lib  # noqa: E402

G = "eth2/gossipval/"
MUTANTS = [
    # name, file, old, new, needs fixed tree
    ("att-sig-over-truncated-root", G + "attestation.go", "if !blsu.Verify(blsPub, sigRoot[:], sig) {", "if !blsu.Verify(blsPub, sigRoot[:2], sig) {", False),
    ("sync-selection-proof-wrong-domain", "eth2/beacon/altair/sync_contribution_and_proof.go",
     "domain, err := domainFn(common.DOMAIN_SYNC_COMMITTEE_SELECTION_PROOF, spec.SlotToEpoch(slot))",
     "domain, err := domainFn(common.DOMAIN_SYNC_COMMITTEE, spec.SlotToEpoch(slot))", False),
    ("agg-selection-proof-wrong-domain", "eth2/beacon/phase0/aggregate_and_proof.go",
     "domain, err := domainFn(common.DOMAIN_SELECTION_PROOF, spec.SlotToEpoch(slot))",
     "domain, err := domainFn(common.DOMAIN_AGGREGATE_AND_PROOF, spec.SlotToEpoch(slot))", False),
    ("slot-window-lower-le", G + "common.go", "slot+span < minSlot {", "slot+span <= minSlot {", False),
    ("slot-window-upper-ge", G + "common.go", "slot > maxSlot {", "slot >= maxSlot {", False),
    ("att-committee-index-bound-off-by-one", G + "attestation.go", "if uint64(att.Data.Index) >= committeeCountPerSlot {",
     "if uint64(att.Data.Index)+1 >= committeeCountPerSlot {", False),
    ("att-unknown-block-reject", G + "attestation.go",
     'return nil, GossipValidatorResult{IGNORE, errors.New("attestation voted for unknown block")}',
     'return nil, GossipValidatorResult{REJECT, errors.New("attestation voted for unknown block")}', False),
    ("block-unknown-parent-reject", G + "beacon_block.go",
     'return GossipValidatorResult{IGNORE, fmt.Errorf("block has unavailable parent block %s", block.ParentRoot)}',
     'return GossipValidatorResult{REJECT, fmt.Errorf("block has unavailable parent block %s", block.ParentRoot)}', False),
    ("att-mark-before-signature-check", G + "attestation.go",
     "	sigRoot := common.ComputeSigningRoot(att.Data.HashTreeRoot(tree.GetHashFn()), dom)\n",
     "	attVal.MarkAttestation(att.Data.Target.Epoch, voter)\n	sigRoot := common.ComputeSigningRoot(att.Data.HashTreeRoot(tree.GetHashFn()), dom)\n", False),
    ("att-finalized-ancestor-check-removed", G + "attestation.go",
     '			return nil, GossipValidatorResult{IGNORE, errors.New("block not in subtree of finalized root")}\n',
     '			_ = inSubtree\n', False),
    ("block-finalized-ancestor-check-removed", G + "beacon_block.go",
     '		return GossipValidatorResult{REJECT, fmt.Errorf("parent block %s is not in subtree of finalized root %s", block.ParentRoot, fin.Root)}\n',
     '		_ = inSubtree\n', False),
    ("att-subnet-check-dropped", G + "attestation.go", "if subnet != assignedSubnet {", "if false && subnet != assignedSubnet {", False),
    ("exit-mark-on-ignore", G + "voluntary_exit.go",
     '		return GossipValidatorResult{IGNORE, err}\n	}\n	if err := phase0.ValidateVoluntaryExit',
     '		return GossipValidatorResult{IGNORE, err}\n	}\n	exitVal.MarkExit(volExit.Message.ValidatorIndex)\n	if err := phase0.ValidateVoluntaryExit', False),
    ("syncmsg-seen-check-dropped", G + "sync_comm_subnet.go",
     "if scpVal.SeenSyncCommMsg(syncCommMessage.ValidatorIndex, syncCommMessage.Slot, subnet) {",
     "if false && scpVal.SeenSyncCommMsg(syncCommMessage.ValidatorIndex, syncCommMessage.Slot, subnet) {", False),
    ("block-future-slot-check-dropped", G + "beacon_block.go", "maxSlot < block.Slot {", "false && maxSlot < block.Slot {", False),
    ("pslash-signature-2-unchecked", "eth2/beacon/phase0/proposer_slashing.go",
     "if !blsu.Verify(blsPub, sigRoot2[:], sig2) {", "if false && !blsu.Verify(blsPub, sigRoot2[:], sig2) {", False),
    # behind the open findings: only observable once the proposed fixes are applied
    ("agg-aggregator-seen-check-dropped", G + "aggregate_and_proof.go",
     "aggVal.SeenAggregator(epoch, index) {", "false && aggVal.SeenAggregator(epoch, index) {", True),
    ("agg-aggregate-signature-unchecked", G + "aggregate_and_proof.go",
     "} else if err := phase0.ValidateIndexedAttestation(spec, epc, state, indexedAtt); err != nil {",
     "} else if err := phase0.ValidateIndexedAttestation(spec, epc, state, indexedAtt); false && err != nil {", True),
    ("agg-mark-before-aggregate-signature", G + "aggregate_and_proof.go",
     "	// [REJECT] The signature of aggregate is valid.\n",
     "	aggVal.MarkAggregate(aggRoot)\n	// [REJECT] The signature of aggregate is valid.\n", True),
]


def make_worktree(fixed=False):
    d = tempfile.mkdtemp(prefix="wt-gossip-mut-")
    os.rmdir(d)
    lib.run(["git", "-C", "/repo", "worktree", "add", "--detach", d, "HEAD"], check=True)
    # untracked hook files of other families
    p = lib.run(["git", "-C", "/repo", "ls-files", "--others", "--exclude-standard"], check=True)
    for f in p.stdout.split():
        if f.endswith("_verif.go"):
            os.makedirs(os.path.dirname(os.path.join(d, f)), exist_ok=True)
            shutil.copy(os.path.join("/repo", f), os.path.join(d, f))
    # uncommitted modifications of tracked files in /repo (the tree under test is the working tree)
    p = lib.run(["git", "-C", "/repo", "diff", "HEAD"], check=True)
    if p.stdout.strip():
        lib.run(["git", "-C", d, "apply"], stdin=p.stdout, check=True)
    if fixed:
        for f in sorted(glob.glob(os.path.join(lib.VERIF, "out", "proposed_fixes", "gossip-*.diff")),
                        key=lambda x: int(x.split("-")[-1].split(".")[0])):
            lib.run(["patch", "-p1", "-s", "--no-backup-if-mismatch", "-i", f], cwd=d, check=True)
    return d


def remove_worktree(d):
    lib.run(["git", "-C", "/repo", "worktree", "remove", "--force", d])
    shutil.rmtree(d, ignore_errors=True)


def apply_mutant(d, m):
    name, f, old, new, _ = m
    p = os.path.join(d, f)
    s = open(p).read()
    if s.count(old) < 1:
        raise lib.InfraError("mutant %s: pattern not found in %s" % (name, f))
    open(p, "w").write(s.replace(old, new, 1))


def run_one(m, fixed):
    d = make_worktree(fixed or m[4])
    try:
        apply_mutant(d, m)
        env = dict(os.environ, VERIF_REPO=d)
        p = subprocess.run([os.path.join(lib.VERIF, "check"), "C12", "--tier", "quick"], env=env, stdout=subprocess.PIPE,
                           stderr=subprocess.PIPE, text=True, timeout=1800)
        viol = [l for l in p.stdout.splitlines() if l.startswith("VIOLATION")]
        det = [l for l in p.stderr.splitlines() if l.startswith("violation detail")]
        return p.returncode, viol, det, p.stderr[-1500:]
    finally:
        remove_worktree(d)


def main(argv):
    fixed = "--fixed" in argv
    names = [a for a in argv if not a.startswith("--")]
    todo = [m for m in MUTANTS if (not names or m[0] in names)]
    caught = 0
    for m in todo:
        rc, viol, det, tail = run_one(m, fixed)
        ok = rc == 1 and viol
        caught += bool(ok)
        print("%-45s %s rc=%d %s" % (m[0] + (" [fixed tree]" if (fixed or m[4]) else ""), "CAUGHT" if ok else "MISSED", rc,
                                     (det[0][:230] if det else tail[-300:].replace("\n", " | "))), flush=True)
    print("caught %d of %d" % (caught, len(todo)))
    return 0


if __name__ == "__main__":
    sys.exit(main(sys.argv[1:]))
