"""./check selftest [family ...] : binding demonstrations (not part of the per-property commands)."""
import importlib
import lib

FAMILIES = ["forkchoice", "helpers", "forks", "beacon", "gossip", "beacon_neg", "genesis", "ssz", "statestore", "faults", "epc", "locks", "shuffle", "pubkeys", "pools"]


def main(args):
    fams = args or FAMILIES
    bad = []
    for f in fams:
        try:
            mod = importlib.import_module(f)
        except ImportError:
            lib.log("selftest: family %s has no module" % f)
            continue
        if not hasattr(mod, "selftest"):
            lib.log("selftest: family %s has no selftest()" % f)
            continue
        ok = mod.selftest()
        lib.log("selftest %s: %s" % (f, "ok" if ok else "FAILED"))
        if not ok:
            bad.append(f)
    return 1 if bad else 0
