"""C18 - cancellation and execution-engine faults always surface as errors.

Specification: spec/Faults.tla (the rule + what the engine must be shown), spec/MC_Faults.tla (exhaustive
path machine), spec/FaultsTrace.tla (validation of recorded runs). Binding: harness/cmd/faults runs every
step of real chains (harness/chain; all forks) under every single fault - sticky cancellation from the
k-th context poll for every k, every engine call x {invalid, error with false, error with true} - and TLC decides every run.
"""
import collections
import json
import os
import re
import shutil
import subprocess
import sys

import lib

PID = "C18"
MISMATCH_RE = re.compile(r'<<\s*"MISMATCH",\s*(\d+),\s*(-?\d+),\s*"([^"]*)"\s*>>', re.S)

# zrnt's 36 context poll sites (file:line may shift; the count is what the vacuity guard uses)
MIN_SITES = {"quick": 30, "thorough": 33}


def model_check():
    """Exhaustive MC of the rule: all paths <= 6 polls x 3 engine calls under every fault; plus the
    deviation switches, each of which must violate (the invariants are not vacuous)."""
    wd = lib.fresh_spec_copy()
    res = lib.tlc("MC_Faults", cfg="MC_Faults.cfg", workdir=wd, workers=4, timeout=900, heap="2g")
    if res.rc != 0 or res.errors or "No error has been found" not in res.out:
        raise lib.InfraError("MC_Faults did not pass (specification problem, not a verdict):\n" + res.out[-4000:])
    base = open(os.path.join(wd, "MC_Faults.cfg")).read()
    devs = {}
    for dev in ("Dev_SwallowLast", "Dev_InvalidIsValid", "Dev_ErrorIgnored", "Dev_ErrorOnlyWhenNotOk", "Dev_EarlySuccess", "Sticky"):
        cfg = base.replace("%s = FALSE" % dev, "%s = TRUE" % dev) if dev != "Sticky" else \
            base.replace("Sticky = TRUE", "Sticky = FALSE")
        open(os.path.join(wd, "dev.cfg"), "w").write(cfg)
        r = lib.tlc("MC_Faults", cfg="dev.cfg", workdir=wd, workers=2, timeout=900, heap="2g")
        if "RuleHolds" not in r.invariant_violated and "SuccessIsComplete" not in r.invariant_violated:
            raise lib.InfraError("MC_Faults with %s does not violate the rule: the invariant is vacuous\n%s"
                                 % (dev, r.out[-3000:]))
        devs[dev] = r.invariant_violated[0]
    shutil.rmtree(wd, ignore_errors=True)
    return res, devs


def validate_file(trace_path, timeout=1500):
    wd = lib.scratch("ft-" + os.path.basename(trace_path))
    for f in ("Faults.tla", "FaultsTrace.tla", "FaultsTrace.cfg"):
        shutil.copy(os.path.join(lib.SPEC_DIR, f), wd)
    shutil.copy(trace_path, os.path.join(wd, "trace.ndjson"))
    res = lib.tlc("FaultsTrace", cfg="FaultsTrace.cfg", workdir=wd, workers=1, timeout=timeout, heap="3g")
    shutil.rmtree(wd, ignore_errors=True)
    if res.rc != 0 or res.errors or "Model checking completed" not in res.out:
        raise lib.InfraError("TLC failed on %s:\n%s" % (trace_path, res.out[-5000:]))
    mism = [(int(a), int(b), c) for a, b, c in MISMATCH_RE.findall(res.out)]
    if len(mism) != res.out.count('"MISMATCH"'):
        raise lib.InfraError("could not parse every MISMATCH line of %s:\n%s" % (trace_path, res.out[-3000:]))
    return res, mism


def record(binp, tier, seed, idx, out, only=None):
    cmd = [binp, "rec", "-tier", tier, "-seed", str(seed), "-chain", str(idx), "-out", out]
    if only is not None:
        cmd += ["-only", str(only)]
    p = lib.run(cmd, timeout=3000)
    if p.returncode != 0:
        raise lib.InfraError("faults rec failed for chain %d:\n%s" % (idx, (p.stdout + p.stderr)[-3000:]))
    try:
        return json.loads(p.stdout.strip().splitlines()[-1]), p.stderr
    except (ValueError, IndexError):
        raise lib.InfraError("faults rec: no summary for chain %d:\n%s" % (idx, (p.stdout + p.stderr)[-3000:]))


def signature(step, ev, what):
    """Structural signature of an offending run (used to match known findings)."""
    if ev["ev"] == "Step":
        return "step kind=%s fork=%s: %s" % (step.get("kind"), step.get("fork"), what)
    f = ev["fault"]
    if f["kind"] == "cancel":
        site = step["sites"][f["k"] - 1] if 0 < f["k"] <= len(step.get("sites", [])) else "beyond-last-poll"
        last = "last" if f["k"] == step["P"] else "inner"
        return "cancel at %s poll %s (%s, fork %s) -> %s: %s" % (last, site, step["kind"], step["fork"], ev["res"]["out"], what)
    name = step["calls"][f["c"] - 1]["name"] if 0 < f["c"] <= len(step["calls"]) else "?"
    return "engine %s=%s (fork %s) -> %s: %s" % (name, f["v"], step["fork"], ev["res"]["out"], what)


def run_check(tier, seed, replay=None):
    t0 = lib.elapsed()
    binp = lib.build_harness("faults")
    d = lib.scratch("faults")
    findings = lib.active_findings(PID)

    if replay:
        rp = json.load(open(replay))
        tier_r, seed_r, idx, only = rp["tier"], rp["seed"], rp["chain_index"], rp["step_id"]
        out = os.path.join(d, "replay.ndjson")
        s_r, _ = record(binp, tier_r, seed_r, idx, out, only=only)
        jobs = [(idx, out, s_r)]
    else:
        p = lib.run([binp, "list", "-tier", tier, "-seed", str(seed)], timeout=60, check=True)
        cfgs = json.loads(p.stdout)

        def rec(i):
            out = os.path.join(d, "c%03d.ndjson" % i)
            s, err = record(binp, tier, seed, i, out)
            return (i, out, s)
        jobs = lib.parallel_map(rec, range(len(cfgs)))

    mc_res, devs = (None, {})
    if not replay:
        mc_res, devs = model_check()

    def val(job):
        i, path, s = job
        res, mism = validate_file(path)
        return i, path, s, res, mism
    results = lib.parallel_map(val, jobs)

    tot = collections.Counter()
    steps = collections.Counter()
    by_fork = collections.Counter()
    eng_runs = collections.Counter()
    eng_calls = collections.Counter()
    sites = collections.Counter()
    last_sites = collections.Counter()
    samples = []
    states = transitions = 0
    accepted = 0
    violations = []
    known = collections.Counter()
    for i, path, s, res, mism in results:
        states += res.distinct
        transitions += res.generated
        if s:
            for k in ("faults", "cancel_runs", "polls", "events", "blocks_with_blobs", "undisturbed_err"):
                tot[k] += s[k]
            steps.update(s["steps"])
            by_fork.update(s["by_fork"])
            eng_runs.update(s["engine_runs"])
            eng_calls.update(s["engine_calls"])
            sites.update(s["sites"])
            last_sites.update(s["last_sites"])
            if len(samples) < 3:
                samples.append(s["sample"][:3])
        if not mism:
            accepted += 1
            continue
        events = lib.read_ndjson(path)
        for line, sid, what in mism:
            ev = events[line - 1]
            step = next(e for e in events if e["ev"] == "Step" and e["id"] == sid) if sid >= 0 else ev
            sig = signature(step, ev, what)
            kf = [f for f in findings if f.get("match") and re.search(f["match"], sig)]
            if kf:
                known[kf[0]["id"]] += 1
                continue
            violations.append((i, sid, sig, step, ev))

    rc = 0
    for fid, n in known.items():
        f = [x for x in findings if x["id"] == fid][0]
        lib.report_known(PID, "%s: %s (%d occurrences this run)" % (fid, f["signature"], n))
    seen = set()
    for i, sid, sig, step, ev in violations:
        key = re.sub(r"\d+", "#", sig)
        if key in seen and len(seen) >= 1:
            continue
        seen.add(key)
        if len(seen) > 6:
            break
        rp = lib.save_replay(PID, "fault-%d-chain%d-step%d-seed%d.json" % (len(seen), i, sid, seed),
                             {"tier": tier if not replay else tier_r, "seed": seed if not replay else seed_r,
                              "chain_index": i, "step_id": sid, "signature": sig, "step": step, "event": ev})
        lib.report_violation(PID, rp, sig)
        rc = 1
    if violations:
        lib.log("%d offending runs in total, %d distinct signatures reported" % (len(violations), len(seen)))

    if not replay:
        # vacuity guards
        need_runs = ["%s:%s" % (m, v) for m in ("IsValidBlockHash", "NotifyNewPayload", "IsValidVersionedHashes")
                     for v in ("invalid", "error", "errortrue")]
        missing = [k for k in need_runs if eng_runs[k] == 0]
        for fork in ("bellatrix", "capella", "deneb"):
            for m in ("IsValidBlockHash", "NotifyNewPayload"):
                if eng_calls["%s:%s" % (fork, m)] == 0:
                    missing.append("engine call %s:%s" % (fork, m))
        for k in ("slots", "block", "blocknv", "epoch", "badblock"):
            if steps[k] == 0:
                missing.append("step kind " + k)
        for fork in ("phase0", "altair", "bellatrix", "capella", "deneb"):
            if by_fork[fork + ":block"] == 0 or by_fork[fork + ":epoch"] == 0:
                missing.append("fork " + fork)
        if tot["blocks_with_blobs"] == 0:
            missing.append("blocks with blobs")
        if len(sites) < MIN_SITES[tier]:
            missing.append("only %d distinct poll sites reached" % len(sites))
        if tot["cancel_runs"] < tot["polls"]:
            missing.append("not every poll was enumerated")
        if missing:
            raise lib.InfraError("vacuous run, never exercised: %s" % missing)

    cov = {
        "states": states + (mc_res.distinct if mc_res else 0),
        "transitions": transitions + (mc_res.generated if mc_res else 0),
        "traces_validated_against_impl": accepted,
        "samples": samples or [["replay"]],
        "evaluations": tot["faults"] + sum(steps.values()),
        "distinct_nontrivial": tot["faults"],
        "rule": "one evaluation = one run of a real zrnt transition step (undisturbed, or under exactly one fault) judged by "
                "TLC with Faults.tla; non-trivial = disturbed runs (every run differs in step or fault point)",
        "chains": len(jobs), "steps": dict(steps), "steps_by_fork": dict(by_fork),
        "polls_enumerated": tot["polls"], "cancel_runs": tot["cancel_runs"],
        "engine_calls_x_verdicts": dict(eng_runs), "engine_calls": dict(eng_calls),
        "blocks_with_blobs": tot["blocks_with_blobs"], "undisturbed_rejected_steps": tot["undisturbed_err"],
        "distinct_poll_sites": len(sites), "poll_sites": dict(sites),
        "poll_sites_seen_as_last_poll_of_a_step": dict(last_sites),
        "mc": {"distinct_states": mc_res.distinct if mc_res else 0,
               "bound": "all paths with <= 6 polls and <= 3 engine calls under every fault (sticky, sloppy transition)",
               "deviation_switches_violate": devs},
        "exhaustive": False,
        "exhaustive_part": "every context poll of every explored step as first cancelled poll; every engine call x {invalid, (false, err), (true, err)}",
        "known_findings_seen": dict(known),
    }
    if not replay:   # a replay must not replace the evidence of a tier run
        lib.write_evidence(PID, tier, seed, cov, lib.elapsed() - t0, violations=len(violations),
                       assumptions=["TLC, SANY, CommunityModules Json", "harness/chain block production",
                                    "harness/cmd/faults counting context (sticky cancellation) and recording engine",
                                    "crypto/sha256 as the SHA-256 oracle for versioned hashes"])
    return rc


# ------------------------------------------------------------------ self-test

def copy_repo(name):
    dst = os.path.join(lib.scratch_root(), name)
    shutil.copytree(lib.REPO, dst, ignore=shutil.ignore_patterns(".git"))
    return dst


def mutate(root, rel, old, new, count=1):
    p = os.path.join(root, rel)
    s = open(p).read()
    if s.count(old) < 1:
        raise lib.InfraError("mutation pattern not found in %s" % rel)
    s = s.replace(old, new, count)
    open(p, "w").write(s)


CANNED = [
    ("engine-invalid-is-valid", "eth2/beacon/deneb/execution_payload.go",
     "\t} else if !valid {\n\t\treturn fmt.Errorf(\"execution engine says payload is invalid",
     "\t} else if !valid && false {\n\t\treturn fmt.Errorf(\"execution engine says payload is invalid"),
]


def selftest():
    """(a) corrupt logged fields => the trace spec reports them; (b) canned zrnt mutation => VIOLATION."""
    binp = lib.build_harness("faults")
    d = lib.scratch("faults-selftest")
    out = os.path.join(d, "t.ndjson")
    record(binp, "quick", 1, 0, out)
    events = lib.read_ndjson(out)
    res, mism = validate_file(out)
    assert not mism, "clean trace rejected: %s" % mism[:3]
    ok = True

    def expect(name, evs):
        nonlocal ok
        p = os.path.join(d, name + ".ndjson")
        lib.write_ndjson(p, evs)
        _, m = validate_file(p)
        lib.log("selftest %-34s -> %s" % (name, "rejected (%s)" % m[0][2] if m else "ACCEPTED (bad)"))
        if not m:
            ok = False

    # 1. an effective cancellation reported as success
    evs = json.loads(json.dumps(events))
    i = next(i for i, e in enumerate(evs) if e["ev"] == "Fault" and e["fault"]["kind"] == "cancel" and e["res"]["out"] == "err")
    evs[i]["res"] = {"out": "ok", "root": "00"}
    expect("cancel-reported-ok", evs)
    # 2. engine invalid verdict but success
    evs = json.loads(json.dumps(events))
    i = next(i for i, e in enumerate(evs) if e["ev"] == "Fault" and e["fault"]["kind"] == "engine" and e["fault"]["v"] == "invalid")
    evs[i]["res"] = {"out": "ok", "root": "00"}
    expect("engine-invalid-reported-ok", evs)
    # 3. wrong versioned hash byte
    evs = json.loads(json.dumps(events))
    i = next(i for i, e in enumerate(evs) if e["ev"] == "Step" and any(c["name"] == "IsValidVersionedHashes" and c["gotVh"] for c in e["calls"]))
    c = next(c for c in evs[i]["calls"] if c["name"] == "IsValidVersionedHashes")
    c["gotVh"][0][0] = 0
    expect("versioned-hash-version-byte", evs)
    # 4. parent beacon root
    evs = json.loads(json.dumps(events))
    i = next(i for i, e in enumerate(evs) if e["ev"] == "Step" and e["fork"] == "deneb" and e["calls"])
    evs[i]["calls"][0]["gotPbr"] = "ffff"
    expect("parent-beacon-root", evs)
    # 5. undisturbed differs from plain
    evs = json.loads(json.dumps(events))
    i = next(i for i, e in enumerate(evs) if e["ev"] == "Step" and e["und"]["out"] == "ok")
    evs[i]["plain"]["root"] = "beef"
    expect("undisturbed-vs-plain", evs)
    # 6. beyond-last-poll cancellation changes the result
    evs = json.loads(json.dumps(events))
    i = next(i for i, e in enumerate(evs) if e["ev"] == "Fault" and e["fault"]["kind"] == "cancel" and e["res"]["out"] == "ok")
    evs[i]["res"]["root"] = "beef"
    expect("uneffective-fault-differs", evs)
    # 7. dropped engine call
    evs = json.loads(json.dumps(events))
    i = next(i for i, e in enumerate(evs) if e["ev"] == "Step" and e["fork"] == "deneb" and len(e["calls"]) == 3 and e["und"]["out"] == "ok")
    del evs[i]["calls"][1]
    evs[i]["ncalls"] = 2
    expect("engine-call-dropped", evs)

    # (b) canned mutation of zrnt
    root = copy_repo("zrnt-mut")
    mutate(root, CANNED[0][1], CANNED[0][2], CANNED[0][3])
    env = dict(os.environ, VERIF_REPO=root, VERIF_SEED="1")
    evp = os.path.join(lib.EVIDENCE_DIR, PID + ".json")
    saved = open(evp).read() if os.path.exists(evp) else None
    p = subprocess.run([os.path.join(lib.VERIF, "check"), PID, "--tier", "quick"], env=env, stdout=subprocess.PIPE,
                       stderr=subprocess.PIPE, text=True)
    hit = p.returncode == 1 and "VIOLATION property=C18" in p.stdout
    lib.log("selftest mutation %-24s -> %s" % (CANNED[0][0], "VIOLATION (good)" if hit else "rc=%d (bad)\n%s" % (p.returncode, p.stderr[-1500:])))
    shutil.rmtree(root, ignore_errors=True)
    if saved is not None:
        open(evp, "w").write(saved)  # the mutated run must not leave its evidence behind
    return 0 if ok and hit else 1


if __name__ == "__main__":
    sys.exit(selftest())
