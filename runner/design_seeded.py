#!/usr/bin/env python3
"""Rewrites the section of DESIGN.md between the SEEDED markers from /verif/seeded/*/meta.json."""
import glob
import json
import os
import re

VERIF = os.path.dirname(os.path.dirname(os.path.abspath(__file__)))
BEGIN, END = "<!-- SEEDED:BEGIN -->", "<!-- SEEDED:END -->"


def first_line(d):
    p = os.path.join(d, "notes.md")
    if not os.path.exists(p):
        return ""
    for l in open(p).read().splitlines():
        l = l.strip()
        if l and not l.startswith("#"):
            l = re.sub(r"\*\*[^*]*\*\*:?\s*", "", l, count=1)
            return l.replace("|", "/")[:170]
    return ""


def main():
    rows, total, caught, late = [], 0, 0, 0
    for d in sorted(glob.glob(os.path.join(VERIF, "seeded", "*"))):
        if not os.path.exists(os.path.join(d, "meta.json")):
            continue
        m = json.load(open(os.path.join(d, "meta.json")))
        total += 1
        cb = ", ".join(m.get("caught_by") or []) or "**not caught**"
        if m.get("caught_by"):
            caught += 1
        note = m.get("note", "")
        if note:
            late += 1
        rows.append("| `%s` | %s | %s | %s | %s |" % (m["id"], m["breaks_property"], first_line(d), cb, note.replace("|", "/")))
    text = [BEGIN, "",
            "%d seeded changes are stored under `seeded/<id>/` (patch, demonstration, meta.json). Each was written by a fresh "
            "sub-agent that saw only the property text and a scratch worktree, and was confirmed by `runner/seed_confirm.py` "
            "(demonstration passes on the unmodified tree, patch applies and builds, existing suite passes with it, "
            "demonstration fails with it) before `runner/mutant_eval.py` ran the quick tier of the named property against it. "
            "%d are caught by the quick tier as committed; %d of those only after the check was strengthened (last column)."
            % (total, caught, late), "",
            "| id | property | change | caught by | what had to change in the check |",
            "|----|----------|--------|-----------|---------------------------------|"] + rows + ["", END]
    p = os.path.join(VERIF, "DESIGN.md")
    s = open(p).read()
    if BEGIN in s:
        s = s[:s.index(BEGIN)] + "\n".join(text) + s[s.index(END) + len(END):]
    else:
        marker = "## 11. Trusted base and limits"
        s = s.replace(marker, "## 10b. Seeded changes: which checks catch which\n\n" + "\n".join(text) + "\n\n" + marker)
    open(p, "w").write(s)
    print("seeded: %d total, %d caught, %d after strengthening" % (total, caught, late))


if __name__ == "__main__":
    main()
