"""Family: configurations / fork lookups (C14).  Oracles: spec/Forks.tla and spec/PublishedConstants.tla (TLC).

1. TLC model-checks Forks.tla (all monotone schedules over {0..4,FAR} (462; thorough {0..5,FAR}: 924) x epochs: the chain of
   upgrade_to_X and compute_fork_version name the same fork) and writes the table (schedule, epoch) |-> fork / state
   fork record / which signing versions must verify.
2. harness/cmd/forks replays every row on zrnt (custom specs scaled by K in {1, 3, 2^33}, the built-in mainnet /
   minimal configurations for the rows of their order type): Spec.ForkVersion, ForkDecoder.ForkDigest/BlockAllocator
   for 3 genesis validators roots, block <-> envelope conversion, BeaconBlockEnvelope.VerifySignature with real BLS
   signatures under every fork version, state type + state.Fork() after ProcessSlots/UpgradeMaybe at the first,
   second and last slot of every epoch; get_domain: common.Fork.GetDomain on the Fork record of every row and
   common.GetDomain on every chain state, at message epochs fork.epoch-1 / fork.epoch / fork.epoch+1 and around the
   state's epoch, against Forks!DomainVersion, and cross-checked with Spec.ForkVersion of the state's own epoch.
3. harness dumps configs.Mainnet / configs.Minimal and the spec-level Go constants; TLC compares key by key with
   PublishedConstants.tla.
"""
import json
import os
import re
import shutil
import time

import lib

PID = "C14"
FORKS = ["phase0", "altair", "bellatrix", "capella", "deneb", "electra", "fulu"]


def nxt(f):
    i = FORKS.index(f)
    return FORKS[i + 1] if i + 1 < len(FORKS) else None


# ------------------------------------------------------------------ known finding (input class)

def _m_forkversion(m):
    """Spec.ForkVersion has no capella branch: epochs in the capella/deneb/electra interval get the NEXT fork's version.
    The envelope signature check and the state-vs-configuration comparison inherit exactly that answer."""
    fork = m.get("fork")
    if fork not in ("capella", "deneb", "electra"):
        return False
    kind = m["kind"]
    if kind in ("ForkVersion", "StateVsForkVersion"):
        return m.get("expected") == fork and m.get("observed") == nxt(fork)
    if kind == "VerifySignature":
        su = m.get("signed_under")
        if su == fork and m.get("digest_of") == fork:
            return m.get("expected") is True and m.get("observed") is False
        if su == nxt(fork) and m.get("digest_of") == nxt(fork):
            return m.get("expected") is False and m.get("observed") is True
    return False


MATCHERS = {"forks-forkversion-no-capella": _m_forkversion}


def classify(m, active):
    for e in active:
        f = MATCHERS.get(e["id"])
        if f and f(m):
            return e
    return None


# ------------------------------------------------------------------ steps

def forks_params(max_fork_epoch):
    return ("----------------------------- MODULE ForksParams -----------------------------\n"
            "MaxForkEpoch == %d\n"
            "=============================================================================\n") % max_fork_epoch


def n_schedules(max_fork_epoch):
    import math
    return math.comb(max_fork_epoch + 2 + 6 - 1, 6)      # monotone 6-tuples over max_fork_epoch+2 values


def tlc_table(max_fork_epoch=4):
    wd = lib.fresh_spec_copy({"ForksParams.tla": forks_params(max_fork_epoch)})
    res = lib.tlc("Forks", cfg="Forks.cfg", workdir=wd, workers=4, timeout=600, heap="3g")
    lib.tlc_must_pass(res, "Forks")
    m = re.search(r'"FORKS_TABLE_DONE",\s*(\d+),\s*(\d+)', res.out)
    path = os.path.join(wd, "forks_table.ndjson")
    if not m or not os.path.exists(path):
        raise lib.InfraError("Forks.tla did not emit its table:\n" + res.out[-3000:])
    return path, int(m.group(1)), int(m.group(2)), res


def go_replay(binary, table, seed, sigmode, chains):
    out = table + ".mismatch"
    p = lib.run([binary, "replay", table, out, str(seed), sigmode, chains], timeout=1500)
    if p.returncode != 0:
        raise lib.InfraError("forks replay failed (rc=%d): %s\n%s" % (p.returncode, p.stdout[-2000:], p.stderr[-3000:]))
    return json.loads(p.stdout.strip().splitlines()[-1]), lib.read_ndjson(out)


def constants_check(binary):
    wd = lib.fresh_spec_copy()
    dump = os.path.join(wd, "dump.ndjson")
    p = lib.run([binary, "dump", dump], timeout=120)
    if p.returncode != 0:
        raise lib.InfraError("forks dump failed: %s %s" % (p.stdout[-1000:], p.stderr[-2000:]))
    res = lib.tlc("PublishedConstantsCheck", cfg="PublishedConstantsCheck.cfg", workdir=wd, workers=1, timeout=300, heap="2g")
    lib.tlc_must_pass(res, "PublishedConstantsCheck")
    rp = os.path.join(wd, "constants_result.json")
    if "CONSTANTS_CHECK_DONE" not in res.out or not os.path.exists(rp):
        raise lib.InfraError("PublishedConstantsCheck did not finish:\n" + res.out[-3000:])
    result = json.load(open(rp))
    lines = lib.read_ndjson(dump)
    return result, lines, res


REQUIRED_CHECKS = ["ForkVersion", "ForkDigest", "BlockAllocator", "VerifySignature", "Envelope", "State",
                   "StateVsForkVersion", "Chains", "ForkGetDomain", "StateGetDomain", "DomainVsForkVersion"]
# guarded boundary counters (not comparisons): get_domain evaluated with message epoch == fork.epoch of a real
# fork boundary (previous_version != current_version), and one epoch before it
BOUNDARY_COUNTERS = ["get_domain_at_fork_epoch", "get_domain_before_fork_epoch"]


def check(tier, seed):
    binary = lib.build_harness("forks")
    active = lib.active_findings(PID)
    cov = {"states": 0, "transitions": 0, "exhaustive": True, "samples": []}
    violations, known = [], {}

    mfe = 4 if tier == "quick" else 5
    table, nsched, nrows, res = tlc_table(mfe)
    cov["states"] += res.distinct
    cov["transitions"] += res.generated
    cov["schedules"] = nsched
    cov["table_rows"] = nrows
    cov["max_fork_epoch"] = mfe
    if nsched != n_schedules(mfe) or nrows != nsched * (mfe + 4):
        raise lib.InfraError("unexpected table size %d schedules / %d rows" % (nsched, nrows))
    rows = lib.read_ndjson(table)
    per_fork = {}
    for r in rows:
        per_fork[r["fork"]] = per_fork.get(r["fork"], 0) + 1
    cov["rows_per_fork"] = per_fork
    cov["rows_with_state"] = sum(1 for r in rows if r["has_state"])
    for f in FORKS:
        if per_fork.get(f, 0) == 0:
            raise lib.InfraError("vacuous: no table row for fork " + f)
    cov["samples"].append({"table_row": rows[len(rows) // 3]})

    sigmode, chains = ("first-gvr", "quick") if tier == "quick" else ("all", "full")
    summary, mism = go_replay(binary, table, seed, sigmode, chains)
    if summary["rows"] != nrows:
        raise lib.InfraError("replayer read %d of %d rows" % (summary["rows"], nrows))
    counters = {k: summary["checks"].pop(k, 0) for k in BOUNDARY_COUNTERS}
    cov["replay_checks"] = summary["checks"]
    cov["boundary_counters"] = counters
    cov["get_domain_at_fork_epoch"] = counters["get_domain_at_fork_epoch"]
    cov["builtin_config_rows"] = summary["builtin_rows"]
    cov["chain_jobs"] = summary["chain_jobs"]
    cov["mainnet_order_type"] = summary["mainnet_order_type"]
    for k in REQUIRED_CHECKS:
        if summary["checks"].get(k, 0) == 0 and not any(m["kind"] in ("Chain",) for m in mism):
            raise lib.InfraError("vacuous: no %s comparison was made" % k)
    for k, v in counters.items():
        if v == 0 and not any(m["kind"] == "Chain" for m in mism):
            raise lib.InfraError("vacuous: boundary counter %s is zero" % k)
    if summary["builtin_rows"] == 0:
        raise lib.InfraError("vacuous: built-in configurations matched no table row")
    for m in mism:
        e = classify(m, active)
        if e is None:
            violations.append(m)
        else:
            known[e["id"]] = known.get(e["id"], 0) + 1
    if mism:
        cov["samples"].append({"deviation": mism[0]})
    lib.log("forks replay: %d rows, %s, %d mismatches (%.0fs)" % (nrows, summary["checks"], len(mism), lib.elapsed()))

    result, lines, res2 = constants_check(binary)
    cov["states"] += res2.distinct
    cov["transitions"] += res2.generated
    cov["constants_compared"] = result["lines"]
    per_cfg = {}
    for l in lines:
        per_cfg[l["config"]] = per_cfg.get(l["config"], 0) + 1
    cov["constants_per_config"] = per_cfg
    for c in ("mainnet", "minimal", "constants"):
        if per_cfg.get(c, 0) < 30:
            raise lib.InfraError("vacuous: only %d constants dumped for %s" % (per_cfg.get(c, 0), c))
    for w in result["wrong"]:
        violations.append(dict(w, kind="ConstantWrong"))
    for w in result["unknown"]:
        violations.append(dict(w, kind="ConstantNotPublished"))
    for w in result["missing"]:
        violations.append(dict(w, kind="ConstantMissing"))
    cov["samples"].append({"constant": lines[len(lines) // 2]})
    total = sum(summary["checks"].values()) + result["lines"]
    cov["evaluations"] = total
    cov["traces_validated_against_impl"] = total - len(mism) - len(result["wrong"]) - len(result["unknown"])
    cov["distinct_nontrivial"] = {
        "distinct": nrows, "nontrivial": sum(1 for r in rows if r["fork"] != "phase0"),
        "rule": "table rows (schedule, epoch) distinct by construction; non-trivial = the epoch lies after at least one fork"}
    cov["known_findings_observed"] = dict(known)
    cov["deviating_comparisons"] = len(mism)
    return violations, known, cov, rows


def report(violations, known, tag, rows=None):
    active = {e["id"]: e for e in lib.active_findings(PID)}
    for fid, cnt in sorted(known.items()):
        lib.report_known(PID, "%s [%s] (%d comparisons)" % (active[fid]["signature"], fid, cnt))
    if violations:
        first = violations[:25]
        path = lib.save_replay(PID, "violation-%s.json" % tag, {"violations": first})
        lib.report_violation(PID, path, "%d deviations not covered by a listed finding; first: %s" % (
            len(violations), json.dumps(first[0])[:1500]))
        return 1
    return 0


def replay_file(path, seed):
    """Re-run the rows (and the constants comparison) named in a saved counterexample on the current tree."""
    saved = json.load(open(path))["violations"]
    binary = lib.build_harness("forks")
    active = lib.active_findings(PID)
    table, nsched, nrows, res = tlc_table()
    want = {(tuple(v["sched"]), v["epoch"]) for v in saved if "sched" in v}
    violations, known = [], {}
    if want:
        rows = [r for r in lib.read_ndjson(table) if (tuple(r["sched"]), r["epoch"]) in want or
                any(tuple(r["sched"]) == w[0] for w in want if w[1] == -1)]
        if any(v.get("kind") == "Envelope" for v in saved) and not rows:
            rows = lib.read_ndjson(table)[:8]
        sub = os.path.join(lib.scratch("forks"), "subset.ndjson")
        lib.write_ndjson(sub, rows)
        summary, mism = go_replay(binary, sub, seed, "all", "quick")
        for m in mism:
            e = classify(m, active)
            if e is None:
                violations.append(m)
            else:
                known[e["id"]] = known.get(e["id"], 0) + 1
        lib.log("replay: %d rows re-run, %d mismatches" % (len(rows), len(mism)))
    if any(v.get("kind", "").startswith("Constant") for v in saved):
        result, lines, _ = constants_check(binary)
        for k, kind in (("wrong", "ConstantWrong"), ("unknown", "ConstantNotPublished"), ("missing", "ConstantMissing")):
            for w in result[k]:
                violations.append(dict(w, kind=kind))
    return report(violations, known, "replay")


def main(tier, seed, replay=None):
    t0 = time.time()
    if replay:
        return replay_file(replay, seed)
    violations, known, cov, rows = check(tier, seed)
    rc = report(violations, known, "%s-seed%d" % (tier, seed))
    if os.environ.get("VERIF_NO_EVIDENCE"):
        return rc
    lib.write_evidence(PID, tier, seed, cov, time.time() - t0, violations=len(violations),
                       assumptions=["fork schedules are monotone non-decreasing (deployable configurations)",
                                    "zrnt has no deneb->electra state upgrade: chains are advanced only under schedules "
                                    "that never activate electra/fulu; lookups cover all seven forks",
                                    "PublishedConstants.tla is a transcription of consensus-specs v1.5.0-beta.2"])
    return rc


# ------------------------------------------------------------------ binding self-test / mutants

MUTANTS = {
    "forkversion-bellatrix-uses-altair": ("eth2/beacon/common/spec.go",
                                           "\t} else if epoch < spec.CAPELLA_FORK_EPOCH {\n\t\treturn spec.BELLATRIX_FORK_VERSION",
                                           "\t} else if epoch < spec.CAPELLA_FORK_EPOCH {\n\t\treturn spec.ALTAIR_FORK_VERSION"),
    "forkversion-le": ("eth2/beacon/common/spec.go", "if epoch < spec.ALTAIR_FORK_EPOCH {", "if epoch <= spec.ALTAIR_FORK_EPOCH {"),
    "digest-from-wrong-version": ("eth2/beacon/fork.go",
                                  "Capella:   common.ComputeForkDigest(spec.CAPELLA_FORK_VERSION, genesisValRoot),",
                                  "Capella:   common.ComputeForkDigest(spec.BELLATRIX_FORK_VERSION, genesisValRoot),"),
    "forkdigest-branch-order": ("eth2/beacon/fork.go", "\t} else if epoch < d.Spec.DENEB_FORK_EPOCH {\n\t\treturn d.Capella",
                                "\t} else if epoch < d.Spec.DENEB_FORK_EPOCH {\n\t\treturn d.Bellatrix"),
    "allocator-wrong-type": ("eth2/beacon/fork.go",
                             "\tcase d.Bellatrix:\n\t\treturn func() OpaqueBlock { return new(bellatrix.SignedBeaconBlock) }, nil",
                             "\tcase d.Bellatrix:\n\t\treturn func() OpaqueBlock { return new(altair.SignedBeaconBlock) }, nil"),
    "envelope-drops-signature": ("eth2/beacon/capella/block.go", "\t\tSignature:         b.Signature,\n", ""),
    "envelope-back-drops-stateroot": ("eth2/beacon/fork.go",
                                      "\tcase *deneb.BeaconBlockBody:\n\t\treturn &deneb.SignedBeaconBlock{\n\t\t\tMessage: deneb.BeaconBlock{\n\t\t\t\tSlot:          benv.Slot,\n\t\t\t\tProposerIndex: benv.ProposerIndex,\n\t\t\t\tParentRoot:    benv.ParentRoot,\n\t\t\t\tStateRoot:     benv.StateRoot,",
                                      "\tcase *deneb.BeaconBlockBody:\n\t\treturn &deneb.SignedBeaconBlock{\n\t\t\tMessage: deneb.BeaconBlock{\n\t\t\t\tSlot:          benv.Slot,\n\t\t\t\tProposerIndex: benv.ProposerIndex,\n\t\t\t\tParentRoot:    benv.ParentRoot,"),
    "upgrade-capella-prev-version": ("eth2/beacon/capella/fork.go", "PreviousVersion: preFork.CurrentVersion,",
                                     "PreviousVersion: preFork.PreviousVersion,"),
    "upgrade-deneb-cur-version": ("eth2/beacon/deneb/fork.go", "CurrentVersion:  spec.DENEB_FORK_VERSION,",
                                  "CurrentVersion:  spec.CAPELLA_FORK_VERSION,"),
    "preset-constant": ("eth2/configs/yamls/presets/mainnet/phase0.yaml", "PROPOSER_REWARD_QUOTIENT: 8", "PROPOSER_REWARD_QUOTIENT: 4"),
    "config-fork-version": ("eth2/configs/yamls/configs/mainnet.yaml", "CAPELLA_FORK_VERSION: 0x03000000", "CAPELLA_FORK_VERSION: 0x03000001"),
    "domain-type": ("eth2/beacon/common/spec.go", "var DOMAIN_SYNC_COMMITTEE = BLSDomainType{0x07, 0x00, 0x00, 0x00}",
                    "var DOMAIN_SYNC_COMMITTEE = BLSDomainType{0x70, 0x00, 0x00, 0x00}"),
    "getdomain-le-at-fork-epoch": ("eth2/beacon/common/versioning.go", "\tif messageEpoch < f.Epoch {", "\tif messageEpoch <= f.Epoch {"),
    "verify-ignores-digest-and-version": ("eth2/beacon/common/block.go", "\tversion := spec.ForkVersion(b.Slot)\n",
                                          "\tversion := spec.GENESIS_FORK_VERSION\n"),
    "upgrade-off-by-one-slot": ("eth2/beacon/fork.go",
                                "slot == common.Slot(spec.BELLATRIX_FORK_EPOCH)*spec.SLOTS_PER_EPOCH {",
                                "slot == common.Slot(spec.BELLATRIX_FORK_EPOCH)*spec.SLOTS_PER_EPOCH+1 {"),
}


def selftest():
    import helpers
    ok = True
    # (1) the constants oracle rejects a corrupted dump line and a dropped line
    binary = lib.build_harness("forks")
    wd = lib.fresh_spec_copy()
    dump = os.path.join(wd, "dump.ndjson")
    lib.run([binary, "dump", dump], timeout=120, check=True)
    lines = lib.read_ndjson(dump)
    lines[3]["value"] = lines[3]["value"] + "1"
    dropped = lines.pop(10)
    lib.write_ndjson(dump, lines)
    res = lib.tlc("PublishedConstantsCheck", cfg="PublishedConstantsCheck.cfg", workdir=wd, workers=1, timeout=300)
    lib.tlc_must_pass(res, "PublishedConstantsCheck")
    result = json.load(open(os.path.join(wd, "constants_result.json")))
    if len(result["wrong"]) != 1 or len(result["missing"]) != 1 or result["missing"][0]["key"] != dropped["key"]:
        lib.log("selftest(forks): corrupted dump not detected: %s" % result)
        ok = False
    # (2) canned mutation -> VIOLATION
    repo = helpers.mutated_repo("digest-from-wrong-version", MUTANTS)
    rc, out, err = helpers.run_check_on(repo, pid=PID)
    shutil.rmtree(repo, ignore_errors=True)
    good = rc == 1 and "VIOLATION property=%s" % PID in out
    lib.log("selftest(forks): mutant digest-from-wrong-version -> rc=%d %s" % (rc, "caught" if good else "MISSED\n" + out[-2000:] + err[-2000:]))
    return ok and good
