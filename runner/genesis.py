"""C13: genesis state construction equals the spec's initialize_beacon_state_from_eth1 / is_valid_genesis_state.

harness/cmd/genesis builds deposit lists (boundary catalogue + seeded random lists: valid / invalid proofs of
possession, wrong deposit domain, undecodable signatures and pubkeys, duplicates = top-ups with valid / invalid
signatures / other credentials, amounts below / at / above the maximum effective balance, broken Merkle proofs)
under several scaled presets and genesis parameters, calls zrnt's phase0.GenesisFromEth1 (verification on and
off), phase0.KickStartState and phase0.IsValidGenesisState, and logs one Genesis event per call.  TLC evaluates
spec/BeaconGenesis.tla on the abstract deposit list and spec/BeaconGenesisTrace.tla demands equality with the
logged state, validity answer, epochs context and final deposit root.
"""
import json
import os
import re
import shutil
import time

import lib

PID = "C13"
JAVA_OPTS = "-Xss512m -XX:TieredStopAtLevel=1 -XX:ParallelGCThreads=2 -XX:CICompilerCount=1"
REQUIRED = ["events", "built", "refused", "valid_genesis", "invalid_genesis", "fn_eth1", "fn_eth1_unverified", "fn_kickstart", "fn_kickstart_sigs",
            "class_empty", "class_below_slots_per_epoch", "class_exactly_slots_per_epoch", "class_min_active_minus_one",
            "class_min_active_exact", "class_min_active_by_topup", "class_all_partial_no_active", "class_over_max",
            "class_bad_pop_skipped", "class_invalid_pubkey_skipped", "class_topups", "class_amount_edges", "class_eth1_creds",
            "class_broken_proof", "class_random", "broken_proof_flip", "broken_proof_final_tree", "broken_proof_swap",
            "dep_new_full", "dep_new_partial", "dep_new_over", "dep_new_bad_pop", "dep_new_wrong_domain", "dep_new_eth1_creds",
            "dep_topup", "dep_topup_bad_sig", "dep_topup_other_creds", "dep_invalid_pubkey", "dep_garbage_sig",
            # signature-byte shapes x {new pubkey, top-up}: valid / wrong but decodable / all-zero / all-0xff / garbage / infinity
            "dep_new_sig_zero", "dep_new_sig_ff", "dep_new_sig_infinity", "dep_topup_sig_zero", "dep_topup_sig_ff",
            "dep_topup_sig_garbage", "dep_topup_sig_infinity", "dep_redeposit",
            "class_topup_signature_shapes", "class_new_signature_shapes_then_redeposit"]
ASSUMPTIONS = [
    "scaled presets (every quantity < 2^31)",
    "hash_tree_root of the deposit list (incremental), of the validator registry and of deposit data / messages come from the "
    "harness' own sha256 glue; BLS validity from the signature registry of the harness' keys",
    "zrnt's constructor refuses registries with fewer validators than SLOTS_PER_EPOCH or without any active validator "
    "(the specification defines an - invalid - genesis state there); such events are counted as skipped, not judged",
]
_MARK = re.compile(r'<<\s*"(MISMATCH|SKIP)",\s*(\d+),\s*"(\w+)"\s*>>')


def record(tier, seed):
    binary = lib.build_harness("genesis")
    out = os.path.join(lib.scratch("genesis"), "traces-%s-%d" % (tier, seed))
    if os.path.isdir(out):
        shutil.rmtree(out)
    os.makedirs(out)
    p = lib.run([binary, "-out", out, "-tier", tier, "-seed", str(seed)], timeout=1800)
    if p.returncode != 0:
        raise lib.InfraError("genesis recorder failed (rc=%d):\n%s" % (p.returncode, (p.stdout + p.stderr)[-4000:]))
    return out, json.load(open(os.path.join(out, "stats.json")))


def validate_file(path, timeout=1500):
    wd = lib.fresh_spec_copy()
    shutil.copy(path, os.path.join(wd, "trace.ndjson"))
    res = lib.tlc("BeaconGenesisTrace", cfg="BeaconGenesisTrace.cfg", workdir=wd, workers=1, timeout=timeout, java_opts=JAVA_OPTS)
    out = res.out
    shutil.rmtree(wd, ignore_errors=True)
    if not (res.rc == 0 and "Model checking completed. No error has been found." in out):
        raise lib.InfraError("TLC could not evaluate %s (rc=%d):\n%s" % (os.path.basename(path), res.rc, out[-5000:]))
    mism, skips = [], []
    for m in _MARK.finditer(out):
        k = int(m.group(2))
        if m.group(1) == "SKIP":
            skips.append(k)
        else:
            d = re.search(r'<<\s*"DIFF",\s*%d,(.*?)(?=\n<<\s*"|\nModel checking|\nError|\Z)' % k, out, re.S)
            mism.append({"line": k, "diff": (d.group(1).strip()[:5000] if d else "")})
    return {"file": path, "generated": res.generated, "distinct": res.distinct, "mismatches": mism, "skipped": skips, "wall": res.wall}


def split_files(paths, chunk=150):
    """Split big trace files (events are independent; every chunk gets the preset of the first event)."""
    out = []
    for p in paths:
        evs = lib.read_ndjson(p)
        if len(evs) <= chunk:
            out.append(p)
            continue
        for i in range(0, len(evs), chunk):
            part = [dict(e) for e in evs[i:i + chunk]]
            part[0]["P"] = evs[0]["P"]
            q = "%s.part%d.ndjson" % (p[:-7], i // chunk)
            lib.write_ndjson(q, part)
            out.append(q)
    return out


def make_replay(path, line):
    evs = lib.read_ndjson(path)
    ev = dict(evs[line - 1])
    ev["P"] = evs[0]["P"]
    return json.dumps(ev, separators=(",", ":")) + "\n"


def main(tier, seed, replay=None):
    t0 = time.time()
    if replay:
        r = validate_file(replay)
        for m in r["mismatches"]:
            lib.report_violation(PID, replay, "line %d: %s" % (m["line"], m["diff"]))
        if not r["mismatches"]:
            lib.log("replay %s: agrees with the specification" % replay)
        return 1 if r["mismatches"] else 0
    out, stats = record(tier, seed)
    counters = stats["counters"]
    missing = [c for c in REQUIRED if counters.get(c, 0) == 0]
    if missing:
        raise lib.InfraError("vacuity guard: never exercised: %s" % ", ".join(missing))
    files = split_files([f["path"] for f in stats["files"]])
    results = lib.parallel_map(validate_file, files, workers=min(16, lib.NCPU))
    violations = [(r["file"], m) for r in results for m in r["mismatches"]]
    skipped = sum(len(r["skipped"]) for r in results)
    events = counters["events"]
    judged = events - skipped
    if judged < events // 2:
        raise lib.InfraError("vacuity guard: only %d of %d events judged" % (judged, events))
    digests, samples = set(), []
    for f in files:
        for i, ev in enumerate(lib.read_ndjson(f)):
            body = {k: v for k, v in ev.items() if k not in ("P", "state")}
            digests.add(lib.digest(body))
            if len(samples) < 3 and i % 41 == 7:
                samples.append({"fn": ev["fn"], "class": ev["class"], "deposits": len(ev["g"]["deposits"]), "ok": ev["ok"],
                                "valid": ev.get("valid"), "validators": len(ev["state"]["validators"]) if ev.get("state") else None})
    coverage = {
        "states": sum(r["distinct"] for r in results), "transitions": sum(r["generated"] for r in results),
        "traces_validated_against_impl": judged - len(violations), "evaluations": events,
        "distinct_nontrivial": {"distinct": len(digests), "nontrivial": counters.get("built", 0),
                                "rule": "genesis call that returned a state (compared field for field)"},
        "skipped_constructor_restriction": skipped, "samples": samples, "counters": counters, "trace_files": len(files),
    }
    rc = 0
    for f, m in violations[:5]:
        rp = lib.save_replay(PID, "viol-%s-%d.ndjson" % (os.path.basename(f)[:-7], m["line"]), make_replay(f, m["line"]))
        lib.report_violation(PID, rp, "%s line %d: %s" % (os.path.basename(f), m["line"], m["diff"]))
        rc = 1
    if not os.environ.get("VERIF_NO_EVIDENCE"):
        lib.write_evidence(PID, tier, seed, coverage, time.time() - t0, violations=len(violations), assumptions=ASSUMPTIONS)
    lib.log("C13 %s: %d genesis calls (%d distinct, %d judged, %d skipped), %d violation(s), %.1fs"
            % (tier, events, len(digests), judged, skipped, len(violations), time.time() - t0))
    return rc


MUTANTS = {
    "topup_half_amount": ("eth2/beacon/phase0/deposit.go",
                          "if err := common.IncreaseBalance(bals, valIndex, dep.Data.Amount); err != nil {",
                          "if err := common.IncreaseBalance(bals, valIndex, dep.Data.Amount/2); err != nil {"),
    "activation_threshold": ("eth2/beacon/phase0/genesis.go",
                             "if vEff == spec.MAX_EFFECTIVE_BALANCE {",
                             "if vEff >= spec.MAX_EFFECTIVE_BALANCE-spec.EFFECTIVE_BALANCE_INCREMENT {"),
    "genesis_delay_dropped": ("eth2/beacon/phase0/genesis.go",
                              "if err := state.SetGenesisTime(time + spec.GENESIS_DELAY); err != nil {",
                              "if err := state.SetGenesisTime(time); err != nil {"),
    "effective_balance_not_rounded": ("eth2/beacon/phase0/genesis.go",
                                      "vEff := balance - (balance % spec.EFFECTIVE_BALANCE_INCREMENT)",
                                      "vEff := balance"),
    "pop_check_dropped": ("eth2/beacon/phase0/deposit.go",
                          "if !ignoreSignatureAndProof && !blsu.Verify(blsPub, signingRoot[:], sig) {",
                          "if false && !blsu.Verify(blsPub, signingRoot[:], sig) {"),
    "deposit_root_not_incremental": ("eth2/beacon/phase0/genesis.go",
                                     "\t\tif err := updateDepTreeRoot(); err != nil {\n\t\t\treturn nil, nil, err\n\t\t}\n\t\t// in the rare case",
                                     "\t\t// in the rare case"),
    "valid_genesis_count_strict": ("eth2/beacon/phase0/genesis.go",
                                   "return activeCount >= uint64(spec.MIN_GENESIS_ACTIVE_VALIDATOR_COUNT), nil",
                                   "return activeCount > uint64(spec.MIN_GENESIS_ACTIVE_VALIDATOR_COUNT), nil"),
    "valid_genesis_time_strict": ("eth2/beacon/phase0/genesis.go",
                                  "if genTime < spec.MIN_GENESIS_TIME {", "if genTime <= spec.MIN_GENESIS_TIME {"),
}


def selftest():
    report = []
    out, stats = record("quick", 1)
    path = stats["files"][0]["path"]
    evs = lib.read_ndjson(path)
    k = next(i for i, e in enumerate(evs) if e.get("ok") and len(e["state"]["validators"]) > 3)
    bad = json.loads(json.dumps(evs))
    bad[k]["state"]["validators"][1]["eff"] -= 1000
    p1 = os.path.join(out, "selftest-corrupt.ndjson")
    lib.write_ndjson(p1, bad)
    report.append(("corrupted genesis state rejected", any(m["line"] == k + 1 for m in validate_file(p1)["mismatches"])))
    bad = json.loads(json.dumps(evs))
    bad[k]["valid"] = not bad[k]["valid"]
    lib.write_ndjson(p1, bad)
    report.append(("flipped validity answer rejected", any(m["line"] == k + 1 for m in validate_file(p1)["mismatches"])))
    import beacon
    beacon.MUTANTS["__genesis"] = MUTANTS["activation_threshold"] + ("C13",)
    rc, txt = beacon.run_on_repo(beacon.mutated_repo("__genesis"), "C13")
    report.append(("mutant activation_threshold flagged by C13", rc == 1 and "VIOLATION property=C13" in txt))
    for what, ok in report:
        lib.log("selftest genesis: %-60s %s" % (what, "ok" if ok else "FAILED"))
    return all(ok for _, ok in report)
