"""C03: every block or operation the spec rejects is rejected, without panicking.

harness/cmd/beaconneg records valid chains (all five forks, scaled presets) and, right before every block is
applied, runs single-fault variants of it (harness/negvariants: the catalogue of DESIGN appendix D - header,
proposer signature, randao, attestation, slashings, deposits, exits, BLS changes, sync aggregate, payload,
withdrawals, limits, duplicates/reordering, signatures by another key / domain type / fork version / genesis
validators root) and, in the thorough tier, byte-level mutations of the SSZ encoding that still decode, through
common.StateTransition on copies of the live state ("Neg" events).  The abstraction function describes each
variant truthfully (signature registry -> what was really signed; every byte of a root matters for its id);
the MODEL (spec/BeaconTrace.tla!TraceNeg, BlockValid of Beacon.tla) decides that it is invalid.
  model rejects and zrnt accepted            -> VIOLATION
  zrnt panicked                              -> VIOLATION
  model accepts (a control) and zrnt accepted -> post-state must be the specified one, declared root = its root
  model accepts up to the declared state root -> the unvalidated re-run decides; a rejected valid control is a VIOLATION
"""
import json
import os
import re
import shutil
import time

import lib
import beacon

PID = "C03"
CLASSES = {"header": 0, "proposer_signature": 0, "randao": 0, "attestation": 0, "attester_slashing": 0, "proposer_slashing": 0,
           "deposit": 0, "exit": 0, "limits": 0, "indexed_attestation_shape": 0,
           "attestation_data_slashability": 0, "slashable_boundary": 0, "exit_status": 0,
           "deposit_none_expected": 0, "deposit_count_underflow": 0, "block_slot_not_after_state_slot": 0, "sync_aggregate": 1, "payload": 2, "withdrawals": 3, "bls_change": 3, "blobs": 4}
FORKS = ["phase0", "altair", "bellatrix", "capella", "deneb"]
_MARK = re.compile(r'<<\s*"(MISMATCH|CONTROL|UNJUDGED|MODELREJECT)",\s*(\d+),\s*"(\w+)"\s*>>')


# Every boolean condition of every process_* operation (consensus spec), the first fork on which it exists and the
# catalogue variants in which ONLY that condition fails (everything else, signatures included, is valid; "-control"
# variants sit on the accepting side of an ordered comparison).  Guard: every condition is exercised on every fork.
P0, ALT, BEL, CAP, DEN = 0, 1, 2, 3, 4
CONDITIONS = {
    # state_transition / process_block_header
    "state_transition: state.slot < block.slot (process_slots precondition)": (P0, ["block-slot-equals-state-slot",
                                                                                 "block-slot-before-state-slot"]),
    "header.slot == state.slot (after process_slots)": (P0, ["header-slot-plus-one", "header-slot-minus-one"]),
    "header.proposer_index == get_beacon_proposer_index": (P0, ["wrong-proposer-index", "header-proposer-out-of-range"]),
    "header.parent_root == hash_tree_root(latest_block_header)": (P0, ["wrong-parent-root"]),
    "header: proposer not slashed": (P0, ["header-proposer-slashed"]),
    "block.state_root == hash_tree_root(post)": (P0, ["wrong-state-root"]),
    "block signature: proposer key": (P0, ["proposer-sig-wrong-key", "proposer-sig-malformed-point"]),
    "block signature: DOMAIN_BEACON_PROPOSER": (P0, ["proposer-sig-wrong-domain-type"]),
    "block signature: fork version": (P0, ["proposer-sig-wrong-fork-version"]),
    "block signature: genesis validators root": (P0, ["proposer-sig-wrong-gvr"]),
    "block signature: message": (P0, ["proposer-sig-other-message"]),
    # process_randao
    "randao: epoch": (P0, ["randao-wrong-epoch"]),
    "randao: proposer key": (P0, ["randao-other-key"]),
    "randao: domain": (P0, ["randao-wrong-domain-type"]),
    # process_attestation
    "attestation: target.epoch == epoch(slot)": (P0, ["attestation-target-epoch-mismatch"]),
    "attestation: target.epoch in (previous_epoch, current_epoch), lower side": (P0, ["attestation-target-before-previous-epoch"]),
    "attestation: slot + MIN_ATTESTATION_INCLUSION_DELAY <= state.slot": (P0, ["attestation-too-new"]),
    "attestation: state.slot <= slot + SLOTS_PER_EPOCH (target epoch window from deneb)": (P0, ["attestation-too-old"]),
    "attestation: index < committee count": (P0, ["attestation-committee-index-eq-count"]),
    "attestation: len(bits) == len(committee)": (P0, ["attestation-bits-longer", "attestation-bits-shorter"]),
    "attestation: source == justified checkpoint": (P0, ["attestation-wrong-source", "attestation-wrong-source-root"]),
    "attestation: at least one attester": (P0, ["attestation-no-bits"]),
    "attestation: aggregate signature by exactly the attesters": (P0, ["attestation-missing-signer", "attestation-extra-signer"]),
    "attestation: signed data / domain": (P0, ["attestation-other-data-signed", "attestation-wrong-domain-type",
                                               "attestation-wrong-fork-version", "attestation-wrong-gvr"]),
    "attestation: duplicate is valid (control)": (P0, ["attestation-duplicate-control"]),
    # bounds of the SSZ list types of the body, one condition per (field, fork): MAX + 1 otherwise valid operations
    "limit: len(attestations) <= MAX_ATTESTATIONS": (P0, ["attestations-over-limit"]),
    "limit: len(proposer_slashings) <= MAX_PROPOSER_SLASHINGS": (P0, ["proposer-slashings-over-limit"]),
    "limit: len(attester_slashings) <= MAX_ATTESTER_SLASHINGS": (P0, ["attester-slashings-over-limit"]),
    "limit: len(deposits) <= MAX_DEPOSITS": (P0, ["deposits-over-limit"]),
    "limit: len(voluntary_exits) <= MAX_VOLUNTARY_EXITS": (P0, ["voluntary-exits-over-limit"]),
    "limit: len(bls_to_execution_changes) <= MAX_BLS_TO_EXECUTION_CHANGES": (CAP, ["bls-changes-over-limit"]),
    "limit: len(payload.transactions) <= MAX_TRANSACTIONS_PER_PAYLOAD": (BEL, ["payload-transactions-over-limit"]),
    "limit: len(payload.extra_data) <= MAX_EXTRA_DATA_BYTES": (BEL, ["payload-extra-data-over-limit"]),
    # process_proposer_slashing
    "proposer slashing: header slots equal": (P0, ["proposer-slashing-different-slots"]),
    "proposer slashing: proposers equal": (P0, ["proposer-slashing-different-proposers"]),
    "proposer slashing: proposer index in the registry": (P0, ["proposer-slashing-index-out-of-range"]),
    "proposer slashing: headers differ": (P0, ["proposer-slashing-same-header"]),
    "proposer slashing: is_slashable_validator (activation boundary)": (P0, ["pslash-activation-next", "pslash-activation-now-control"]),
    "proposer slashing: is_slashable_validator (withdrawable boundary)": (P0, ["pslash-withdrawable-now", "pslash-withdrawable-next-control"]),
    "proposer slashing: header signatures": (P0, ["proposer-slashing-bad-signature-1", "proposer-slashing-wrong-domain-type"]),
    # process_attester_slashing
    "attester slashing: is_slashable_attestation_data": (P0, ["aslash-data-2-surrounds-1", "aslash-data-equal-source-inner-target",
                                                               "aslash-data-disjoint-spans", "aslash-data-adjacent-spans",
                                                               "aslash-data-identical", "attester-slashing-not-slashable"]),
    "attester slashing: slashable data accepted (controls)": (P0, ["aslash-data-1-surrounds-2-control", "aslash-data-double-vote-control",
                                                                    "aslash-data-inner-source-equal-target-control"]),
    "attester slashing: indices sorted and unique": (P0, ["attester-slashing-duplicate-first-index-resigned-1",
                                                          "attester-slashing-duplicate-last-index-resigned-1",
                                                          "attester-slashing-duplicate-first-index-resigned-2",
                                                          "attester-slashing-duplicate-last-index-resigned-2",
                                                          "attester-slashing-unsorted-unique-resigned-1",
                                                          "attester-slashing-unsorted-unique-resigned-2",
                                                          "attester-slashing-unsorted-indices"]),
    "attester slashing: indices non-empty / in range": (P0, ["attester-slashing-empty-indices-1", "attester-slashing-empty-indices-2",
                                                            "attester-slashing-index-out-of-range"]),
    "attester slashing: signatures": (P0, ["attester-slashing-bad-signature-2", "attester-slashing-signed-other-fork"]),
    "attester slashing: some validator slashable (activation boundary)": (P0, ["aslash-activation-next", "aslash-activation-now-control"]),
    "attester slashing: some validator slashable (withdrawable boundary)": (P0, ["aslash-withdrawable-now", "aslash-withdrawable-next-control"]),
    # process_deposit / deposit count
    "deposits: count == min(MAX_DEPOSITS, pending)": (P0, ["deposit-missing", "deposit-extra"]),
    "deposits: none expected when deposit_count == eth1_deposit_index": (P0, ["deposit-one-when-none-expected"]),
    "deposits: deposit_count - eth1_deposit_index underflows (every block invalid)": (P0, ["deposit-count-below-index-no-deposits",
                                                                                         "deposit-count-below-index-one-deposit"]),
    "deposit: merkle proof": (P0, ["deposit-bad-proof", "deposit-proof-top-level", "deposit-proof-length-mixin",
                                   "deposit-amount-edited", "deposit-swapped-order"]),
    # process_voluntary_exit
    "exit: validator active": (P0, ["exit-of-pending-validator", "exit-of-future-activation", "exit-of-exited-validator"]),
    "exit: not yet initiated": (P0, ["exit-already-initiated", "exit-duplicate"]),
    "exit: current epoch >= exit.epoch": (P0, ["exit-future-epoch"]),
    "exit: active for SHARD_COMMITTEE_PERIOD": (P0, ["exit-too-young"]),
    "exit: signature key / domain": (P0, ["exit-wrong-key", "exit-wrong-domain", "exit-wrong-domain-type", "exit-wrong-gvr"]),
    "exit: validator index in range": (P0, ["exit-validator-out-of-range"]),
    # altair: process_sync_aggregate
    "sync aggregate: signed root": (ALT, ["sync-aggregate-wrong-root"]),
    "sync aggregate: signature by exactly the participants": (ALT, ["sync-aggregate-extra-bit", "sync-aggregate-bit-cleared",
                                                                   "sync-aggregate-garbage-signature", "sync-aggregate-infinity-with-bits"]),
    "sync aggregate: bits are a Bitvector[SYNC_COMMITTEE_SIZE]": (ALT, ["sync-aggregate-bits-too-long", "sync-aggregate-bits-too-short"]),
    # bellatrix+: process_execution_payload
    "payload: parent_hash": (BEL, ["payload-wrong-parent-hash"]),
    "payload: prev_randao": (BEL, ["payload-wrong-prev-randao"]),
    "payload: timestamp": (BEL, ["payload-wrong-timestamp"]),
    "payload: engine verdict on the block hash": (BEL, ["payload-engine-invalid-block-hash"]),
    "payload: engine verdict on the payload": (BEL, ["payload-engine-invalid-payload"]),
    "payload: engine failure is not acceptance": (BEL, ["payload-engine-error"]),
    "payload: engine verdict on the blob versioned hashes": (DEN, ["payload-engine-invalid-versioned-hashes"]),
    # capella+: process_withdrawals, process_bls_to_execution_change
    "withdrawals == expected (count)": (CAP, ["withdrawals-dropped-last", "withdrawals-extra", "wrong-withdrawals"]),
    "withdrawals == expected (index / validator / address / amount)": (CAP, ["withdrawals-index-shifted", "withdrawals-other-validator",
                                                                            "withdrawals-other-address", "withdrawals-amount-plus-one"]),
    "bls change: validator index in range": (CAP, ["bls-change-index-out-of-range"]),
    "bls change: credentials hash of the key": (CAP, ["bls-change-pubkey-hash-mismatch"]),
    "bls change: credentials prefix is BLS_WITHDRAWAL_PREFIX": (CAP, ["bls-change-credentials-not-bls-prefix"]),
    "bls change: signature key / domain": (CAP, ["bls-change-wrong-key", "bls-change-fork-dependent-domain"]),
    # deneb
    "blob commitments <= MAX_BLOBS_PER_BLOCK": (DEN, ["too-many-blobs"]),
}


def uncovered_conditions(counters):
    """(condition, fork) pairs for which no variant of the condition ran on that fork."""
    out = []
    for cond, (first, variants) in CONDITIONS.items():
        for fi in range(first, len(FORKS)):
            if not any(counters.get("neg_vf_%s_%s" % (v, FORKS[fi]), 0) for v in variants):
                out.append("%s @ %s" % (cond, FORKS[fi]))
    return out


def record(tier, seed):
    binary = lib.build_harness("beaconneg")
    out = os.path.join(lib.scratch("beaconneg"), "traces-%s-%d" % (tier, seed))
    if os.path.isdir(out):
        shutil.rmtree(out)
    os.makedirs(out)
    shards = min(16, lib.NCPU)

    def one(i):
        p = lib.run([binary, "-out", out, "-tier", tier, "-seed", str(seed), "-shard", "%d/%d" % (i, shards)], timeout=2400)
        if p.returncode != 0:
            raise lib.InfraError("beaconneg recorder failed (rc=%d):\n%s" % (p.returncode, (p.stdout + p.stderr)[-4000:]))
        return json.load(open(os.path.join(out, "stats.%d.json" % i)))

    parts = lib.parallel_map(one, list(range(shards)), workers=shards)
    stats = {"files": [], "counters": {}}
    for st in parts:
        stats["files"] += st["files"] or []
        for k, v in st["counters"].items():
            stats["counters"][k] = stats["counters"].get(k, 0) + v
    return out, stats


def validate_file(path, timeout=2400):
    wd = lib.fresh_spec_copy()
    shutil.copy(path, os.path.join(wd, "trace.ndjson"))
    res = lib.tlc("BeaconTrace", cfg="BeaconTrace.cfg", workdir=wd, workers=1, timeout=timeout, java_opts=beacon.JAVA_OPTS)
    out = res.out
    shutil.rmtree(wd, ignore_errors=True)
    if not (res.rc == 0 and "Model checking completed. No error has been found." in out):
        raise lib.InfraError("TLC could not evaluate %s (rc=%d):\n%s" % (os.path.basename(path), res.rc, out[-5000:]))
    r = {"file": path, "generated": res.generated, "distinct": res.distinct, "wall": res.wall,
         "mismatches": [], "controls": [], "unjudged": [], "modelreject": []}
    for m in _MARK.finditer(out):
        k, kind = int(m.group(2)), m.group(3)
        if m.group(1) == "MISMATCH":
            d = re.search(r'<<\s*"DIFF",\s*%d,(.*?)(?=\n<<\s*"|\nModel checking|\nError|\Z)' % k, out, re.S)
            r["mismatches"].append({"line": k, "kind": kind, "diff": (d.group(1).strip()[:5000] if d else "")})
        elif m.group(1) == "CONTROL":
            r["controls"].append(k)
        elif m.group(1) == "UNJUDGED":
            r["unjudged"].append(k)
        else:
            r["modelreject"].append(k)
    return r


NEG_KINDS = ("BlockInvalid", "Panic", "NegControl", "Crash", "SlotsNeg")


def main(tier, seed, replay=None):
    t0 = time.time()
    if replay:
        r = validate_file(replay)
        findings = {f["signature"].split(":")[0]: f for f in lib.active_findings(PID)}
        bad = []
        for m in r["mismatches"]:
            if m["kind"] not in NEG_KINDS:
                continue
            hit = [v for v in set(re.findall(r'"([a-z0-9-]+)"', m["diff"])) if v in findings]
            hit = [v for v in hit if m["kind"] == findings[v].get("event_kind", "BlockInvalid")]
            if hit:
                lib.report_known(PID, findings[hit[0]]["signature"] + " (replay)")
            else:
                bad.append(m)
        for m in bad:
            lib.report_violation(PID, replay, "line %d (%s): %s" % (m["line"], m["kind"], m["diff"]))
        if not bad:
            lib.log("replay %s: no soundness violation" % replay)
        return 1 if bad else 0
    out, stats = record(tier, seed)
    c = stats["counters"]
    missing = []
    for cl, first in CLASSES.items():
        for fi in range(first, len(FORKS)):
            if c.get("neg_class_%s_%s" % (cl, FORKS[fi]), 0) == 0:
                missing.append("%s/%s" % (cl, FORKS[fi]))
    missing += uncovered_conditions(c)
    for k in ("slots_neg_to_current_slot", "slots_neg_to_earlier_slot"):
        if c.get(k, 0) == 0:
            missing.append(k)
    if tier == "thorough" and c.get("neg_class_bytes", 0) == 0:
        missing.append("bytes")
    files = [f["path"] for f in stats["files"] if f["events"] > 1]
    results = lib.parallel_map(validate_file, files, workers=min(16, lib.NCPU))
    # a listed finding of C03 is identified by the VARIANT that exposes it (signature prefix = variant name) and
    # only excuses "accepted although the specification rejects" for exactly that variant
    findings = {f["signature"].split(":")[0]: f for f in lib.active_findings(PID)}
    violations, known = [], []
    for r in results:
        for m in r["mismatches"]:
            if m["kind"] not in NEG_KINDS:
                continue
            names = set(re.findall(r'"([a-z0-9-]+)"', m["diff"]))
            # ... and only for the kind of misbehaviour the entry describes ("accepted" unless it says "Panic")
            hit = [v for v in names if v in findings and m["kind"] == findings[v].get("event_kind", "BlockInvalid")]
            if hit:
                known.append((r["file"], m, hit[0]))
            else:
                violations.append((r["file"], m))
    seen = set()
    for f, m, v in known:
        if v not in seen:
            seen.add(v)
            rp = lib.save_replay(PID, "known-%s-%s-%d.ndjson" % (v, os.path.basename(f)[:-7], m["line"]),
                                 beacon.ndjson_text(beacon.make_replay(f, m["line"])))
            lib.report_known(PID, "%s (%d occurrence(s) this run, e.g. replay=%s)" % (
                findings[v]["signature"], sum(1 for _, _, x in known if x == v), rp))
    if missing and not violations:
        raise lib.InfraError("vacuity guard: catalogue classes / conditions never exercised on a fork where they exist: %s" % ", ".join(missing))
    base = sum(1 for r in results for m in r["mismatches"] if m["kind"] not in NEG_KINDS)
    if base:
        lib.log("note: %d mismatch(es) on the valid base chains (judged by C01/C02, not C03)" % base)
    if any(r["modelreject"] for r in results) and not base and not violations:
        raise lib.InfraError("the reference specification rejects valid base-chain blocks: %s"
                             % [(os.path.basename(r["file"]), r["modelreject"][:3]) for r in results if r["modelreject"]][:4])
    neg = c.get("neg_events", 0)
    controls = sum(len(r["controls"]) for r in results)
    unjudged = sum(len(r["unjudged"]) for r in results)
    if neg == 0 or c.get("neg_rejected", 0) == 0:
        raise lib.InfraError("no negative variant was rejected - nothing was checked")
    if unjudged * 10 > neg:
        raise lib.InfraError("vacuity guard: %d of %d variants could not be judged" % (unjudged, neg))
    per_variant = {}
    for k, v in c.items():
        m = re.match(r"neg_variant_(.+)_(rejected|accepted|panic)$", k)
        if m:
            per_variant.setdefault(m.group(1), {})[m.group(2)] = v
    samples, digests = [], set()
    for f in files:
        for i, ev in enumerate(lib.read_ndjson(f)):
            if ev.get("ev") == "Neg":
                digests.add(lib.digest({k: v for k, v in ev.items() if k not in ("post", "unvalidated")}))
                if len(samples) < 4 and i % 97 == 13:
                    samples.append({"variant": ev["variant"], "class": ev["class"], "slot": ev["blk"]["slot"], "fork_body": ev["blk"]["fork_body"],
                                    "accepted": ev["accepted"], "err": ev["err"][:120]})
    coverage = {
        "states": sum(r["distinct"] for r in results), "transitions": sum(r["generated"] for r in results),
        "traces_validated_against_impl": neg - len(violations) - unjudged, "evaluations": neg,
        "distinct_nontrivial": {"distinct": len(digests), "nontrivial": c.get("neg_rejected", 0),
                                "rule": "variant that zrnt rejected and the model judged"},
        "controls_accepted_with_specified_post_state": controls, "unjudged": unjudged, "known_finding_hits": len(known),
        "rejected": c.get("neg_rejected", 0), "accepted": c.get("neg_accepted", 0), "panics": c.get("neg_panic", 0),
        "clamped_numbers": c.get("neg_clamped", 0),
        "process_slots_negative_calls": c.get("slots_neg_to_current_slot", 0) + c.get("slots_neg_to_earlier_slot", 0),
        "per_class_fork": {k[len("neg_class_"):]: v for k, v in c.items() if k.startswith("neg_class_")},
        "per_variant": per_variant, "conditions_guarded": len(CONDITIONS), "samples": samples, "trace_files": len(files), "base_chain_blocks": c.get("block_events", 0),
    }
    rc = 0
    for f, m in violations[:5]:
        rp = lib.save_replay(PID, "viol-%s-%d.ndjson" % (os.path.basename(f)[:-7], m["line"]),
                             beacon.ndjson_text(beacon.make_replay(f, m["line"])))
        lib.report_violation(PID, rp, "%s line %d (%s): %s" % (os.path.basename(f), m["line"], m["kind"], m["diff"]))
        rc = 1
    if not os.environ.get("VERIF_NO_EVIDENCE"):
        lib.write_evidence(PID, tier, seed, coverage, time.time() - t0, violations=len(violations), assumptions=beacon.ASSUMPTIONS + [
            "the abstraction function describes each variant truthfully: signatures through the harness' signature registry "
            "(what was signed, by which keys, under which domain), roots by ids in which every byte matters; numbers beyond "
            "10^9 in byte-mutated blocks are clamped to 10^9"])
    lib.log("C03 %s: %d variants (%d distinct; %d rejected, %d accepted of which %d controls), %d classes x forks, %d unjudged, %d violation(s), %.1fs"
            % (tier, neg, len(digests), c.get("neg_rejected", 0), c.get("neg_accepted", 0), controls,
               len(coverage["per_class_fork"]), unjudged, len(violations), time.time() - t0))
    return rc


# realistic soundness mutants of zrnt (text patches on a scratch copy, see beacon.mutated_repo)
MUTANTS = {
    "exit_signature_not_checked": ("eth2/beacon/phase0/voluntary_exit.go",
                                   "if !blsu.Verify(blsPub, sigRoot[:], sig) {\n\t\treturn errors.New(\"voluntary exit signature could not be verified\")",
                                   "if false && !blsu.Verify(blsPub, sigRoot[:], sig) {\n\t\treturn errors.New(\"voluntary exit signature could not be verified\")"),
    "deneb_exit_domain_follows_fork": ("eth2/beacon/deneb/voluntary_exit.go",
                                       "domain := common.ComputeDomain(common.DOMAIN_VOLUNTARY_EXIT, spec.CAPELLA_FORK_VERSION, genesisValRoot)",
                                       "domain := common.ComputeDomain(common.DOMAIN_VOLUNTARY_EXIT, spec.DENEB_FORK_VERSION, genesisValRoot)"),
    "attestation_too_new_accepted": ("eth2/beacon/altair/attestation.go",
                                     "if !(data.Slot+spec.MIN_ATTESTATION_INCLUSION_DELAY <= currentSlot) {",
                                     "if !(data.Slot+spec.MIN_ATTESTATION_INCLUSION_DELAY <= currentSlot+1) {"),
    "altair_limits_not_checked": ("eth2/beacon/altair/transition.go",
                                  "if err := body.CheckLimits(spec); err != nil {\n\t\treturn err\n\t}",
                                  "_ = body.CheckLimits"),
    "proposer_slashing_same_header_accepted": ("eth2/beacon/phase0/proposer_slashing.go",
                                               "if ps.SignedHeader1.Message == ps.SignedHeader2.Message {",
                                               "if false && ps.SignedHeader1.Message == ps.SignedHeader2.Message {"),
    "bls_change_hash_not_checked": ("eth2/beacon/capella/bls_to_execution.go",
                                    "if !bytes.Equal(validatorWithdrawalCredentials[1:], sigHash[1:]) {",
                                    "if false && !bytes.Equal(validatorWithdrawalCredentials[1:], sigHash[1:]) {"),
    "sync_signature_not_checked": ("eth2/beacon/altair/sync_aggregate.go",
                                   "if !blsu.Eth2FastAggregateVerify(participantPubkeys, signingRoot[:], sig) {",
                                   "if false && !blsu.Eth2FastAggregateVerify(participantPubkeys, signingRoot[:], sig) {"),
    "withdrawal_amount_not_compared": ("eth2/beacon/capella/transition.go",
                                       "!bytes.Equal(withdrawal.Address[:], expectedWithdrawal.Address[:]) ||\n\t\t\twithdrawal.Amount != expectedWithdrawal.Amount {",
                                       "!bytes.Equal(withdrawal.Address[:], expectedWithdrawal.Address[:]) {"),
    # round-3 seeded change re-created on the repaired code: the underflow guard removed and the subtraction saturating
    "deposit_count_saturating_subtraction": ("eth2/beacon/phase0/deposit.go",
                                             "if eth1Data.DepositCount < depIndex {\n\t\treturn errors.New(\"eth1 data deposit count is lower than the state's deposit index\")\n\t}\n\texpectedInputCount := uint64(eth1Data.DepositCount - depIndex)",
                                             "expectedInputCount := uint64(0)\n\tif eth1Data.DepositCount > depIndex {\n\t\texpectedInputCount = uint64(eth1Data.DepositCount - depIndex)\n\t}"),
    "process_slots_guard_relaxed": ("eth2/beacon/common/transition.go",
                                    "if currentSlot >= slot {", "if currentSlot > slot {"),
    # coverage round: branches that no variant reached before (list limits, engine verdicts, credential prefix)
    "deneb_versioned_hashes_verdict_ignored": ("eth2/beacon/deneb/execution.go",
                                               "return false, fmt.Errorf(\"failed to check blob versioned hashes: %w\", err)\n\t} else if !ok {\n\t\treturn false, nil\n\t}",
                                               "return false, fmt.Errorf(\"failed to check blob versioned hashes: %w\", err)\n\t} else if !ok {\n\t\t_ = ok\n\t}"),
    "capella_engine_invalid_accepted": ("eth2/beacon/capella/execution_payload.go", "} else if !valid {", "} else if false && !valid {"),
    "bls_change_prefix_not_checked": ("eth2/beacon/capella/bls_to_execution.go",
                                      "if !bytes.Equal(validatorWithdrawalCredentials[:1], []byte{common.BLS_WITHDRAWAL_PREFIX}) {",
                                      "if false && !bytes.Equal(validatorWithdrawalCredentials[:1], []byte{common.BLS_WITHDRAWAL_PREFIX}) {"),
    "bellatrix_exit_limit_not_checked": ("eth2/beacon/bellatrix/block.go",
                                         "if x := uint64(len(b.VoluntaryExits)); x > uint64(spec.MAX_VOLUNTARY_EXITS) {",
                                         "if x := uint64(len(b.VoluntaryExits)); false && x > uint64(spec.MAX_VOLUNTARY_EXITS) {"),
    "deneb_transaction_limit_off_by_one": ("eth2/beacon/deneb/block.go",
                                           "x > uint64(spec.MAX_TRANSACTIONS_PER_PAYLOAD) {", "x > uint64(spec.MAX_TRANSACTIONS_PER_PAYLOAD)+1 {"),
    "sync_bits_length_not_checked": ("eth2/beacon/altair/sync_aggregate.go",
                                     "if err := bitfields.BitvectorCheck(agg.SyncCommitteeBits, uint64(spec.SYNC_COMMITTEE_SIZE)); err != nil {",
                                     "if err := bitfields.BitvectorCheck(agg.SyncCommitteeBits, uint64(spec.SYNC_COMMITTEE_SIZE)); false && err != nil {"),
    "attester_slashing_reason_not_checked": ("eth2/beacon/phase0/attester_slashing.go",
                                             "if !IsSlashableAttestationData(&sa1.Data, &sa2.Data) {",
                                             "if false && !IsSlashableAttestationData(&sa1.Data, &sa2.Data) {"),
}


def selftest():
    """A canned soundness mutant of zrnt must be reported as a VIOLATION by ./check C03."""
    beacon.MUTANTS["__neg"] = MUTANTS["sync_signature_not_checked"] + (PID,)
    rc, txt = beacon.run_on_repo(beacon.mutated_repo("__neg"), PID)
    ok = rc == 1 and ("VIOLATION property=%s" % PID) in txt
    lib.log("selftest beacon_neg: mutant sync_signature_not_checked flagged by C03: %s" % ("ok" if ok else "FAILED"))
    return ok
