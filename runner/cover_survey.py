#!/usr/bin/env python3
"""Coverage survey: which functions of the library do the quick tiers execute?

  runner/cover_survey.py [Cxx ...]

Builds every harness with `go build -cover -coverpkg=github.com/protolambda/zrnt/eth2/...` (VERIF_COVER, see lib.build_harness),
runs the quick tier of the named checks (default: all) with GOCOVERDIR pointing at a scratch directory outside /verif,
merges the counters with `go tool covdata func` and writes coverage/functions.txt (per function) and
coverage/unreached.txt (functions of eth2/ never entered). It is a survey for the maintainers of the checks: nothing
here is a verdict, and no registered command depends on it."""
import os
import shutil
import subprocess
import sys
import tempfile

VERIF = os.path.dirname(os.path.dirname(os.path.abspath(__file__)))


def main():
    ids = sys.argv[1:] or ["C%02d" % i for i in range(1, 21)]
    cov = tempfile.mkdtemp(prefix="verif-cover-")
    env = dict(os.environ, VERIF_COVER="1", GOCOVERDIR=cov, VERIF_NO_EVIDENCE="1",
               GOFLAGS="-mod=mod", GOPROXY="off", GOSUMDB="off", GOTOOLCHAIN="local")
    for c in ids:
        p = subprocess.run([os.path.join(VERIF, "check"), c, "--tier", "quick"], cwd=VERIF, env=env,
                           stdout=subprocess.PIPE, stderr=subprocess.STDOUT, text=True)
        print(c, "rc=%d" % p.returncode, flush=True)
    p = subprocess.run(["go", "tool", "covdata", "func", "-i=" + cov], env=env, stdout=subprocess.PIPE,
                       stderr=subprocess.STDOUT, text=True)
    os.makedirs(os.path.join(VERIF, "coverage"), exist_ok=True)
    lines = [l for l in p.stdout.splitlines() if "protolambda/zrnt" in l]
    open(os.path.join(VERIF, "coverage", "functions.txt"), "w").write("\n".join(lines) + "\n")
    un = [l for l in lines if l.rstrip().endswith("\t0.0%") or l.rstrip().endswith(" 0.0%")]
    open(os.path.join(VERIF, "coverage", "unreached.txt"), "w").write("\n".join(un) + "\n")
    print("functions: %d, never entered: %d" % (len(lines), len(un)))
    shutil.rmtree(cov, ignore_errors=True)


if __name__ == "__main__":
    main()
