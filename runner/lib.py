"""Common machinery for every check: scratch dirs, harness build, TLC runs, evidence, findings.

Exit-code contract (see DESIGN.md §4):
  0  property held on everything explored (KNOWN-FINDING lines may be printed)
  1  + "VIOLATION property=<id> replay=<path>": deviation observed on the real code
  2  infrastructure problem (build failure, TLC crash/timeout, ...), never a verdict
"""
import atexit
import hashlib
import json
import os
import re
import shutil
import subprocess
import sys
import tempfile
import time

VERIF = os.path.dirname(os.path.dirname(os.path.abspath(__file__)))
REPO = os.environ.get("VERIF_REPO", "/repo")
SPEC_DIR = os.path.join(VERIF, "spec")
HARNESS_DIR = os.path.join(VERIF, "harness")
EVIDENCE_DIR = os.path.join(VERIF, "evidence")
REPLAY_DIR = os.path.join(VERIF, "out", "replays")
NCPU = os.cpu_count() or 4

GO_ENV = {
    "GOFLAGS": "-mod=mod",
    "GOPROXY": "off",
    "GOSUMDB": "off",
    "GOTOOLCHAIN": "local",
}

_scratch_root = None
_t0 = time.time()


class InfraError(Exception):
    """Something in the machinery failed; never reported as a violation."""


def elapsed():
    return time.time() - _t0


def log(*a):
    print(*a, file=sys.stderr, flush=True)


def scratch_root():
    global _scratch_root
    if _scratch_root is None:
        base = os.environ.get("VERIF_SCRATCH") or tempfile.gettempdir()
        _scratch_root = tempfile.mkdtemp(prefix="verif-", dir=base)
        if not os.environ.get("VERIF_KEEP"):
            atexit.register(lambda: shutil.rmtree(_scratch_root, ignore_errors=True))
    return _scratch_root


def scratch(name):
    p = os.path.join(scratch_root(), name)
    os.makedirs(p, exist_ok=True)
    return p


def seed_from_env(default=1):
    try:
        return int(os.environ.get("VERIF_SEED", default))
    except ValueError:
        return default


def run(cmd, cwd=None, env=None, timeout=None, check=False, stdin=None):
    e = dict(os.environ)
    if env:
        e.update(env)
    try:
        p = subprocess.run(cmd, cwd=cwd, env=e, timeout=timeout, stdout=subprocess.PIPE,
                           stderr=subprocess.PIPE, text=True, input=stdin)
    except subprocess.TimeoutExpired as ex:
        raise InfraError("timeout after %ss: %s" % (timeout, " ".join(map(str, cmd))[:300])) from ex
    if check and p.returncode != 0:
        raise InfraError("command failed (%d): %s\n%s\n%s" % (
            p.returncode, " ".join(map(str, cmd))[:300], p.stdout[-3000:], p.stderr[-3000:]))
    return p


# ---------------------------------------------------------------- harness build

_built = {}


def build_harness(cmd_name, race=False, tags="verif"):
    """Build /verif/harness/cmd/<cmd_name> against REPO's current working tree. Returns binary path."""
    key = (cmd_name, race, tags)
    if key in _built:
        return _built[key]
    bdir = scratch("build")
    modfile = os.path.join(bdir, "go.mod")
    if not os.path.exists(modfile):
        src = open(os.path.join(HARNESS_DIR, "go.mod")).read()
        src = re.sub(r"replace github.com/protolambda/zrnt => \S+",
                     "replace github.com/protolambda/zrnt => " + REPO, src)
        open(modfile, "w").write(src)
        sums = open(os.path.join(REPO, "go.sum")).read()
        extra = os.path.join(HARNESS_DIR, "go.sum")
        if os.path.exists(extra):
            sums += open(extra).read()
        open(os.path.join(bdir, "go.sum"), "w").write(sums)
    out = os.path.join(bdir, cmd_name + ("-race" if race else ""))
    cmd = ["go", "build", "-modfile=" + modfile, "-tags", tags, "-o", out]
    if race:
        cmd.append("-race")
    if os.environ.get("VERIF_COVER"):
        # coverage survey of the library under the harnesses (runner/cover_survey.py): GOCOVERDIR is inherited by the binaries
        cmd += ["-cover", "-coverpkg=github.com/protolambda/zrnt/eth2/...,verif/harness/..."]
    cmd.append("./cmd/" + cmd_name)
    p = run(cmd, cwd=HARNESS_DIR, env=GO_ENV, timeout=1200)
    if p.returncode != 0:
        raise InfraError("harness build failed for %s:\n%s" % (cmd_name, (p.stdout + p.stderr)[-6000:]))
    _built[key] = out
    return out


# ---------------------------------------------------------------- TLC


class TLCResult:
    def __init__(self, rc, out, wall):
        self.rc = rc
        self.out = out
        self.wall = wall
        self.generated = 0
        self.distinct = 0
        self.depth = 0
        m = None
        for m in re.finditer(r"(\d+) states generated, (\d+) distinct states found", out):
            pass
        if m:
            self.generated = int(m.group(1))
            self.distinct = int(m.group(2))
        m = re.search(r"The depth of the complete state graph search is (\d+)", out)
        if m:
            self.depth = int(m.group(1))
        self.finished = "Model checking completed. No error has been found." in out or \
                        "Finished in" in out and "Error:" not in out
        self.invariant_violated = re.findall(r"Invariant (\S+) is violated", out)
        self.property_violated = re.findall(r"(?:Temporal|Action) propert(?:y|ies) (\S+)? ?(?:was|were) violated", out)
        self.deadlock = "Deadlock reached" in out
        self.postcondition_failed = "POSTCONDITION" in out.upper() and "violated" in out.lower() and \
            bool(re.search(r"[Pp]ost.?condition", out)) and "is violated" in out
        self.errors = [l for l in out.splitlines() if l.startswith("Error:")]

    @property
    def ok(self):
        return self.rc == 0 and not self.errors

    def printed(self):
        """Values printed with PrintT / Print (lines not produced by TLC itself)."""
        return self.out.splitlines()


def tlc(module, cfg=None, workdir=None, workers=None, timeout=600, simulate=None, depth=None, seed=None,
        deadlock=True, java_opts="-Xss512m", deque=False, extra_args=(), coverage=False, heap=None):
    """Run TLC on spec/<module>.tla in a scratch copy of spec/ (or in workdir if given).

    cfg: path relative to the working directory (default <module>.cfg)."""
    if workdir is None:
        workdir = fresh_spec_copy()
    meta = tempfile.mkdtemp(prefix="meta-", dir=scratch_root())
    cmd = ["tlc", "-metadir", meta, "-workers", str(workers or "auto")]
    if cfg:
        cmd += ["-config", cfg]
    if not deadlock:
        cmd += ["-deadlock"]
    if simulate is not None:
        s = "num=%d" % simulate if isinstance(simulate, int) else simulate
        cmd += ["-simulate", s]
    if depth is not None:
        cmd += ["-depth", str(depth)]
    if seed is not None:
        cmd += ["-seed", str(seed)]
    if coverage:
        cmd += ["-coverage", "1"]
    cmd += list(extra_args)
    cmd.append(module)
    jopts = java_opts or ""
    if deque:
        jopts += " -Dtlc2.tool.queue.IStateQueue=StateDeque"
    # many TLC processes run side by side (sharded traces, several checks): keep each JVM's heap modest unless asked
    heap = heap or os.environ.get("VERIF_TLC_HEAP", "6g")
    jopts += " -Xmx" + heap
    # TLC unpacks its module cache into java.io.tmpdir (tlc-<n>/): keep that inside the scratch dir removed below
    jopts += " -Djava.io.tmpdir=" + meta
    t = time.time()
    p = run(cmd, cwd=workdir, env={"JAVA_TOOL_OPTIONS": jopts.strip()}, timeout=timeout)
    shutil.rmtree(meta, ignore_errors=True)
    return TLCResult(p.returncode, p.stdout + p.stderr, time.time() - t)


def fresh_spec_copy(extra_files=None):
    d = tempfile.mkdtemp(prefix="spec-", dir=scratch_root())
    for f in os.listdir(SPEC_DIR):
        src = os.path.join(SPEC_DIR, f)
        if os.path.isfile(src):
            shutil.copy(src, d)
    for name, content in (extra_files or {}).items():
        open(os.path.join(d, name), "w").write(content)
    return d


def tlc_must_pass(res, what):
    """Model-checking run expected to succeed; anything else is an infrastructure/spec problem (exit 2)."""
    if not res.ok or res.invariant_violated or res.deadlock or res.errors:
        raise InfraError("TLC run '%s' did not complete cleanly (rc=%d):\n%s" % (what, res.rc, res.out[-6000:]))
    return res


# ---------------------------------------------------------------- evidence / verdicts


def save_replay(pid, name, content):
    d = os.path.join(REPLAY_DIR, pid)
    os.makedirs(d, exist_ok=True)
    p = os.path.join(d, name)
    if isinstance(content, (dict, list)):
        content = json.dumps(content, indent=1)
    with open(p, "w") as f:
        f.write(content)
    return p


def report_violation(pid, replay_path, msg=""):
    if msg:
        log("violation detail: " + msg[:4000])
    print("VIOLATION property=%s replay=%s" % (pid, replay_path), flush=True)


def report_known(pid, what):
    print("KNOWN-FINDING: property=%s %s" % (pid, what), flush=True)


def load_known_findings(pid=None):
    items = []
    p = os.path.join(VERIF, "known_findings.json")
    if os.path.exists(p):
        items += json.load(open(p)).get("entries", [])
    d = os.path.join(VERIF, "known_findings.d")
    if os.path.isdir(d):
        for f in sorted(os.listdir(d)):
            if f.endswith(".json"):
                items += json.load(open(os.path.join(d, f))).get("entries", [])
    return [e for e in items if (pid is None or e.get("property") == pid)]


def active_findings(pid):
    return [e for e in load_known_findings(pid) if e.get("kind") == "finding"]


def _normalize_coverage(cov, level):
    """Keep evidence files valid for /root/.vp/EVIDENCE.schema.json whatever a family passes in."""
    cov = dict(cov)
    dn = cov.get("distinct_nontrivial")
    if isinstance(dn, dict):
        # a family reported {"distinct": D, "nontrivial": N, "rule": ...}: keep the detail, count conservatively
        cov["distinct_nontrivial_detail"] = dn
        nums = [v for k, v in dn.items() if isinstance(v, int) and not isinstance(v, bool)]
        cov["distinct_nontrivial"] = min(nums) if nums else 0
        if "rule" in dn and "rule" not in cov:
            cov["rule"] = str(dn["rule"])
    for k in ("evaluations", "distinct_nontrivial", "states", "transitions", "traces_validated_against_impl"):
        if k in cov and not isinstance(cov[k], int):
            try:
                cov[k] = int(cov[k])
            except (TypeError, ValueError):
                raise InfraError("evidence key %s must be an integer, got %r" % (k, cov[k]))
    if "exhaustive" in cov and not isinstance(cov["exhaustive"], bool):
        # a description of the exhaustively enumerated part; the run as a whole also samples, so: not exhaustive
        cov["exhaustive_part"] = cov["exhaustive"]
        cov["exhaustive"] = False
    for k in ("obligations", "discharged", "programs", "disagreements_checked"):
        if k in cov and not isinstance(cov[k], int):
            cov[k + "_detail"] = cov.pop(k)
    if "samples" in cov and not isinstance(cov["samples"], list):
        cov["samples"] = [cov["samples"]]
    if "rule" in cov and not isinstance(cov["rule"], str):
        cov["rule"] = json.dumps(cov["rule"])
    if level == "model_checking" and not cov.get("samples"):
        # never let evidence bookkeeping mask a verdict: a run that stopped early (e.g. on a violation) may have no sample
        cov["samples"] = ["(this run recorded no sample)"]
    return cov


def write_evidence(pid, tier, seed, coverage, wall_s, violations=0, level="model_checking", assumptions=None):
    if os.environ.get("VERIF_NO_EVIDENCE"):
        return
    coverage = _normalize_coverage(coverage, level)
    os.makedirs(EVIDENCE_DIR, exist_ok=True)
    ev = {
        "property_id": pid,
        "tier": tier,
        "seed": int(seed),
        "level": level,
        "coverage": coverage,
        "assumptions": assumptions or [],
        "wall_s": round(float(wall_s), 2),
        "violations": int(violations),
    }
    tmp = os.path.join(EVIDENCE_DIR, pid + ".json.tmp")
    with open(tmp, "w") as f:
        json.dump(ev, f, indent=1, sort_keys=True)
    os.replace(tmp, os.path.join(EVIDENCE_DIR, pid + ".json"))


def digest(obj):
    return hashlib.sha256(json.dumps(obj, sort_keys=True).encode()).hexdigest()[:16]


def read_ndjson(path):
    out = []
    with open(path) as f:
        for line in f:
            line = line.strip()
            if line:
                out.append(json.loads(line))
    return out


def write_ndjson(path, events):
    with open(path, "w") as f:
        for e in events:
            f.write(json.dumps(e, separators=(",", ":")) + "\n")


def parallel_map(fn, items, workers=None):
    """Run fn over items in threads (the work is in child processes)."""
    from concurrent.futures import ThreadPoolExecutor
    with ThreadPoolExecutor(max_workers=workers or NCPU) as ex:
        return list(ex.map(fn, items))
