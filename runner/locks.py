"""Concurrency family (C17): shared components are safe under concurrent use.

PART A  harness/cmd/lockextract derives, from lib.REPO's working tree, the lock program of every shared
        component (ProtoForkChoice, PubkeyCache + the CachedPubkey handles it gives out, every pool of eth2/pool);
        spec/Locks.tla gives it Go's mutex semantics and TLC checks NoDataRace / NoBadUnlock / NoLockLeak,
        deadlock freedom (1, 2 and - thorough - 3 threads) and Termination under weak fairness.
        Every model-level counterexample is taken to the real code by a targeted concurrent test of exactly the
        methods involved (harness/cmd/conc pair, -race, start barrier, watchdog): reproduced => observed
        violation (or listed finding); not reproduced => InfraError "model imprecision". Never a verdict from
        the model alone.
PART B  harness/cmd/conc (built with -race) runs thousands of short concurrent histories per component in child
        processes; a race-detector report or a call that does not return is an observed violation; the recorded
        invocation/response order and replies must have a linearization w.r.t. the sequential specifications
        (spec/LinearizeFC.tla over ForkChoice.tla, LinearizePK.tla over PubkeyCache.tla, LinearizePools.tla over
        Pools.tla), searched by TLC depth-first.
"""
import collections
import json
import os
import re
import shutil
import subprocess
import threading

import lib

PID = "C17"
GORACE = "halt_on_error=1 exitcode=66 history_size=3"

# driver component -> (Go component names, Linearize module)
DRIVERS = {
    "fc": (["ProtoForkChoice"], "LinearizeFC"),
    "pk": (["PubkeyCache", "CachedPubkey"], "LinearizePK"),
    "keyed": (["AttesterSlashingPool", "ProposerSlashingPool", "VoluntaryExitPool"], "LinearizePools"),
    "att": (["AttestationPool"], "LinearizePools"),
    "sync": (["SyncCommitteePool"], "LinearizePools"),
}
# Go method -> operation name the concurrent driver can leave out of its concurrent phase
EXCLUDABLE = {
    ("AttestationPool", "Search"): ("att", "Search"),
    ("AttestationPool", "Prune"): ("att", "Prune"),
    ("SyncCommitteePool", "Reset"): ("sync", "Reset"),
    ("CachedPubkey", "Pubkey"): ("pk", "Decompress"),
    ("PubkeyCache", "Pubkey.Pubkey"): ("pk", "Decompress"),
}


# ---------------------------------------------------------------- extraction


class Extraction:
    def __init__(self, outdir, summary):
        self.dir = outdir
        self.summary = summary
        self.components = {c["name"]: c for c in summary["components"]}
        self.sites = collections.defaultdict(list)  # (relative file, line) -> [site]
        for s in summary["sites"]:
            self.sites[(relpath(s["file"]), s["line"])].append(s)


def relpath(p):
    p = os.path.realpath(p) if os.path.isabs(p) else p
    for root in (os.path.realpath(lib.REPO), "/repo"):
        if p.startswith(root + "/"):
            return p[len(root) + 1:]
    m = re.search(r"(eth2/.*)$", p)
    return m.group(1) if m else p


def extract():
    binp = lib.build_harness("lockextract")
    out = lib.scratch("lockprograms")
    p = lib.run([binp, "-repo", lib.REPO, "-out", out], timeout=120)
    if p.returncode != 0:
        raise lib.InfraError("lockextract failed:\n" + (p.stdout + p.stderr)[-3000:])
    summary = json.load(open(os.path.join(out, "lockprograms.json")))
    return Extraction(out, summary)


# ---------------------------------------------------------------- part A: TLC on the extracted programs


def tla_tuple_strings(body):
    return re.findall(r'"([^"]*)"', body)


class ModelResult:
    def __init__(self, comp, threads):
        self.comp, self.threads = comp, threads
        self.states = self.transitions = 0
        self.races = set()      # (rootA, rootB, field, kindA, kindB, obj)
        self.deadlock = None    # list of per-thread dicts (last state)
        self.badunlock = []
        self.lockleak = []
        self.liveness = False
        self.raw = ""


def locks_cfg(threads, liveness, invariants, collect=False, symmetry=False):
    if symmetry:
        tset = "{" + ", ".join("t%d" % i for i in range(1, threads + 1)) + "}"
    else:
        tset = "{" + ", ".join(str(i) for i in range(1, threads + 1)) + "}"
    cfg = ("SPECIFICATION Spec\n" if liveness else "INIT Init\nNEXT Next\n")
    cfg += "CONSTANTS\n  Threads = %s\n  MaxDepth = 5\n  MaxFresh = 1\n  Collect = %s\n" % (tset, "TRUE" if collect else "FALSE")
    if symmetry:
        cfg += "SYMMETRY ThreadSym\n"
    if invariants:
        cfg += "INVARIANTS " + " ".join(invariants) + "\n"
    if liveness:
        cfg += "PROPERTY Termination\n"
    cfg += "ALIAS Pretty\n"
    return cfg


def run_locks(ex, comp, threads, liveness=True, races=True, collect=False, symmetry=False, workers=2, timeout=900,
              programs_file=None):
    """One TLC run of spec/Locks.tla on the extracted program of `comp`."""
    wd = lib.fresh_spec_copy()
    src = programs_file or os.path.join(ex.dir, "LockPrograms_%s.tla" % comp)
    text = open(src).read()
    text = re.sub(r"MODULE LockPrograms_\w+", "MODULE LockPrograms", text, count=1)
    open(os.path.join(wd, "LockPrograms.tla"), "w").write(text)
    inv = ["NoBadUnlock", "NoLockLeak"]
    if races:
        inv.insert(0, "RacesLogged" if collect else "NoDataRace")
    open(os.path.join(wd, "locks.cfg"), "w").write(locks_cfg(threads, liveness, inv, collect, symmetry))
    res = lib.tlc("Locks", cfg="locks.cfg", workdir=wd, workers=1 if collect else workers, timeout=timeout)
    shutil.rmtree(wd, ignore_errors=True)
    mr = ModelResult(comp, threads)
    mr.states, mr.transitions, mr.raw = res.distinct, res.generated, res.out
    flat = " ".join(res.out.split())
    for m in re.finditer(r'<<\s*"RACE",\s*<<(.*?)>>\s*>>', flat):
        f = tla_tuple_strings(m.group(1))
        if len(f) >= 6:
            mr.races.add(tuple(f[:6]))
    for m in re.finditer(r'<<\s*"BADUNLOCK",(.*?)>>', flat):
        mr.badunlock.append(tla_tuple_strings(m.group(1)))
    for m in re.finditer(r'<<\s*"LOCKLEAK",\s*"([^"]*)"', flat):
        mr.lockleak.append(m.group(1))
    if res.deadlock:
        last = None
        for m in re.finditer(r'json = "((?:[^"\\]|\\.)*)"', res.out):
            last = m.group(1)
        if last:
            try:
                mr.deadlock = json.loads(last.encode().decode("unicode_escape"))
            except ValueError:
                mr.deadlock = [{"raw": last[:500]}]
        else:
            mr.deadlock = [{"raw": "deadlock (state not parsed)"}]
    if "Temporal properties were violated" in res.out or re.search(r"Termination.*violated", res.out):
        mr.liveness = True
    clean = res.rc == 0 and "Model checking completed. No error has been found." in res.out
    explained = mr.races or mr.deadlock or mr.badunlock or mr.lockleak or mr.liveness
    if not clean and not explained:
        raise lib.InfraError("TLC on the lock program of %s (%d threads) failed:\n%s" % (comp, threads, res.out[-4000:]))
    return mr


def model_check_component(ex, comp, tier):
    """All TLC runs for one component. Returns (list of ModelResult, findings) where findings are model-level
    counterexamples: dicts {kind, comp, a, b, field?, detail}."""
    results, findings = [], []
    # one thread: a method that calls a locking method while holding the lock, bad unlock, leaked lock
    r1 = run_locks(ex, comp, 1, liveness=True, races=False, workers=1)
    results.append(r1)
    # two threads: races, deadlocks, termination
    r2 = run_locks(ex, comp, 2, liveness=True, races=True, workers=4)
    results.append(r2)
    racy = bool(r2.races)
    if racy:
        rc = run_locks(ex, comp, 2, liveness=False, races=True, collect=True)
        results.append(rc)
        for (a, b, field, ka, kb, obj) in sorted(rc.races | r2.races):
            findings.append({"kind": "race", "comp": comp, "a": a, "b": b, "field": field,
                             "detail": "%s.%s (%s) x %s.%s (%s) on %s of instance %s" % (comp, a, ka, comp, b, kb, field, obj)})
    if tier == "thorough" and not (r1.deadlock or r2.deadlock):
        r3 = run_locks(ex, comp, 3, liveness=False, races=False, symmetry=True, workers=6, timeout=1500)
        results.append(r3)
    for r in results:
        if r.deadlock:
            ms = [t.get("root", "") for t in r.deadlock if isinstance(t, dict) and
                  (t.get("st") == "run" or (t.get("st") == "done" and t.get("held")))]
            findings.append({"kind": "deadlock", "comp": comp, "a": ms[0] if ms else "", "b": ms[1] if len(ms) > 1 else "",
                             "threads": r.threads, "detail": json.dumps(r.deadlock)[:1500]})
        for bu in r.badunlock:
            findings.append({"kind": "badunlock", "comp": comp, "a": bu[0] if bu else "", "b": "", "detail": str(bu)})
        for m in r.lockleak:
            findings.append({"kind": "lockleak", "comp": comp, "a": m, "b": "", "detail": "returns holding a lock"})
        if r.liveness and not r.deadlock:
            findings.append({"kind": "livelock", "comp": comp, "a": "", "b": "", "detail": "Termination violated"})
    # dedupe
    seen, out = set(), []
    for f in findings:
        k = (f["kind"], f["comp"], f["a"], f["b"], f.get("field"))
        if k not in seen:
            seen.add(k)
            out.append(f)
    return results, out


# ---------------------------------------------------------------- race reports


class RaceReport:
    def __init__(self, text):
        self.text = text
        self.sides = []   # list of frames [(func, file, line)]
        cur = None
        lines = text.splitlines()
        i = 0
        while i < len(lines):
            l = lines[i]
            if re.match(r"^(Read|Write|Previous read|Previous write|Atomic|Previous atomic)[\w ]* at 0x", l.strip()):
                cur = []
                self.sides.append(cur)
            elif l.startswith("Goroutine ") or l.startswith("=========="):
                cur = None
            elif cur is not None and l.startswith("  ") and not l.startswith("      ") and l.strip():
                fn = l.strip()
                loc = lines[i + 1].strip() if i + 1 < len(lines) else ""
                m = re.match(r"(\S+):(\d+)", loc)
                cur.append((re.sub(r"\(\)$", "", fn), m.group(1) if m else "", int(m.group(2)) if m else 0))
                i += 1
            i += 1
        self.sides = self.sides[:2]

    def zrnt_frames(self, side):
        return [f for f in side if "protolambda/zrnt/" in f[0]]

    def describe(self, ex):
        """[(component, method, field or '', func, file:line)] for the two sides (top zrnt frame + component method)."""
        out = []
        for side in self.sides:
            zf = self.zrnt_frames(side)
            if not zf:
                out.append(("", "", "", side[0][0] if side else "?", ""))
                continue
            top = zf[0]
            comp = meth = ""
            for f in zf:
                m = re.search(r"\(\*?(\w+)\)\.(\w+)$", f[0])
                if m and (m.group(1) in ex.components):
                    comp, meth = m.group(1), m.group(2)
                    if meth[0].isupper():
                        break
            fields = sorted({s["field"] for s in ex.sites.get((relpath(top[1]), top[2]), [])
                             if not comp or s["component"] == comp or s["component"] == "PubkeyCache"})
            out.append((comp, meth, "/".join(fields), top[0].split("/")[-1], "%s:%d" % (relpath(top[1]), top[2])))
        return out


def parse_race_reports(stderr):
    reports = []
    for block in re.split(r"={10,}\n", stderr):
        if "WARNING: DATA RACE" in block:
            reports.append(RaceReport(block))
    return reports


def match_finding(desc, findings):
    """desc: RaceReport.describe(). A race is a listed finding iff one of its sides is in a function the entry names
    (the method that takes no lock / initialises lazily) and, where the entry lists fields and the field of the
    racing access could be resolved, the field agrees."""
    for e in findings:
        m = e.get("match", {})
        if m.get("type") != "race":
            continue
        for (comp, meth, field, func, loc) in desc:
            if any(fn in func or fn == "%s.%s" % (comp, meth) for fn in m.get("functions", [])):
                want = set(m.get("fields", []))
                got = set(field.split("/")) if field else set()
                if not want or not got or want & got:
                    return e
    return None


def signature_of(desc):
    parts = []
    for (comp, meth, field, func, loc) in desc:
        parts.append(("%s.%s" % (comp, meth)) if comp else func)
    field = next((d[2] for d in desc if d[2]), "?")
    return "%s x %s: unsynchronised access of field %s" % (parts[0] if parts else "?", parts[1] if len(parts) > 1 else "?", field)


# ---------------------------------------------------------------- part B1: targeted tests


def headline(stderr):
    for l in stderr.splitlines():
        if "fatal error:" in l or "BLOCKED" in l or "WARNING: DATA RACE" in l or l.startswith("panic:"):
            return l.strip()[:300]
    return (stderr.strip().splitlines() or ["?"])[-1][:300]



def run_pair(concbin, comp, a, b, iters, seed, single=False, full=False, calls=3):
    cmd = [concbin, "pair", "-comp", comp, "-a", a, "-b", b, "-iters", str(iters), "-seed", str(seed), "-calls", str(calls)]
    if single:
        cmd.append("-single")
    env = {"GORACE": GORACE, "GOMAXPROCS": "4"}
    if full:
        env["CONC_FULL"] = "1"
    p = lib.run(cmd, env=env, timeout=600)
    reports = parse_race_reports(p.stderr)
    blocked = p.returncode == 3 or "BLOCKED" in p.stderr
    unsupported = p.returncode == 4
    fatal = "fatal error:" in p.stderr
    return {"rc": p.returncode, "reports": reports, "blocked": blocked, "unsupported": unsupported, "fatal": fatal,
            "stderr": p.stderr[-6000:]}


# ---------------------------------------------------------------- part B2: histories and linearization


def record(concbin, comp, seed, hist, gor, ops, mix="main", exclude=(), full=False, name=None):
    d = lib.scratch("conc")
    out = os.path.join(d, (name or "%s-%s-%d" % (comp, mix, seed)) + ".ndjson")
    cmd = [concbin, "run", "-comp", comp, "-seed", str(seed), "-hist", str(hist), "-gor", str(gor), "-ops", str(ops),
           "-mix", mix, "-out", out]
    if exclude:
        cmd += ["-exclude", ",".join(sorted(exclude))]
    if full:
        cmd.append("-full")
    p = lib.run(cmd, env={"GORACE": GORACE, "GOMAXPROCS": "8"}, timeout=1800)
    if p.returncode not in (0, 66) and "fatal error:" not in p.stderr:
        raise lib.InfraError("conc run %s failed (rc=%d):\n%s" % (comp, p.returncode, p.stderr[-3000:]))
    return {"path": out, "comp": comp, "mix": mix, "rc": p.returncode, "reports": parse_race_reports(p.stderr),
            "fatal": "fatal error:" in p.stderr, "stderr": p.stderr[-6000:]}


def split_histories(events):
    hs = collections.OrderedDict()
    for e in events:
        hs.setdefault(e["h"], []).append(e)
    return hs


def pk_deviations():
    return sorted({e["deviation"] for e in lib.active_findings("C16") if e.get("deviation")})


def fc_deviations():
    return sorted({e["id"] for e in lib.active_findings(None) if e.get("id") in ("fc-prune-order", "fc-gap-start")})


def lin_cfg(module, spe=None, diag=False):
    d = "TRUE" if diag else "FALSE"
    if module == "LinearizeFC":
        devs = "{" + ", ".join('"%s"' % x for x in fc_deviations()) + "}"
        return ("SPECIFICATION LinSpec\nCONSTANTS\n  SPE = %d\n  KnownDeviations = %s\n  Diag = %s\nVIEW linView\n"
                "INVARIANTS DiagInv DiagPruneInv\nPOSTCONDITION Report\nCHECK_DEADLOCK FALSE\n" % (spe, devs, d))
    if module == "LinearizePK":
        devs = "{" + ", ".join('"%s"' % x for x in pk_deviations()) + "}"
        return ("SPECIFICATION LinSpec\nCONSTANTS\n  NKeys = 64\n  MaxIndex = 8\n  MaxHandles = 64\n  MaxCalls = 0\n"
                "  InPlaceOnly = FALSE\n  GenLookups = FALSE\n  KnownDeviations = %s\n  Diag = %s\nVIEW linView\n"
                "INVARIANT DiagInv\nPOSTCONDITION Report\nCHECK_DEADLOCK FALSE\n" % (devs, d))
    return ("SPECIFICATION LinSpec\nCONSTANTS\n  KnownDeviations = {}\n  Which = \"att\"\n  MaxCalls = 0\n  Diag = %s\n"
            "VIEW linView\nINVARIANT DiagInv\nPOSTCONDITION Report\nCHECK_DEADLOCK FALSE\n" % d)


def linearize(module, hists, spe=None, diag=False, timeout=1500):
    """hists: list of event lists. Returns (set of indices (0-based) that have a linearization, TLCResult)."""
    wd = lib.fresh_spec_copy()
    n = 0
    with open(os.path.join(wd, "trace.ndjson"), "w") as tf, open(os.path.join(wd, "index.ndjson"), "w") as xf:
        for k, evs in enumerate(hists):
            first = n + 1
            for e in evs:
                tf.write(json.dumps(e, separators=(",", ":")) + "\n")
                n += 1
            xf.write(json.dumps({"h": k, "first": first, "last": n}) + "\n")
    open(os.path.join(wd, "lin.cfg"), "w").write(lin_cfg(module, spe, diag))
    res = lib.tlc(module, cfg="lin.cfg", workdir=wd, workers=1, timeout=timeout, deque=True)
    shutil.rmtree(wd, ignore_errors=True)
    flat = " ".join(res.out.split())
    m = re.search(r'<<\s*"LINEARIZED",\s*\{([^}]*)\}\s*>>', flat)
    if res.rc != 0 or res.errors or m is None or "Model checking completed" not in res.out:
        raise lib.InfraError("TLC failed in %s:\n%s" % (module, res.out[-5000:]))
    ok = {int(x) - 1 for x in re.findall(r"\d+", m.group(1))}
    return ok, res


def diagnose(module, evs, spe=None):
    """Re-run one rejected history with Diag: the longest linearizable prefix and what blocks it."""
    ok, res = linearize(module, [evs], spe=spe, diag=True)
    flat = " ".join(res.out.split())
    best = None
    for m in re.finditer(r'<<\s*"DEADEND",\s*\d+,\s*(\d+),\s*(<<[^>]*>>),\s*(\{.*?\})\s*>>(?=\s*(?:<<\s*"|Model|$))', flat):
        k = int(m.group(1))
        if best is None or k > best[0]:
            best = (k, m.group(2), m.group(3))
    return {"linearizable": bool(ok), "placed": best[0] if best else 0,
            "prefix_order_ids": best[1] if best else "<<>>",
            "cannot_place": (best[2][:3000] if best else "(no dead end printed)")}


# ---------------------------------------------------------------- the check


class Run:
    def __init__(self):
        self.cov = collections.OrderedDict()
        self.states = self.transitions = 0
        self.violations = []     # (replay path, message)
        self.known = collections.OrderedDict()  # signature -> count
        self.samples = []
        self.histories_ok = 0
        self.histories = 0
        self.races_observed = 0
        self.digests = set()
        self.nontrivial = 0
        self.calls = 0

    def violation(self, name, content, msg):
        rp = lib.save_replay(PID, name, content)
        self.violations.append((rp, msg))

    def note_known(self, entry, what=""):
        sig = entry["signature"]
        self.known[sig] = self.known.get(sig, 0) + 1


def classify_reports(run, ex, reports, findings, origin, seed, excuse=None):
    """Every race report is an observation on the real code: a listed finding or a violation."""
    for n, rep in enumerate(reports):
        desc = rep.describe(ex)
        if not any(rep.zrnt_frames(side) for side in rep.sides):
            raise lib.InfraError("data race inside the harness itself (%s), not an observation of zrnt:\n%s" % (origin, rep.text[:3000]))
        run.races_observed += 1
        e = match_finding(desc, findings)
        if e is not None:
            run.note_known(e)
            continue
        sig = signature_of(desc)
        run.violation("race-%s-%d-seed%d.json" % (re.sub(r"\W+", "_", origin)[:60], n, seed),
                      {"kind": "race", "origin": origin, "signature": sig, "sides": desc, "report": rep.text[:6000]},
                      "data race observed on the real code (%s): %s" % (origin, sig))


def tiers(tier):
    if tier == "quick":
        return {"pair_iters": 3000, "gor": 3, "ops": 8,
                "hist": {"fc": 600, "pk": 800, "keyed": 500, "att": 600, "sync": 600},
                "probe_hist": 250, "shards": 2}
    return {"pair_iters": 20000, "gor": 4, "ops": 9,
            "hist": {"fc": 7000, "pk": 9000, "keyed": 6000, "att": 7000, "sync": 7000},
            "probe_hist": 2000, "shards": 8}


def run_check(pid, tier, seed, replay=None):
    t0 = lib.elapsed()
    if replay:
        return do_replay(replay, seed)
    run = Run()
    T = tiers(tier)
    findings = lib.active_findings(PID)
    build = {}

    def bg_build():
        try:
            build["conc"] = lib.build_harness("conc", race=True)
        except Exception as ex_:  # noqa: BLE001
            build["err"] = ex_
    bt = threading.Thread(target=bg_build)
    bt.start()

    # ---------------- part A
    ex = extract()
    comps = list(ex.components)
    need = {"ProtoForkChoice", "PubkeyCache", "CachedPubkey", "AttestationPool", "SyncCommitteePool"}
    if not need <= set(comps):
        raise lib.InfraError("lockextract did not find the expected components: %s" % comps)
    mres = lib.parallel_map(lambda c: model_check_component(ex, c, tier), comps, workers=4 if tier == "quick" else 3)
    model_findings = []
    for comp, (results, fnd) in zip(comps, mres):
        cc = run.cov.setdefault(comp, collections.OrderedDict())
        cc["lock_model_states"] = sum(r.states for r in results)
        cc["lock_model_runs"] = ["%d thread(s): %d states" % (r.threads, r.states) for r in results]
        cc["methods"] = len(ex.components[comp]["exported"])
        cc["paths"] = sum(ex.components[comp]["paths"].values())
        cc["model_races"] = sorted({"%s x %s on %s" % (f["a"], f["b"], f["field"]) for f in fnd if f["kind"] == "race"})
        cc["model_deadlocks"] = [f["detail"][:300] for f in fnd if f["kind"] != "race"]
        cc["extractor_warnings"] = ex.components[comp]["warnings"]
        run.states += sum(r.states for r in results)
        run.transitions += sum(r.transitions for r in results)
        model_findings += fnd

    lib.log("[%.0fs] lock models checked (%d components, %d model-level counterexamples)" % (lib.elapsed() - t0, len(comps), len(model_findings)))
    bt.join()
    if "err" in build:
        raise build["err"]
    concbin = build["conc"]
    probe = json.loads(lib.run([concbin, "seqprobe"], timeout=120, check=True).stdout.strip().splitlines()[-1])
    att_full = bool(probe.get("att_aggregate_ok")) and bool(probe.get("att_search_ok"))
    sync_full = bool(probe.get("sync_fresh_ok"))
    run.cov["sync_full"] = sync_full

    # ---------------- part B1: take every model-level counterexample to the real code
    pairs = collections.OrderedDict()
    for f in model_findings:
        if f["kind"] == "race":
            key = (f["comp"],) + tuple(sorted((f["a"], f["b"])))
            pairs.setdefault(key, []).append(f)
    racy_methods = collections.defaultdict(set)   # driver comp -> ops to leave out of the main mix

    def do_pair(key):
        comp, a, b = key
        return key, run_pair(concbin, comp, a, b, T["pair_iters"], seed, full=att_full)
    unrepro = []
    for key, pr in lib.parallel_map(do_pair, list(pairs), workers=4):
        comp, a, b = key
        cc = run.cov[comp]
        if pr["unsupported"]:
            raise lib.InfraError("model-level race %s.%s x %s.%s: harness/cmd/conc pair has no driver for it:\n%s"
                                 % (comp, a, comp, b, pr["stderr"][-500:]))
        if pr["blocked"]:
            run.violation("blocked-%s-%s-%s-seed%d.json" % (comp, a, b, seed),
                          {"kind": "blocked", "comp": comp, "a": a, "b": b, "stderr": pr["stderr"]},
                          "%s.%s x %s.%s: a call did not return (watchdog)" % (comp, a, comp, b))
            continue
        if pr["reports"]:
            cc.setdefault("pairs_reproduced", []).append("%s x %s" % (a, b))
            before = len(run.violations)
            classify_reports(run, ex, pr["reports"], findings, "pair %s.%s x %s.%s" % (comp, a, comp, b), seed)
            if len(run.violations) == before:
                for m in (a, b):
                    if (comp, m) in EXCLUDABLE:
                        drv, opname = EXCLUDABLE[(comp, m)]
                        racy_methods[drv].add(opname)
        elif pr["fatal"]:
            run.violation("fatal-%s-%s-%s-seed%d.json" % (comp, a, b, seed),
                          {"kind": "fatal", "comp": comp, "a": a, "b": b, "stderr": pr["stderr"]},
                          "%s.%s x %s.%s: the Go runtime aborted (%s)" % (comp, a, comp, b,
                                                                         re.search(r"fatal error: [^\n]*", pr["stderr"]).group(0)))
        else:
            unrepro.append("%s.%s x %s.%s on %s" % (comp, a, comp, b, sorted({f["field"] for f in pairs[key]})))
    for f in model_findings:
        if f["kind"] == "race":
            continue
        # deadlock / bad unlock / leaked lock / livelock in the model: run exactly these methods under the watchdog
        comp, a, b = f["comp"], f["a"], f["b"]
        one = f.get("threads", 1) == 1 or not b
        pr = run_pair(concbin, comp, a, b if (b and not one) else ("" if one else a), 100 if one else 400, seed, single=one,
                      full=att_full, calls=200 if one else 300)
        if pr["unsupported"]:
            raise lib.InfraError("model-level %s in %s (%s): no targeted driver: %s" % (f["kind"], comp, f["detail"][:300], pr["stderr"][-300:]))
        if pr["blocked"] or pr["fatal"] or pr["rc"] not in (0, 66):
            run.violation("%s-%s-%s-seed%d.json" % (f["kind"], comp, a, seed),
                          {"kind": f["kind"], "comp": comp, "a": a, "b": b, "model": f["detail"], "stderr": pr["stderr"]},
                          "%s of %s.%s%s found in the extracted lock model and reproduced on the real code: %s"
                          % (f["kind"], comp, a, (" x " + b) if b else "", headline(pr["stderr"])))
        elif pr["reports"]:
            classify_reports(run, ex, pr["reports"], findings, "pair %s.%s x %s" % (comp, a, b), seed)
        else:
            unrepro.append("%s of %s.%s%s" % (f["kind"], comp, a, (" x " + b) if b else ""))
    if unrepro and not run.violations:
        raise lib.InfraError("model imprecision: counterexamples of the extracted lock model did not reproduce on the real "
                             "code (refine harness/cmd/lockextract or the pair drivers): %s" % "; ".join(unrepro))

    lib.log("[%.0fs] targeted tests done (%d pairs)" % (lib.elapsed() - t0, len(pairs)))
    if run.violations:
        # observed on the real code already: report now, the random histories would only repeat it
        return finish(run, tier, seed, t0, model_findings, att_full, skipped_histories=True)
    # ---------------- part B2: concurrent histories
    jobs = []
    for drv, n in T["hist"].items():
        per = max(1, n // T["shards"])
        for s in range(T["shards"]):
            jobs.append((drv, "main", seed * 100 + s, per, sorted(racy_methods.get(drv, ()))))
    # probes for the listed non-race finding and for the ops left out of the main mix
    jobs.append(("pk", "appendrace", seed, T["probe_hist"], sorted(racy_methods.get("pk", ()))))
    for drv, opsx in racy_methods.items():
        mix = "decompress" if drv == "pk" else "main"
        jobs.append((drv, mix, seed * 100 + 77, T["probe_hist"], []))

    def do_record(job):
        drv, mix, sd, n, excl = job
        return job, record(concbin, drv, sd, n, T["gor"], T["ops"], mix=mix, exclude=excl,
                           full=(att_full if drv == "att" else sync_full if drv == "sync" else False), name="%s-%s-%d-%d" % (drv, mix, sd, len(excl)))
    recs = lib.parallel_map(do_record, jobs, workers=2)

    lib.log("[%.0fs] histories recorded (%d child processes)" % (lib.elapsed() - t0, len(jobs)))
    lin_jobs = []   # (module, spe, [events...], driver, mix)
    for job, rec in recs:
        drv, mix, sd, n, excl = job
        cc = run.cov.setdefault("driver:" + drv, collections.OrderedDict())
        cc.setdefault("left_out_of_main_mix", sorted(racy_methods.get(drv, ())))
        if rec["reports"]:
            classify_reports(run, ex, rec["reports"], findings, "histories %s/%s" % (drv, mix), seed)
        elif rec["fatal"]:
            run.violation("fatal-%s-%s-seed%d.json" % (drv, mix, seed), {"kind": "fatal", "driver": drv, "mix": mix, "stderr": rec["stderr"]},
                          "the Go runtime aborted while running %s/%s: %s" % (drv, mix, re.search(r"fatal error: [^\n]*", rec["stderr"]).group(0)))
        events = lib.read_ndjson(rec["path"]) if os.path.exists(rec["path"]) else []
        hs = split_histories(events)
        by_spe = collections.defaultdict(list)
        for h, evs in hs.items():
            run.histories += 1
            run.calls += len(evs)
            cc["histories"] = cc.get("histories", 0) + 1
            cc["calls"] = cc.get("calls", 0) + len(evs)
            blocked = [e for e in evs if e["out"] == "timeout"]
            if blocked:
                run.violation("blocked-%s-h%d-seed%d.ndjson" % (drv, h, seed), "\n".join(json.dumps(e) for e in evs) + "\n",
                              "%s: call %s (id %d) did not return within the watchdog" % (drv, blocked[0]["ev"], blocked[0]["id"]))
                continue
            conc_ops = [e for e in evs if e["g"] > 0]
            overlap = any(a["g"] != b["g"] and a["inv"] < b["rs"] and b["inv"] < a["rs"] for a in conc_ops for b in conc_ops)
            dg = lib.digest([[e["g"], e["ev"], e.get("q"), e.get("ret")] for e in evs])
            if dg not in run.digests:
                run.digests.add(dg)
                if overlap:
                    run.nontrivial += 1
            cc["overlapping"] = cc.get("overlapping", 0) + (1 if overlap else 0)
            spe = evs[0].get("spe") if drv == "fc" else None
            by_spe[spe].append(evs)
        if len(run.samples) < 4 and events:
            run.samples.append([{k: e[k] for k in ("g", "inv", "rs", "ev", "ret") if k in e} for e in events[:5]])
        for spe, lst in by_spe.items():
            lin_jobs.append((DRIVERS[drv][1], spe, lst, drv, mix))

    def do_lin(j):
        module, spe, lst, drv, mix = j
        return j, linearize(module, lst, spe=spe)
    for (module, spe, lst, drv, mix), (ok, res) in lib.parallel_map(do_lin, lin_jobs, workers=10):
        run.states += res.distinct
        run.transitions += res.generated
        cc = run.cov["driver:" + drv]
        cc["linearized"] = cc.get("linearized", 0) + len(ok)
        cc["linearization_states"] = cc.get("linearization_states", 0) + res.distinct
        run.histories_ok += len(ok)
        bad = [k for k in range(len(lst)) if k not in ok]
        cc["not_linearizable"] = cc.get("not_linearizable", 0) + len(bad)
        # a listed non-race finding explains a rejected history iff the history linearizes once exactly the calls with
        # the listed wrong reply are taken out (one more batched TLC run); everything else is diagnosed one by one
        for entry in [e for e in findings if e.get("match", {}).get("type") == "nonlinearizable"]:
            m = entry["match"]
            if not bad or m.get("driver") != drv or (m.get("mix") and m["mix"] != mix):
                continue
            def is_stuck(e, m=m):
                return e["g"] > 0 and e["ev"] == m.get("stuck_ev") and isinstance(e.get("ret"), dict) and e["ret"].get("kind") == m.get("stuck_reply")
            cand = [k for k in bad if any(is_stuck(e) for e in lst[k])]
            if not cand:
                continue
            ok2, res2 = linearize(module, [[e for e in lst[k] if not is_stuck(e)] for k in cand], spe=spe)
            run.states += res2.distinct
            run.transitions += res2.generated
            for pos, k in enumerate(cand):
                if pos in ok2:
                    run.note_known(entry)
                    bad.remove(k)
        for k in bad[:6]:
            evs = lst[k]
            dg = diagnose(module, evs, spe=spe)
            if dg["linearizable"]:
                raise lib.InfraError("history rejected in the batch but accepted alone (%s): search is not deterministic?" % drv)
            content = {"kind": "nonlinearizable", "driver": drv, "module": module, "spe": spe, "history": evs, "diagnosis": dg}
            run.violation("nolin-%s-h%d-seed%d.json" % (drv, evs[0]["h"], seed), content,
                          "%s history %d has NO linearization: after placing %d of %d operations (order of ids %s) none of %s can be placed"
                          % (drv, evs[0]["h"], dg["placed"], len(evs), dg["prefix_order_ids"], dg["cannot_place"][:700]))
        for k in bad[6:]:
            run.violations.append(("(not saved)", "%s history %d has no linearization (not diagnosed: more than 6 in one batch)" % (drv, lst[k][0]["h"])))
        cc["not_linearizable"] = cc.get("not_linearizable", 0) + len(bad)

    lib.log("[%.0fs] linearization searched (%d TLC runs)" % (lib.elapsed() - t0, len(lin_jobs)))
    return finish(run, tier, seed, t0, model_findings, att_full)


def finish(run, tier, seed, t0, model_findings, att_full, skipped_histories=False):
    for sig, n in run.known.items():
        lib.report_known(PID, "%s (observed %d time(s) in this run)" % (sig, n))
    for rp, msg in run.violations[:8]:
        lib.report_violation(PID, rp, msg)
    for drv in ([] if skipped_histories else DRIVERS):
        cc = run.cov.get("driver:" + drv, {})
        if cc.get("histories", 0) == 0 and not run.violations:
            raise lib.InfraError("vacuous run: no history recorded for driver %s" % drv)
        if cc.get("overlapping", 0) * 10 < cc.get("histories", 0) and not run.violations:
            raise lib.InfraError("vacuous run: too few histories of %s had overlapping calls (%s of %s)"
                                 % (drv, cc.get("overlapping"), cc.get("histories")))
    cov = {
        "states": run.states, "transitions": run.transitions,
        "traces_validated_against_impl": run.histories_ok,
        "samples": run.samples or [["none"]],
        "evaluations": run.calls, "distinct_nontrivial": run.nontrivial,
        "rule": "one evaluation = one call on a shared real object with recorded invocation/response order; histories are "
                "distinct by hash of their per-goroutine call/reply sequences and non-trivial when two calls of different "
                "goroutines overlapped in time",
        "histories": run.histories, "races_observed": run.races_observed,
        "known_findings_observed": dict(run.known),
        "per_component": run.cov,
        "attestation_pool_full_patterns": att_full, "sync_pool_full_patterns": run.cov.get("sync_full", None),
        "model_counterexamples": ["%s %s.%s x %s %s" % (f["kind"], f["comp"], f["a"], f["b"], f.get("field", "")) for f in model_findings][:80],
        "exhaustive": False,
        "exhaustive_part": "Locks.tla: every interleaving of 1 and 2 threads (thorough: 3, deadlock/leak only) each running any "
                           "path of any exported method of the extracted lock program, call depth <= 5",
    }
    lib.write_evidence(PID, tier, seed, cov, lib.elapsed() - t0, violations=len(run.violations),
                       assumptions=["TLC, SANY, CommunityModules Json", "Go race detector (observation instrument)",
                                    "harness/cmd/lockextract abstraction (syntactic; see its header)",
                                    "sequential specifications ForkChoice.tla / PubkeyCache.tla / Pools.tla",
                                    "callbacks passed to the components do not touch the component"])
    return 1 if run.violations else 0


# ---------------------------------------------------------------- replay


def do_replay(path, seed):
    data = open(path).read()
    try:
        obj = json.loads(data)
    except ValueError:
        obj = {"kind": "blocked-history", "history": [json.loads(l) for l in data.splitlines() if l.strip()]}
    kind = obj.get("kind")
    if kind == "nonlinearizable":
        dg = diagnose(obj["module"], obj["history"], spe=obj.get("spe"))
        lib.log("replayed linearization search: %s" % json.dumps(dg)[:1500])
        if not dg["linearizable"]:
            lib.report_violation(PID, path, "recorded history still has no linearization")
            return 1
        return 0
    if kind in ("race", "blocked", "fatal", "deadlock", "badunlock", "lockleak", "livelock"):
        concbin = lib.build_harness("conc", race=True)
        comp, a, b = obj.get("comp"), obj.get("a"), obj.get("b")
        if not comp and obj.get("sides"):
            sides = obj["sides"]
            comp, a, b = sides[0][0], sides[0][1], (sides[1][1] if len(sides) > 1 else sides[0][1])
        if not comp:
            lib.log("replay: nothing to re-run for this record")
            return 0
        pr = run_pair(concbin, comp, a, b or a, 5000, seed, single=(kind in ("badunlock", "lockleak") or not b))
        if pr["reports"] or pr["blocked"] or pr["fatal"]:
            lib.report_violation(PID, path, "reproduced: %s" % headline(pr["stderr"]))
            return 1
        return 0
    if kind == "blocked-history":
        lib.log("replay: a blocked history is a recording; re-run the check to re-observe it")
        return 0
    raise lib.InfraError("unknown replay kind %r" % kind)


# ---------------------------------------------------------------- binding self-test


def copy_repo(dst):
    shutil.copytree(lib.REPO, dst, ignore=shutil.ignore_patterns(".git"))
    return dst


def mutate(root, rel, old, new, count=1):
    p = os.path.join(root, rel)
    s = open(p).read()
    if s.count(old) < 1:
        raise lib.InfraError("selftest mutation does not apply to %s: %r" % (rel, old))
    open(p, "w").write(s.replace(old, new, count))


def check_on(repo, tier="quick", seed=1):
    env = dict(os.environ)
    env["VERIF_REPO"] = repo
    env["VERIF_SEED"] = str(seed)
    p = subprocess.run([os.path.join(lib.VERIF, "check"), PID, "--tier", tier], env=env, stdout=subprocess.PIPE,
                       stderr=subprocess.PIPE, text=True, timeout=3000)
    return p.returncode, p.stdout, p.stderr


def selftest():
    """Binding demonstration (./check selftest locks). True iff every item behaves as expected."""
    items = selftest_items()
    for name, ok, detail in items:
        lib.log("selftest locks: %-100s %s%s" % (name, "ok" if ok else "FAILED", "" if ok else "\n    " + detail))
    return all(ok for _, ok, _ in items)


def selftest_items():
    out = []
    # 0. the hand-written toy program: race, then deadlock
    ex = Extraction(lib.SPEC_DIR, {"components": [], "sites": []})
    toy = os.path.join(lib.SPEC_DIR, "LockPrograms.tla")
    r = run_locks(ex, "Toy", 2, liveness=False, races=True, collect=True, programs_file=toy)
    out.append(("toy: NoDataRace finds Lazy x Lazy and Lazy x Peek on cache", {("Lazy", "Lazy"), ("Lazy", "Peek")} <=
                {tuple(sorted(x[:2])) for x in r.races} and all(x[2] == "cache" for x in r.races), str(sorted(r.races))[:300]))
    r = run_locks(ex, "Toy", 1, liveness=False, races=False, programs_file=toy)
    out.append(("toy: single-thread deadlock of Twice (re-entrant Lock)", bool(r.deadlock) and r.deadlock[0].get("root") == "Twice",
                json.dumps(r.deadlock)[:300]))
    # 1. lock removed from one method
    d1 = copy_repo(os.path.join(lib.scratch("selftest"), "m1"))
    mutate(d1, "eth2/forkchoice/forkchoice.go",
           "func (fc *ProtoForkChoice) ProcessBlock(parentRoot Root, blockRoot Root, blockSlot Slot, justifiedEpoch Epoch, finalizedEpoch Epoch) (ok bool) {\n\tfc.mu.Lock()\n\tdefer fc.mu.Unlock()\n",
           "func (fc *ProtoForkChoice) ProcessBlock(parentRoot Root, blockRoot Root, blockSlot Slot, justifiedEpoch Epoch, finalizedEpoch Epoch) (ok bool) {\n")
    rc, so, se = check_on(d1)
    out.append(("mutant: fc.mu.Lock() removed from ProcessBlock => model race + race detector => VIOLATION",
                rc == 1 and "VIOLATION property=C17" in so and "ProcessBlock" in se, (so + se)[-600:]))
    # 2. a locked method calls an exported locked method
    d2 = copy_repo(os.path.join(lib.scratch("selftest"), "m2"))
    mutate(d2, "eth2/forkchoice/forkchoice.go", "\treturn fc.protoArray.FindHead(root, slot)\n", "\treturn fc.FindHead(root, slot)\n")
    rc, so, se = check_on(d2)
    out.append(("mutant: Head() calls the exported FindHead() while holding mu => model deadlock + watchdog => VIOLATION",
                rc == 1 and "VIOLATION property=C17" in so and "deadlock" in (so + se), (so + se)[-600:]))
    # 3. corrupt one recorded reply
    concbin = lib.build_harness("conc", race=True)
    rec = record(concbin, "keyed", 7, 40, 3, 8)
    hs = list(split_histories(lib.read_ndjson(rec["path"])).values())
    ok0, _ = linearize("LinearizePools", hs)
    victim = None
    for k, evs in enumerate(hs):
        for e in evs:
            if e["ev"] == "AddKeyed" and e["ret"] == "ok" and e["g"] > 0:
                victim = (k, e)
                break
        if victim:
            break
    victim[1]["ret"] = "err"
    ok1, _ = linearize("LinearizePools", hs)
    out.append(("corrupted reply (AddKeyed ok -> err) => that history has no linearization",
                len(ok0) == len(hs) and victim[0] not in ok1 and len(ok1) == len(hs) - 1, "before %d/%d, after %d" % (len(ok0), len(hs), len(ok1))))
    return out
