"""StateStore family (C15, history half of C05): spec/StateStore.tla.

1. exhaustive model checking of a tiny instance (TypeOK, Frame/Copy/Store action properties),
2. per fork: `statestore caps` derives the field table (schema of <fork>.BeaconState from Schemas.tla via the TLC export
   + accessor binding), TLC -simulate generates operation sequences over that table, and `statestore replay` executes
   them on real beacon states: after every step every live handle is projected with Raw(spec) and compared with the
   model's store; getters, element getters, sub-view getters are compared with the stored content; the view root is
   compared with the root of the state rebuilt from its own encoding and with the struct root (C05 history).
"""
import json
import os
import re
import time

import lib
import ssz

FORKS = ["phase0", "altair", "bellatrix", "capella", "deneb", "electra"]
FAMILY_FINDINGS = ssz.FAMILY_FINDINGS

# read forms of the typed sub-views that must have been exercised (and compared with the stored content) on every fork
# that has the field: (field, read form); see checkBulkReads / checkGetters in harness/cmd/statestore
REQUIRED_READS = [
    ("validators", "count"), ("validators", "element_getters"), ("validators", "flatten"),
    ("validators", "flatten_bulk"), ("validators", "iter"),
    ("balances", "all"), ("balances", "length"), ("balances", "element_getters"), ("balances", "iter"),
    ("block_roots", "element_getters"), ("state_roots", "element_getters"), ("randao_mixes", "element_getters"),
    ("slashings", "element_getters"), ("slashings", "total"),
    ("eth1_data_votes", "length"), ("eth1_data_votes", "count"),
    ("previous_epoch_attestations", "length"), ("previous_epoch_attestations", "element_raw"),
    ("current_epoch_attestations", "length"), ("current_epoch_attestations", "element_raw"),
    ("previous_epoch_participation", "raw"), ("previous_epoch_participation", "element_getters"),
    ("current_epoch_participation", "raw"), ("current_epoch_participation", "element_getters"),
    ("inactivity_scores", "element_getters"),
    ("current_sync_committee", "pubkeys_flatten+aggregate"), ("next_sync_committee", "pubkeys_flatten+aggregate"),
    ("latest_execution_payload_header", "raw"),
]

# presets the histories run under: the published minimal preset and the two custom presets of Schemas.tla whose vector
# lengths are NOT powers of two (tiny_a: roots 5, mixes 6, slashings 3, sync committee 12; tiny_b: 9, 17, 5, 36), with the
# share of the tier's behaviours each gets
STATE_PRESETS = ["minimal", "tiny_a", "tiny_b"]
PRESET_SHARE = {"minimal": 0.4, "tiny_a": 0.3, "tiny_b": 0.3}

TIERS = {
    "quick": dict(behaviours=150, steps=10, advance=2, nvals=3, mc_steps=3, mc_vals=1),
    "thorough": dict(behaviours=1200, steps=12, advance=3, nvals=4, mc_steps=4, mc_vals=1),
}


def tla_value(x):
    if isinstance(x, bool):
        return "TRUE" if x else "FALSE"
    if isinstance(x, str):
        return json.dumps(x)
    if isinstance(x, int):
        return str(x)
    if isinstance(x, list):
        return "<<" + ", ".join(tla_value(e) for e in x) + ">>"
    if isinstance(x, dict):
        return "[" + ", ".join("%s |-> %s" % (k, tla_value(v)) for k, v in x.items()) + "]"
    raise ValueError(x)


def model_check(cfg):
    mc = ("CONSTANTS\n  HandleSeq <- TwoHandles\n  Fields <- TinyFields\n  NVals = %d\n  MaxSteps = %d\n  MaxAdvance = 1\n"
          "INIT Init\nNEXT Next\nINVARIANT TypeOK\nPROPERTIES FrameProperty CopyProperty StoreProperty RotateProperty\nCHECK_DEADLOCK FALSE\n"
          % (cfg["mc_vals"], cfg["mc_steps"]))
    wd = lib.fresh_spec_copy({"SSMC.cfg": mc})
    res = lib.tlc("StateStoreMC", cfg="SSMC.cfg", workdir=wd, workers=max(2, lib.NCPU // 2), timeout=1200, heap="8g")
    lib.tlc_must_pass(res, "StateStoreMC exhaustive")
    if res.property_violated:
        raise lib.InfraError("StateStore model violates its own property:\n" + res.out[-3000:])
    return res


def parse_behaviours(out):
    seen, behs = set(), []
    for line in out.splitlines():
        if line.startswith('<<"BEHAVIOUR", "'):
            body = line.strip()[len('<<"BEHAVIOUR", '):-2]
            try:
                s = json.loads(body)
            except ValueError as ex:
                raise lib.InfraError("cannot parse a printed behaviour: %s" % ex)
            if s in seen:
                continue
            seen.add(s)
            behs.append(s)
    return behs


def run_fork(job):
    fork, schemas, binary, cfg, seed = job[:5]
    preset = job[5] if len(job) > 5 else "minimal"
    p = lib.run([binary, "caps", "-fork", fork, "-schemas", schemas], env=lib.GO_ENV, timeout=300)
    if p.returncode != 0:
        raise lib.InfraError("statestore caps %s failed: %s" % (fork, p.stderr[-3000:]))
    fields = json.loads(p.stdout)
    public = [{k: f[k] for k in ("name", "kind", "len", "cap", "ops")} for f in fields]
    mod = "---- MODULE StateStoreFields ----\nForkFields == %s\n====\n" % tla_value(public)
    simcfg = ("CONSTANTS\n  HandleSeq <- ThreeHandles\n  Fields <- SimFields\n  NVals = %d\n  MaxSteps = %d\n  MaxAdvance = %d\n"
              "INIT SimInit\nNEXT SimNext\nCHECK_DEADLOCK FALSE\n" % (cfg["nvals"], cfg["steps"], cfg["advance"]))
    wd = lib.fresh_spec_copy({"StateStoreFields.tla": mod, "Sim.cfg": simcfg})
    res = lib.tlc("StateStoreSim", cfg="Sim.cfg", workdir=wd, workers=1, timeout=1500, heap="4g",
                  simulate="num=%d" % cfg["behaviours"], depth=2 * cfg["steps"] + 3,
                  seed=seed * 31 + FORKS.index(fork) + 7 * STATE_PRESETS.index(preset))
    if res.errors or res.rc != 0:
        raise lib.InfraError("StateStore simulation for %s failed:\n%s" % (fork, res.out[-3000:]))
    behs = parse_behaviours(res.out)
    if not behs:
        raise lib.InfraError("StateStore simulation for %s printed no behaviour" % fork)
    bpath = os.path.join(wd, "behaviours.ndjson")
    with open(bpath, "w") as f:
        f.write("\n".join(behs) + "\n")
    rpath = os.path.join(wd, "report.ndjson")
    p = lib.run([binary, "replay", "-fork", fork, "-schemas", schemas, "-behaviours", bpath, "-seed", str(seed), "-out", rpath],
                env=lib.GO_ENV, timeout=1500)
    if p.returncode != 0:
        raise lib.InfraError("statestore replay %s failed: %s %s" % (fork, p.stdout[-1000:], p.stderr[-4000:]))
    m = re.search(r"The number of states generated: (\d+)", res.out)
    gen = int(m.group(1)) if m else 0
    methods = {}
    if preset == "minimal":
        p = lib.run([binary, "methods", "-fork", fork, "-schemas", schemas], env=lib.GO_ENV, timeout=300)
        if p.returncode != 0:
            raise lib.InfraError("statestore methods %s failed: %s" % (fork, p.stderr[-2000:]))
        methods = json.loads(p.stdout.splitlines()[0])
    return {"fork": fork, "preset": preset, "fields": public, "behaviours": behs, "reports": lib.read_ndjson(rpath),
            "generated": gen, "tlc_wall": res.wall, "methods": methods}


def match_finding(entries, pid, fork, dev):
    for e in entries:
        m = e.get("match_state")
        if not m or e.get("property") != pid:
            continue
        if m.get("class") and m["class"] != dev["class"]:
            continue
        if m.get("class_in") and dev["class"] not in m["class_in"]:
            continue
        if m.get("field") and not re.fullmatch(m["field"], dev.get("field", "")):
            continue
        if m.get("op") and not re.fullmatch(m["op"], dev.get("op", "")):
            continue
        if m.get("forks") and fork not in m["forks"]:
            continue
        if m.get("detail") and not re.search(m["detail"], dev.get("detail", "")):
            continue
        if m.get("detail_check") == "uint8_append_byte_clear":
            # element 4k of the list lost exactly one of its bytes 1..3
            mm = re.search(r'\[(\d+)\]: expected "(\d+)", state has "(\d+)"', dev.get("detail", ""))
            if not mm:
                continue
            idx, exp, got = int(mm.group(1)), int(mm.group(2)), int(mm.group(3))
            if idx % 4 != 0 or not any(got == exp & ~(0xFF << (8 * b)) and got != exp for b in (1, 2, 3)):
                continue
        return e
    return None


def run(tier, seed):
    """Runs MC + simulation + replay for all forks. Returns (coverage, devs) with devs tagged by property."""
    cfg = TIERS[tier]
    t0 = time.time()
    binary = lib.build_harness("statestore")
    schemas_dir, exp_res = ssz.export_schemas()
    mc = model_check(cfg)
    jobs = []
    for f in FORKS:
        for preset in STATE_PRESETS:
            c = dict(cfg)
            c["behaviours"] = max(4, int(cfg["behaviours"] * PRESET_SHARE[preset]))
            jobs.append((f, os.path.join(schemas_dir, "schemas_%s.json" % preset), binary, c, seed, preset))
    outs = lib.parallel_map(run_fork, jobs, workers=ssz.TLC_SLOTS)
    cov = {"states": mc.distinct + exp_res.distinct, "transitions": mc.generated + exp_res.generated,
           "mc_exhaustive": {"distinct": mc.distinct, "generated": mc.generated, "depth": mc.depth,
                             "constants": "2 handles, 4 fields (2 scalars, vector[2], list<=2), NVals=%d, MaxSteps=%d" % (
                                 cfg["mc_vals"], cfg["mc_steps"])},
           "behaviours_replayed": 0, "steps_replayed": 0, "per_fork": {}, "samples": [], "distinct": 0,
           "presets": STATE_PRESETS, "state_methods": {}}
    devs = []
    distinct = set()
    field_ops = {}
    read_cov = {}
    fork_stats = {}
    nbeh = {}
    for o in outs:
        cov["transitions"] += o["generated"]
        fork = o["fork"]
        st = fork_stats.setdefault(fork, {})
        for r in o["reports"]:
            if r.get("summary"):
                for k, v in r["stats"].items():
                    st[k] = st.get(k, 0) + v
                    if o["preset"] != "minimal":
                        st["oddpreset|" + k] = st.get("oddpreset|" + k, 0) + v
                continue
            nbeh[fork] = nbeh.get(fork, 0) + 1
            cov["steps_replayed"] += r["steps"]
            distinct.add(r["hash"] + o["preset"])
            for d in (r.get("devs") or []):
                devs.append({"prop": d["prop"], "fork": fork, "preset": o["preset"], "dev": d,
                             "behaviour": o["behaviours"][r["behaviour"] - 1]})
        if o["methods"]:
            cov["state_methods"][fork] = o["methods"]
        if o["preset"] == "minimal":
            field_ops[fork] = [o["fields"], None]
        if o["behaviours"] and len(cov["samples"]) < 3 and o["preset"] != "minimal":
            b = json.loads(o["behaviours"][0])
            cov["samples"].append({"fork": fork, "preset": o["preset"],
                                   "ops": [[s["op"], s["h"], s["f"], s["i"], s["v"], s["h2"]] for s in b]})
    for fork in FORKS:
        st = fork_stats[fork]
        fields = field_ops[fork][0]
        cov["behaviours_replayed"] += nbeh.get(fork, 0)
        ops = {k[3:]: v for k, v in st.items() if k.startswith("op_")}
        fcov = {}
        for k, v in st.items():
            if k.startswith("field_"):
                name, op = k[6:].rsplit("_", 1)
                fcov.setdefault(name, {})[op] = v
        reads = {}
        for k, v in st.items():
            if k.startswith("read|"):
                _, name, form = k.split("|", 2)
                reads.setdefault(name, {})[form] = v
        read_cov[fork] = reads
        field_ops[fork] = (fields, fcov)
        cov["per_fork"][fork] = {
            "behaviours": nbeh.get(fork, 0), "ops": ops, "fields": len(fields),
            "fields_written": sum(1 for f in fields if fcov.get(f["name"])),
            "comparisons": st.get("comparisons", 0), "getter_calls": st.get("getter_calls", 0),
            "element_reads": st.get("element_reads", 0), "subview_getters": st.get("subview_getters", 0),
            "root_checks": st.get("root_checks", 0),
            "vector_length_not_power_of_two": st.get("vector_length_not_power_of_two", 0),
            "starts": {k: st.get(k, 0) for k in ("start_constructor_built", "start_decoded_from_bytes")},
            "fill_SeedRandao_on_odd_presets": st.get("oddpreset|op_fill", 0),
            "rotate_with_distinct_committees": st.get("rotate_with_distinct_committees", 0),
            "advance": {k: st.get(k, 0) for k in ("advance_ok", "advance_errors", "advance_panicked", "advance_refused")},
        }
    cov["distinct"] = len(distinct)
    cov["traces_validated_against_impl"] = cov["behaviours_replayed"]
    cov["evaluations"] = cov["steps_replayed"]
    cov["distinct_nontrivial"] = len(distinct)
    cov["rule"] = ("behaviours are generated by TLC -simulate from StateStoreSim (kind of step chosen uniformly among the "
                   "enabled kinds, then its parameters); evaluations = steps replayed on real states; distinct = hash of "
                   "the behaviour; every behaviour consists of %d state-changing steps, so all are non-trivial" % cfg["steps"])
    # vacuity guards
    holes = []
    for fork, (fields, fcov) in field_ops.items():
        for f in fields:
            if not fcov.get(f["name"]):
                holes.append("%s.%s never written" % (fork, f["name"]))
        pf = cov["per_fork"][fork]
        for op in ("copy", "advance", "load", "addvalidator", "scribble"):
            if pf["ops"].get(op, 0) == 0:
                holes.append("%s: action %s never taken" % (fork, op))
        if fork != "electra" and pf["advance"]["advance_ok"] == 0:
            holes.append("%s: no Advance succeeded" % fork)
        if pf["vector_length_not_power_of_two"] == 0:
            holes.append("%s: vector_length_not_power_of_two is zero (no root check on a non-power-of-two vector)" % fork)
        if pf["starts"]["start_constructor_built"] == 0 or pf["starts"]["start_decoded_from_bytes"] == 0:
            holes.append("%s: start states %s" % (fork, pf["starts"]))
        if pf["fill_SeedRandao_on_odd_presets"] == 0:
            holes.append("%s: SeedRandao never driven under a non-power-of-two preset" % fork)
        if fork != "phase0":
            if pf["ops"].get("rotate", 0) == 0 or pf["rotate_with_distinct_committees"] == 0:
                holes.append("%s: RotateSyncCommittee never driven from distinct committees" % fork)
        if fork == "bellatrix" and read_cov[fork].get("latest_execution_payload_header", {}).get("is_transition_completed", 0) == 0:
            holes.append("bellatrix: IsTransitionCompleted never compared")
    for fork, (fields, _) in field_ops.items():
        names = {f["name"] for f in fields}
        for name, form in REQUIRED_READS:
            if name in names and read_cov[fork].get(name, {}).get(form, 0) == 0:
                holes.append("%s.%s never read via %s" % (fork, name, form))
    for fork, (fields, _) in field_ops.items():
        st = fork_stats[fork]
        for f in fields:
            if "addvalidator" in f["ops"] and st.get("addvalidator_list|" + f["name"], 0) == 0:
                holes.append("%s: AddValidator never checked on %s" % (fork, f["name"]))
        if not any("addvalidator" in f["ops"] for f in fields):
            holes.append("%s: no per-validator list is bound to AddValidator" % fork)
        for k in ("scribbled_arguments", "scribbled_argument_cells", "scribbled_results|Raw", "scribbled_results|latest_block_header",
                  "subview_setter_args_scribbled"):
            if st.get(k, 0) == 0:
                holes.append("%s: %s is zero" % (fork, k))
        cov["per_fork"][fork]["aliasing"] = {k: v for k, v in st.items() if k.startswith("scribbled") or k.startswith("subview_setter_args")}
        cov["per_fork"][fork]["addvalidator_lists"] = {k.split("|", 1)[1]: v for k, v in st.items() if k.startswith("addvalidator_list|")}
    cov["read_forms"] = read_cov
    if holes:
        raise lib.InfraError("StateStore coverage holes: " + "; ".join(holes[:15]))
    cov["wall"] = time.time() - t0
    return cov, devs


def adjudicate(pid, devs):
    entries = [e for e in ssz.load_findings()]
    viol, known = [], {}
    for d in devs:
        if d["prop"] != pid:
            continue
        e = match_finding(entries, pid, d["fork"], d["dev"])
        if e is None:
            viol.append(d)
        else:
            ent = known.setdefault(e["id"], [e, 0, d])
            ent[1] += 1
    return viol, known


def report(pid, viol, known):
    for eid, (e, cnt, ex) in sorted(known.items()):
        lib.report_known(pid, "%s [%s] observed %d times, e.g. %s %s.%s: %s" % (
            e["signature"], eid, cnt, ex["fork"], ex["dev"]["op"], ex["dev"]["field"], ex["dev"]["detail"][:160]))
    seen = set()
    for d in viol:
        key = (d["fork"], d["dev"]["class"], d["dev"]["field"], d["dev"]["op"])
        if key in seen:
            continue
        seen.add(key)
        name = "statestore_%s_%s_%s_%s_%s.json" % (d["fork"], d.get("preset", "minimal"), d["dev"]["class"],
                                                   d["dev"]["field"] or "state", d["dev"]["op"])
        path = lib.save_replay(pid, name, {"kind": "statestore-behaviour", "property": pid, "fork": d["fork"], "preset": d.get("preset", "minimal"),
                                           "behaviour": json.loads(d["behaviour"]), "deviation": d["dev"]})
        lib.report_violation(pid, path, "%s step %d %s(%s): %s: %s" % (
            d["fork"], d["dev"]["step"], d["dev"]["op"], d["dev"]["field"], d["dev"]["class"], d["dev"]["detail"][:500]))
        if len(seen) >= 12:
            break
    return 1 if viol else 0


def replay(pid, path, seed=None):
    doc = json.load(open(path))
    if doc.get("kind") != "statestore-behaviour":
        raise lib.InfraError("not a statestore replay file")
    binary = lib.build_harness("statestore")
    schemas_dir, _ = ssz.export_schemas()
    wd = lib.scratch("ssreplay")
    bpath = os.path.join(wd, "b.ndjson")
    open(bpath, "w").write(json.dumps(doc["behaviour"]) + "\n")
    rpath = os.path.join(wd, "r.ndjson")
    p = lib.run([binary, "replay", "-fork", doc["fork"], "-schemas",
                 os.path.join(schemas_dir, "schemas_%s.json" % doc.get("preset", "minimal")),
                 "-behaviours", bpath, "-seed", str(seed if seed is not None else lib.seed_from_env()), "-out", rpath],
                env=lib.GO_ENV, timeout=600)
    if p.returncode != 0:
        raise lib.InfraError("replay failed: " + p.stderr[-3000:])
    devs = []
    for r in lib.read_ndjson(rpath):
        if r.get("summary"):
            continue
        for d in (r.get("devs") or []):
            devs.append({"prop": d["prop"], "fork": doc["fork"], "dev": d, "behaviour": json.dumps(doc["behaviour"])})
    viol, known = adjudicate(pid, devs)
    return report(pid, viol, known)


_cache = {}


def run_cached(tier, seed):
    key = (tier, seed)
    if key not in _cache:
        _cache[key] = run(tier, seed)
    return _cache[key]


def run_history(pid, tier, seed):
    """Entry for C05: (rc, coverage, violations)"""
    cov, devs = run_cached(tier, seed)
    viol, known = adjudicate(pid, devs)
    rc = report(pid, viol, known)
    c = dict(cov)
    c["known_findings_observed"] = {k: v[1] for k, v in known.items()}
    return rc, c, len(viol)


def selftest():
    """A corrupted model trace must be rejected by the replayer; canned accessor mutants must be flagged."""
    import subprocess
    ok = True
    binary = lib.build_harness("statestore")
    schemas_dir, _ = ssz.export_schemas()
    schemas = os.path.join(schemas_dir, "schemas_minimal.json")
    cfg = dict(TIERS["quick"])
    cfg["behaviours"] = 6
    out = run_fork(("altair", schemas, binary, cfg, 1))
    wd = lib.scratch("ssself")

    def replay_lines(lines, tag):
        bp = os.path.join(wd, "b_%s.ndjson" % tag)
        open(bp, "w").write("\n".join(lines) + "\n")
        rp = os.path.join(wd, "r_%s.ndjson" % tag)
        p = lib.run([binary, "replay", "-fork", "altair", "-schemas", schemas, "-behaviours", bp, "-seed", "1", "-out", rp],
                    env=lib.GO_ENV, timeout=600)
        if p.returncode != 0:
            raise lib.InfraError("selftest replay failed: " + p.stderr[-2000:])
        entries = ssz.load_findings()
        n = 0
        for r in lib.read_ndjson(rp):
            for d in (r.get("devs") or []):
                if match_finding(entries, d["prop"], "altair", d) is None:
                    n += 1
        return n

    base = replay_lines(out["behaviours"], "base")
    lib.log("statestore selftest: unmodified behaviours -> %d unexplained deviations" % base)
    ok &= base == 0
    # corrupt one logged field: claim that a set stored a different value id
    corrupted = []
    done = False
    for b in out["behaviours"]:
        steps = json.loads(b)
        if not done:
            for s in steps:
                if s["op"] == "set":
                    for p in s["post"]:
                        if p["h"] == s["h"]:
                            p["f"][s["fi"] - 1] = s["v"] % 3 + 1 if s["v"] % 3 + 1 != s["v"] else s["v"] + 1
                    done = True
                    break
        corrupted.append(json.dumps(steps))
    n = replay_lines(corrupted, "corrupt")
    lib.log("statestore selftest: corrupted post-state -> %d deviations (corrupted=%s)" % (n, done))
    ok &= (n > 0 and done)
    # drop one event: the following post-states no longer match what was executed
    dropped = []
    done = False
    for b in out["behaviours"]:
        steps = json.loads(b)
        if not done:
            for k, s in enumerate(steps[:-1]):
                if s["op"] in ("set", "setelem", "load"):
                    del steps[k]
                    done = True
                    break
        dropped.append(json.dumps(steps))
    n = replay_lines(dropped, "drop")
    lib.log("statestore selftest: dropped event -> %d deviations" % n)
    ok &= (n > 0 and done)
    ok &= ssz.run_code_mutants([
        ("copystate-shares-backing", "eth2/beacon/capella/state.go",
         "return AsBeaconStateView(state.ContainerView.Copy())", "return state, nil", "C15"),
        ("stateroots-bound-to-blockroots", "eth2/beacon/phase0/state.go",
         "return AsBatchRoots(state.Get(_stateStateRoots))", "return AsBatchRoots(state.Get(_stateBlockRoots))", "C15"),
    ])
    return ok
