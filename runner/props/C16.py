"""C16: pubkey cache maps index and key exactly along each deposit history (spec/PubkeyCache*.tla)."""
import pubkeys


def main(tier="quick", seed=1, replay=None):
    return pubkeys.run(tier, seed, replay)
