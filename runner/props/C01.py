"""C01: block state transition equals the consensus spec for every valid block (Block events, spec/BeaconTrace.tla)."""
import beacon


def main(tier, seed, replay=None):
    return beacon.run_check("C01", tier, seed, replay)
