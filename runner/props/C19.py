"""C19: numeric, time and Merkle helpers are exact over their whole domain (spec/Helpers.tla, spec/BigNat.tla)."""
import helpers


def main(tier="quick", seed=1, replay=None):
    return helpers.main(tier, seed, replay)
