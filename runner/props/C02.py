"""C02: slot, epoch and fork-upgrade processing equals the consensus spec (Slots events, spec/BeaconTrace.tla)."""
import beacon


def main(tier, seed, replay=None):
    return beacon.run_check("C02", tier, seed, replay)
