import forkchoice


def main(tier, seed, replay=None):
    return forkchoice.run_check("C10", tier, seed, replay)
