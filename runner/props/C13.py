"""C13: genesis state construction equals the spec's initialize-from-eth1 (spec/BeaconGenesis.tla)."""
import genesis


def main(tier, seed, replay=None):
    return genesis.main(tier, seed, replay)
