import forkchoice


def main(tier, seed, replay=None):
    return forkchoice.run_check("C09", tier, seed, replay)
