"""C05: struct root = view root = root of the specification's merkleization (TLC MerklePlan evaluated with
crypto/sha256); roots after mutation histories equal roots rebuilt from scratch (StateStore replay)."""
import time

import lib
import ssz

PID = "C05"


def main(tier="quick", seed=1, replay=None):
    t0 = time.time()
    if replay:
        import json
        kind = json.load(open(replay)).get("kind")
        if kind == "ssz-case":
            return ssz.replay(PID, replay)
        import statestore
        return statestore.replay(PID, replay)
    stats, viol, known, notes = ssz.main_static(PID, tier, seed)
    rc = ssz.report(PID, viol, known, notes)
    extra = {"known_findings_observed": {k: v[1] for k, v in known.items()}, "exhaustive": False}
    nviol = len(viol)
    try:
        import statestore
    except ImportError:
        statestore = None
    if statestore is not None:
        try:
            hrc, hcov, hviol = statestore.run_history(PID, tier, seed)
        except lib.InfraError as ex:
            if rc != 1:
                raise
            # a violation was already observed on the real code; the broken tree also breaks the history harness
            lib.log("history half could not run on this tree (%s); verdict stands on the static half" % str(ex)[:300])
            hrc, hcov, hviol = 0, {"skipped": str(ex)[:300]}, 0
        rc = max(rc, hrc)
        nviol += hviol
        extra["history"] = hcov
        stats["states"] += hcov.get("states", 0)
        stats["transitions"] += hcov.get("transitions", 0)
    cov = ssz.evidence_coverage(stats, extra)
    if statestore is not None:
        cov["traces_validated_against_impl"] += extra["history"].get("behaviours_replayed", 0)
        cov["evaluations"] += extra["history"].get("steps_replayed", 0)
        cov["distinct_nontrivial"] += extra["history"].get("distinct", 0)
        cov["rule"] += "; history half: " + str(extra["history"].get("rule", "TLC-generated StateStore behaviours"))
    lib.write_evidence(PID, tier, seed, cov, time.time() - t0, violations=nviol, assumptions=[
        "merkle plans come from TLC (SSZ.tla Plan); hashing of the plan uses crypto/sha256, never zrnt/ztyp hashing",
        "BeaconState-sized containers are evaluated under the minimal and custom presets only",
    ])
    lib.log("C05 %s: %d cases, %d checks, %.0fs, violations=%d known=%d" % (
        tier, stats["cases"], stats["checks"], time.time() - t0, nviol, len(known)))
    return rc
