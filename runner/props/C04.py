"""C04: SSZ encoding of every exported type round-trips, agrees with its declared lengths and with the canonical
encoding computed by TLC from spec/SSZ.tla + spec/Schemas.tla; malformed encodings are refused."""
import time

import lib
import ssz

PID = "C04"


def main(tier="quick", seed=1, replay=None):
    t0 = time.time()
    if replay:
        return ssz.replay(PID, replay)
    stats, viol, known, notes = ssz.main_static(PID, tier, seed)
    rc = ssz.report(PID, viol, known, notes)
    cov = ssz.evidence_coverage(stats, {
        "known_findings_observed": {k: v[1] for k, v in known.items()},
        "exhaustive": False,
        "internal_consistency_only": sorted(t for t, v in stats["per_type"].items() if v.get("public") is False),
    })
    lib.write_evidence(PID, tier, seed, cov, time.time() - t0, violations=len(viol), assumptions=[
        "TLC evaluates SSZ.tla as an executable reference (systematic differential checking, not state exploration)",
        "BeaconState-sized containers are evaluated under the minimal and custom presets only (see skipped_too_big_for_tlc)",
        "text form: only round-trips and value agreement with the canonical tree are required, not a particular spelling",
    ])
    lib.log("C04 %s: %d cases, %d checks, %d TLC states, %.0fs, violations=%d known=%d" % (
        tier, stats["cases"], stats["checks"], stats["states"], time.time() - t0, len(viol), len(known)))
    return rc
