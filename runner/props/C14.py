"""C14: built-in configurations are the spec's; fork lookups agree for every epoch (spec/Forks.tla, spec/PublishedConstants.tla)."""
import forks


def main(tier="quick", seed=1, replay=None):
    return forks.main(tier, seed, replay)
