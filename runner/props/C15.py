"""C15: state accessors are exact and state copies are independent (spec/StateStore.tla: exhaustive MC of a tiny
instance + TLC-generated operation sequences replayed on real beacon states of all six forks)."""
import time

import lib
import statestore

PID = "C15"


def main(tier="quick", seed=1, replay=None):
    t0 = time.time()
    if replay:
        return statestore.replay(PID, replay)
    cov, devs = statestore.run_cached(tier, seed)
    viol, known = statestore.adjudicate(PID, devs)
    rc = statestore.report(PID, viol, known)
    cov = dict(cov)
    # typed views of every SSZ type (AsX constructors, struct.View()): accessors, Raw(), roots vs the TLC-computed value
    import ssz
    tstats, tviol, tknown, tnotes = ssz.run_typed_views(tier, seed)
    rc = max(rc, ssz.report(PID, tviol, tknown, tnotes))
    viol = viol + tviol
    known = dict(known)
    known.update(tknown)
    cov["typed_views"] = {"cases": tstats["cases"], "probes_by_kind": ssz.probe_totals(tstats),
                          "types_probed": len(tstats.get("probes", {}))}
    cov["states"] += tstats["states"]
    cov["transitions"] += tstats["transitions"]
    cov["traces_validated_against_impl"] += tstats["cases"]
    cov["evaluations"] += tstats["cases"]
    cov["known_findings_observed"] = {k: v[1] for k, v in known.items()}
    cov["exhaustive"] = "tiny instance only (see mc_exhaustive); fork-sized instances are sampled by TLC simulation"
    lib.write_evidence(PID, tier, seed, cov, time.time() - t0, violations=len(viol), assumptions=[
        "states are genesis states with 8 validators under the minimal preset, upgraded at slot 0 to each fork "
        "(electra: deneb content re-encoded, zrnt has no electra upgrade/transition)",
        "Advance = common.ProcessSlots by one slot or one epoch without blocks; errors of ProcessSlots on mutated states are tolerated",
        "fields without typed accessors (electra pending_* queues) are stored by loading encoded bytes and read through Raw()",
    ])
    lib.log("C15 %s: %d behaviours, %d steps, MC %d states, %.0fs, violations=%d known=%d" % (
        tier, cov["behaviours_replayed"], cov["steps_replayed"], cov["mc_exhaustive"]["distinct"], time.time() - t0,
        len(viol), len(known)))
    return rc
