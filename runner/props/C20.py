"""C20: operation pools keep what they are given and never panic (spec/Pools*.tla)."""
import pools


def main(tier="quick", seed=1, replay=None):
    return pools.run(tier, seed, replay)
