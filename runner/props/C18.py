import faults


def main(tier, seed, replay=None):
    return faults.run_check(tier, seed, replay)
