import gossip


def main(tier, seed, replay=None):
    return gossip.run_check("C12", tier, seed, replay)
