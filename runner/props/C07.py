"""C07: committee, proposer and sync-committee assignments equal the spec's (spec/Committees.tla)."""
import shuffle


def main(tier="quick", seed=1, replay=None):
    return shuffle.c07_main(tier, seed, replay)
