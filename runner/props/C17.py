import locks


def main(tier, seed, replay=None):
    return locks.run_check("C17", tier, seed, replay)
