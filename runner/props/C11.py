import forkchoice


def main(tier, seed, replay=None):
    return forkchoice.run_check("C11", tier, seed, replay)
