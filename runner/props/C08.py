import epc


def main(tier, seed, replay=None):
    return epc.run_check(tier, seed, replay)
