"""C06: list shuffling is the spec's swap-or-not permutation and is invertible (spec/Shuffle.tla)."""
import shuffle


def main(tier="quick", seed=1, replay=None):
    return shuffle.c06_main(tier, seed, replay)
