"""C03: every block or operation the spec rejects is rejected, without panicking (Neg events, spec/BeaconTrace.tla)."""
import beacon_neg


def main(tier, seed, replay=None):
    return beacon_neg.main(tier, seed, replay)
