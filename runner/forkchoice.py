"""Fork-choice family (C09 head, C10 justified/finalized updates + pruning, C11 queries).

Binding: harness/cmd/fc executes histories of public-API calls on the real ProtoForkChoice and logs
every reply; spec/ForkChoiceTrace.tla (reusing spec/ForkChoice.tla) recomputes every reply from the
abstract tree and prints a MISMATCH line for each history that deviates. Histories come from a seeded
generator (fc gen) and from TLC simulation of the specification itself (spec/ForkChoiceGen.tla).
"""
import collections
import json
import os
import re
import shutil

import lib

FAMILY_FINDING_DEVIATIONS = {"fc-prune-order": ("C10",), "fc-gap-start": ("C09", "C11")}
FINDING_TEXT = {
    "fc-prune-order": "prune drops the array prefix before the anchor; non-descendants inserted after the new "
                      "finalized node survive",
    "fc-gap-start": "a head search started at a gap-slot node (not the earliest node of its root) ignores the blocks "
                    "built on that root after the slot",
}

# mismatch category -> property
def classify(ev, what, prunes):
    """Properties a mismatch speaks about (a tuple). After a prune has happened in the history, wrong heads, wrong
    query replies and refused votes also concern C10 ("every retained node answers all queries as before, later votes
    and blocks keep working, and the head stays inside the finalized subtree")."""
    after_prune = ("C10",) if prunes > 0 else ()
    if what == "node table after Head":
        # internal bookkeeping observed through the verif hook: a localisation aid, not a verdict - the properties
        # speak about the API, and an implementation is free to keep its weights / links differently
        return ("DIAG",)
    if what == "outcome":  # a call that panicked or did not return
        if ev in ("UpdateJustified", "SetPin"):
            return ("C10",)
        return ({"ProcessAttestation": "C09", "Query": "C11"}.get(ev, "C11"),) + after_prune
    if what in ("head after call", "Head", "FindHead") or ev == "ProcessAttestation":
        return ("C09",) + after_prune
    if ev in ("UpdateJustified", "SetPin"):
        return ("C10",)
    return ("C11",) + after_prune


MISMATCH_RE = re.compile(r'<<\s*"(MISMATCH|NOTE|DEVIATION)",(.*?)>>\n(?=<<|Model|\s*Estim|Error|Progress|Finished|$)', re.S)


def parse_prints(out):
    items = []
    for kind, body in MISMATCH_RE.findall(out):
        body = " ".join(body.split())
        items.append((kind, body))
    return items


def split_top(body):
    """split a printed TLA+ tuple body on top-level commas"""
    parts, depth, cur = [], 0, ""
    i = 0
    while i < len(body):
        c = body[i]
        if body.startswith("<<", i) or c in "{[(":
            depth += 1
            cur += "<<" if body.startswith("<<", i) else c
            i += 2 if body.startswith("<<", i) else 1
            continue
        if body.startswith(">>", i) or c in "}])":
            depth -= 1
            cur += ">>" if body.startswith(">>", i) else c
            i += 2 if body.startswith(">>", i) else 1
            continue
        if c == "," and depth == 0:
            parts.append(cur.strip())
            cur = ""
        else:
            cur += c
        i += 1
    parts.append(cur.strip())
    return parts


def validate_file(trace_path, spe, deviations, timeout=3600):
    wd = lib.fresh_spec_copy()
    shutil.copy(trace_path, os.path.join(wd, "trace.ndjson"))
    devs = "{" + ", ".join('"%s"' % d for d in sorted(deviations)) + "}"
    cfg = ("SPECIFICATION TraceSpec\nCONSTANTS\n  SPE = %d\n  KnownDeviations = %s\n"
           "POSTCONDITION TraceAccepted\nCHECK_DEADLOCK FALSE\n" % (spe, devs))
    open(os.path.join(wd, "fct.cfg"), "w").write(cfg)
    res = lib.tlc("ForkChoiceTrace", cfg="fct.cfg", workdir=wd, workers=1, timeout=timeout, heap="2g")
    shutil.rmtree(wd, ignore_errors=True)
    if res.rc != 0 or res.errors or "Model checking completed" not in res.out:
        raise lib.InfraError("TLC failed on %s:\n%s" % (trace_path, res.out[-5000:]))
    return res


class Run:
    def __init__(self, pid, tier, seed):
        self.pid, self.tier, self.seed = pid, tier, seed
        self.states = self.transitions = 0
        self.histories = self.events = 0
        self.hist_ok = 0
        self.mismatches = []      # (property, file, line, body)
        self.foreign = []         # mismatches that belong to another property
        self.deviations = collections.Counter()
        self.notes = collections.Counter()
        self.counts = collections.Counter()
        self.samples = []
        self.digests = set()
        self.nontrivial = 0


def summarize_trace(run, events):
    hist = collections.defaultdict(list)
    for e in events:
        hist[e["h"]].append(e)
        run.counts[e["ev"] + (":" + e["q"] if e["ev"] == "Query" else "")] += 1
        if e["ev"] == "UpdateJustified":
            if e["pruned"]:
                run.counts["prune:nonempty"] += 1
            if e["ret"]["ok"] == 1:
                run.counts["uj:ok"] += 1
            else:
                run.counts["uj:refused"] += 1
            if e["sinkfail"] and e["pruned"] and e["ret"]["ok"] == 0:
                run.counts["prune:sinkfailed"] += 1
        if e["ev"] == "ProcessAttestation":
            run.counts["att:accepted" if e["ret"]["ok"] else "att:refused"] += 1
        if e["out"] != "ok":
            run.counts["outcome:" + e["out"]] += 1
    for h, evs in hist.items():
        run.histories += 1
        run.events += len(evs)
        key = lib.digest([[e["ev"], e.get("q"), e["parent"], e["root"], e["slot"], e["v"], e["j"], e["f"], e["ret"]] for e in evs])
        heads = {tuple(e["obs"]["head"]) for e in evs if e["ev"] != "Query" and e["obs"]["hashead"]}
        if key not in run.digests:
            run.digests.add(key)
            # non-trivial: the head moved at least twice and at least one vote was accepted
            if len(heads) >= 3 and any(e["ev"] == "ProcessAttestation" and e["ret"]["ok"] for e in evs):
                run.nontrivial += 1
    if len(run.samples) < 3 and events:
        run.samples.append([{k: e[k] for k in ("ev", "q", "parent", "root", "slot", "v", "ret") if k in e}
                            for e in events[:6]])


def process_result(run, path, events, res, deviations):
    run.states += res.distinct
    run.transitions += res.generated
    bad_hist = set()
    for kind, body in parse_prints(res.out):
        parts = split_top(body)
        if kind == "MISMATCH":
            line, h, ev, what = int(parts[0]), int(parts[1]), parts[2].strip('"'), parts[3].strip('"')
            prunes = sum(1 for e in events[:line] if e["h"] == h and e["ev"] == "UpdateJustified" and e["pruned"])
            props = classify(ev, what, prunes)
            prop = run.pid if run.pid in props else props[0]
            bad_hist.add(h)
            rec = (prop, path, line, body[:1500])
            if prop == "DIAG":
                run.counts["diag:node-table-differs"] += 1
                if run.counts["diag:node-table-differs"] <= 3:
                    lib.log("diagnostic (no verdict): internal node table differs from the specification's at line %d of %s: %s"
                            % (line, path, body[:300]))
                bad_hist.discard(h)
                continue
            (run.mismatches if prop == run.pid else run.foreign).append(rec)
        elif kind == "DEVIATION":
            run.deviations[parts[0].strip('"')] += 1
        else:
            run.notes[parts[0].strip('"')] += 1
            if "precondition" in parts[0]:
                bad_hist.add(int(parts[2]))
    run.hist_ok += len({e["h"] for e in events}) - len(bad_hist)


def history_prefix(events, line):
    h = events[line - 1]["h"]
    return [e for e in events[:line] if e["h"] == h]


def gen_and_exec(fcbin, seed, hist, ops, spe, profile, name):
    d = lib.scratch("fc")
    opsf = os.path.join(d, name + ".ops.ndjson")
    trf = os.path.join(d, name + ".trace.ndjson")
    p = lib.run([fcbin, "gen", "-seed", str(seed), "-hist", str(hist), "-ops", str(ops), "-spe", str(spe),
                 "-profile", profile], timeout=300, check=True)
    open(opsf, "w").write(p.stdout)
    lib.run([fcbin, "exec", "-in", opsf, "-out", trf], timeout=1200, check=True)
    return trf


def tlc_generated_ops(seed, spe, n, depth):
    """Behaviours of the specification itself (TLC -simulate on ForkChoiceGen), as op lists."""
    wd = lib.fresh_spec_copy()
    cfg = "INIT GenInit\nNEXT GenNext\nCONSTANTS\n  SPE = %d\n  KnownDeviations = {}\n  MaxDepth = %d\n" % (spe, depth)
    open(os.path.join(wd, "gen.cfg"), "w").write(cfg)
    res = lib.tlc("ForkChoiceGen", cfg="gen.cfg", workdir=wd, workers=1, timeout=900, heap="2g",
                  simulate="num=%d" % n, depth=depth + 3, seed=seed, deadlock=False)
    shutil.rmtree(wd, ignore_errors=True)
    hists = []
    for line in res.out.splitlines():
        line = line.strip()
        if line.startswith('"[{') or line.startswith("[{"):
            try:
                s = json.loads(line) if line.startswith('"') else line
                hists.append(json.loads(s))
            except ValueError:
                pass
    if not hists:
        raise lib.InfraError("ForkChoiceGen produced no behaviours:\n" + res.out[-3000:])
    return hists, res


def exec_ops(fcbin, hists, name):
    d = lib.scratch("fc")
    opsf = os.path.join(d, name + ".ops.ndjson")
    trf = os.path.join(d, name + ".trace.ndjson")
    with open(opsf, "w") as f:
        for i, ops in enumerate(hists):
            for op in ops:
                op = dict(op)
                op["h"] = i
                f.write(json.dumps(op) + "\n")
    lib.run([fcbin, "exec", "-in", opsf, "-out", trf], timeout=1200, check=True)
    return trf


def model_check_proto(tier):
    """Refinement check: the array algorithm (ProtoArray.tla) against the abstract specification, in lock-step."""
    wd = lib.fresh_spec_copy()
    cfg = open(os.path.join(wd, "MC_ProtoArray.cfg")).read()
    if tier == "thorough":
        cfg = cfg.replace("MaxCalls = 4", "MaxCalls = 5")
        open(os.path.join(wd, "MC_ProtoArray.cfg"), "w").write(cfg)
    res = lib.tlc("MC_ProtoArray", cfg="MC_ProtoArray.cfg", workdir=wd, workers=6 if tier == "quick" else 12,
                  timeout=900 if tier == "quick" else 3000, heap="6g")
    shutil.rmtree(wd, ignore_errors=True)
    if res.rc != 0 or res.errors or "No error has been found" not in res.out:
        raise lib.InfraError("MC_ProtoArray did not pass (a divergence of the array algorithm from the abstract "
                             "specification within the bound; to be replayed on the code before it is a verdict):\n"
                             + res.out[-4000:])
    return res


def model_check(tier):
    """All invariants / action properties of MC_ForkChoice.cfg on every history within the bound."""
    wd = lib.fresh_spec_copy()
    cfg = open(os.path.join(wd, "MC_ForkChoice.cfg")).read()
    if tier == "thorough":
        cfg = cfg.replace("MaxCalls = 4", "MaxCalls = 5")
        open(os.path.join(wd, "MC_ForkChoice.cfg"), "w").write(cfg)
    res = lib.tlc("MC_ForkChoice", cfg="MC_ForkChoice.cfg", workdir=wd, workers=8 if tier == "quick" else 12,
                  timeout=600 if tier == "quick" else 3000, heap="6g")
    shutil.rmtree(wd, ignore_errors=True)
    if res.rc != 0 or res.errors or "No error has been found" not in res.out:
        raise lib.InfraError("MC_ForkChoice did not pass (specification problem, not a verdict):\n" + res.out[-4000:])
    return res


PROFILE = {"C09": ["votes", "mixed"], "C10": ["prune", "mixed"], "C11": ["queries", "mixed"]}


def plan(pid, tier):
    """list of (profile, spe, histories, ops)"""
    profs = PROFILE[pid]
    if tier == "quick":
        return [(profs[0], 2, 120, 40), (profs[0], 3, 80, 40), (profs[0], 4, 60, 50), (profs[1], 2, 80, 40),
                (profs[1], 3, 60, 60), (profs[0], 2, 60, 80),
                (profs[0], 2, 120, 40), (profs[0], 3, 80, 50), (profs[1], 4, 60, 50), (profs[1], 2, 100, 40),
                (profs[0], 3, 60, 70), (profs[1], 2, 50, 90)]
    out = []
    for rep in range(16):
        for spe in (2, 3, 4):
            out.append((profs[0], spe, 200, 50))
            out.append((profs[1], spe, 150, 60))
        out.append((profs[0], 2, 80, 110))
    return out


def run_check(pid, tier, seed, replay=None):
    t0 = lib.elapsed()
    fcbin = lib.build_harness("fc")
    findings = {e["id"] for e in lib.active_findings(None) if e["id"] in FAMILY_FINDING_DEVIATIONS}
    run = Run(pid, tier, seed)

    jobs = []
    if replay:
        events = lib.read_ndjson(replay)
        spe = events[0].get("spe", 2)
        d = lib.scratch("fc")
        opsf = os.path.join(d, "replay.ops.ndjson")
        lib.write_ndjson(opsf, events)
        trf = os.path.join(d, "replay.trace.ndjson")
        lib.run([fcbin, "exec", "-in", opsf, "-out", trf], timeout=600, check=True)
        jobs.append((trf, spe))
    else:
        specs = plan(pid, tier)

        def mk(i):
            prof, spe, hist, ops = specs[i]
            return (gen_and_exec(fcbin, seed * 1000 + i, hist, ops, spe, prof, "g%d" % i), spe)
        jobs = lib.parallel_map(mk, range(len(specs)))
        # behaviours generated by TLC from the specification itself
        ngen = 150 if tier == "quick" else 1500
        for spe in ((2,) if tier == "quick" else (2, 3)):
            hists, gres = tlc_generated_ops(seed, spe, ngen, 24 if tier == "quick" else 32)
            run.states += gres.distinct
            run.transitions += gres.generated
            run.counts["tlc-generated-behaviours"] += len(hists)
            jobs.append((exec_ops(fcbin, hists, "tlc%d" % spe), spe))

        # histories of real signed chains (harness/chain: competing branches, late blocks, skipped epoch-start
        # slots, finality and prunes) fed to the fork choice the way a client does (runner/fcchain.py)
        try:
            import fcchain
            real = fcchain.real_chain_traces(seed, tier)
            run.counts["real-chain-histories"] = len(real)
            jobs += list(real)
        except ImportError:
            pass

    # exhaustive model checking of the abstract specification (design-level; never a verdict on the code)
    mc_holder = {}
    if not replay:
        import threading

        def mc():
            try:
                if pid == "C09":
                    pres = model_check_proto(tier)
                    run.counts["mc-proto:distinct-states"] = pres.distinct
                    mc_holder["proto"] = pres
                mc_holder["res"] = model_check(tier)
            except Exception as ex:  # noqa: BLE001
                mc_holder["err"] = ex
        mc_thread = threading.Thread(target=mc)
        mc_thread.start()

    def val(job):
        path, spe = job
        events = lib.read_ndjson(path)
        res = validate_file(path, spe, findings)
        lib.log("[%5.0fs] validated %s: %d events in %.0fs" % (lib.elapsed(), os.path.basename(path), len(events), res.wall))
        return path, events, res
    for path, events, res in lib.parallel_map(val, jobs, workers=6):
        summarize_trace(run, events)
        process_result(run, path, events, res, findings)

    lib.log("[%5.0fs] traces validated" % lib.elapsed())
    if not replay:
        mc_thread.join()
        lib.log("[%5.0fs] model checking done" % lib.elapsed())
        if "err" in mc_holder:
            raise mc_holder["err"]
        mres = mc_holder["res"]
        run.states += mres.distinct
        run.transitions += mres.generated
        if "proto" in mc_holder:
            run.states += mc_holder["proto"].distinct
            run.transitions += mc_holder["proto"].generated
        run.counts["mc:distinct-states"] = mres.distinct
        run.counts["mc:depth"] = mres.depth

    # verdicts
    rc = 0
    for dev, n in run.deviations.items():
        if pid in FAMILY_FINDING_DEVIATIONS.get(dev, ()):
            lib.report_known(pid, "%s: %s (%d occurrences this run)" % (dev, FINDING_TEXT[dev], n))
    for i, (prop, path, line, body) in enumerate(run.mismatches[:5]):
        events = lib.read_ndjson(path)
        rp = lib.save_replay(pid, "mismatch-%d-seed%d.ndjson" % (i, seed),
                             "\n".join(json.dumps(e) for e in history_prefix(events, line)) + "\n")
        lib.report_violation(pid, rp, body)
        rc = 1
    for i, (prop, path, line, body) in enumerate(run.foreign[:5]):
        events = lib.read_ndjson(path)
        rp = lib.save_replay(pid, "foreign-%s-%d-seed%d.ndjson" % (prop, i, seed),
                             "\n".join(json.dumps(e) for e in history_prefix(events, line)) + "\n")
        lib.log("note: mismatch attributed to %s (not %s), ignored here (%s): %s" % (prop, pid, rp, body[:300]))

    # vacuity guards (only meaningful when nothing was flagged: a defect makes many histories deviate)
    if not replay and rc == 0 and not run.foreign:
        need = {"C09": ["att:accepted", "Query:Head", "Query:FindHead", "uj:ok"],
                "C10": ["prune:nonempty", "uj:refused", "uj:ok", "prune:sinkfailed", "SetPin"],
                "C11": ["Query:CanonicalChain", "Query:InSubtree", "Query:ClosestToSlot", "Query:CanonAtSlot",
                        "Query:GetSlot", "Query:Search", "prune:nonempty"]}[pid]
        missing = [k for k in need if run.counts[k] == 0]
        if missing:
            raise lib.InfraError("vacuous run, never exercised: %s" % missing)
        if run.hist_ok < run.histories * 0.5:
            raise lib.InfraError("too few histories fully validated: %d of %d" % (run.hist_ok, run.histories))

    cov = {
        "states": run.states, "transitions": run.transitions,
        "traces_validated_against_impl": run.hist_ok,
        "samples": run.samples or [["replay"]],
        "evaluations": run.events, "distinct_nontrivial": run.nontrivial,
        "rule": "one evaluation = one public call executed on the real fork choice and re-derived by TLC from "
                "ForkChoice.tla; histories are distinct by hash of their call/reply sequence and non-trivial when "
                "the head moved at least twice and at least one vote was accepted",
        "histories": run.histories, "call_counts": dict(run.counts),
        "known_deviations_enabled": sorted(findings), "deviations_used": dict(run.deviations),
        "notes": dict(run.notes), "mismatches_other_properties": len(run.foreign),
        "exhaustive": False,
        "exhaustive_part": "MC_ForkChoice: all histories of <= %d calls over 3 roots, slots 0..3, 2 validators, epochs 0..1 (12 invariants / action properties)" % (4 if tier == "quick" else 5),
    }
    lib.write_evidence(pid, tier, seed, cov, lib.elapsed() - t0, violations=len(run.mismatches),
                       assumptions=["TLC, SANY, CommunityModules Json", "harness/cmd/fc driver and its root encoding",
                                    "fork-choice semantics of DESIGN.md appendix C"])
    return rc


# ---------------------------------------------------------------- binding self-test

CANNED_MUTATION = ("eth2/forkchoice/proto/votestore.go",
                   "if targetEpoch > vote.NextTargetEpoch || (targetEpoch == 0 && *vote == (VoteTracker{})) {",
                   "if targetEpoch >= vote.NextTargetEpoch || (targetEpoch == 0 && *vote == (VoteTracker{})) {")


def selftest():
    """Shows that the specification is bound to the code: (1) a recorded trace with one corrupted reply or one dropped
    event is rejected by ForkChoiceTrace; (2) a canned mutation of zrnt in a scratch worktree yields a VIOLATION."""
    import subprocess
    import tempfile
    ok = True
    fcbin = lib.build_harness("fc")
    findings = set(FAMILY_FINDING_DEVIATIONS)
    trf = gen_and_exec(fcbin, 11, 30, 40, 2, "mixed", "selftest")
    events = lib.read_ndjson(trf)
    base = validate_file(trf, 2, findings)
    nbase = sum(1 for k, _ in parse_prints(base.out) if k == "MISMATCH")
    lib.log("selftest: unmodified trace: %d mismatches" % nbase)
    ok &= nbase == 0
    # (1a) corrupt one logged head
    idx = next(i for i, e in enumerate(events) if e["ev"] == "Query" and e["q"] == "Head" and e["ret"]["ok"] == 1)
    ev2 = json.loads(json.dumps(events))
    ev2[idx]["ret"]["slot"] += 1
    p2 = os.path.join(lib.scratch("fc"), "corrupt.ndjson")
    lib.write_ndjson(p2, ev2)
    n2 = sum(1 for k, _ in parse_prints(validate_file(p2, 2, findings).out) if k == "MISMATCH")
    lib.log("selftest: corrupted Head reply at line %d -> %d mismatches" % (idx + 1, n2))
    ok &= n2 >= 1
    # (1b) drop one accepted ProcessBlock event
    idx = next(i for i, e in enumerate(events) if e["ev"] == "ProcessBlock" and e["ret"]["ok"] == 1 and e["root"] != 1)
    ev3 = events[:idx] + events[idx + 1:]
    p3 = os.path.join(lib.scratch("fc"), "dropped.ndjson")
    lib.write_ndjson(p3, ev3)
    n3 = sum(1 for k, _ in parse_prints(validate_file(p3, 2, findings).out) if k == "MISMATCH")
    lib.log("selftest: dropped ProcessBlock event at line %d -> %d mismatches" % (idx + 1, n3))
    ok &= n3 >= 1
    # (2) canned mutation in a scratch worktree
    wt = tempfile.mkdtemp(prefix="selftest-wt-")
    os.rmdir(wt)
    subprocess.run(["git", "-C", "/repo", "worktree", "add", "-q", "--detach", wt, "HEAD"], check=True)
    try:
        f, old, new = CANNED_MUTATION
        src = open(os.path.join(wt, f)).read()
        assert old in src
        open(os.path.join(wt, f), "w").write(src.replace(old, new))
        p = subprocess.run([os.path.join(lib.VERIF, "check"), "C09", "--tier", "quick"], cwd=lib.VERIF,
                           env=dict(os.environ, VERIF_REPO=wt), stdout=subprocess.PIPE, stderr=subprocess.PIPE, text=True)
        lib.log("selftest: canned mutation (vote replaced by an equal-epoch vote) -> rc=%d %s" %
                (p.returncode, [l for l in p.stdout.splitlines() if l.startswith("VIOLATION")][:1]))
        ok &= p.returncode == 1
    finally:
        subprocess.run(["git", "-C", "/repo", "worktree", "remove", "--force", wt])
        shutil.rmtree(wt, ignore_errors=True)
    return ok
