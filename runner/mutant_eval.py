#!/usr/bin/env python3
"""Evaluate checks against a seeded change without touching /repo:
   runner/mutant_eval.py <patch.diff> <Cxx> [<Cyy> ...] [--tier quick] [--seed N]
Creates a scratch worktree of /repo HEAD (outside /repo and /verif), applies the patch, runs each check with
VERIF_REPO pointing at it, prints the exit codes and VIOLATION lines, and removes the worktree again."""
import os
import shutil
import subprocess
import sys
import tempfile

VERIF = os.path.dirname(os.path.dirname(os.path.abspath(__file__)))


def main():
    args = sys.argv[1:]
    tier, seed = "quick", "1"
    if "--tier" in args:
        i = args.index("--tier"); tier = args[i + 1]; del args[i:i + 2]
    if "--seed" in args:
        i = args.index("--seed"); seed = args[i + 1]; del args[i:i + 2]
    patch, props = os.path.abspath(args[0]), args[1:]
    wt = tempfile.mkdtemp(prefix="mutwt-")
    os.rmdir(wt)
    subprocess.run(["git", "-C", "/repo", "worktree", "add", "-q", "--detach", wt, "HEAD"], check=True)
    rc_all = {}
    try:
        # untracked hook files of /repo (if any) are part of the tree under test
        st = subprocess.run(["git", "-C", "/repo", "ls-files", "--others", "--exclude-standard"], stdout=subprocess.PIPE, text=True).stdout
        for f in st.split():
            os.makedirs(os.path.dirname(os.path.join(wt, f)), exist_ok=True)
            shutil.copy(os.path.join("/repo", f), os.path.join(wt, f))
        p = subprocess.run(["git", "-C", wt, "apply", patch])
        if p.returncode != 0:
            print("PATCH DOES NOT APPLY")
            return 3
        for pid in props:
            env = dict(os.environ, VERIF_REPO=wt, VERIF_SEED=seed)
            p = subprocess.run([os.path.join(VERIF, "check"), pid, "--tier", tier], cwd=VERIF, env=env,
                               stdout=subprocess.PIPE, stderr=subprocess.PIPE, text=True)
            lines = [l for l in p.stdout.splitlines() if l.startswith(("VIOLATION", "KNOWN-FINDING"))]
            rc_all[pid] = p.returncode
            print("%s rc=%d %s" % (pid, p.returncode, " | ".join(lines)[:600]))
            if p.returncode == 2:
                print(p.stderr[-1500:])
    finally:
        subprocess.run(["git", "-C", "/repo", "worktree", "remove", "--force", wt])
        shutil.rmtree(wt, ignore_errors=True)
    return 0


if __name__ == "__main__":
    sys.exit(main())
