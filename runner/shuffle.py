"""Family Shuffle / Committees (C06, C07): shared runner code.

C06 = spec/Shuffle.tla (+ MC_Shuffle.tla generators, ShuffleTrace.tla) bound to
      eth2/beacon/common/shuffle.go through harness/cmd/shuffle.
C07 = spec/Committees.tla (+ MC_Committees.tla, CommitteesTrace.tla) bound to shuffling.go, proposers.go,
      sync_committee.go, epochs_context.go, randao.go through harness/cmd/committees.
"""
import json
import os
import random
import re
import shutil
import time

import lib

MAX_TLC_PROCS = 6      # shared machine: at most ~6 TLC processes at once from one check (CONVENTIONS)

CASE_RE = re.compile(r'^<<"CASE", (".*")>>$')


# ------------------------------------------------------------------ helpers


def cfg_text(constants, init, next_, invariants=(), constraint=None, post=None):
    lines = ["CONSTANTS"]
    for k, v in constants.items():
        lines.append("  %s = %s" % (k, v))
    lines.append("INIT " + init)
    lines.append("NEXT " + next_)
    if invariants:
        lines.append("INVARIANTS")
        lines += ["  " + i for i in invariants]
    if constraint:
        lines.append("CONSTRAINT " + constraint)
    if post:
        lines.append("POSTCONDITION " + post)
    lines.append("CHECK_DEADLOCK FALSE")
    return "\n".join(lines) + "\n"


def tla_set(xs):
    return "{" + ", ".join(str(x) for x in sorted(xs)) + "}"


def parse_cases(out):
    """JSON strings printed by PrintT(<<"CASE", ToJson(...)>>)."""
    cases = []
    for line in out.splitlines():
        m = CASE_RE.match(line.strip())
        if m:
            cases.append(json.loads(json.loads(m.group(1))))  # TLA+ string literal -> JSON text -> object
    return cases


def tlc_model_run(module, cfg, name, workers, timeout):
    """A model-checking / generation run that must complete without a model-level error."""
    wd = lib.fresh_spec_copy({name + ".cfg": cfg})
    res = lib.tlc(module, cfg=name + ".cfg", workdir=wd, workers=workers, timeout=timeout, deadlock=True)
    shutil.rmtree(wd, ignore_errors=True)
    if not res.ok or res.invariant_violated or "Error:" in res.out or \
            "Model checking completed. No error has been found." not in res.out:
        raise lib.InfraError("TLC run %s (model only, no verdict) failed:\n%s" % (name, res.out[-5000:]))
    return res


def scratch_repo_copy(name):
    """Private copy of the tree under test (for mutants / self-test); removed with the scratch root."""
    dst = os.path.join(lib.scratch_root(), name)
    if os.path.exists(dst):
        shutil.rmtree(dst)
    shutil.copytree(lib.REPO, dst, ignore=shutil.ignore_patterns(".git"))
    return dst


# ------------------------------------------------------------------ C06: model runs


def shuffle_constants(**kw):
    c = dict(MaxN=0, MinN=0, MaxR=0, Emit="FALSE", GenSizes="{}", GenRounds="{}", GenSeed=1, NRandom=0, RandMaxN=2)
    c.update(kw)
    return c


SHUFFLE_THEOREMS = ["InvDerived", "InvBijection", "InvImplEqSpec", "InvUnshuffle", "InvCodec"]


def c06_jobs(tier, seed):
    """(name, cfg, workers, timeout, emits) for every TLC run of MC_Shuffle."""
    q = tier == "quick"
    jobs = []
    # 1. exhaustive theorems: all n, all pivots, all coin tables
    jobs.append(("theorems", cfg_text(shuffle_constants(MaxN=5 if q else 7, MaxR=2), "Init", "Next",
                                      SHUFFLE_THEOREMS, "EmitCase"), 4 if q else 10, 6000, False))
    if q:
        jobs.append(("theorems-n6-r1", cfg_text(shuffle_constants(MinN=6, MaxN=7, MaxR=1), "Init", "Next",
                                                SHUFFLE_THEOREMS, "EmitCase"), 2, 6000, False))
    # (thorough) three rounds for the smaller sizes
    if not q:
        jobs.append(("theorems3", cfg_text(shuffle_constants(MaxN=4, MaxR=3), "Init", "Next",
                                           SHUFFLE_THEOREMS, "EmitCase"), 6, 6000, False))
    # 2. exhaustive test-case generation for the replayer
    jobs.append(("emit-small", cfg_text(shuffle_constants(MaxN=4 if q else 5, MaxR=2, Emit="TRUE"), "Init", "Next",
                                        SHUFFLE_THEOREMS, "EmitCase"), 4 if q else 8, 6000, True))
    # 3. structured corner cases around multiples of 8 / 256
    if q:
        groups = [[2, 3, 8, 9], [255], [256], [257], [258], [511], [512], [513], [514]]
        rounds = [1, 2]
    else:
        groups = [[1, 2, 3, 7, 8, 9, 15, 16, 17, 31, 32, 33]] + [[x] for x in
                  (254, 255, 256, 257, 258, 259, 263, 264, 265, 510, 511, 512, 513, 514, 515, 767, 768, 769, 1023, 1024, 1025)]
        rounds = [1, 2, 3]
    for g in groups:
        for r in rounds:
            jobs.append(("struct-%s-r%d" % ("_".join(map(str, g)), r),
                         cfg_text(shuffle_constants(Emit="TRUE", GenSizes=tla_set(g), GenRounds=tla_set([r])),
                                  "InitGen", "NextStructured", ["InvDerived", "InvBig", "InvCodec"], "EmitCase"), 1, 6000, True))
    # 4. pseudo-random cases seeded by VERIF_SEED
    nrand = 4 if q else 16
    for k in range(nrand):
        jobs.append(("random-%d" % k,
                     cfg_text(shuffle_constants(Emit="TRUE", GenRounds=tla_set([1, 2, 3] if q else [1, 2, 3, 5]),
                                                GenSeed=(seed * 131 + k * 17 + 7) % 30011,
                                                NRandom=40 if q else 60, RandMaxN=700 if q else 1100),
                              "InitGen", "NextRandom", ["InvDerived", "InvBig", "InvCodec"], "EmitCase"), 1, 6000, True))
    # 5. per-index functions at huge list sizes (2^16 +- 1, 2^24 +- 1, 2^24 + 2^16 + 257, 2^31 - 1, random up to 2^31):
    #    positions beyond 2^24, i.e. a window number with a non-zero third byte in the pre-image
    jobs.append(("bigidx", cfg_text({"GenSeed": (seed * 37 + 11) % 30011, "NRandom": 2 if q else 8,
                                     "Rounds": tla_set([1, 2] if q else [1, 2, 3]), "Emit": "TRUE"},
                                    "Init", "Next", ["Inv"]), 1, 6000, True))
    return jobs


def run_shuffle_job(job):
    name, cfg, workers, timeout, emits = job
    res = tlc_model_run("MC_ShuffleIdx" if name.startswith("bigidx") else "MC_Shuffle", cfg, name, workers, timeout)
    cases = parse_cases(res.out) if emits else []
    if emits and not cases:
        raise lib.InfraError("generator %s produced no case" % name)
    return name, res, cases


def replay_shuffle_cases(cases, name="cases", binary=None):
    binary = binary or lib.build_harness("shuffle")
    d = lib.scratch("replay")
    cp = os.path.join(d, name + ".ndjson")
    rp = os.path.join(d, name + ".result.json")
    lib.write_ndjson(cp, cases)
    p = lib.run([binary, "replay", cp, rp], timeout=1200)
    if p.returncode != 0:
        raise lib.InfraError("shuffle replay failed: %s" % (p.stdout + p.stderr)[-3000:])
    return json.load(open(rp))


# ------------------------------------------------------------------ C06: recorded traces (real SHA-256)


def shuffle_plan(tier, seed):
    rng = random.Random(seed * 7919 + 13)
    q = tier == "quick"

    def item(n, rounds):
        return {"n": n, "rounds": rounds, "seed": [rng.randrange(256) for _ in range(32)],
                "offset": rng.choice([0, 1, 1000, 70000])}
    plan = []
    top = 600 if q else 1030
    # every size, small round counts (1..3 in rotation, randomly shifted), `reps` seeds each
    reps = 1 if q else 3
    for n in range(0, top + 1):
        for k in range(reps):
            plan.append(item(n, 1 + (n + k + seed) % 3))
    # every size with 10 rounds (thorough) / every 3rd size (quick); 90 rounds on a sample
    for n in range(0, top + 1):
        if not q or (n + seed) % 3 == 0:
            plan.append(item(n, 10))
        if (n + seed) % (20 if q else 4) == 0:
            plan.append(item(n, 90))
    # boundary sizes with every round count of the quantifier
    special = [0, 1, 2, 3, 7, 8, 9, 255, 256, 257, 258, 511, 512, 513, 514, 600]
    if not q:
        special += [767, 768, 769, 1023, 1024, 1025, 1030]
    for n in special:
        for r in (0, 1, 2, 3, 10, 90, 255):
            if r == 255 and q and n not in (0, 1, 2, 257, 513):
                continue
            plan.append(item(n, r))
    # per-index functions at huge list sizes (only PermuteIndex / UnpermuteIndex of a few indices)
    T24 = 1 << 24
    big = [65535, 65537, T24 - 1, T24 + 1, T24 + 65536 + 257, 2 ** 31 - 1]
    big += [rng.randrange(T24, 2 ** 31) for _ in range(2 if q else 12)]
    for n in big:
        base = {0, 1, n - 1, n - 2, n // 2, T24, T24 + 255, T24 + 256, T24 + 65536 + 257, n - 1 - T24}
        base |= {rng.randrange(n) for _ in range(4)}
        idx = sorted(x for x in base if 0 <= x < n)
        for r in ((1, 3, 10) if q else (1, 2, 3, 10, 90, 255)):
            it = item(0, r)
            it.update({"n": n, "indices": idx})
            plan.append(it)
    if not q:
        for n in range(5, top, 37):
            plan.append(item(n, 255))
        for n in (5, 100, 300):
            for r in range(0, 256, 5):
                plan.append(item(n, r))
    return plan


def record_shuffle(plan, name="rec", binary=None):
    binary = binary or lib.build_harness("shuffle")
    d = lib.scratch("record")
    pp = os.path.join(d, name + ".plan.ndjson")
    ep = os.path.join(d, name + ".events.ndjson")
    lib.write_ndjson(pp, plan)
    p = lib.run([binary, "record", pp, ep], timeout=1200)
    if p.returncode != 0:
        raise lib.InfraError("shuffle record failed: %s" % (p.stdout + p.stderr)[-3000:])
    return [l for l in open(ep).read().splitlines() if l.strip()]


def validate_trace(module, lines, name, diagnose=False, timeout=6000):
    """Run <module>.tla on the given ndjson lines. Returns (accepted_all, first_rejected_index or None, TLCResult)."""
    cfg = cfg_text({"TraceFile": '"trace.ndjson"', "Diagnose": "TRUE" if diagnose else "FALSE"},
                   "Init", "Next", post="AllAccepted")
    wd = lib.fresh_spec_copy({name + ".cfg": cfg, "trace.ndjson": "\n".join(lines) + "\n"})
    res = lib.tlc(module, cfg=name + ".cfg", workdir=wd, workers=1, timeout=timeout)
    shutil.rmtree(wd, ignore_errors=True)
    out = res.out
    if "Assert" in out and "harness oracle" in out:
        raise lib.InfraError("trace spec %s: harness oracle table rejected (harness bug):\n%s" % (module, out[-3000:]))
    m = re.search(r"The depth of the complete state graph search is (\d+)", out)
    completed = "Model checking completed" in out or "Finished in" in out
    post_failed = "AllAccepted" in out and ("violated" in out or "false" in out.lower())
    if m is None or not completed:
        raise lib.InfraError("trace validation %s/%s did not complete:\n%s" % (module, name, out[-4000:]))
    depth = int(m.group(1))
    other_errors = [e for e in res.errors if "AllAccepted" not in e and "ostcondition" not in e]
    if depth == len(lines) + 1:
        if other_errors:
            raise lib.InfraError("trace validation %s/%s: unexpected TLC error:\n%s" % (module, name, out[-4000:]))
        return True, None, res
    if depth > len(lines) + 1 or depth < 1:
        raise lib.InfraError("trace validation %s/%s: impossible depth %d" % (module, name, depth))
    if not post_failed and not diagnose:
        raise lib.InfraError("trace validation %s/%s: short trace but no postcondition failure:\n%s" % (module, name, out[-4000:]))
    return False, depth - 1, res   # 0-based index of the first rejected line


def diagnose_event(module, line, name="diag"):
    """Which conjunct of the trace spec rejects this event (best effort, for the report)."""
    try:
        _, _, res = validate_trace(module, [line], name, diagnose=True, timeout=600)
    except lib.InfraError as ex:
        return {"error": str(ex)[-500:]}
    for l in res.out.splitlines():
        m = re.match(r'^<<"DIAG", \d+, (".*")>>$', l.strip())
        if m:
            return json.loads(json.loads(m.group(1)))
    return {}


def shard(lines, k, weight=len):
    """Greedy balanced split of lines into k shards by weight, order-preserving inside a shard."""
    shards = [[] for _ in range(k)]
    loads = [0] * k
    for idx in sorted(range(len(lines)), key=lambda i: -weight(lines[i])):
        j = loads.index(min(loads))
        shards[j].append(idx)
        loads[j] += weight(lines[idx])
    return [sorted(s) for s in shards if s]


def validate_sharded(module, lines, name, nshards=None, weight=len):
    """Validate independent events in parallel TLC processes. Returns (rejected_indices(first per shard), results)."""
    nshards = nshards or MAX_TLC_PROCS
    shards = shard(lines, nshards, weight)

    def work(arg):
        k, idxs = arg
        ok, bad, res = validate_trace(module, [lines[i] for i in idxs], "%s-%d" % (name, k))
        return (None if ok else idxs[bad]), res
    outs = lib.parallel_map(work, list(enumerate(shards)), workers=nshards)
    return [b for b, _ in outs if b is not None], [r for _, r in outs]


# ------------------------------------------------------------------ C06: the check


def c06_spec_to_code(tier, seed, cov, binary=None):
    """Returns list of violations [(kind, payload, message)]."""
    jobs = c06_jobs(tier, seed)
    t = time.time()
    # the big exhaustive run gets its own workers; the single-worker generators fill the remaining cores
    results = lib.parallel_map(run_shuffle_job, jobs, workers=MAX_TLC_PROCS)
    cov["tlc_wall_s"] = round(time.time() - t, 1)
    allcases = []
    for name, res, cases in results:
        cov["states"] += res.distinct
        cov["transitions"] += res.generated
        cov["tlc_runs"][name] = {"distinct": res.distinct, "generated": res.generated, "cases": len(cases),
                                 "wall_s": round(res.wall, 1)}
        if name.startswith("theorems"):
            cov["exhaustive"][name] = {"theorems": "all n<=%d, rounds<=2" % (5 if tier == "quick" else 7),
                                       "theorems3": "all n<=4, rounds<=3",
                                       "theorems-n6-r1": "n in 6..7, 1 round"}[name] + ", all pivots, all coin tables"
        allcases += cases
    viol = []
    res = replay_shuffle_cases(allcases, "gen", binary)
    cov["replayed_cases"] = res["cases"]
    cov["evaluations"] += res["calls"]
    cov["oracle_misses"] = res["oracle_misses"]
    cov["oracle_unused_entries"] = res["oracle_unused_entries"]
    # coverage classes of the replayed cases
    cls = cov["replay_classes"]
    distinct = set()
    nontrivial = 0
    for c in allcases:
        n, piv = c["n"], c["piv"]
        if c.get("indices"):          # per-index case at a huge list size
            cls["per_index_huge_list"] += 1
            if c["maxwin"] >= 65536:
                cls["per_index_window_ge_2_16"] += 1
            d = lib.digest([n, c["rounds"], c["indices"], c["perm"]])
            if d not in distinct:
                distinct.add(d)
                if c["perm"] != c["indices"]:
                    nontrivial += 1
            continue
        if n in (0, 1):
            cls["n_0_1"] += 1
        if 255 <= n <= 258:
            cls["n_around_256"] += 1
        if 511 <= n <= 514:
            cls["n_around_512"] += 1
        if n % 8 in (0, 1, 7) and n > 1:
            cls["n_around_mult_of_8"] += 1
        if n > 1 and 0 in piv:
            cls["pivot_0"] += 1
        if n > 1 and (n - 1) in piv:
            cls["pivot_last"] += 1
        if n > 256 and any(p in (255, 256) for p in piv):
            cls["pivot_at_window_edge"] += 1
        if c["rounds"] >= 2:
            cls["rounds_ge_2"] += 1
        d = lib.digest([n, c["rounds"], c["perm"]])
        if d not in distinct:
            distinct.add(d)
            if c["perm"] != list(range(n)):
                nontrivial += 1
    cov["distinct_nontrivial"] += nontrivial
    cov["distinct_behaviours"] += len(distinct)
    for k in ("n_0_1", "n_around_256", "n_around_512", "n_around_mult_of_8", "pivot_0", "pivot_last",
              "pivot_at_window_edge", "rounds_ge_2", "per_index_huge_list", "per_index_window_ge_2_16"):
        if cls[k] == 0:
            raise lib.InfraError("vacuity guard: no replayed case of class %s" % k)
    if res["mismatches"]:
        bad_lines = sorted({m["line"] for m in res["mismatches"]})
        payload = {"kind": "cases", "cases": [allcases[i - 1] for i in bad_lines[:5]]}
        m0 = res["mismatches"][0]
        c0 = allcases[m0["line"] - 1]
        msg = "%s(n=%d, rounds=%d, TLC-chosen pivots %s): %s; got %s want %s (%d mismatching calls in %d cases)" % (
            m0["fn"], c0["n"], c0["rounds"], c0["piv"], m0["detail"], str(m0.get("got"))[:300],
            str(m0.get("want"))[:300], res.get("mismatches_total", len(res["mismatches"])), len(bad_lines))
        viol.append(("cases", payload, msg))
    else:
        cov["traces_validated_against_impl"] += res["cases"]
    cov["samples"] += [{"n": c["n"], "rounds": c["rounds"], "piv": c["piv"], "indices": (c.get("indices") or [])[:12],
                        "perm": c["perm"][:12]} for c in allcases[1000:1003] + allcases[-2:]]
    return viol


def event_weight(line):
    if line.startswith('{"ev":"ShuffleIdx"'):
        return 50 + len(line) // 20
    m = re.search(r'"n":(\d+),"rounds":(\d+)', line)
    return 50 + int(m.group(1)) * (int(m.group(2)) + 2) if m else len(line)


def c06_code_to_spec(tier, seed, cov, binary=None, plan=None):
    plan = plan or shuffle_plan(tier, seed)
    t = time.time()
    lines = record_shuffle(plan, "rec", binary)
    if len(lines) != len(plan):
        raise lib.InfraError("recorder produced %d events for %d plan items" % (len(lines), len(plan)))
    rejected, results = validate_sharded("ShuffleTrace", lines, "shuf", weight=event_weight)
    cov["trace_wall_s"] = round(time.time() - t, 1)
    for r in results:
        cov["states"] += r.distinct
        cov["transitions"] += r.generated
    cov["recorded_events"] = len(lines)
    sizes = {p["n"] for p in plan}
    rounds = {p["rounds"] for p in plan}
    cov["trace_sizes"] = "%d distinct sizes, %d..%d" % (len(sizes), min(sizes), max(sizes))
    cov["trace_round_counts"] = sorted(rounds)
    cov["evaluations"] += sum(3 * len(p["indices"]) if p.get("indices") else 2 + 2 * p["n"] for p in plan)
    tcls = cov.setdefault("trace_classes", {})
    for l in lines:
        if l.startswith('{"ev":"ShuffleIdx"'):
            e = json.loads(l)
            tcls["per_index_huge_list"] = tcls.get("per_index_huge_list", 0) + 1
            if any(w[0] >= 65536 for ws in e["hw"] for w in ws):
                tcls["per_index_window_ge_2_16"] = tcls.get("per_index_window_ge_2_16", 0) + 1
    viol = []
    if rejected:
        for idx in rejected[:3]:
            diag = diagnose_event("ShuffleTrace", lines[idx], "diag%d" % idx)
            failing = sorted(k for k, v in diag.items() if v is False)
            p = plan[idx]
            msg = "real SHA-256 path: event n=%d rounds=%d rejected by ShuffleTrace.tla; failing checks: %s" % (
                p["n"], p["rounds"], failing or diag)
            viol.append(("trace", {"kind": "trace", "plan": [p], "failing": failing}, msg))
    else:
        cov["traces_validated_against_impl"] += len(lines)
        need_sizes = set(range(0, 601))
        if plan is not None and len(plan) > 100 and not need_sizes <= sizes:
            raise lib.InfraError("vacuity guard: recorded trace does not cover every size 0..600")
        if len(plan) > 100 and not {0, 1, 2, 3, 10, 90, 255} <= rounds:
            raise lib.InfraError("vacuity guard: recorded trace misses a round count of the quantifier")
        if len(plan) > 100 and not tcls.get("per_index_window_ge_2_16"):
            raise lib.InfraError("vacuity guard: no recorded per-index event with a position window >= 2^16")
    return viol


def new_cov():
    from collections import defaultdict
    return {"states": 0, "transitions": 0, "traces_validated_against_impl": 0, "samples": [], "evaluations": 0,
            "distinct_nontrivial": 0, "distinct_behaviours": 0, "tlc_runs": {}, "exhaustive": {},
            "replay_classes": defaultdict(int),
            "rule": "distinct = digest of (n, rounds, permutation); non-trivial = permutation differs from the identity"}


def finish(pid, tier, seed, cov, viol, t0, replay_prefix):
    cov["replay_classes"] = dict(cov.get("replay_classes", {}))
    known = lib.active_findings(pid)
    real = []
    for kind, payload, msg in viol:
        sig = payload.get("signature")
        hit = [k for k in known if sig and k.get("signature") == sig]
        if hit:
            lib.report_known(pid, hit[0]["signature"])
            continue
        real.append((kind, payload, msg))
    if replay_prefix != "replayed":      # a --replay run re-executes one saved counterexample, it is not a check run
        lib.write_evidence(pid, tier, seed, cov, time.time() - t0, violations=len(real))
    if real:
        for i, (kind, payload, msg) in enumerate(real[:3]):
            path = lib.save_replay(pid, "%s-seed%d-%s-%d.json" % (replay_prefix, seed, kind, i), payload)
            lib.report_violation(pid, path, msg)
        return 1
    lib.log("%s %s seed=%d: held; states=%d, traces_validated_against_impl=%d, wall=%.0fs" % (
        pid, tier, seed, cov["states"], cov["traces_validated_against_impl"], time.time() - t0))
    return 0


def c06_replay(path, cov, binary=None):
    payload = json.load(open(path))
    viol = []
    if payload.get("kind") == "cases":
        res = replay_shuffle_cases(payload["cases"], "replay", binary)
        cov["traces_validated_against_impl"] += res["cases"] if not res["mismatches"] else 0
        if res["mismatches"]:
            m0 = res["mismatches"][0]
            viol.append(("cases", payload, "%s: %s got %s want %s" % (m0["fn"], m0["detail"], m0.get("got"), m0.get("want"))))
    elif payload.get("kind") == "trace":
        viol += c06_code_to_spec("quick", 0, cov, binary, plan=payload["plan"])
    else:
        raise lib.InfraError("unknown replay file kind")
    return viol


def c06_main(tier, seed, replay=None):
    t0 = time.time()
    cov = new_cov()
    lib.build_harness("shuffle")
    if replay:
        viol = c06_replay(replay, cov)
        return finish("C06", tier, seed, cov, viol, t0, "replayed")
    viol = c06_spec_to_code(tier, seed, cov)
    try:
        viol += c06_code_to_spec(tier, seed, cov)
    except lib.InfraError as ex:
        # verdicts come first: deviations already observed on the real code are reported even if the other
        # direction could not be evaluated
        if not viol:
            raise
        lib.log("note: the code -> spec direction could not be evaluated (%s); reporting the deviations already observed" % str(ex)[:800])
    return finish("C06", tier, seed, cov, viol, t0, tier)


# ====================================================================== C07: committees / proposers / sync committees

KNOWN_DEVIATIONS = {"RunningEpcSyncStale": "shuffle-epc-sync-stale"}   # trace-spec deviation name -> finding id


def build_against(repo_dir, cmd_name):
    """Build harness/cmd/<cmd_name> against another tree (mutants / self-test)."""
    bdir = lib.scratch("build-" + os.path.basename(repo_dir.rstrip("/")))
    modfile = os.path.join(bdir, "go.mod")
    src = open(os.path.join(lib.HARNESS_DIR, "go.mod")).read()
    src = re.sub(r"replace github.com/protolambda/zrnt => \S+", "replace github.com/protolambda/zrnt => " + repo_dir, src)
    open(modfile, "w").write(src)
    sums = open(os.path.join(repo_dir, "go.sum")).read()
    extra = os.path.join(lib.HARNESS_DIR, "go.sum")
    if os.path.exists(extra):
        sums += open(extra).read()
    open(os.path.join(bdir, "go.sum"), "w").write(sums)
    out = os.path.join(bdir, cmd_name)
    p = lib.run(["go", "build", "-modfile=" + modfile, "-tags", "verif", "-o", out, "./cmd/" + cmd_name],
                cwd=lib.HARNESS_DIR, env=lib.GO_ENV, timeout=1200)
    if p.returncode != 0:
        raise lib.InfraError("harness build failed for %s against %s:\n%s" % (cmd_name, repo_dir, (p.stdout + p.stderr)[-4000:]))
    return out


def c07_model_jobs(tier, seed):
    q = tier == "quick"
    base = {"GenSeed": 1, "NCases": 0, "Emit": "FALSE"}
    jobs = [("partition-exhaustive",
             cfg_text(dict(base, MinV=1, MaxV=6 if q else 8, TwoStatus="FALSE"), "InitA", "NextA", ["InvA"]),
             4 if q else 8, 6000, False),
            # towards the design bound of 10 validators: every active / inactive pattern, full preset grid, every pivot,
            # 4 structured coin tables
            ("partition-wide",
             cfg_text(dict(base, MinV=7, MaxV=9 if q else 10, TwoStatus="TRUE"), "InitA", "NextA", ["InvA"]),
             3 if q else 8, 6000, False)]
    ngen = 8 if q else 40
    for k in range(ngen):
        jobs.append(("gen-%d" % k,
                     cfg_text({"MinV": 1, "TwoStatus": "FALSE", "MaxV": 10 + 2 * (k % 4) if q else 10 + 3 * (k % 8),
                               "GenSeed": (seed * 271 + k * 31 + 5) % 30011, "NCases": 3 if q else 4, "Emit": "TRUE"},
                              "InitB", "NextB", ["InvB"]), 2, 6000, True))
    # long rejection runs: the first 33 / 40 / 65 sampling bytes are 255 (rejected by every balance below the maximum),
    # small registries, proposer of every slot and sync committee
    jobs.append(("reject-runs",
                 cfg_text({"MinV": 1, "TwoStatus": "FALSE", "MaxV": 7, "GenSeed": (seed * 53 + 3) % 30011,
                           "NCases": 3 if q else 10, "Emit": "TRUE"}, "InitC", "NextC", ["InvC"]), 2, 6000, True))
    return jobs


def run_committee_job(job):
    name, cfg, workers, timeout, emits = job
    res = tlc_model_run("MC_Committees", cfg, name, workers, timeout)
    cases = parse_cases(res.out) if emits else []
    if emits and not cases:
        raise lib.InfraError("generator %s produced no case" % name)
    return name, res, cases


def replay_committee_cases(cases, name="cases", binary=None):
    binary = binary or lib.build_harness("committees")
    d = lib.scratch("replay")
    cp = os.path.join(d, name + ".ndjson")
    rp = os.path.join(d, name + ".result.json")
    lib.write_ndjson(cp, cases)
    p = lib.run([binary, "replay", cp, rp], timeout=1800)
    if p.returncode != 0:
        raise lib.InfraError("committees replay failed: %s" % (p.stdout + p.stderr)[-3000:])
    return json.load(open(rp))


def c07_spec_to_code(tier, seed, cov, binary=None):
    jobs = c07_model_jobs(tier, seed)
    t = time.time()
    results = lib.parallel_map(run_committee_job, jobs, workers=MAX_TLC_PROCS)
    cov["tlc_wall_s"] = round(time.time() - t, 1)
    allcases = []
    for name, res, cases in results:
        cov["states"] += res.distinct
        cov["transitions"] += res.generated
        cov["tlc_runs"][name] = {"distinct": res.distinct, "generated": res.generated, "cases": len(cases),
                                 "wall_s": round(res.wall, 1)}
        allcases += cases
    cov["exhaustive"]["partition-wide"] = (
        "registries of %s validators, every active/inactive pattern (inactive kind alternating pending/exited), same preset "
        "grid, 1 round, every pivot, 4 structured coin tables" % ("7..9" if tier == "quick" else "7..10"))
    cov["exhaustive"]["partition-exhaustive"] = (
        "registries of <= %d validators x {active,pending,exited} x presets (2..4 slots, 1..3 max committees, target 1..2), "
        "1 round, all pivots, all coin tables up to 4 active" % (6 if tier == "quick" else 8))
    res = replay_committee_cases(allcases, "gen", binary)
    cov["replayed_cases"] = res["cases"]
    cov["oracle_misses"] = res["oracle_misses"]
    cls = cov["replay_classes"]
    distinct = set()
    for c in allcases:
        f = c["focus"]
        if max(f["propIters"]) >= 2:
            cls["proposer_first_candidate_rejected"] += 1
        if max(f["propIters"]) >= 3:
            cls["proposer_two_rejections"] += 1
        if f["syncIters"] > c["P"]["SYNC_COMMITTEE_SIZE"]:
            cls["sync_candidate_rejected"] += 1
        for lim in (33, 65):
            if max(f["propIters"]) > lim:
                cls["proposer_sampling_loop_ge_%d_iterations" % lim] += 1
            if f["syncIters"] - c["P"]["SYNC_COMMITTEE_SIZE"] >= lim:
                cls["sync_sampling_loop_ge_%d_rejections" % lim] += 1
        if len(set(c["sync"])) < len(c["sync"]):
            cls["sync_duplicate_member"] += 1
        if any(cnt > 1 for cnt in c["counts"]):
            cls["several_committees_per_slot"] += 1
        if len({len(m) for ep in c["comms"] for s in ep for m in s}) > 1:
            cls["committee_sizes_differ"] += 1
        effs = {v[2] for v in c["vals"]}
        if len(effs) > 1:
            cls["unequal_effective_balances"] += 1
        # exact boundary  eff * 255 == MAX * byte  for some balance in use and an enumerated byte
        if any(v[2] * 255 == c["P"]["MAX_EFFECTIVE_BALANCE"] * b for v in c["vals"] for b in (f["b1"], f["b2"])):
            cls["byte_at_exact_acceptance_boundary"] += 1
        distinct.add(lib.digest([c["vals"], c["comms"], c["proposers"], c["sync"]]))
    cov["distinct_behaviours"] += len(distinct)
    cov["distinct_nontrivial"] += len(distinct)
    cov["evaluations"] += res["cases"] * 4
    for k in ("proposer_first_candidate_rejected", "proposer_two_rejections", "sync_candidate_rejected",
              "several_committees_per_slot", "committee_sizes_differ", "unequal_effective_balances",
              "byte_at_exact_acceptance_boundary", "proposer_sampling_loop_ge_33_iterations",
              "proposer_sampling_loop_ge_65_iterations", "sync_sampling_loop_ge_33_rejections",
              "sync_sampling_loop_ge_65_rejections"):
        if cls[k] == 0:
            raise lib.InfraError("vacuity guard: no TLC-generated case of class %s" % k)
    viol = []
    if res["mismatches"]:
        bad = sorted({m["line"] for m in res["mismatches"]})
        m0 = res["mismatches"][0]
        c0 = allcases[m0["line"] - 1]
        msg = "%s: %s; got %s want %s; preset %s, epoch %d, registry %s, TLC-chosen sampling bytes %s (%d mismatches in %d cases)" % (
            m0["what"], m0["detail"], str(m0.get("got"))[:200], str(m0.get("want"))[:200],
            {k: v for k, v in c0["P"].items() if k in ("SLOTS_PER_EPOCH", "MAX_COMMITTEES_PER_SLOT", "TARGET_COMMITTEE_SIZE", "SHUFFLE_ROUND_COUNT", "MAX_EFFECTIVE_BALANCE")},
            c0["epoch"], str(c0["vals"])[:200], [c0["focus"]["b1"], c0["focus"]["b2"]],
            res.get("mismatches_total", len(res["mismatches"])), len(bad))
        viol.append(("cases", {"kind": "cases", "cases": [allcases[i - 1] for i in bad[:3]]}, msg))
    else:
        cov["traces_validated_against_impl"] += res["cases"]
    cov["samples"] += [{"tag": c["tag"], "vals": c["vals"], "proposers": c["proposers"], "sync": c["sync"], "focus": c["focus"]}
                       for c in allcases[:2]]
    return viol


def c07_plan(tier, seed):
    rng = random.Random(seed * 104729 + 7)
    q = tier == "quick"
    plan = []
    chain = [0]

    def preset(big=False):
        spe = rng.choice([2, 3, 4, 4, 8])
        scale = rng.choice([(32000, 1000), (32000, 1000), (25500, 100), (64, 2)])
        return {"SLOTS_PER_EPOCH": spe, "MAX_COMMITTEES_PER_SLOT": rng.choice([1, 2, 2, 4]),
                "TARGET_COMMITTEE_SIZE": rng.choice([1, 2, 3, 4]), "SHUFFLE_ROUND_COUNT": rng.choice([1, 2, 3, 3, 5, 10]),
                "MAX_EFFECTIVE_BALANCE": scale[0], "EFFECTIVE_BALANCE_INCREMENT": scale[1],
                "SYNC_COMMITTEE_SIZE": rng.choice([4, 8, 16]), "EPOCHS_PER_HISTORICAL_VECTOR": rng.choice([8, 8, 16]),
                "MIN_SEED_LOOKAHEAD": rng.choice([1, 1, 2]), "EPOCHS_PER_SYNC_COMMITTEE_PERIOD": rng.choice([2, 2, 3, 4])}

    def nvals(p, big=False):
        if big:
            return rng.choice([257, 300, 520])
        return rng.randint(p["SLOTS_PER_EPOCH"], rng.choice([8, 16, 32, 64]))

    def nxt():
        chain[0] += 1
        return chain[0]
    nmut = 150 if q else 1500
    for i in range(nmut):
        p = preset()
        big = (i % (30 if q else 40) == 7)
        fork = rng.choice(["phase0", "phase0", "altair", "altair", "bellatrix", "capella", "deneb"])
        if big:
            p["SHUFFLE_ROUND_COUNT"] = rng.choice([1, 2, 3])
        plan.append({"kind": "mutated", "chain": nxt(), "P": p, "nvals": nvals(p, big), "fork": fork,
                     "epoch": rng.randint(0, 12), "slot_off": rng.randrange(p["SLOTS_PER_EPOCH"]),
                     "upgrade": fork == "phase0" and rng.random() < 0.6, "seed": rng.randrange(1 << 40)})
    nchain = 24 if q else 200
    for i in range(nchain):
        p = preset()
        if p["MAX_EFFECTIVE_BALANCE"] < 1000:      # rewards/penalties of a real chain wipe out such tiny balances
            p["MAX_EFFECTIVE_BALANCE"], p["EFFECTIVE_BALANCE_INCREMENT"] = 32000, 1000
        altair = rng.choice([-1, 0, 1, 2, 2, 3, 4])
        later = -1
        if altair >= 0 and rng.random() < 0.5:
            later = altair + rng.randint(0, 3)
        if i < 2:     # pinned: the altair upgrade and at least two period boundaries happen inside the chain
            altair, later = (1, -1) if i == 0 else (0, 1)
            p["EPOCHS_PER_SYNC_COMMITTEE_PERIOD"] = 2
        plan.append({"kind": "chain", "chain": nxt(), "P": p, "nvals": nvals(p), "altair": altair, "later": later,
                     "epochs": 8 if i < 2 else (rng.randint(5, 8) if q else rng.randint(6, 14)),
                     "seed": rng.randrange(1 << 40)})
    # real, signed, block-carrying histories built by harness/chain (deposits through the activation queue, exits,
    # slashings, ejections, rewards / penalties / leaks, all forks, sync-committee rotations after real participation)
    corners = ["leak-with-ejections", "mass-slashing", "deposit-mix"]
    if not q:
        corners += ["empty-epochs", "fork-boundary-blocks", "fork-boundary-gaps", "late-inclusion", "exact-two-thirds",
                    "leak-across-forks", "exit-queue", "eth1-majority-edge", "withdrawal-sweep", "bls-changes-late",
                    "sync-patterns", "genesis-balances", "never-merged", "s4-long", "wrong-votes"]
    for cn in corners:
        plan.append({"kind": "blocks", "chain": nxt(), "corner": cn, "seed": rng.randrange(1 << 40), "mid_p": 0.12})
    nrand = 2 if q else 30
    for i in range(nrand):
        preset = "S1" if i == 0 else rng.choice(["S1", "S2", "S2", "S3", "S4"])
        if i == 0:
            forks = [1, 2, 3, 4]
        else:
            a = rng.choice([0, 0, 1, 2, 3])
            forks = [a]
            for _ in range(3):
                forks.append(-1 if forks[-1] < 0 or rng.random() < 0.25 else forks[-1] + rng.randint(0, 3))
        plan.append({"kind": "blocks", "chain": nxt(), "preset": preset, "forks": forks, "epochs": 12 if q else rng.randint(12, 18),
                     "seed": rng.randrange(1 << 40), "mid_p": 0.12 if q else 0.2})
    return plan


def record_committees(plan, name="rec", binary=None):
    binary = binary or lib.build_harness("committees")
    d = lib.scratch("record")
    pp = os.path.join(d, name + ".plan.ndjson")
    ep = os.path.join(d, name + ".events.ndjson")
    lib.write_ndjson(pp, plan)
    p = lib.run([binary, "record", pp, ep], timeout=1800)
    if p.returncode != 0:
        raise lib.InfraError("committees record failed: %s" % (p.stdout + p.stderr)[-3000:])
    lines = [l for l in open(ep).read().splitlines() if l.strip()]
    kept = [l for l in lines if not l.startswith('{"ev":"Skipped"') and not l.startswith('{"ev":"Failed"')]
    record_committees.skipped = sum(1 for l in lines if l.startswith('{"ev":"Skipped"'))
    record_committees.failed = [json.loads(l) for l in lines if l.startswith('{"ev":"Failed"')]
    return kept


def validate_committee_trace(lines, name, deviations, diagnose=False, timeout=6000):
    """Returns (first_rejected_index or None, TLCResult, deviation_lines, cov_by_line)."""
    cfg = cfg_text({"TraceFile": '"trace.ndjson"', "Diagnose": "TRUE" if diagnose else "FALSE",
                    "KnownDeviations": "{" + ", ".join('"%s"' % d for d in sorted(deviations)) + "}"},
                   "Init", "Next", post="AllAccepted")
    wd = lib.fresh_spec_copy({name + ".cfg": cfg, "trace.ndjson": "\n".join(lines) + "\n"})
    res = lib.tlc("CommitteesTrace", cfg=name + ".cfg", workdir=wd, workers=1, timeout=timeout)
    shutil.rmtree(wd, ignore_errors=True)
    out = res.out
    m = re.search(r"The depth of the complete state graph search is (\d+)", out)
    if m is None:
        raise lib.InfraError("trace validation CommitteesTrace/%s did not complete:\n%s" % (name, out[-4000:]))
    depth = int(m.group(1))
    devs = [(d.group(1), int(d.group(2))) for d in re.finditer(r'<<"DEVIATION", "(\w+)", (\d+)>>', out)]
    covs = {}
    for cm in re.finditer(r'^<<"COV", (\d+), (".*")>>$', out, re.M):
        covs[int(cm.group(1))] = json.loads(json.loads(cm.group(2)))
    other = [e for e in res.errors if "AllAccepted" not in e and "ostcondition" not in e]
    if other:
        i = out.find("Error:")
        head = re.sub(r"\n\s*-?\d+,?(?=\n)", "", out[i:i + 60000])[:4000]     # drop the lines that only hold one number
        raise lib.InfraError("trace validation CommitteesTrace/%s: TLC error (harness oracle table too small or spec bug):\n%s" % (name, head))
    if depth == len(lines) + 1:
        return None, res, devs, covs
    if not 1 <= depth <= len(lines):
        raise lib.InfraError("trace validation CommitteesTrace/%s: impossible depth %d" % (name, depth))
    return depth - 1, res, devs, covs


def group_by_chain(lines):
    groups, cur, last = [], [], None
    for i, l in enumerate(lines):
        m = re.search(r'"chain":(\d+)', l)
        ch = int(m.group(1))
        if ch != last and cur:
            groups.append(cur)
            cur = []
        cur.append(i)
        last = ch
    if cur:
        groups.append(cur)
    return groups


def c07_code_to_spec(tier, seed, cov, binary=None, plan=None):
    full = plan is None
    plan = plan or c07_plan(tier, seed)
    t = time.time()
    lines = record_committees(plan, "rec", binary)
    groups = group_by_chain(lines)
    # balance groups over shards by bytes
    nsh = min(MAX_TLC_PROCS, max(1, len(groups)))
    shards = [[] for _ in range(nsh)]
    loads = [0] * nsh
    for g in sorted(groups, key=lambda g: -sum(len(lines[i]) for i in g)):
        j = loads.index(min(loads))
        shards[j].append(g)
        loads[j] += sum(len(lines[i]) for i in g)
    shards = [sorted(s, key=lambda g: g[0]) for s in shards if s]
    deviations = {d for d, fid in KNOWN_DEVIATIONS.items()
                  if any(e.get("id") == fid for e in lib.active_findings("C07"))}

    def work(arg):
        k, gs = arg
        idxs = [i for g in gs for i in g]
        try:
            bad, res, devs, covs = validate_committee_trace([lines[i] for i in idxs], "com-%d" % k, deviations)
        except lib.InfraError as ex:
            return ex
        return (None if bad is None else idxs[bad], res, [(d, idxs[ln - 1]) for d, ln in devs],
                {idxs[ln - 1]: c for ln, c in covs.items()})
    outs = lib.parallel_map(work, list(enumerate(shards)), workers=len(shards))
    # verdicts come first: a shard that could not be evaluated only matters if no other shard found a deviation
    shard_errors = [o for o in outs if isinstance(o, lib.InfraError)]
    outs = [o for o in outs if not isinstance(o, lib.InfraError)]
    if shard_errors and not any(o[0] is not None for o in outs):
        raise shard_errors[0]
    for ex in shard_errors:
        lib.log("note: a trace shard could not be evaluated (reported only because other shards already hold a verdict): %s" % str(ex)[:600])
    cov["trace_wall_s"] = round(time.time() - t, 1)
    rejected = [o[0] for o in outs if o[0] is not None]
    devs = [d for o in outs for d in o[2]]
    covs = {}
    for o in outs:
        cov["states"] += o[1].distinct
        cov["transitions"] += o[1].generated
        covs.update(o[3])
    events = [json.loads(l) for l in lines]
    cov["recorded_states"] = len(events)
    cov["skipped_degenerate_states"] = getattr(record_committees, "skipped", 0)
    cls = cov["trace_classes"] = cov.get("trace_classes") or {}

    def bump(k, n=1):
        cls[k] = cls.get(k, 0) + n
    for i, e in enumerate(events):
        spe = e["P"]["SLOTS_PER_EPOCH"]
        cur = e["slot"] // spe
        vals = e["vals"]
        act = [v for v in vals if v[0] <= cur < v[1]]
        nxt = [v for v in vals if v[0] <= cur + 1 < v[1]]
        bump("fork_" + e["fork"])
        bump("kind_" + e["kind"])
        if e["boundary"]:
            bump("boundary_" + e["boundary"])
        if any(v[0] > cur for v in vals):
            bump("has_pending_validator")
        if any(v[1] <= cur for v in vals):
            bump("has_exited_validator")
        if any(v[3] for v in vals):
            bump("has_slashed_validator")
        if len({v[2] for v in act}) > 1:
            bump("unequal_effective_balances_among_active")
        if any(v[2] == 0 for v in act):
            bump("active_validator_with_zero_balance")
        if [v for v in vals if (v[0] <= cur < v[1]) != (v[0] <= cur + 1 < v[1])]:
            bump("next_epoch_active_set_differs")
        if len(vals) > 256:
            bump("registry_over_256")
        for a in e["epcs"]:
            bump("epc_" + a["src"])
            if any(c > 1 for c in a["counts"]):
                bump("several_committees_per_slot")
            for epc in a["comms"]:
                if len({len(m) for s in epc for m in s}) > 1:
                    bump("committee_sizes_differ_by_one")
                    break
        if e["kind"] == "blocks":
            h = json.loads(e["note"]["history"])
            vol = set(h["vol_exits"])
            bump("blocks_fork_" + e["fork"])
            if e["boundary"]:
                bump("blocks_boundary_" + e["boundary"])
            if any(0 < v[0] <= cur for v in vals):
                bump("blocks_validator_activated_via_queue")
            if any(v[1] < 1000000 and k in vol for k, v in enumerate(vals)):
                bump("blocks_validator_exited_voluntarily")
            if any(v[3] for v in vals):
                bump("blocks_validator_slashed")
            if any(v[1] < 1000000 and not v[3] and k not in vol for k, v in enumerate(vals)):
                bump("blocks_validator_ejected")
            if len({v[2] for v in act}) > 1:
                bump("blocks_unequal_effective_balances_from_rewards")
            if len(vals) > 16 and h["ops"].get("deposits"):
                bump("blocks_registry_grew_by_deposits")
            if h["ops"].get("attestations"):
                bump("blocks_after_real_attestations")
        seatlists = [e["sync_direct"]] + ([e["state_sync_cur"], e["state_sync_next"]] if e["has_sync"] else [])
        if any(len(set(x)) < len(x) for x in seatlists):
            bump("sync_committee_with_multi_seat_member")
            if len(nxt) < e["P"]["SYNC_COMMITTEE_SIZE"]:
                bump("multi_seat_certain_fewer_active_than_seats")
            elif len(set(e["sync_direct"])) < len(e["sync_direct"]):
                bump("multi_seat_although_enough_active_validators")
        if e["has_sync"] and len(e["state_sync_next_agg"]) == 48:
            bump("stored_aggregate_pubkey_checked")
        if e["has_sync"] and len(set(e["state_sync_cur"])) < len(e["state_sync_cur"]):
            bump("sync_committee_with_duplicate_member")
        c = covs.get(i)
        if c:
            if max(c["propIters"]) >= 2:
                bump("proposer_loop_2_or_more_iterations")
            if max(c["propIters"]) >= 3:
                bump("proposer_loop_3_or_more_iterations")
            if c["syncIters"] > e["P"]["SYNC_COMMITTEE_SIZE"]:
                bump("sync_loop_rejected_a_candidate")
    notes = [e["note"]["count_for_uncovered_epoch"] for e in events if e.get("note", {}).get("count_for_uncovered_epoch")]
    if any(n.startswith("panic") for n in notes):
        cov["observation_outside_C07"] = ("GetCommitteeCountPerSlot(epoch not covered by the context) panics instead of returning "
                                          "its error (%d states): %s -- see out/proposed_fixes/shuffle-1.diff" % (len(notes), notes[0][:120]))
        lib.log("observation (outside C07, no verdict): " + cov["observation_outside_C07"])
    cov["evaluations"] += sum(len(e["epcs"]) * (3 * e["P"]["SLOTS_PER_EPOCH"] * 2 + e["P"]["SLOTS_PER_EPOCH"] + 2) + 1 for e in events)
    dist = {lib.digest([e["vals"], e["slot"], e["epcs"][0]["comms"], e["epcs"][0]["proposers"]]) for e in events}
    cov["distinct_behaviours"] += len(dist)
    cov["distinct_nontrivial"] += len(dist)
    cov["samples"] += [{"slot": e["slot"], "fork": e["fork"], "vals": e["vals"][:6], "proposers": e["epcs"][0]["proposers"],
                        "state_sync_next": e["state_sync_next"]} for e in events[:1] + events[-1:]]
    viol = []
    for fe in getattr(record_committees, "failed", [])[:3]:
        it = [p for p in plan if p["chain"] == fe["chain"]]
        viol.append(("trace", {"kind": "trace", "plan": it, "failing": ["construction"]},
                     "zrnt failed while the %s state of plan item %d was built / advanced (genesis, upgrade, ProcessSlots, "
                     "NewEpochsContext): %s" % (fe["kind"], fe["chain"], fe["note"]["error"][:600])))
    if devs:
        byname = {}
        for d, idx in devs:
            byname.setdefault(d, []).append(idx)
        for d, idxs in byname.items():
            f = [e for e in lib.active_findings("C07") if e.get("id") == KNOWN_DEVIATIONS[d]][0]
            e0 = events[idxs[0]]
            lib.log("known deviation %s observed on %d recorded states (first: chain %d slot %d fork %s)" % (
                d, len(idxs), e0["chain"], e0["slot"], e0["fork"]))
            lib.report_known("C07", f["signature"])
            cov["known_deviation_" + d] = len(idxs)
    for idx in rejected[:3]:
        e = events[idx]
        grp = [g for g in groups if idx in g][0]
        diag_lines = [lines[i] for i in grp if i <= idx]
        try:
            _, dres, _, _ = validate_committee_trace(diag_lines, "diag%d" % idx, deviations, diagnose=True, timeout=900)
            dd = {}
            for dm in re.finditer(r'^<<"DIAG", (\d+), (".*")>>$', dres.out, re.M):
                dd[int(dm.group(1))] = json.loads(json.loads(dm.group(2)))
            d = dd.get(len(diag_lines), {})
            failing = ["%s:%s" % (e["epcs"][k]["src"], f) for k, chk in enumerate(d.get("epcs", [])) for f, v in chk.items() if v is False]
            failing += ["state:" + f for f, v in d.get("state", {}).items() if v is False]
            x = d.get("expected", {})
            detail = {"expected_proposers": x.get("proposers"), "got_proposers": [a["proposers"] for a in e["epcs"]],
                      "expected_counts": x.get("counts"), "got_counts": [a["counts"] for a in e["epcs"]],
                      "expected_syncNext": x.get("syncNext"), "sync_direct": e["sync_direct"],
                      "aggregates(direct,cur,next)": [e["sync_direct_agg"][:6], e["state_sync_cur_agg"][:6], e["state_sync_next_agg"][:6]],
                      "state_sync": [e["state_sync_cur"], e["state_sync_next"]]}
        except lib.InfraError as ex:
            failing, detail = ["diagnosis failed: " + str(ex)[-300:]], {}
        it = [p for p in plan if p["chain"] == e["chain"]]
        msg = "real state (chain %d, %s, fork %s, slot %d, %d validators) rejected by CommitteesTrace.tla; failing checks: %s; %s" % (
            e["chain"], e["kind"], e["fork"], e["slot"], len(e["vals"]), failing, json.dumps(detail)[:1500])
        viol.append(("trace", {"kind": "trace", "plan": it, "failing": failing}, msg))
    if not rejected:
        cov["traces_validated_against_impl"] += len(lines)
        if full and not shard_errors:
            need = ["fork_phase0", "fork_altair", "boundary_upgrade", "boundary_rotate", "has_pending_validator",
                    "has_exited_validator", "has_slashed_validator", "unequal_effective_balances_among_active",
                    "next_epoch_active_set_differs", "several_committees_per_slot", "committee_sizes_differ_by_one",
                    "proposer_loop_2_or_more_iterations", "sync_loop_rejected_a_candidate", "epc_running", "epc_fresh",
                    "registry_over_256", "kind_chain", "kind_mutated-upgraded", "kind_blocks",
                    "sync_committee_with_multi_seat_member", "multi_seat_certain_fewer_active_than_seats",
                    "multi_seat_although_enough_active_validators", "stored_aggregate_pubkey_checked",
                    "blocks_fork_phase0", "blocks_fork_altair", "blocks_fork_bellatrix", "blocks_fork_capella",
                    "blocks_fork_deneb", "blocks_boundary_upgrade", "blocks_boundary_rotate",
                    "blocks_validator_activated_via_queue", "blocks_validator_exited_voluntarily",
                    "blocks_validator_slashed", "blocks_validator_ejected",
                    "blocks_unequal_effective_balances_from_rewards", "blocks_after_real_attestations"]
            for k in need:
                if not cls.get(k):
                    raise lib.InfraError("vacuity guard: no recorded state of class %s" % k)
    return viol


def c07_replay(path, cov, binary=None):
    payload = json.load(open(path))
    viol = []
    if payload.get("kind") == "cases":
        res = replay_committee_cases(payload["cases"], "replay", binary)
        if res["mismatches"]:
            m0 = res["mismatches"][0]
            viol.append(("cases", payload, "%s: %s got %s want %s" % (m0["what"], m0["detail"], m0.get("got"), m0.get("want"))))
        else:
            cov["traces_validated_against_impl"] += res["cases"]
    elif payload.get("kind") == "trace":
        viol += c07_code_to_spec("quick", 0, cov, binary, plan=payload["plan"])
    else:
        raise lib.InfraError("unknown replay file kind")
    return viol


def c07_main(tier, seed, replay=None):
    t0 = time.time()
    cov = new_cov()
    cov["rule"] = ("distinct = digest of (registry, slot, committees, proposers[, sync committee]); every recorded state / "
                   "generated case computes committees, proposers and sync committees, i.e. is non-trivial")
    lib.build_harness("committees")
    if replay:
        viol = c07_replay(replay, cov)
        return finish("C07", tier, seed, cov, viol, t0, "replayed")
    viol = c07_spec_to_code(tier, seed, cov)
    try:
        viol += c07_code_to_spec(tier, seed, cov)
    except lib.InfraError as ex:
        # verdicts come first: deviations already observed on the real code are reported even if the other
        # direction could not be evaluated
        if not viol:
            raise
        lib.log("note: the code -> spec direction could not be evaluated (%s); reporting the deviations already observed" % str(ex)[:800])
    return finish("C07", tier, seed, cov, viol, t0, tier)


# ====================================================================== binding self-test


def _mutate(root, rel, old, new):
    p = os.path.join(root, rel)
    s = open(p).read()
    if s.count(old) < 1:
        raise lib.InfraError("selftest: pattern not found in %s" % rel)
    open(p, "w").write(s.replace(old, new, 1))


def selftest():
    """Demonstrates that the bindings of C06 / C07 can fail: corrupted traces are rejected by the trace specifications,
    a dropped event is noticed, and canned code mutations in a scratch copy of the tree produce mismatches in the
    replayers.  Returns a dict of named boolean results; raises InfraError if any is False."""
    out = {}
    rng = random.Random(5)
    # ---- C06 trace spec
    plan = [{"n": n, "rounds": r, "seed": [rng.randrange(256) for _ in range(32)], "offset": 100}
            for n, r in ((9, 3), (300, 2), (40, 10))]
    lines = record_shuffle(plan, "st")
    ok, bad, _ = validate_trace("ShuffleTrace", lines, "st-clean")
    out["c06_clean_trace_accepted"] = ok
    e = json.loads(lines[1])
    e["shuffled"][5], e["shuffled"][6] = e["shuffled"][6], e["shuffled"][5]
    ok, bad, _ = validate_trace("ShuffleTrace", [lines[0], json.dumps(e), lines[2]], "st-swap")
    out["c06_swapped_output_rejected_at_line_2"] = (not ok) and bad == 1
    e = json.loads(lines[2])
    e["hs"][4][0][1] = [b ^ 0xFF for b in e["hs"][4][0][1]]   # a digest the code did not see: every coin of round 4 flips
    ok, bad, _ = validate_trace("ShuffleTrace", [lines[0], lines[1], json.dumps(e)], "st-digest")
    out["c06_changed_digest_rejected_at_line_3"] = (not ok) and bad == 2
    e = json.loads(lines[0])
    e["unperm"][0], e["unperm"][1] = e["unperm"][1], e["unperm"][0]
    ok, bad, _ = validate_trace("ShuffleTrace", [json.dumps(e)], "st-unperm")
    out["c06_wrong_inverse_rejected"] = (not ok) and bad == 0
    e = json.loads(lines[1])
    e["hs"][0][1][0][36] = 9         # wrong window number in a logged pre-image: harness error, not a verdict
    try:
        validate_trace("ShuffleTrace", [json.dumps(e)], "st-layout")
        out["c06_wrong_preimage_layout_is_infra_error"] = False
    except lib.InfraError:
        out["c06_wrong_preimage_layout_is_infra_error"] = True
    # ---- C06 replayer with a canned mutation
    _, _, cases = run_shuffle_job(("st-emit", cfg_text(shuffle_constants(MaxN=3, MaxR=2, Emit="TRUE"), "Init", "Next",
                                                       SHUFFLE_THEOREMS, "EmitCase"), 2, 900, True))
    res = replay_shuffle_cases(cases, "st-clean")
    out["c06_replay_clean_tree_no_mismatch"] = not res["mismatches"]
    root = scratch_repo_copy("selftest-repo")
    _mutate(root, "eth2/beacon/common/shuffle.go", "mirror := (pivot + 1) >> 1", "mirror := pivot >> 1")
    res = replay_shuffle_cases(cases, "st-mut", build_against(root, "shuffle"))
    out["c06_replay_mutant_mirror_detected"] = bool(res["mismatches"])
    # ---- C07 trace spec
    P = {"SLOTS_PER_EPOCH": 4, "MAX_COMMITTEES_PER_SLOT": 2, "TARGET_COMMITTEE_SIZE": 2, "SHUFFLE_ROUND_COUNT": 3,
         "MAX_EFFECTIVE_BALANCE": 32000, "EFFECTIVE_BALANCE_INCREMENT": 1000, "SYNC_COMMITTEE_SIZE": 8,
         "EPOCHS_PER_HISTORICAL_VECTOR": 8, "MIN_SEED_LOOKAHEAD": 1, "EPOCHS_PER_SYNC_COMMITTEE_PERIOD": 2}
    cplan = [{"kind": "mutated", "chain": 1, "P": P, "nvals": 20, "fork": "phase0", "epoch": 5, "slot_off": 1,
              "upgrade": True, "seed": 11},
             {"kind": "chain", "chain": 2, "P": P, "nvals": 16, "altair": 2, "later": -1, "epochs": 6, "seed": 13}]
    cl = record_committees(cplan, "st")
    bad, _, devs, _ = validate_committee_trace(cl, "st-clean", set())
    out["c07_clean_trace_accepted"] = bad is None and not devs
    e = json.loads(cl[0])
    e["epcs"][0]["proposers"][1] = (e["epcs"][0]["proposers"][1] + 1) % 20
    bad, _, _, _ = validate_committee_trace([json.dumps(e)] + cl[1:], "st-prop", set())
    out["c07_wrong_proposer_rejected_at_line_1"] = bad == 0
    e = json.loads(cl[3])
    c0 = e["epcs"][0]["comms"][2][0][0]
    c0[0], c0[-1] = c0[-1], c0[0]
    if len(set(c0)) > 1:
        bad, _, _, _ = validate_committee_trace(cl[:3] + [json.dumps(e)] + cl[4:], "st-comm", set())
        out["c07_permuted_next_epoch_committee_rejected_at_line_4"] = bad == 3
    evs = [json.loads(l) for l in cl]
    rot = [i for i, x in enumerate(evs) if x["boundary"] == "rotate"]
    if not rot:
        raise lib.InfraError("selftest: no rotate boundary recorded")
    # drop the event recorded at the period boundary: the next event's stored committees no longer follow from the history
    dropped = cl[:rot[0]] + cl[rot[0] + 1:]
    bad, _, _, _ = validate_committee_trace(dropped, "st-drop", set())
    out["c07_dropped_boundary_event_noticed"] = bad == rot[0]
    e = json.loads(cl[rot[0]])
    e["state_sync_next"] = e["state_sync_cur"]
    for a in e["epcs"]:
        a["sync_next"] = e["state_sync_cur"]
    bad, _, _, _ = validate_committee_trace(cl[:rot[0]] + [json.dumps(e)], "st-sync", set())
    out["c07_unrotated_stored_sync_committee_rejected"] = bad == rot[0]
    up = [i for i, x in enumerate(evs) if x["boundary"] == "upgrade"][0]
    e = json.loads(cl[up])
    e["state_sync_next_agg"][5] ^= 1
    bad, _, _, _ = validate_committee_trace(cl[:up] + [json.dumps(e)], "st-agg", set())
    out["c07_wrong_stored_aggregate_pubkey_rejected"] = bad == up
    # seats that differ from the specification's have no BLS-oracle entry: that must be a mismatch, not a TLC error
    e = json.loads(cl[0])
    e["agg_oracle"] = []
    bad, _, _, _ = validate_committee_trace([json.dumps(e)], "st-noagg", set())
    out["c07_missing_oracle_entry_is_a_mismatch_not_an_error"] = bad == 0
    # ---- C07 replayer with a canned mutation
    _, _, ccases = run_committee_job(("st-gen", cfg_text({"MinV": 1, "TwoStatus": "FALSE", "MaxV": 10, "GenSeed": 3, "NCases": 2, "Emit": "TRUE"},
                                                         "InitB", "NextB", ["InvB"]), 2, 900, True))
    res = replay_committee_cases(ccases, "st-clean")
    out["c07_replay_clean_tree_no_mismatch"] = not res["mismatches"]
    _mutate(root, "eth2/beacon/common/proposers.go", "effectiveBalance*0xff >= spec.MAX_EFFECTIVE_BALANCE*Gwei(randomByte)",
            "effectiveBalance*0xff > spec.MAX_EFFECTIVE_BALANCE*Gwei(randomByte)")
    res = replay_committee_cases(ccases, "st-mut", build_against(root, "committees"))
    out["c07_replay_mutant_acceptance_boundary_detected"] = bool(res["mismatches"])
    shutil.rmtree(root, ignore_errors=True)
    failed = [k for k, v in out.items() if not v]
    for k, v in out.items():
        lib.log("selftest shuffle/committees: %-55s %s" % (k, "ok" if v else "FAILED"))
    if failed:
        raise lib.InfraError("binding self-test failed: %s" % failed)
    return out


if __name__ == "__main__":
    import sys
    if sys.argv[1:] == ["selftest"]:
        selftest()
