"""Family Shuffle / Committees (C06, C07): shared runner code.

C06 = spec/Shuffle.tla (+ MC_Shuffle.tla generators, ShuffleTrace.tla) bound to
      eth2/beacon/common/shuffle.go through harness/cmd/shuffle.
C07 = spec/Committees.tla (+ MC_Committees.tla, CommitteesTrace.tla) bound to shuffling.go, proposers.go,
      sync_committee.go, epochs_context.go, randao.go through harness/cmd/committees.
"""
import json
import os
import random
import re
import shutil
import time

import lib

CASE_RE = re.compile(r'^<<"CASE", (".*")>>$')


# ------------------------------------------------------------------ helpers


def cfg_text(constants, init, next_, invariants=(), constraint=None, post=None):
    lines = ["CONSTANTS"]
    for k, v in constants.items():
        lines.append("  %s = %s" % (k, v))
    lines.append("INIT " + init)
    lines.append("NEXT " + next_)
    if invariants:
        lines.append("INVARIANTS")
        lines += ["  " + i for i in invariants]
    if constraint:
        lines.append("CONSTRAINT " + constraint)
    if post:
        lines.append("POSTCONDITION " + post)
    lines.append("CHECK_DEADLOCK FALSE")
    return "\n".join(lines) + "\n"


def tla_set(xs):
    return "{" + ", ".join(str(x) for x in sorted(xs)) + "}"


def parse_cases(out):
    """JSON strings printed by PrintT(<<"CASE", ToJson(...)>>)."""
    cases = []
    for line in out.splitlines():
        m = CASE_RE.match(line.strip())
        if m:
            cases.append(json.loads(json.loads(m.group(1))))  # TLA+ string literal -> JSON text -> object
    return cases


def tlc_model_run(module, cfg, name, workers, timeout):
    """A model-checking / generation run that must complete without a model-level error."""
    wd = lib.fresh_spec_copy({name + ".cfg": cfg})
    res = lib.tlc(module, cfg=name + ".cfg", workdir=wd, workers=workers, timeout=timeout, deadlock=True)
    shutil.rmtree(wd, ignore_errors=True)
    if not res.ok or res.invariant_violated or "Error:" in res.out or \
            "Model checking completed. No error has been found." not in res.out:
        raise lib.InfraError("TLC run %s (model only, no verdict) failed:\n%s" % (name, res.out[-5000:]))
    return res


def scratch_repo_copy(name):
    """Private copy of the tree under test (for mutants / self-test); removed with the scratch root."""
    dst = os.path.join(lib.scratch_root(), name)
    if os.path.exists(dst):
        shutil.rmtree(dst)
    shutil.copytree(lib.REPO, dst, ignore=shutil.ignore_patterns(".git"))
    return dst


# ------------------------------------------------------------------ C06: model runs


def shuffle_constants(**kw):
    c = dict(MaxN=0, MinN=0, MaxR=0, Emit="FALSE", GenSizes="{}", GenRounds="{}", GenSeed=1, NRandom=0, RandMaxN=2)
    c.update(kw)
    return c


SHUFFLE_THEOREMS = ["InvDerived", "InvBijection", "InvImplEqSpec", "InvUnshuffle", "InvCodec"]


def c06_jobs(tier, seed):
    """(name, cfg, workers, timeout, emits) for every TLC run of MC_Shuffle."""
    q = tier == "quick"
    jobs = []
    # 1. exhaustive theorems: all n, all pivots, all coin tables
    jobs.append(("theorems", cfg_text(shuffle_constants(MaxN=5 if q else 7, MaxR=2), "Init", "Next",
                                      SHUFFLE_THEOREMS, "EmitCase"), 6 if q else 16, 3000, False))
    if q:
        jobs.append(("theorems-n6-r1", cfg_text(shuffle_constants(MinN=6, MaxN=7, MaxR=1), "Init", "Next",
                                                SHUFFLE_THEOREMS, "EmitCase"), 2, 1500, False))
    # (thorough) three rounds for the smaller sizes
    if not q:
        jobs.append(("theorems3", cfg_text(shuffle_constants(MaxN=4, MaxR=3), "Init", "Next",
                                           SHUFFLE_THEOREMS, "EmitCase"), 4, 1500, False))
    # 2. exhaustive test-case generation for the replayer
    jobs.append(("emit-small", cfg_text(shuffle_constants(MaxN=4 if q else 5, MaxR=2, Emit="TRUE"), "Init", "Next",
                                        SHUFFLE_THEOREMS, "EmitCase"), 4 if q else 8, 1500, True))
    # 3. structured corner cases around multiples of 8 / 256
    if q:
        groups = [[2, 3, 8, 9], [255], [256], [257], [258], [511], [512], [513], [514]]
        rounds = [1, 2]
    else:
        groups = [[1, 2, 3, 7, 8, 9, 15, 16, 17, 31, 32, 33]] + [[x] for x in
                  (254, 255, 256, 257, 258, 259, 263, 264, 265, 510, 511, 512, 513, 514, 515, 767, 768, 769, 1023, 1024, 1025)]
        rounds = [1, 2, 3]
    for g in groups:
        for r in rounds:
            jobs.append(("struct-%s-r%d" % ("_".join(map(str, g)), r),
                         cfg_text(shuffle_constants(Emit="TRUE", GenSizes=tla_set(g), GenRounds=tla_set([r])),
                                  "InitGen", "NextStructured", ["InvDerived", "InvBig", "InvCodec"], "EmitCase"), 1, 1500, True))
    # 4. pseudo-random cases seeded by VERIF_SEED
    nrand = 4 if q else 16
    for k in range(nrand):
        jobs.append(("random-%d" % k,
                     cfg_text(shuffle_constants(Emit="TRUE", GenRounds=tla_set([1, 2, 3] if q else [1, 2, 3, 5]),
                                                GenSeed=(seed * 131 + k * 17 + 7) % 30011,
                                                NRandom=40 if q else 60, RandMaxN=700 if q else 1100),
                              "InitGen", "NextRandom", ["InvDerived", "InvBig", "InvCodec"], "EmitCase"), 1, 1500, True))
    return jobs


def run_shuffle_job(job):
    name, cfg, workers, timeout, emits = job
    res = tlc_model_run("MC_Shuffle", cfg, name, workers, timeout)
    cases = parse_cases(res.out) if emits else []
    if emits and not cases:
        raise lib.InfraError("generator %s produced no case" % name)
    return name, res, cases


def replay_shuffle_cases(cases, name="cases", binary=None):
    binary = binary or lib.build_harness("shuffle")
    d = lib.scratch("replay")
    cp = os.path.join(d, name + ".ndjson")
    rp = os.path.join(d, name + ".result.json")
    lib.write_ndjson(cp, cases)
    p = lib.run([binary, "replay", cp, rp], timeout=1200)
    if p.returncode != 0:
        raise lib.InfraError("shuffle replay failed: %s" % (p.stdout + p.stderr)[-3000:])
    return json.load(open(rp))


# ------------------------------------------------------------------ C06: recorded traces (real SHA-256)


def shuffle_plan(tier, seed):
    rng = random.Random(seed * 7919 + 13)
    q = tier == "quick"

    def item(n, rounds):
        return {"n": n, "rounds": rounds, "seed": [rng.randrange(256) for _ in range(32)],
                "offset": rng.choice([0, 1, 1000, 70000])}
    plan = []
    top = 600 if q else 1030
    # every size, small round counts (1..3 in rotation, randomly shifted), `reps` seeds each
    reps = 1 if q else 3
    for n in range(0, top + 1):
        for k in range(reps):
            plan.append(item(n, 1 + (n + k + seed) % 3))
    # every size with 10 rounds (thorough) / every 3rd size (quick); 90 rounds on a sample
    for n in range(0, top + 1):
        if not q or (n + seed) % 3 == 0:
            plan.append(item(n, 10))
        if (n + seed) % (20 if q else 4) == 0:
            plan.append(item(n, 90))
    # boundary sizes with every round count of the quantifier
    special = [0, 1, 2, 3, 7, 8, 9, 255, 256, 257, 258, 511, 512, 513, 514, 600]
    if not q:
        special += [767, 768, 769, 1023, 1024, 1025, 1030]
    for n in special:
        for r in (0, 1, 2, 3, 10, 90, 255):
            if r == 255 and q and n not in (0, 1, 2, 257, 513):
                continue
            plan.append(item(n, r))
    if not q:
        for n in range(5, top, 37):
            plan.append(item(n, 255))
        for n in (5, 100, 300):
            for r in range(0, 256, 5):
                plan.append(item(n, r))
    return plan


def record_shuffle(plan, name="rec", binary=None):
    binary = binary or lib.build_harness("shuffle")
    d = lib.scratch("record")
    pp = os.path.join(d, name + ".plan.ndjson")
    ep = os.path.join(d, name + ".events.ndjson")
    lib.write_ndjson(pp, plan)
    p = lib.run([binary, "record", pp, ep], timeout=1200)
    if p.returncode != 0:
        raise lib.InfraError("shuffle record failed: %s" % (p.stdout + p.stderr)[-3000:])
    return [l for l in open(ep).read().splitlines() if l.strip()]


def validate_trace(module, lines, name, diagnose=False, timeout=1500):
    """Run <module>.tla on the given ndjson lines. Returns (accepted_all, first_rejected_index or None, TLCResult)."""
    cfg = cfg_text({"TraceFile": '"trace.ndjson"', "Diagnose": "TRUE" if diagnose else "FALSE"},
                   "Init", "Next", post="AllAccepted")
    wd = lib.fresh_spec_copy({name + ".cfg": cfg, "trace.ndjson": "\n".join(lines) + "\n"})
    res = lib.tlc(module, cfg=name + ".cfg", workdir=wd, workers=1, timeout=timeout)
    shutil.rmtree(wd, ignore_errors=True)
    out = res.out
    if "Assert" in out and "harness oracle" in out:
        raise lib.InfraError("trace spec %s: harness oracle table rejected (harness bug):\n%s" % (module, out[-3000:]))
    m = re.search(r"The depth of the complete state graph search is (\d+)", out)
    completed = "Model checking completed" in out or "Finished in" in out
    post_failed = "AllAccepted" in out and ("violated" in out or "false" in out.lower())
    if m is None or not completed:
        raise lib.InfraError("trace validation %s/%s did not complete:\n%s" % (module, name, out[-4000:]))
    depth = int(m.group(1))
    other_errors = [e for e in res.errors if "AllAccepted" not in e and "ostcondition" not in e]
    if depth == len(lines) + 1:
        if other_errors:
            raise lib.InfraError("trace validation %s/%s: unexpected TLC error:\n%s" % (module, name, out[-4000:]))
        return True, None, res
    if depth > len(lines) + 1 or depth < 1:
        raise lib.InfraError("trace validation %s/%s: impossible depth %d" % (module, name, depth))
    if not post_failed and not diagnose:
        raise lib.InfraError("trace validation %s/%s: short trace but no postcondition failure:\n%s" % (module, name, out[-4000:]))
    return False, depth - 1, res   # 0-based index of the first rejected line


def diagnose_event(module, line, name="diag"):
    """Which conjunct of the trace spec rejects this event (best effort, for the report)."""
    try:
        _, _, res = validate_trace(module, [line], name, diagnose=True, timeout=600)
    except lib.InfraError as ex:
        return {"error": str(ex)[-500:]}
    for l in res.out.splitlines():
        m = re.match(r'^<<"DIAG", \d+, (".*")>>$', l.strip())
        if m:
            return json.loads(json.loads(m.group(1)))
    return {}


def shard(lines, k, weight=len):
    """Greedy balanced split of lines into k shards by weight, order-preserving inside a shard."""
    shards = [[] for _ in range(k)]
    loads = [0] * k
    for idx in sorted(range(len(lines)), key=lambda i: -weight(lines[i])):
        j = loads.index(min(loads))
        shards[j].append(idx)
        loads[j] += weight(lines[idx])
    return [sorted(s) for s in shards if s]


def validate_sharded(module, lines, name, nshards=None, weight=len):
    """Validate independent events in parallel TLC processes. Returns (rejected_indices(first per shard), results)."""
    nshards = nshards or lib.NCPU
    shards = shard(lines, nshards, weight)

    def work(arg):
        k, idxs = arg
        ok, bad, res = validate_trace(module, [lines[i] for i in idxs], "%s-%d" % (name, k))
        return (None if ok else idxs[bad]), res
    outs = lib.parallel_map(work, list(enumerate(shards)), workers=nshards)
    return [b for b, _ in outs if b is not None], [r for _, r in outs]


# ------------------------------------------------------------------ C06: the check


def c06_spec_to_code(tier, seed, cov, binary=None):
    """Returns list of violations [(kind, payload, message)]."""
    jobs = c06_jobs(tier, seed)
    t = time.time()
    # the big exhaustive run gets its own workers; the single-worker generators fill the remaining cores
    results = lib.parallel_map(run_shuffle_job, jobs, workers=max(2, lib.NCPU - 6))
    cov["tlc_wall_s"] = round(time.time() - t, 1)
    allcases = []
    for name, res, cases in results:
        cov["states"] += res.distinct
        cov["transitions"] += res.generated
        cov["tlc_runs"][name] = {"distinct": res.distinct, "generated": res.generated, "cases": len(cases),
                                 "wall_s": round(res.wall, 1)}
        if name.startswith("theorems"):
            cov["exhaustive"][name] = {"theorems": "all n<=%d, rounds<=2" % (5 if tier == "quick" else 7),
                                       "theorems3": "all n<=4, rounds<=3",
                                       "theorems-n6-r1": "n in 6..7, 1 round"}[name] + ", all pivots, all coin tables"
        allcases += cases
    viol = []
    res = replay_shuffle_cases(allcases, "gen", binary)
    cov["replayed_cases"] = res["cases"]
    cov["evaluations"] += res["calls"]
    cov["oracle_misses"] = res["oracle_misses"]
    cov["oracle_unused_entries"] = res["oracle_unused_entries"]
    # coverage classes of the replayed cases
    cls = cov["replay_classes"]
    distinct = set()
    nontrivial = 0
    for c in allcases:
        n, piv = c["n"], c["piv"]
        if n in (0, 1):
            cls["n_0_1"] += 1
        if 255 <= n <= 258:
            cls["n_around_256"] += 1
        if 511 <= n <= 514:
            cls["n_around_512"] += 1
        if n % 8 in (0, 1, 7) and n > 1:
            cls["n_around_mult_of_8"] += 1
        if n > 1 and 0 in piv:
            cls["pivot_0"] += 1
        if n > 1 and (n - 1) in piv:
            cls["pivot_last"] += 1
        if n > 256 and any(p in (255, 256) for p in piv):
            cls["pivot_at_window_edge"] += 1
        if c["rounds"] >= 2:
            cls["rounds_ge_2"] += 1
        d = lib.digest([n, c["rounds"], c["perm"]])
        if d not in distinct:
            distinct.add(d)
            if c["perm"] != list(range(n)):
                nontrivial += 1
    cov["distinct_nontrivial"] += nontrivial
    cov["distinct_behaviours"] += len(distinct)
    for k in ("n_0_1", "n_around_256", "n_around_512", "n_around_mult_of_8", "pivot_0", "pivot_last",
              "pivot_at_window_edge", "rounds_ge_2"):
        if cls[k] == 0:
            raise lib.InfraError("vacuity guard: no replayed case of class %s" % k)
    if res["mismatches"]:
        bad_lines = sorted({m["line"] for m in res["mismatches"]})
        payload = {"kind": "cases", "cases": [allcases[i - 1] for i in bad_lines[:5]]}
        m0 = res["mismatches"][0]
        c0 = allcases[m0["line"] - 1]
        msg = "%s(n=%d, rounds=%d, TLC-chosen pivots %s): %s; got %s want %s (%d mismatching calls in %d cases)" % (
            m0["fn"], c0["n"], c0["rounds"], c0["piv"], m0["detail"], str(m0.get("got"))[:300],
            str(m0.get("want"))[:300], res.get("mismatches_total", len(res["mismatches"])), len(bad_lines))
        viol.append(("cases", payload, msg))
    else:
        cov["traces_validated_against_impl"] += res["cases"]
    cov["samples"] += [{"n": c["n"], "rounds": c["rounds"], "piv": c["piv"], "perm": c["perm"][:12]}
                       for c in allcases[1000:1003] + allcases[-2:]]
    return viol


def event_weight(line):
    m = re.search(r'"n":(\d+),"rounds":(\d+)', line)
    return 50 + int(m.group(1)) * (int(m.group(2)) + 2) if m else len(line)


def c06_code_to_spec(tier, seed, cov, binary=None, plan=None):
    plan = plan or shuffle_plan(tier, seed)
    t = time.time()
    lines = record_shuffle(plan, "rec", binary)
    if len(lines) != len(plan):
        raise lib.InfraError("recorder produced %d events for %d plan items" % (len(lines), len(plan)))
    rejected, results = validate_sharded("ShuffleTrace", lines, "shuf", weight=event_weight)
    cov["trace_wall_s"] = round(time.time() - t, 1)
    for r in results:
        cov["states"] += r.distinct
        cov["transitions"] += r.generated
    cov["recorded_events"] = len(lines)
    sizes = {p["n"] for p in plan}
    rounds = {p["rounds"] for p in plan}
    cov["trace_sizes"] = "%d distinct sizes, %d..%d" % (len(sizes), min(sizes), max(sizes))
    cov["trace_round_counts"] = sorted(rounds)
    cov["evaluations"] += sum(2 + 2 * p["n"] for p in plan)
    viol = []
    if rejected:
        for idx in rejected[:3]:
            diag = diagnose_event("ShuffleTrace", lines[idx], "diag%d" % idx)
            failing = sorted(k for k, v in diag.items() if v is False)
            p = plan[idx]
            msg = "real SHA-256 path: event n=%d rounds=%d rejected by ShuffleTrace.tla; failing checks: %s" % (
                p["n"], p["rounds"], failing or diag)
            viol.append(("trace", {"kind": "trace", "plan": [p], "failing": failing}, msg))
    else:
        cov["traces_validated_against_impl"] += len(lines)
        need_sizes = set(range(0, 601))
        if plan is not None and len(plan) > 100 and not need_sizes <= sizes:
            raise lib.InfraError("vacuity guard: recorded trace does not cover every size 0..600")
        if len(plan) > 100 and not {0, 1, 2, 3, 10, 90, 255} <= rounds:
            raise lib.InfraError("vacuity guard: recorded trace misses a round count of the quantifier")
    return viol


def new_cov():
    from collections import defaultdict
    return {"states": 0, "transitions": 0, "traces_validated_against_impl": 0, "samples": [], "evaluations": 0,
            "distinct_nontrivial": 0, "distinct_behaviours": 0, "tlc_runs": {}, "exhaustive": {},
            "replay_classes": defaultdict(int),
            "rule": "distinct = digest of (n, rounds, permutation); non-trivial = permutation differs from the identity"}


def finish(pid, tier, seed, cov, viol, t0, replay_prefix):
    cov["replay_classes"] = dict(cov.get("replay_classes", {}))
    known = lib.active_findings(pid)
    real = []
    for kind, payload, msg in viol:
        sig = payload.get("signature")
        hit = [k for k in known if sig and k.get("signature") == sig]
        if hit:
            lib.report_known(pid, hit[0]["signature"])
            continue
        real.append((kind, payload, msg))
    lib.write_evidence(pid, tier, seed, cov, time.time() - t0, violations=len(real))
    if real:
        for i, (kind, payload, msg) in enumerate(real[:3]):
            path = lib.save_replay(pid, "%s-seed%d-%s-%d.json" % (replay_prefix, seed, kind, i), payload)
            lib.report_violation(pid, path, msg)
        return 1
    lib.log("%s %s seed=%d: held; states=%d, traces_validated_against_impl=%d, wall=%.0fs" % (
        pid, tier, seed, cov["states"], cov["traces_validated_against_impl"], time.time() - t0))
    return 0


def c06_replay(path, cov, binary=None):
    payload = json.load(open(path))
    viol = []
    if payload.get("kind") == "cases":
        res = replay_shuffle_cases(payload["cases"], "replay", binary)
        cov["traces_validated_against_impl"] += res["cases"] if not res["mismatches"] else 0
        if res["mismatches"]:
            m0 = res["mismatches"][0]
            viol.append(("cases", payload, "%s: %s got %s want %s" % (m0["fn"], m0["detail"], m0.get("got"), m0.get("want"))))
    elif payload.get("kind") == "trace":
        viol += c06_code_to_spec("quick", 0, cov, binary, plan=payload["plan"])
    else:
        raise lib.InfraError("unknown replay file kind")
    return viol


def c06_main(tier, seed, replay=None):
    t0 = time.time()
    cov = new_cov()
    lib.build_harness("shuffle")
    if replay:
        viol = c06_replay(replay, cov)
        return finish("C06", tier, seed, cov, viol, t0, "replayed")
    viol = c06_spec_to_code(tier, seed, cov)
    viol += c06_code_to_spec(tier, seed, cov)
    return finish("C06", tier, seed, cov, viol, t0, tier)
