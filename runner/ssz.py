"""SSZ family (C04, C05 static half): TLC evaluates spec/SSZ.tla on spec/Schemas.tla for values generated from the
TLC-exported schema table; the Go harness (harness/cmd/ssz) compares the real zrnt types with what TLC computed.

Pipeline per preset:  SSZExport (TLC) -> schemas_<preset>.json -> `ssz gen` (values from the schema, seeded)
  -> shards -> SSZEval (TLC, one process per shard: encoding, lengths, merkle plan, canonical text tree, malformed
  encodings refused by the specification's decoder, self-consistency invariant) -> `ssz check` (real code) -> reports.
"""
import json
import os
import re
import shutil
import time

import lib

PRESETS = ["mainnet", "minimal", "tiny_a", "tiny_b"]
TLC_SLOTS = 6  # TLC processes this check runs at once (shared machine etiquette, CONVENTIONS.md)
FAMILY_FINDINGS = os.path.join(lib.VERIF, "known_findings.d", "ssz.json")

# the three malformed-input classes C04 names; everything the specification's decoder refuses for another reason
# (bool byte 2, bitvector padding bits, missing bitlist delimiter, trailing bytes) is reported as a note only.
REASON_CLASS = {
    "truncated": re.compile(r"truncated|length|element size|delimiter"),
    "limit": re.compile(r"limit"),
    "offsets": re.compile(r"offset"),
}


def _go_env():
    e = dict(lib.GO_ENV)
    return e


def export_schemas():
    """Run SSZExport once; returns dir holding schemas_<preset>.json."""
    wd = lib.fresh_spec_copy()
    res = lib.tlc("SSZExport", workdir=wd, workers=1, timeout=300)
    lib.tlc_must_pass(res, "SSZExport")
    for p in PRESETS:
        if not os.path.exists(os.path.join(wd, "schemas_%s.json" % p)):
            raise lib.InfraError("SSZExport did not write schemas_%s.json\n%s" % (p, res.out[-2000:]))
    return wd, res


def gen_cases(binary, schemas_path, out_path, seed, per, budget, malmax, over, types=None, maxmin=70000, startk=0):
    cmd = [binary, "gen", "-schemas", schemas_path, "-seed", str(seed), "-per", str(per), "-budget", str(budget),
           "-malmax", str(malmax), "-over", str(over), "-maxmin", str(maxmin), "-out", out_path, "-startk", str(startk)]
    if types:
        cmd += ["-types", types]
    p = lib.run(cmd, env=_go_env(), timeout=600)
    if p.returncode != 0:
        raise lib.InfraError("ssz gen failed: %s %s" % (p.stdout[-2000:], p.stderr[-2000:]))
    return json.loads(p.stdout.strip().splitlines()[-1])


def shard_cases(path, nshards):
    """Greedy balance by line length (cost of TLC evaluation is roughly proportional to value size)."""
    lines = [l for l in open(path) if l.strip()]
    order = sorted(range(len(lines)), key=lambda i: -len(lines[i]))
    nshards = max(1, min(nshards, len(lines)))
    loads = [0] * nshards
    shards = [[] for _ in range(nshards)]
    for i in order:
        k = loads.index(min(loads))
        # mutants multiply the decoding work
        w = len(lines[i]) * (4 if '"m":0,' not in lines[i][:200] else 1) + 2000
        loads[k] += w
        shards[k].append(lines[i])
    return [s for s in shards if s]


def eval_shard(job):
    """job = (preset, schemas_dir, shard_lines, binary, idx). Returns dict with tlc result, report lines."""
    preset, schemas_dir, lines, binary, idx, timeout = job
    cfg = 'CONSTANT PresetName = "%s"\nINIT Init\nNEXT Next\nINVARIANT SelfConsistent\nCHECK_DEADLOCK FALSE\n' % preset
    wd = lib.fresh_spec_copy({"SSZEvalRun.cfg": cfg, "cases.ndjson": "".join(lines)})
    res = lib.tlc("SSZEval", cfg="SSZEvalRun.cfg", workdir=wd, workers=1, timeout=timeout, heap="4g")
    if res.invariant_violated:
        # the specification disagrees with itself (or the generator produced an ill-formed value): not a verdict
        raise lib.InfraError("SSZEval self-consistency invariant violated (preset %s shard %d):\n%s" % (
            preset, idx, res.out[-3000:]))
    lib.tlc_must_pass(res, "SSZEval %s/%d" % (preset, idx))
    results = os.path.join(wd, "results.ndjson")
    n = 0
    with open(results, "w") as out:
        for i in range(1, len(lines) + 1):
            rp = os.path.join(wd, "res_%d.json" % i)
            if not os.path.exists(rp):
                raise lib.InfraError("TLC did not write %s (preset %s shard %d)\n%s" % (rp, preset, idx, res.out[-2000:]))
            out.write(open(rp).read().strip() + "\n")
            os.unlink(rp)
            n += 1
    report = os.path.join(wd, "report.ndjson")
    p = lib.run([binary, "check", "-schemas", os.path.join(schemas_dir, "schemas_%s.json" % preset),
                 "-results", results, "-out", report], env=_go_env(), timeout=900)
    if p.returncode != 0:
        raise lib.InfraError("ssz check failed (preset %s shard %d): %s %s" % (preset, idx, p.stdout[-2000:], p.stderr[-3000:]))
    reps = lib.read_ndjson(report)
    cases = {}
    for l in lines:
        c = json.loads(l)
        cases[c["id"]] = c
    shutil.rmtree(wd, ignore_errors=True)
    return {"preset": preset, "tlc": res, "reports": reps, "cases": cases, "n": n}


# ------------------------------------------------------------------------------------------------ findings


def load_findings():
    if not os.path.exists(FAMILY_FINDINGS):
        return []
    return [e for e in json.load(open(FAMILY_FINDINGS)).get("entries", []) if e.get("kind") == "finding"]


def match_finding(entries, pid, d):
    """d = {type, preset, dev}.  An entry matches only the precise signature it describes (type, method, class and the
    value class encoded in mal/reason/detail), so any other deviation of the same property is still a violation."""
    typ, dev = d["type"], d["dev"]
    for e in entries:
        m = e.get("match")
        if not m or e.get("property") != pid:
            continue
        if m.get("method_in") and dev["method"] not in m["method_in"]:
            continue
        if m.get("class_in") and dev["class"] not in m["class_in"]:
            continue
        if m.get("type") and not re.fullmatch(m["type"], typ):
            continue
        if m.get("presets") and d["preset"] not in m["presets"]:
            continue
        if m.get("mal") and not re.fullmatch(m["mal"], dev.get("mal", "")):
            continue
        if m.get("reason") and not re.fullmatch(m["reason"], dev.get("reason", "")):
            continue
        if m.get("detail") and not re.search(m["detail"], dev.get("detail", "")):
            continue
        if m.get("detail_check") == "bitlist_boundary":
            mm = re.search(r"bitlist is too big: (\d+) bytes, limit is (\d+) \(bitlimit (\d+)\)", dev.get("detail", ""))
            if not mm:
                continue
            nbytes, lim, bits = int(mm.group(1)), int(mm.group(2)), int(mm.group(3))
            if not (bits % 8 == 0 and nbytes == bits // 8 + 1 and lim == bits // 8):
                continue
        if m.get("delta_by_preset"):
            mm = re.search(r"(?:ByteLength|FixedLength)=(\d+), (?:bytes written=|schema says )(\d+)", dev.get("detail", ""))
            if not mm or int(mm.group(1)) - int(mm.group(2)) != m["delta_by_preset"].get(d["preset"]):
                continue
        return e
    return None


def in_statement(dev):
    """Is this malformed-input deviation one of the classes the C04 statement names (truncated input, list/bitlist
    over its limit, inconsistent offsets)?  Every mutation operator of SSZ.tla currently belongs to one of them; a
    refusal the specification's decoder makes for another reason would be reported as a note only."""
    if dev["class"] != "malformed_accepted":
        return True
    mal = dev.get("mal", "")
    if mal in ("truncate", "overlimit") or mal.startswith("offset"):
        return True
    reason = dev.get("reason", "")
    return any(rx.search(reason) for rx in REASON_CLASS.values())


# ------------------------------------------------------------------------------------------------ pipeline


def run_pipeline(pid, tier, seed, presets, per, budget, malmax, over, rounds=1, types=None, time_budget=None,
                 shard_timeout=900, startk=0):
    """Returns (stats, deviations) where deviations = list of dicts {prop,type,preset,dev,case,known}."""
    t0 = time.time()
    binary = lib.build_harness("ssz")
    schemas_dir, exp_res = export_schemas()
    stats = {
        "states": exp_res.distinct, "transitions": exp_res.generated, "cases": 0, "checks": 0,
        "per_type": {}, "per_preset": {}, "mal": {}, "overlimit_cases": 0, "skipped_too_big": {},
        "distinct": set(), "distinct_nonzero": set(), "nontrivial": 0, "mal_total": 0, "notes": {}, "samples": [], "plan_hashes": 0, "tlc_runs": 1,
        "binding_gaps": set(), "rounds": 0, "views_checked": 0,
    }
    devs = []
    for rnd in range(rounds):
        if time_budget and rnd > 0 and time.time() - t0 > time_budget:
            break
        stats["rounds"] += 1
        jobs = []
        rseed = seed * 7919 + rnd
        for preset in presets:
            cpath = os.path.join(lib.scratch("sszcases"), "cases_%s_%d.ndjson" % (preset, rnd))
            info = gen_cases(binary, os.path.join(schemas_dir, "schemas_%s.json" % preset), cpath, rseed, per, budget,
                             malmax, over, types=types, startk=startk)
            stats["skipped_too_big"][preset] = info.get("skipped_too_big") or []
            # a few shards per TLC slot: better balance, and every TLC run stays short
            share = max(2, (3 * TLC_SLOTS) // max(1, len(presets)))
            for k, sh in enumerate(shard_cases(cpath, share)):
                jobs.append((preset, schemas_dir, sh, binary, k, shard_timeout))
            os.unlink(cpath)
        outs = lib.parallel_map(eval_shard, jobs, workers=TLC_SLOTS)
        for o in outs:
            stats["tlc_runs"] += 1
            stats["states"] += o["tlc"].distinct
            stats["transitions"] += o["tlc"].generated
            pp = stats["per_preset"].setdefault(o["preset"], {"cases": 0, "checks": 0})
            for r in o["reports"]:
                if r.get("summary"):
                    for g in r.get("binding_gaps") or []:
                        stats["binding_gaps"].add(g)
                    continue
                stats["cases"] += 1
                stats["checks"] += r["checks"]
                pp["cases"] += 1
                pp["checks"] += r["checks"]
                pt = stats["per_type"].setdefault(r["t"], {"cases": 0, "nonzero": 0, "max_bytes": 0, "min_bytes": 1 << 60,
                                                           "overlimit": 0, "mal": 0, "view": False})
                pt["cases"] += 1
                if r["kind"] == "overlimit":
                    pt["overlimit"] += 1
                    stats["overlimit_cases"] += 1
                else:
                    pt["max_bytes"] = max(pt["max_bytes"], r["bytes"])
                    pt["min_bytes"] = min(pt["min_bytes"], r["bytes"])
                    if r["nonzero"]:
                        pt["nonzero"] += 1
                        stats["nontrivial"] += 1
                        stats["distinct_nonzero"].add(r["hash"])
                    if r.get("has_view"):
                        pt["view"] = True
                        stats["views_checked"] += 1
                pt["mal"] += r.get("mal_tried", 0)
                stats["mal_total"] += r.get("mal_tried", 0)
                for k, v in (r.get("mal_by_kind") or {}).items():
                    stats["mal"][k] = stats["mal"].get(k, 0) + v
                stats["plan_hashes"] += r.get("plan_hashes", 0)
                stats["alias_probes"] = stats.get("alias_probes", 0) + r.get("alias_probes", 0)
                for k, v in (r.get("probes") or {}).items():
                    pp_ = stats.setdefault("probes", {}).setdefault(r["t"], {})
                    pp_[k] = pp_.get(k, 0) + v
                if r.get("odd_vectors") and r["kind"] == "value" and r.get("has_view"):
                    stats["odd_vector_cases"] = stats.get("odd_vector_cases", 0) + 1
                stats["distinct"].add(r["hash"])
                for nt in r.get("notes") or []:
                    key = r["t"] + ": " + nt[:100]
                    stats["notes"][key] = stats["notes"].get(key, 0) + 1
                for d in (r.get("devs") or []):
                    devs.append({"prop": d["prop"], "type": r["t"], "preset": o["preset"], "dev": d,
                                 "case": o["cases"].get(r["id"])})
                if len(stats["samples"]) < 4 and r["kind"] == "value" and r["nonzero"] and r["bytes"] < 200:
                    stats["samples"].append({"type": r["t"], "preset": o["preset"], "bytes": r["bytes"],
                                             "checks": r["checks"], "mal_tried": r.get("mal_tried", 0)})
    stats["wall"] = time.time() - t0
    return stats, devs


def adjudicate(pid, devs):
    """Split the deviations of property pid into (violations, known {entry_id: (entry, count, example)}, notes)."""
    entries = load_findings()
    viol, known, notes = [], {}, {}
    for d in devs:
        if d["prop"] != pid:
            continue
        if not in_statement(d["dev"]):
            k = "%s %s mal=%s reason=%s (outside the malformed-input classes the statement names)" % (
                d["type"], d["dev"]["method"], d["dev"].get("mal"), d["dev"].get("reason"))
            notes[k] = notes.get(k, 0) + 1
            continue
        e = match_finding(entries, pid, d)
        if e is None:
            viol.append(d)
        else:
            ent = known.setdefault(e["id"], [e, 0, d])
            ent[1] += 1
    return viol, known, notes


def coverage_guard(stats, need_mal):
    if stats["binding_gaps"]:
        raise lib.InfraError("schema table and Go registry disagree: %s" % sorted(stats["binding_gaps"]))
    holes = []
    schemas_types = stats.get("all_types") or []
    for t in schemas_types:
        pt = stats["per_type"].get(t)
        if not pt or pt["nonzero"] < 1:
            holes.append(t + ": no non-default value checked")
        elif not pt.get("fixed") and pt["max_bytes"] <= pt["min_bytes"] and pt["cases"] > 1 and pt.get("variable"):
            holes.append(t + ": variable-size type never seen with more than its smallest encoding")
    if holes:
        raise lib.InfraError("coverage holes: " + "; ".join(holes[:20]))
    if stats.get("odd_vector_cases", 0) == 0:
        raise lib.InfraError("no struct/view/plan root comparison ran on a type with a vector whose length is not a power of two")
    if stats.get("alias_probes", 0) == 0:
        raise lib.InfraError("no struct->view conversion was probed for argument aliasing")
    if need_mal:
        for k in ("truncate", "offset"):
            if stats["mal"].get(k, 0) == 0:
                raise lib.InfraError("no malformed encodings of class %s were tried" % k)
        if stats["overlimit_cases"] == 0:
            raise lib.InfraError("no over-limit encodings were tried")


def probe_totals(stats):
    tot = {}
    for t, d in stats.get("probes", {}).items():
        for k, v in d.items():
            tot[k] = tot.get(k, 0) + v
    return tot


FORK_PKGS = ["phase0", "altair", "bellatrix", "capella", "deneb", "electra"]
# probes that must have run (type, probe) - the vacuity guard of harness/cmd/ssz/probes.go
REQUIRED_PROBES = {
    "C05": [(f + ".SignedBeaconBlock", "signed_header|root") for f in FORK_PKGS]
    + [(f + ".BeaconBlockBody", k) for f in FORK_PKGS[2:] for k in
       ("shallow|root", "shallow|payload_root", "shallow|field", "shallow|with_payload", "shallow|with_other_payload")]
    + [(f + ".BeaconState", "new_view|default_root") for f in FORK_PKGS]
    + [("phase0.Validator", "new_view|default_root"), ("phase0.DepositRootsView", "new_view|default_root"),
       ("phase0.DepositRootsView", "as|root"), ("phase0.HistoricalBatch", "as|root"), ("altair.SyncAggregate", "as|root")],
    "C04": [(f + ".BeaconBlockBody", "check_limits|over") for f in FORK_PKGS]
    + [(f + ".BeaconBlockBody", "check_limits|valid") for f in FORK_PKGS]
    + [("common.MetaData", "data|field"), ("common.Status", "data|field"), ("common.JustificationBits", "bitvector|bitlen"),
       ("common.AttnetBits", "bitvector|bitlen"), ("common.SyncnetBits", "bitvector|bitlen"),
       ("phase0.Attestation", "wrap|proxy"), ("deneb.BeaconBlockBody", "body|get_transactions"),
       ("deneb.BeaconBlockBody", "body|get_blob_kzg_commitments"), ("electra.BeaconBlockBody", "body|get_transactions")],
    "C15": [(t, "as|construct") for t in (
        "altair.SyncAggregate", "altair.SyncCommitteeBits", "altair.SyncCommitteeSubnetBits", "altair.SyncCommitteeContribution",
        "altair.ContributionAndProof", "altair.SignedContributionAndProof", "altair.SyncCommitteeMessage",
        "bellatrix.ExecutionPayload", "capella.ExecutionPayload", "deneb.ExecutionPayload", "common.BLSSignature",
        "phase0.DepositRootsView", "phase0.HistoricalBatch", "common.Withdrawal", "common.BLSToExecutionChange",
        "common.SignedBLSToExecutionChange", "electra.AttestationBits", "electra.CommitteeBits", "common.Checkpoint",
        "common.BeaconBlockHeader", "common.Fork", "common.Eth1Data", "phase0.Validator")]
    + [(t, "as|accessor") for t in ("common.Withdrawal", "common.BLSToExecutionChange", "common.Checkpoint",
                                    "common.BeaconBlockHeader", "common.Eth1Data", "phase0.Validator", "phase0.HistoricalBatch")]
    + [(t, "as|raw") for t in ("common.Withdrawal", "common.BLSToExecutionChange", "common.SignedBLSToExecutionChange",
                               "altair.SyncCommitteeBits", "altair.SyncCommitteeSubnetBits", "electra.CommitteeBits",
                               "electra.AttestationBits", "common.Checkpoint")]
    + [(t, "view|accessor") for t in ("common.Withdrawal", "common.BLSToExecutionChange", "common.Checkpoint")],
}


def probe_guard(pid, stats):
    holes = []
    for t, k in REQUIRED_PROBES.get(pid, []):
        if stats.get("probes", {}).get(t, {}).get(k, 0) == 0:
            holes.append("%s never probed via %s" % (t, k))
    if holes:
        raise lib.InfraError("probe coverage holes: " + "; ".join(holes[:20]))


def table_types():
    """names + variable-size flag from a schema export (one TLC run, cached per process)."""
    wd, _ = export_schemas()
    doc = json.load(open(os.path.join(wd, "schemas_minimal.json")))
    return {t["name"]: (not t["fixed"], t["public"]) for t in doc["types"]}


def evidence_coverage(stats, extra=None):
    cov = {
        "states": stats["states"], "transitions": stats["transitions"],
        "traces_validated_against_impl": stats["cases"],
        "evaluations": stats["cases"] + stats["mal_total"],
        "distinct_nontrivial": len(stats["distinct_nonzero"]),
        "rule": "a case is one (type, preset, value) generated from the schema table (default, all-ones, full lists, "
                "boundary-biased random, over-limit) plus the malformed encodings derived from it; evaluations counts "
                "values + malformed encodings; distinct = hash(type, canonical encoding); non-trivial = the encoding "
                "has a non-zero byte",
        "distinct_cases": len(stats["distinct"]), "method_checks_on_real_code": stats["checks"],
        "types_bound": len(stats["per_type"]), "tlc_runs": stats["tlc_runs"], "rounds": stats["rounds"],
        "per_preset": stats["per_preset"], "malformed_tried": stats["mal"], "overlimit_cases": stats["overlimit_cases"],
        "sha256_hashes_evaluated_from_plans": stats["plan_hashes"],
        "struct_to_view_alias_probes": stats.get("alias_probes", 0),
        "probes_by_kind": probe_totals(stats),
        "bit_helper_cases": stats.get("bits", {}),
        "probes_per_type": stats.get("probes", {}),
        "vector_length_not_power_of_two": stats.get("odd_vector_cases", 0), "views_checked": stats["views_checked"],
        "skipped_too_big_for_tlc": stats["skipped_too_big"],
        "samples": stats["samples"],
        "notes_non_verdict": dict(sorted(stats["notes"].items())[:40]),
        "per_type_cases": {t: v["cases"] for t, v in sorted(stats["per_type"].items())},
    }
    if extra:
        cov.update(extra)
    return cov


TIERS = {
    # per = values per type and preset; budget = leaf bytes per value
    "C04": {"quick": dict(per=5, budget=5000, malmax=2000, over=1, rounds=1),
            "thorough": dict(per=8, budget=8000, malmax=3000, over=2, rounds=3, time_budget=600, shard_timeout=1500)},
    "C05": {"quick": dict(per=6, budget=6000, malmax=0, over=0, rounds=1),
            "thorough": dict(per=10, budget=10000, malmax=0, over=0, rounds=3, time_budget=500, shard_timeout=1500)},
}


def report(pid, viol, known, notes):
    for eid, (e, cnt, ex) in sorted(known.items()):
        lib.report_known(pid, "%s [%s] observed %d times, e.g. %s/%s: %s" % (
            e["signature"], eid, cnt, ex["type"], ex["preset"], ex["dev"]["detail"][:160]))
    for k, v in sorted(notes.items())[:10]:
        lib.log("note (no verdict): %s x%d" % (k, v))
    if not viol:
        return 0
    # one replay per distinct (type, method, class)
    seen = set()
    for d in viol:
        key = (d["type"], d["dev"]["method"], d["dev"]["class"], d["dev"].get("reason", ""))
        if key in seen:
            continue
        seen.add(key)
        name = "ssz_%s_%s_%s_%s.json" % (d["type"].replace(".", "-"), d["dev"]["method"].replace(".", "-"),
                                         d["dev"]["class"], d["preset"])
        path = lib.save_replay(pid, name, {"kind": "ssz-case" if d["case"] else "ssz-bits", "property": pid, "preset": d["preset"], "case": d["case"],
                                           "deviation": d["dev"], "type": d["type"]})
        lib.report_violation(pid, path, "%s %s %s [%s]: %s" % (d["type"], d["dev"]["method"], d["dev"]["class"],
                                                               d["preset"], d["dev"]["detail"][:600]))
        if len(seen) >= 12:
            break
    return 1


def replay(pid, path):
    doc = json.load(open(path))
    if doc.get("kind") == "ssz-bits":
        _, bdevs = run_bits()
        viol, known, notes = adjudicate(pid, bdevs)
        return report(pid, viol, known, notes)
    if doc.get("kind") != "ssz-case":
        raise lib.InfraError("not an ssz replay file: %s" % path)
    binary = lib.build_harness("ssz")
    schemas_dir, _ = export_schemas()
    case = dict(doc["case"])
    case.setdefault("sub", [])
    case.setdefault("olpath", "")
    out = eval_shard((doc["preset"], schemas_dir, [json.dumps(case, separators=(",", ":")) + "\n"], binary, 0, 600))
    devs = []
    for r in out["reports"]:
        if r.get("summary"):
            continue
        for d in (r.get("devs") or []):
            devs.append({"prop": d["prop"], "type": r["t"], "preset": doc["preset"], "dev": d, "case": case})
    viol, known, notes = adjudicate(pid, devs)
    return report(pid, viol, known, notes)


# helper methods of the bit-field / index-set types that must have been replayed from the TLC-enumerated cases
REQUIRED_BITS = [t + "." + m for t in ("phase0.AttestationBits", "electra.AttestationBits") for m in
                 ("BitLen", "GetBit", "SetBit", "Or", "Covers", "OnesCount", "FilterParticipants", "FilterNonParticipants",
                  "SingleParticipant", "Copy")] + [
    t + "." + m for t in ("altair.SyncCommitteeBits", "altair.SyncCommitteeSubnetBits", "electra.CommitteeBits")
    for m in ("GetBit", "SetBit")] + [
    "altair.SyncCommitteeSubnetBits.OnesCount", "common.ValidatorSet.Dedup", "common.ValidatorSet.MergeDisjoint",
    "common.ValidatorSet.Intersects", "common.ValidatorSet.Swap", "common.Version.ToUint32", "common.KZGCommitment.ToPubkey"]


def run_bits():
    """spec/Bits.tla: TLC enumerates the cases with the operators' results (BitsEval), `ssz bits` replays them on the code."""
    binary = lib.build_harness("ssz")
    wd = lib.fresh_spec_copy()
    res = lib.tlc("BitsEval", workdir=wd, workers=1, timeout=600)
    lib.tlc_must_pass(res, "BitsEval")
    cases = os.path.join(wd, "bits.ndjson")
    if not os.path.exists(cases):
        raise lib.InfraError("BitsEval wrote no cases\n" + res.out[-2000:])
    rep = os.path.join(wd, "bits_report.json")
    p = lib.run([binary, "bits", "-cases", cases, "-out", rep], env=_go_env(), timeout=600)
    if p.returncode != 0:
        raise lib.InfraError("ssz bits failed: %s %s" % (p.stdout[-1000:], p.stderr[-2000:]))
    doc = json.load(open(rep))
    counts = doc.get("counts") or {}
    missing = [k for k in REQUIRED_BITS if counts.get(k, 0) == 0]
    if missing:
        raise lib.InfraError("bit-field helpers never replayed: %s" % missing)
    devs = [{"prop": d["prop"], "type": d["type"], "preset": "-", "case": None,
             "dev": {"prop": d["prop"], "class": d["class"], "method": d["method"], "detail": d["detail"]}}
            for d in (doc.get("devs") or [])]
    return {"cases": doc["cases"], "counts": counts, "states": res.distinct, "transitions": res.generated}, devs


def run_typed_views(tier, seed):
    """C15 part of the static pipeline: typed views (AsX constructors, struct.View()) of every type read and return the
    element they name.  A reduced run: two presets, few values per type, no malformed encodings."""
    per = 2 if tier == "quick" else 6
    binary = lib.build_harness("ssz")
    p = lib.run([binary, "viewtypes"], env=_go_env(), timeout=120)
    names = [n for n in p.stdout.split() if n]
    if p.returncode != 0 or len(names) < 40:
        raise lib.InfraError("ssz viewtypes failed: %s" % p.stderr[-1000:])
    rx = "^(" + "|".join(re.escape(n) for n in names) + ")$"
    # values: one all-ones value and random ones (accessors of same-typed neighbouring fields must be told apart)
    stats, devs = run_pipeline("C15", tier, seed, ["minimal", "tiny_b"], per=per + 1, budget=3000, malmax=0, over=0, rounds=1,
                               types=rx, startk=2)
    stats["view_types"] = len(names)
    if stats["binding_gaps"]:
        raise lib.InfraError("schema table and Go registry disagree: %s" % sorted(stats["binding_gaps"]))
    probe_guard("C15", stats)
    viol, known, notes = adjudicate("C15", devs)
    return stats, viol, known, notes


def main_static(pid, tier, seed):
    """Shared body of C04 and the static half of C05."""
    cfg = dict(TIERS[pid][tier])
    stats, devs = run_pipeline(pid, tier, seed, PRESETS, **cfg)
    tt = table_types()
    stats["all_types"] = list(tt)
    for t, (variable, public) in tt.items():
        if t in stats["per_type"]:
            stats["per_type"][t]["variable"] = variable
            stats["per_type"][t]["public"] = public
    coverage_guard(stats, need_mal=(pid == "C04"))
    probe_guard(pid, stats)
    if pid == "C04":
        bcov, bdevs = run_bits()
        stats["bits"] = bcov
        stats["cases"] += bcov["cases"]
        stats["states"] += bcov["states"]
        stats["transitions"] += bcov["transitions"]
        devs = devs + bdevs
    viol, known, notes = adjudicate(pid, devs)
    return stats, viol, known, notes


# ------------------------------------------------------------------------------------------------ self-test


MUTANTS = [
    # (name, file, old, new, property expected to flag)
    ("checkpoint-ser-drops-root", "eth2/beacon/common/general.go",
     "return w.FixedLenContainer(a.Epoch, &a.Root)", "return w.FixedLenContainer(a.Epoch)", "C04"),
    ("attdata-htr-swap", "eth2/beacon/phase0/pending_attestation.go",
     "return hFn.HashTreeRoot(p.Slot, p.Index, p.BeaconBlockRoot, &p.Source, &p.Target)",
     "return hFn.HashTreeRoot(p.Slot, p.Index, p.BeaconBlockRoot, &p.Target, &p.Source)", "C05"),
]


def run_code_mutants(mutants):
    """Apply each canned mutation to a scratch worktree of /repo and require VIOLATION from the real check."""
    import subprocess
    ok = True
    wt = os.path.join(lib.scratch_root(), "wt-ssz-selftest")
    subprocess.run(["git", "-C", "/repo", "worktree", "remove", "--force", wt], capture_output=True)
    p = lib.run(["git", "-C", "/repo", "worktree", "add", "--detach", wt, "HEAD"])
    if p.returncode != 0:
        raise lib.InfraError("cannot create worktree: " + p.stderr)
    try:
        for name, f, old, new, pid in mutants:
            fp = os.path.join(wt, f)
            src = open(fp).read()
            if old not in src:
                raise lib.InfraError("selftest mutant %s does not apply" % name)
            open(fp, "w").write(src.replace(old, new, 1))
            env = dict(os.environ)
            env["VERIF_REPO"] = wt
            env["VERIF_NO_EVIDENCE"] = "1"  # runs against a mutated tree must not overwrite the evidence files
            q = subprocess.run([os.path.join(lib.VERIF, "check"), pid, "--tier", "quick"], env=env,
                               capture_output=True, text=True)
            flagged = q.returncode == 1 and "VIOLATION property=%s" % pid in q.stdout
            lib.log("selftest: mutant %s -> exit %d %s" % (name, q.returncode, "VIOLATION" if flagged else "NOT FLAGGED"))
            if not flagged:
                ok = False
            open(fp, "w").write(src)
    finally:
        subprocess.run(["git", "-C", "/repo", "worktree", "remove", "--force", wt], capture_output=True)
    return ok


def selftest():
    """Binding self-test: (1) a corrupted TLC result must make the Go check report a deviation; (2) canned code
    mutations in a scratch worktree must produce VIOLATION through the real check."""
    import subprocess
    ok = True
    binary = lib.build_harness("ssz")
    schemas_dir, _ = export_schemas()
    cpath = os.path.join(lib.scratch("sszself"), "cases.ndjson")
    gen_cases(binary, os.path.join(schemas_dir, "schemas_minimal.json"), cpath, 1, 4, 2000, 1000, 0,
              types="^common\\.(Checkpoint|Fork)$|^phase0\\.AttestationData$")
    lines = [l for l in open(cpath) if l.strip()]
    out = eval_shard(("minimal", schemas_dir, lines, binary, 0, 300))
    base = sum(len(r.get("devs") or []) for r in out["reports"] if not r.get("summary"))
    lib.log("selftest: unmodified results -> %d deviations" % base)
    if base != 0:
        ok = False
    # corrupt one logged field (one byte of the expected encoding) and one plan chunk: the checker must object
    wd = lib.fresh_spec_copy({"cases.ndjson": "".join(lines),
                              "R.cfg": 'CONSTANT PresetName = "minimal"\nINIT Init\nNEXT Next\nINVARIANT SelfConsistent\nCHECK_DEADLOCK FALSE\n'})
    res = lib.tlc("SSZEval", cfg="R.cfg", workdir=wd, workers=1, timeout=300)
    lib.tlc_must_pass(res, "selftest eval")
    recs = [json.load(open(os.path.join(wd, "res_%d.json" % i))) for i in range(1, len(lines) + 1)]
    for what in ("ser", "plan"):
        mutated = json.loads(json.dumps(recs))
        tgt = next(r for r in mutated if any(r["ser"]))
        if what == "ser":
            tgt["ser"][0] ^= 1
        else:
            ch = next(op for op in tgt["plan"] if op[0] == "c")
            ch[1][0] ^= 1
        rp = os.path.join(wd, "results_%s.ndjson" % what)
        lib.write_ndjson(rp, mutated)
        rep = os.path.join(wd, "report_%s.ndjson" % what)
        p = lib.run([binary, "check", "-schemas", os.path.join(schemas_dir, "schemas_minimal.json"), "-results", rp,
                     "-out", rep], env=_go_env(), timeout=300)
        n = sum(len(r.get("devs") or []) for r in lib.read_ndjson(rep) if not r.get("summary"))
        lib.log("selftest: corrupted %s -> %d deviations" % (what, n))
        if n == 0:
            ok = False
    ok &= run_code_mutants(MUTANTS)
    return ok
