"""Real-chain driver for the fork-choice family (C09/C10/C11).

`real_chain_traces(seed, tier)` builds histories with harness/chain (real states, blocks, attestations; competing
branches, late blocks, skipped epoch starts, finality with prunes, a stretch without finality), feeds them to the real
forkchoice.ProtoForkChoice the way a client does (harness/cmd/gossip, subcommand `fcchain`) and returns a list of
(trace_path, spe) pairs in the ndjson format of harness/cmd/fc, to be validated with
forkchoice.validate_file(trace_path, spe, findings). Roots are ranked order-preservingly (ties break by root order).
`LAST_MANIFEST` holds the per-history statistics of the last call (events, blocks, votes, prunes, branch switches,
Head() errors, justified checkpoints whose epoch start slot is empty, late blocks).
"""
import json
import os

import lib

LAST_MANIFEST = []


def real_chain_traces(seed, tier, n=None):
    global LAST_MANIFEST
    gbin = lib.build_harness("gossip")
    d = lib.scratch("fcchain-%s-%s" % (tier, seed))
    cmd = [gbin, "fcchain", "-seed", str(seed), "-tier", tier, "-outdir", d]
    if n:
        cmd += ["-n", str(n)]
    p = lib.run(cmd, timeout=1800)
    if p.returncode != 0:
        raise lib.InfraError("fcchain driver failed (rc=%d):\n%s" % (p.returncode, (p.stdout + p.stderr)[-3000:]))
    if p.stderr.strip():
        lib.log(p.stderr.strip()[-2000:])
    LAST_MANIFEST = json.loads(p.stdout)
    want = n or (6 if tier == "quick" else 60)
    if len(LAST_MANIFEST) < max(1, want * 2 // 3):
        raise lib.InfraError("fcchain: only %d of %d histories could be built:\n%s" % (len(LAST_MANIFEST), want, p.stderr[-2000:]))
    return [(e["path"], e["spe"]) for e in LAST_MANIFEST]


def summary():
    tot = {}
    for e in LAST_MANIFEST:
        for k, v in e["stats"].items():
            tot[k] = max(tot.get(k, 0), v) if k == "max_nodes" else tot.get(k, 0) + v
    tot["histories"] = len(LAST_MANIFEST)
    return tot


def selfcheck(seed=1, tier="quick", findings=("fc-prune-order", "fc-gap-start")):
    """Validate the traces against ForkChoiceTrace.tla; prints MISMATCH / DEVIATION counts per history."""
    import collections
    import time
    import forkchoice
    pairs = real_chain_traces(seed, tier)
    t0 = time.time()

    def val(pe):
        (path, spe), e = pe
        t = time.time()
        res = forkchoice.validate_file(path, spe, set(findings))
        return e, res, time.time() - t
    total = collections.Counter()
    bad = []
    for e, res, dt in lib.parallel_map(val, list(zip(pairs, LAST_MANIFEST)), workers=8):
        prints = forkchoice.parse_prints(res.out)
        c = collections.Counter()
        for kind, body in prints:
            if kind == "DEVIATION":
                c["dev:" + forkchoice.split_top(body)[0].strip('"')] += 1
            else:
                c[kind] += 1
                if kind == "MISMATCH":
                    bad.append((e["path"], body[:600]))
        total.update(c)
        print("%s %-70s events=%d tlc=%.1fs %s" % (os.path.basename(e["path"]), e["name"][:70], e["stats"]["events"], dt, dict(c)))
    print("driver:", summary())
    print("validation:", dict(total), "wall %.1fs" % (time.time() - t0))
    for p, b in bad[:20]:
        print("MISMATCH", os.path.basename(p), b)
    return not bad


if __name__ == "__main__":
    import sys
    ok = selfcheck(int(sys.argv[1]) if len(sys.argv) > 1 else 1, sys.argv[2] if len(sys.argv) > 2 else "quick")
    sys.exit(0 if ok else 1)
