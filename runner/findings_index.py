#!/usr/bin/env python3
"""Writes known_findings_index.json: one read-only index of every known-findings entry (open findings and fixed
defects) from known_findings.json and known_findings.d/*.json, with the file it lives in. The checks themselves read
the source files through lib.load_known_findings(); nothing is added to any of them at run time."""
import json
import os

VERIF = os.path.dirname(os.path.dirname(os.path.abspath(__file__)))


def main():
    out = {"open_findings": [], "fixed": []}
    srcs = [os.path.join(VERIF, "known_findings.json")]
    d = os.path.join(VERIF, "known_findings.d")
    srcs += [os.path.join(d, f) for f in sorted(os.listdir(d)) if f.endswith(".json")]
    for s in srcs:
        for e in json.load(open(s)).get("entries", []):
            rec = {"id": e.get("id"), "property": e.get("property"), "file": os.path.relpath(s, VERIF),
                   "signature": e.get("signature", "")[:400]}
            if e.get("kind") == "fixed":
                rec["commit"] = e.get("commit")
                out["fixed"].append(rec)
            else:
                out["open_findings"].append(rec)
    out["counts"] = {"open_findings": len(out["open_findings"]), "fixed": len(out["fixed"])}
    json.dump(out, open(os.path.join(VERIF, "known_findings_index.json"), "w"), indent=1)
    print(out["counts"])
    for e in out["open_findings"]:
        print("  open:", e["property"], e["id"], "(%s)" % e["file"])


if __name__ == "__main__":
    main()
