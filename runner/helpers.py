"""Family: numeric / time / Merkle helpers (C19).  Oracle: spec/Helpers.tla over spec/BigNat.tla, evaluated by TLC.

Directions
  (a) spec -> code: HelpersEnum.tla enumerates arguments (small domain exhaustively, 64-bit boundaries, all Merkle
      branches over a 3-value alphabet with TLC-chosen hash oracles), emits expected events; harness/cmd/helpers
      replays them on the real functions (hash oracle installed in hashing.Hash).
  (b) code -> spec: harness records boundary-biased calls of the real functions (panics recovered, real SHA-256
      trees with the table computed by crypto/sha256); HelpersTrace.tla evaluates Helpers!Post on every event.
A deviation is a VIOLATION unless it belongs to the narrow input class of an active entry of
known_findings.d/helpers.json (then KNOWN-FINDING).  Classification never decides whether an event deviates -- TLC /
the comparison with TLC's expected value does -- it only names the class of an event that already deviates.
"""
import json
import math
import os
import random
import re
import shutil
import time

import lib

PID = "C19"
B = 1 << 15
U64 = (1 << 64) - 1

ALL_FNS = ["MaxU64", "MinU64", "IntegerSquareroot", "IntegerSquareRootPrysm", "IsPowerOfTwo", "NextPowerOfTwo",
           "TimeToSlot", "TimeAtSlot", "SlotToEpoch", "SlotPrevious", "EpochPrevious", "EpochStartSlot",
           "ComputeActivationExitEpoch", "GetChurnLimit", "ActivationChurnLimit", "ValidatorActivationChurnLimit", "CommitteeCount", "CheckSlotSpan",
           "VerifyMerkleBranch"]
TRACE_ONLY_FNS = ["ActiveIndices", "Hash", "HashRepeat", "XorBytes32"]


def to_limbs(v):
    out = []
    while v:
        out.append(v % B)
        v //= B
    return out


def from_limbs(l):
    v = 0
    for x in reversed(l):
        v = v * B + x
    return v


# ------------------------------------------------------------------ known findings (input classes)

def _m_sqrt_max(d):
    return d["fn"] == "IntegerSquareroot" and d["args"] == [U64] and d["obs_out"] == "panic"


def _m_merkle_short(d):
    return d["fn"] == "VerifyMerkleBranch" and d["obs_out"] == "panic" and d["branch_len"] < d["args"][0]


def _m_timeatslot_last(d):
    if d["fn"] != "TimeAtSlot" or d["obs_out"] != "err":
        return False
    slot, g, sps = d["args"]
    return sps != 0 and slot == (U64 - g) // sps


def _m_prysm(d):
    if d["fn"] != "IntegerSquareRootPrysm" or d["obs_out"] != "ok":
        return False
    n = d["args"][0]
    return n >= (1 << 52) and d["obs_r"] == math.isqrt(n) + 1


MATCHERS = {
    "helpers-sqrt-max": _m_sqrt_max,
    "helpers-merkle-short-branch": _m_merkle_short,
    "helpers-timeatslot-last-slot": _m_timeatslot_last,
    "helpers-sqrt-prysm-float": _m_prysm,
}


def deviation(event, obs_out=None, obs_r=None):
    """Normalise a deviating event (trace event, or enum event + observed outcome) for classification."""
    return {
        "fn": event["fn"],
        "args": [from_limbs(x) for x in event.get("a", [])],
        "obs_out": obs_out if obs_out is not None else event["out"],
        "obs_r": from_limbs(obs_r if obs_r is not None else event.get("r", [])),
        "branch_len": len(event.get("branch", [])),
    }


def classify(dev, active):
    for e in active:
        m = MATCHERS.get(e["id"])
        if m and m(dev):
            return e
    return None


# ------------------------------------------------------------------ TLC: enumeration (spec -> code)

def random_table(rng):
    return [rng.choice("abc") for _ in range(9)]


def enum_params(part, maxn=256, depth=2, table=None, table_id=0):
    table = table or list("bcacababc")
    return ("-------------------------- MODULE HelpersEnumParams --------------------------\n"
            "Part == \"%s\"\nMaxN == %d\nMerkleDepth == %d\nTable == <<%s>>\nTableId == %d\n"
            "=============================================================================\n") % (
        part, maxn, depth, ", ".join('"%s"' % c for c in table), table_id)


def run_enum(part, maxn, depth, table, table_id, timeout=900):
    """Returns (path of concatenated ndjson, number of events, TLCResult)."""
    wd = lib.fresh_spec_copy({"HelpersEnumParams.tla": enum_params(part, maxn, depth, table, table_id)})
    res = lib.tlc("HelpersEnum", cfg="HelpersEnum.cfg", workdir=wd, workers=1, timeout=timeout, heap="3g")
    lib.tlc_must_pass(res, "HelpersEnum %s/%s" % (part, table_id))
    m = re.search(r'"HELPERS_ENUM_DONE",\s*"(\w+)",\s*(\d+)', res.out)
    if not m:
        raise lib.InfraError("HelpersEnum did not finish:\n" + res.out[-3000:])
    nchunks = int(m.group(2))
    out = os.path.join(wd, "enum-all.ndjson")
    n = 0
    with open(out, "w") as f:
        for k in range(1, nchunks + 1):
            p = os.path.join(wd, "enum-%d.ndjson" % k)
            if not os.path.exists(p):
                raise lib.InfraError("missing chunk %s" % p)
            for line in open(p):
                if line.strip():
                    f.write(line if line.endswith("\n") else line + "\n")
                    n += 1
    return out, n, res


def go_replay(binary, path):
    out = path + ".mismatch"
    p = lib.run([binary, "replay", path, out], timeout=900)
    if p.returncode != 0:
        raise lib.InfraError("helpers replay failed: %s\n%s" % (p.stdout[-2000:], p.stderr[-2000:]))
    summary = json.loads(p.stdout.strip().splitlines()[-1])
    mism = lib.read_ndjson(out)
    return summary, mism


# ------------------------------------------------------------------ TLC: trace validation (code -> spec)

def go_record(binary, seed, rounds, path):
    p = lib.run([binary, "record", str(seed), str(rounds), path], timeout=900)
    if p.returncode != 0:
        raise lib.InfraError("helpers record failed: %s\n%s" % (p.stdout[-2000:], p.stderr[-2000:]))
    return json.loads(p.stdout.strip().splitlines()[-1])


def validate_lines(lines, timeout=900):
    """TLC evaluates Helpers!Post on every line; returns (bad line numbers (1-based), TLCResult)."""
    wd = lib.fresh_spec_copy()
    with open(os.path.join(wd, "trace.ndjson"), "w") as f:
        f.write("".join(l if l.endswith("\n") else l + "\n" for l in lines))
    res = lib.tlc("HelpersTrace", cfg="HelpersTrace.cfg", workdir=wd, workers=1, timeout=timeout, heap="3g")
    m = re.search(r'<<\s*"HELPERS_TRACE_DONE",\s*(\d+),\s*<<(.*?)>>\s*>>', res.out, re.S)
    if not res.ok or not m or "is violated" in res.out or int(m.group(1)) != len(lines):
        raise lib.InfraError("HelpersTrace did not complete cleanly (rc=%d):\n%s" % (res.rc, res.out[-4000:]))
    bad = [int(x) for x in re.findall(r"\d+", m.group(2))]
    shutil.rmtree(wd, ignore_errors=True)
    return bad, res


def validate_trace_file(path, shards):
    lines = [l for l in open(path) if l.strip()]
    n = len(lines)
    if n == 0:
        raise lib.InfraError("empty trace")
    per = (n + shards - 1) // shards
    parts = [(i, lines[i:i + per]) for i in range(0, n, per)]
    results = lib.parallel_map(lambda p: (p[0], validate_lines(p[1])), parts, workers=min(shards, max(1, lib.NCPU // 2)))
    bad = []
    tlcs = []
    for off, (b, res) in results:
        bad += [off + x for x in b]
        tlcs.append(res)
    return lines, sorted(bad), tlcs


# ------------------------------------------------------------------ BigNat self-test

def bignat_selftest(seed, n=400):
    rng = random.Random(seed * 7919 + 13)

    def val():
        c = rng.randrange(8)
        if c == 0:
            return rng.choice([0, 1, 2, B - 1, B, B + 1, U64, U64 + 1, U64 - 1])
        if c == 1:
            return 1 << rng.randrange(0, 128)
        if c == 2:
            return (1 << rng.randrange(1, 128)) - 1
        if c == 3:
            return rng.randrange(1 << 64)
        if c == 4:
            return rng.randrange(1 << 128)
        if c == 5:
            return rng.randrange(1 << 16)
        if c == 6:
            k = rng.randrange(1 << 32)
            return k * k + rng.choice([-1, 0, 1]) if k else 0
        return rng.randrange(1 << 32)

    vecs = []
    for _ in range(n):
        a, b = val(), val()
        k = rng.randrange(0, 65)
        vecs.append({"a": to_limbs(a), "b": to_limbs(b), "sum": to_limbs(a + b), "prod": to_limbs(a * b),
                     "diff": to_limbs(abs(a - b)), "lt": a < b, "apow2": a > 0 and a & (a - 1) == 0,
                     "afits": a <= U64, "abits": [(a >> i) & 1 for i in range(0, 70)],
                     "k": k, "pow2k": to_limbs(1 << k)})
    wd = lib.fresh_spec_copy()
    lib.write_ndjson(os.path.join(wd, "vectors.ndjson"), vecs)
    res = lib.tlc("BigNatSelfTest", cfg="BigNatSelfTest.cfg", workdir=wd, workers=1, timeout=300, heap="2g")
    lib.tlc_must_pass(res, "BigNatSelfTest")
    if "BIGNAT_SELFTEST_DONE" not in res.out:
        raise lib.InfraError("BigNatSelfTest did not finish:\n" + res.out[-3000:])
    return n, res


# ------------------------------------------------------------------ the check

REQUIRED_CLASSES = [
    "IntegerSquareroot:sq", "IntegerSquareroot:sqm1", "IntegerSquareroot:sqp1", "IntegerSquareroot:max",
    "IntegerSquareroot:pow2", "IntegerSquareroot:zero", "IntegerSquareroot:rand64",
    "NextPowerOfTwo:pow2", "NextPowerOfTwo:pow2p1", "NextPowerOfTwo:pow2m1", "NextPowerOfTwo:zero",
    "TimeAtSlot:last-representable", "TimeAtSlot:first-overflow", "TimeAtSlot:below-last", "TimeAtSlot:realistic",
    "EpochStartSlot:last-representable", "EpochStartSlot:first-overflow",
    "ComputeActivationExitEpoch:last-representable", "ComputeActivationExitEpoch:first-overflow",
    "TimeToSlot:before-genesis", "TimeToSlot:at-genesis", "TimeToSlot:slot-edge",
    "ValidatorActivationChurnLimit:cap-below-min", "ValidatorActivationChurnLimit:cap-zero-below-min",
    "ValidatorActivationChurnLimit:cap-equals-min", "ValidatorActivationChurnLimit:cap-above-min",
    "GetChurnLimit:quotient-edge", "GetChurnLimit:min-edge", "CommitteeCount:count-edge", "CommitteeCount:max-edge",
    "CheckSlotSpan:old-edge", "CheckSlotSpan:new-edge", "CheckSlotSpan:sum-overflow",
    "VerifyMerkleBranch:honest", "VerifyMerkleBranch:accepted", "VerifyMerkleBranch:rejected",
    "VerifyMerkleBranch:branch-short", "VerifyMerkleBranch:branch-long", "VerifyMerkleBranch:index-bit-flipped",
    "VerifyMerkleBranch:index-high-bits", "VerifyMerkleBranch:sibling-random", "VerifyMerkleBranch:shallower",
]
REQUIRED_OUTCOMES = ["TimeAtSlot:ok", "TimeAtSlot:err", "EpochStartSlot:ok", "EpochStartSlot:err",
                     "CheckSlotSpan:ok", "CheckSlotSpan:err"]


def nontrivial(ev):
    """rule: an argument beyond TLC's native integers (>= 2^31), a non-ok outcome, or a Merkle branch of depth >= 1"""
    if ev.get("out") != "ok":
        return True
    if ev["fn"] == "VerifyMerkleBranch":
        return from_limbs(ev["a"][0]) >= 1
    return any(from_limbs(x) >= (1 << 31) for x in ev.get("a", []))


def check(tier, seed, save_prefix="run"):
    """Returns (violations [list of dict], known {id: count}, coverage dict)."""
    t0 = time.time()
    binary = lib.build_harness("helpers")
    active = lib.active_findings(PID)
    rng = random.Random(seed)
    cov = {"states": 0, "transitions": 0, "evaluations": 0, "per_fn_replayed": {}, "per_fn_recorded": {},
           "samples": [], "exhaustive": True}
    violations = []
    known = {}

    def note(dev_entry, dev, ev):
        if dev_entry is not None:
            known[dev_entry["id"]] = known.get(dev_entry["id"], 0) + 1
        else:
            violations.append({"dev": dev, "event": ev})

    # ---- BigNat against an independent bignum
    nvec, res = bignat_selftest(seed, 300 if tier == "quick" else 3000)
    cov["bignat_vectors"] = nvec

    # ---- (a) spec -> code
    if tier == "quick":
        maxn, depth, ntab = 4096, 3, 3
    else:
        maxn, depth, ntab = 4096, 4, 8
    tables = [list("bcacababc")] + [random_table(rng) for _ in range(ntab - 1)]
    jobs = [("num", None, 0), ("big", None, 0)] + [("merkle", t, i) for i, t in enumerate(tables)]

    def do(job):
        part, table, tid = job
        path, n, res = run_enum(part, maxn, depth, table, tid)
        summary, mism = go_replay(binary, path)
        if summary["events"] != n:
            raise lib.InfraError("replayer saw %d of %d events" % (summary["events"], n))
        with open(path) as f:
            all_lines = f.readlines()
        sample = all_lines[(len(all_lines) * 2) // 3].strip()
        # guarded boundary counter: TLC-enumerated activation-churn cases whose cap is below the minimum churn
        capmin = 0
        for l in all_lines:
            if '"ValidatorActivationChurnLimit"' in l:
                a = json.loads(l)["a"]
                if from_limbs(a[3]) < from_limbs(a[1]):
                    capmin += 1
        summary["activation_cap_below_min_churn"] = capmin
        return part, tid, n, res, summary, mism, sample

    replayed = 0
    distinct = set()
    cap_below_min = {"spec->code": 0, "code->spec": 0}
    for part, tid, n, res, summary, mism, sample in lib.parallel_map(do, jobs, workers=min(len(jobs), lib.NCPU)):
        cov["states"] += res.distinct
        cov["transitions"] += res.generated
        replayed += n
        cap_below_min["spec->code"] += summary.get("activation_cap_below_min_churn", 0)
        for fn, c in summary["per_fn"].items():
            cov["per_fn_replayed"][fn] = cov["per_fn_replayed"].get(fn, 0) + c
        if len(cov["samples"]) < 4:
            cov["samples"].append({"direction": "spec->code", "event": json.loads(sample)})
        for m in mism:
            dev = deviation(m["event"], m["obs_out"], m["obs_r"])
            note(classify(dev, active), dev, {"expected": m["event"], "observed": {"out": m["obs_out"], "r": m["obs_r"],
                                                                                   "msg": m.get("msg", "")}})
        lib.log("enum %s/%d: %d events replayed, %d mismatches (%.0fs)" % (part, tid, n, len(mism), lib.elapsed()))
    cov["enum_events_replayed"] = replayed
    cov["merkle_tables"] = ["".join(t) for t in tables]
    cov["merkle_depth"] = depth
    for fn in ALL_FNS:
        if cov["per_fn_replayed"].get(fn, 0) == 0:
            raise lib.InfraError("vacuous: no TLC-enumerated event for %s" % fn)

    # ---- (b) code -> spec
    rounds = 2500 if tier == "quick" else 60000
    shards = 4 if tier == "quick" else 14
    tpath = os.path.join(lib.scratch("helpers"), "trace.ndjson")
    summary = go_record(binary, seed, rounds, tpath)
    lines, bad, tlcs = validate_trace_file(tpath, shards)
    for r in tlcs:
        cov["states"] += r.distinct
        cov["transitions"] += r.generated
    cov["per_fn_recorded"] = summary["per_fn"]
    cov["recorded_events"] = len(lines)
    cov["recorded_classes"] = {k: v for k, v in summary["classes"].items()
                               if not k.startswith(("MaxU64", "MinU64", "ActivationChurnLimit"))}
    cov["recorded_outcomes"] = summary["outcomes"]
    for fn in ALL_FNS + TRACE_ONLY_FNS:
        if summary["per_fn"].get(fn, 0) == 0:
            raise lib.InfraError("vacuous: no recorded call of %s" % fn)
    for c in REQUIRED_CLASSES:
        if summary["classes"].get(c, 0) == 0:
            raise lib.InfraError("vacuous: boundary class %s never generated" % c)
    cap_below_min["code->spec"] = (summary["classes"].get("ValidatorActivationChurnLimit:cap-below-min", 0) +
                                   summary["classes"].get("ValidatorActivationChurnLimit:cap-zero-below-min", 0))
    cov["activation_cap_below_min_churn"] = cap_below_min
    if min(cap_below_min.values()) == 0:
        raise lib.InfraError("vacuous: activation_cap_below_min_churn is zero (%s)" % cap_below_min)
    for ln in bad:
        ev = json.loads(lines[ln - 1])
        dev = deviation(ev)
        note(classify(dev, active), dev, {"recorded": ev})
    if not violations:      # (on a deviating tree the missing outcome is the deviation itself)
        for c in REQUIRED_OUTCOMES:
            if summary["outcomes"].get(c, 0) == 0:
                raise lib.InfraError("vacuous: outcome %s never observed" % c)
    nt = 0
    for l in lines:
        ev = json.loads(l)
        key = lib.digest([ev["fn"], ev.get("a"), ev.get("branch"), ev.get("leaf"), ev.get("root"), ev.get("x"), ev.get("len")])
        if key not in distinct:
            distinct.add(key)
            if nontrivial(ev):
                nt += 1
    cov["samples"].append({"direction": "code->spec", "event": {k: v for k, v in json.loads(lines[len(lines) // 2]).items()
                                                                 if k not in ("tab", "vals")}})
    cov["evaluations"] = replayed + len(lines)
    cov["traces_validated_against_impl"] = replayed + len(lines) - len(bad)
    cov["distinct_nontrivial"] = {"distinct": len(distinct), "nontrivial": nt,
                                  "rule": "recorded events distinct by hash of (fn, arguments); non-trivial = an argument "
                                          ">= 2^31, a non-ok outcome, or a Merkle branch of depth >= 1"}
    cov["deviating_events"] = len(bad)
    cov["known_findings_observed"] = dict(known)
    lib.log("trace: %d events, %d flagged by TLC (%.0fs)" % (len(lines), len(bad), time.time() - t0))
    return violations, known, cov


def report(violations, known, tag):
    active = {e["id"]: e for e in lib.active_findings(PID)}
    for fid, cnt in sorted(known.items()):
        lib.report_known(PID, "%s [%s] (%d events)" % (active[fid]["signature"], fid, cnt))
    if violations:
        first = violations[:20]
        path = lib.save_replay(PID, "violation-%s.ndjson" % tag,
                               "\n".join(json.dumps(_replayable(v)) for v in first) + "\n")
        v = first[0]
        lib.report_violation(PID, path, "%d deviating events not covered by a listed finding; first: %s" % (
            len(violations), json.dumps(v)[:1500]))
        return 1
    return 0


def _replayable(v):
    ev = v["event"].get("recorded") or v["event"].get("expected")
    return ev


def replay_file(path):
    """Re-execute the calls of a saved counterexample on the current tree and let TLC decide again."""
    binary = lib.build_harness("helpers")
    out = os.path.join(lib.scratch("helpers"), "recall.ndjson")
    p = lib.run([binary, "recall", path, out], timeout=300)
    if p.returncode != 0:
        raise lib.InfraError("helpers recall failed: %s %s" % (p.stdout[-1000:], p.stderr[-1000:]))
    lines = [l for l in open(out) if l.strip()]
    if not lines:
        raise lib.InfraError("nothing re-executable in " + path)
    bad, _ = validate_lines(lines)
    active = lib.active_findings(PID)
    violations, known = [], {}
    for ln in bad:
        ev = json.loads(lines[ln - 1])
        dev = deviation(ev)
        e = classify(dev, active)
        if e is None:
            violations.append({"dev": dev, "event": {"recorded": ev}})
        else:
            known[e["id"]] = known.get(e["id"], 0) + 1
    lib.log("replay: %d calls re-executed, %d flagged by TLC" % (len(lines), len(bad)))
    return report(violations, known, "replay")


def main(tier, seed, replay=None):
    t0 = time.time()
    if replay:
        return replay_file(replay)
    violations, known, cov = check(tier, seed)
    rc = report(violations, known, "%s-seed%d" % (tier, seed))
    if os.environ.get("VERIF_NO_EVIDENCE"):   # mutant runs of the self-test must not overwrite the evidence
        return rc
    lib.write_evidence(PID, tier, seed, cov, time.time() - t0, violations=len(violations),
                       assumptions=["SHA-256 is collision resistant on the values built by the harness (Merkle oracle tables "
                                    "computed with crypto/sha256 list the pre-image of every tree node)",
                                    "divisor parameters of the configuration are non-zero (documented domain)"])
    return rc


# ------------------------------------------------------------------ binding self-test

MUTANTS = {
    "sqrt-loop-bound": ("eth2/util/math/math_util.go", "for y < x {", "for y+1 < x {"),
    "ispow2-zero": ("eth2/util/math/math_util.go", "return (n > 0) && (n&(n-1) == 0)", "return n&(n-1) == 0"),
    "epochstart-no-overflow-check": ("eth2/beacon/common/time.go", "if e != spec.SlotToEpoch(out) {", "if false {"),
    "merkle-bit-order": ("eth2/util/merkle/crypto_util.go", "if (index>>i)&1 == 1 {", "if (index>>(depth-1-i))&1 == 1 {"),
    "merkle-depth-off-by-one": ("eth2/util/merkle/crypto_util.go", "for i := uint64(0); i < depth; i++ {",
                                "for i := uint64(0); i+1 < depth; i++ {"),
    "nextpow2-no-decrement": ("eth2/util/math/math_util.go", "\tv--\n", "\n"),
    "timeatslot-no-overflow-check": ("eth2/beacon/common/time.go", "if slot >= Slot(max) {", "if false && slot >= Slot(max) {"),
    "activation-churn-lower-clamp": ("eth2/beacon/deneb/registry.go",
                                     "return min(uint64(spec.MAX_PER_EPOCH_ACTIVATION_CHURN_LIMIT), phase0ChurnLimit)",
                                     "return max(uint64(spec.MIN_PER_EPOCH_CHURN_LIMIT), min(uint64(spec.MAX_PER_EPOCH_ACTIVATION_CHURN_LIMIT), phase0ChurnLimit))"),
    "churn-min": ("eth2/beacon/common/time.go", "return math.MaxU64(uint64(spec.MIN_PER_EPOCH_CHURN_LIMIT)",
                  "return math.MinU64(uint64(spec.MIN_PER_EPOCH_CHURN_LIMIT)"),
    "slotspan-lt": ("eth2/gossipval/common.go", "slot > maxSlot {", "slot >= maxSlot {"),
    "committee-count-max": ("eth2/beacon/common/shuffling.go", "if uint64(spec.MAX_COMMITTEES_PER_SLOT) < committeesPerSlot {",
                            "if uint64(spec.MAX_COMMITTEES_PER_SLOT) <= committeesPerSlot+1 {"),
}


def selftest():
    """(1) trace spec rejects a corrupted / accepts an intact log; (2) a canned code mutation yields a VIOLATION."""
    ok = True
    good = [{"fn": "IntegerSquareroot", "a": [to_limbs(10 ** 18)], "out": "ok", "r": to_limbs(10 ** 9)},
            {"fn": "TimeAtSlot", "a": [to_limbs(5), to_limbs(7), to_limbs(12)], "out": "ok", "r": to_limbs(67)},
            {"fn": "VerifyMerkleBranch", "a": [[2], [1]], "leaf": "a", "branch": ["b", "c"], "root": "r",
             "tab": [["b", "a", "x"], ["x", "c", "r"]], "out": "ok", "r": [1]}]
    bad, _ = validate_lines([json.dumps(e) for e in good])
    if bad:
        lib.log("selftest: intact log rejected", bad)
        ok = False
    corrupt = json.loads(json.dumps(good))
    corrupt[0]["r"] = to_limbs(10 ** 9 + 1)
    corrupt[1]["out"] = "err"
    corrupt[2]["branch"] = ["c", "b"]
    bad, _ = validate_lines([json.dumps(e) for e in corrupt])
    if bad != [1, 2, 3]:
        lib.log("selftest: corrupted log not rejected line by line:", bad)
        ok = False
    lib.log("selftest(helpers): trace-spec binding %s" % ("ok" if ok else "FAILED"))
    ok = selftest_mutant("sqrt-loop-bound") and ok
    return ok


def mutated_repo(name, table=None):
    """Scratch copy of REPO (outside /repo and /verif, removed at exit) with one canned mutation applied."""
    rel, old, new = (table or MUTANTS)[name]
    dst = os.path.join(lib.scratch_root(), "mut-" + name)
    shutil.copytree(lib.REPO, dst, ignore=shutil.ignore_patterns(".git"))
    p = os.path.join(dst, rel)
    src = open(p).read()
    if src.count(old) != 1:
        raise lib.InfraError("mutant %s: pattern occurs %d times in %s" % (name, src.count(old), rel))
    open(p, "w").write(src.replace(old, new))
    return dst


def run_check_on(repo, pid=PID, tier="quick", seed=1):
    p = lib.run([os.path.join(lib.VERIF, "check"), pid, "--tier", tier],
                env={"VERIF_REPO": repo, "VERIF_SEED": str(seed), "VERIF_NO_EVIDENCE": "1"}, timeout=3000)
    return p.returncode, p.stdout, p.stderr


def selftest_mutant(name="sqrt-loop-bound"):
    repo = mutated_repo(name)
    rc, out, err = run_check_on(repo)
    shutil.rmtree(repo, ignore_errors=True)
    good = rc == 1 and "VIOLATION property=%s" % PID in out
    lib.log("selftest(helpers): mutant %s -> rc=%d %s" % (name, rc, "caught" if good else "MISSED\n" + out[-2000:] + err[-2000:]))
    return good
