module verif/harness

go 1.21

require github.com/protolambda/zrnt v0.0.0

replace github.com/protolambda/zrnt => /repo
