package main

import (
	"math/rand"
	"sort"
)

// The generator keeps a rough shadow of what it inserted only to propose plausible arguments
// (known parents, coherent justified/finalized epochs, checkpoints that lie on a chain). It is not an
// oracle: the specification decides every reply.

type gblock struct {
	root, parent, slot int
	je, fe             int
	jcp, fcp           CP
	lastSlot           int // last slot node known for this root
}

type gen struct {
	rng      *rand.Rand
	spe      int
	blocks   map[int]*gblock
	order    []int
	nvals    int
	je, fe   int
	finRoot  int
	usedRoot map[int]bool
	h        int
}

func (g *gen) pickBlock(biasRecent bool) *gblock {
	if len(g.order) == 0 {
		return nil
	}
	if biasRecent && g.rng.Intn(3) != 0 {
		k := len(g.order) - 1 - g.rng.Intn(min(3, len(g.order)))
		return g.blocks[g.order[k]]
	}
	return g.blocks[g.order[g.rng.Intn(len(g.order))]]
}

func (g *gen) newRoot() int {
	for {
		r := 2 + g.rng.Intn(60)
		if !g.usedRoot[r] {
			g.usedRoot[r] = true
			return r
		}
	}
}

// checkpoint root for epoch e on the chain ending in block b: latest ancestor-or-self at or before the epoch start
func (g *gen) cpRoot(b *gblock, e int) int {
	start := e * g.spe
	cur := b
	for cur != nil && cur.slot > start {
		p, ok := g.blocks[cur.parent]
		if !ok || p == cur {
			break
		}
		cur = p
	}
	if cur == nil {
		return b.root
	}
	return cur.root
}

func (g *gen) isDesc(b *gblock, anc int) bool {
	cur := b
	for i := 0; i < 1000 && cur != nil; i++ {
		if cur.root == anc {
			return true
		}
		p, ok := g.blocks[cur.parent]
		if !ok || p == cur {
			return false
		}
		cur = p
	}
	return false
}

func (g *gen) bals() []int {
	n := g.nvals
	if g.rng.Intn(6) == 0 {
		n = g.rng.Intn(g.nvals + 2)
	}
	out := make([]int, n)
	choices := []int{0, 10, 10, 20, 32, 32}
	for i := range out {
		out[i] = choices[g.rng.Intn(len(choices))]
	}
	return out
}

func (g *gen) opBlock() *Op {
	p := g.pickBlock(true)
	op := &Op{Ev: "ProcessBlock", H: g.h, ObsHead: b2i(g.rng.Intn(4) != 0)}
	switch g.rng.Intn(14) {
	case 0: // unknown parent
		op.Parent, op.Root, op.Slot = 70+g.rng.Intn(5), g.newRoot(), p.slot+1
		return op
	case 1: // duplicate of a known block, maybe with other arguments
		q := g.pickBlock(false)
		op.Parent, op.Root, op.Slot, op.JE, op.FE = q.parent, q.root, q.slot+g.rng.Intn(2), q.je, q.fe
		return op
	case 2: // not after its parent
		op.Parent, op.Root, op.Slot = p.root, g.newRoot(), max(0, p.slot-g.rng.Intn(2))
		op.JE, op.FE = p.je, p.fe
		return op
	}
	gap := 0
	for g.rng.Intn(3) == 0 && gap < 4 {
		gap++
	}
	slot := p.slot + 1 + gap
	if g.rng.Intn(3) == 0 {
		// a block exactly at the next epoch start (checkpoints on block nodes rather than gap slots)
		slot = (p.slot/g.spe + 1) * g.spe
	}
	if g.rng.Intn(5) == 0 && p.lastSlot > p.slot {
		slot = p.slot + 1 + g.rng.Intn(p.lastSlot-p.slot+1)
	}
	if c := (p.slot/g.spe + 1) * g.spe; p.lastSlot >= c && g.rng.Intn(3) == 0 {
		// a late sibling exactly at an epoch start slot that already exists as a gap node of the parent root: it hangs
		// off the node before the checkpoint node <<parent, c>> and is not a descendant of that checkpoint
		n := (p.lastSlot - c) / g.spe
		slot = c + g.spe*g.rng.Intn(n+1)
	}
	b := &gblock{root: g.newRoot(), parent: p.root, slot: slot, je: p.je, fe: p.fe, jcp: p.jcp, fcp: p.fcp, lastSlot: slot}
	ep := slot / g.spe
	if ep > b.je && g.rng.Intn(3) == 0 {
		// justify a newer epoch on this chain; finalize the previously justified one some of the time
		nj := b.je + 1 + g.rng.Intn(ep-b.je)
		if g.rng.Intn(2) == 0 && b.je > b.fe {
			b.fe = b.je
			b.fcp = b.jcp
		}
		b.je = nj
		g.blocks[b.root] = b
		b.jcp = CP{Epoch: nj, Root: g.cpRoot(b, nj)}
		delete(g.blocks, b.root)
	}
	g.blocks[b.root] = b
	g.order = append(g.order, b.root)
	if slot > p.lastSlot {
		p.lastSlot = slot
	}
	op.Parent, op.Root, op.Slot, op.JE, op.FE = p.root, b.root, slot, b.je, b.fe
	if g.rng.Intn(12) == 0 { // incoherent epochs
		op.JE, op.FE = g.rng.Intn(4), g.rng.Intn(3)
	}
	return op
}

func (g *gen) opSlot() *Op {
	p := g.pickBlock(true)
	op := &Op{Ev: "ProcessSlot", H: g.h, ObsHead: b2i(g.rng.Intn(4) != 0)}
	slot := p.lastSlot + 1 + g.rng.Intn(2)
	if g.rng.Intn(5) == 0 && p.lastSlot > p.slot {
		slot = p.slot + 1 + g.rng.Intn(p.lastSlot-p.slot)
	}
	if slot > p.lastSlot {
		p.lastSlot = slot
	}
	op.Parent, op.Slot, op.JE, op.FE = p.root, slot, p.je, p.fe
	return op
}

func (g *gen) opAtt() *Op {
	op := &Op{Ev: "ProcessAttestation", H: g.h, ObsHead: b2i(g.rng.Intn(3) != 0)}
	op.V = g.rng.Intn(g.nvals)
	if g.rng.Intn(15) == 0 {
		op.V = g.nvals + g.rng.Intn(2)
	}
	b := g.pickBlock(true)
	op.Root = b.root
	op.Slot = b.slot + g.rng.Intn(b.lastSlot-b.slot+1)
	switch g.rng.Intn(12) {
	case 0:
		op.Slot = b.lastSlot + 1 + g.rng.Intn(2)
	case 1:
		op.Slot = max(0, b.slot-1-g.rng.Intn(2))
	case 2:
		op.Root = 70 + g.rng.Intn(5)
	}
	return op
}

func (g *gen) opUJ(pruneHeavy bool) *Op {
	op := &Op{Ev: "UpdateJustified", H: g.h, ObsHead: b2i(g.rng.Intn(5) != 0)}
	// prefer blocks whose state is ahead of the store
	var cands []*gblock
	for _, r := range g.order {
		b := g.blocks[r]
		if b.je > g.je || b.fe > g.fe {
			cands = append(cands, b)
		}
	}
	var b *gblock
	if len(cands) > 0 && g.rng.Intn(6) != 0 {
		b = cands[g.rng.Intn(len(cands))]
	} else {
		b = g.pickBlock(false)
	}
	op.Trigger = b.root
	op.J, op.F = b.jcp, b.fcp
	op.Bal = g.bals()
	switch g.rng.Intn(16) {
	case 0:
		op.BalErr = 1
	case 1:
		op.Trigger = 70 + g.rng.Intn(5)
	case 2:
		op.J = CP{Epoch: op.J.Epoch + 1, Root: 70 + g.rng.Intn(5)}
	case 3:
		op.F = CP{Epoch: op.F.Epoch + 1, Root: g.pickBlock(false).root}
	case 4:
		op.J, op.F = op.F, op.J
	case 5:
		q := g.pickBlock(false)
		op.J = CP{Epoch: g.je + 1, Root: q.root}
	}
	if g.rng.Intn(8) == 0 {
		op.SinkFail = 1 + g.rng.Intn(3)
	}
	g.shadowUJ(op, b)
	return op
}

// shadowUJ: bookkeeping for a plausible success of an UpdateJustified op triggered by block b
func (g *gen) shadowUJ(op *Op, b *gblock) {
	if op.BalErr == 0 && op.J == b.jcp && op.F == b.fcp && op.Trigger == b.root &&
		(b.je > g.je || b.fe > g.fe) && b.je >= b.fe && b.fe >= g.fe {
		if fb, ok := g.blocks[op.F.Root]; ok && (op.F.Epoch == g.fe || g.isDesc(fb, g.finRoot)) {
			g.je = op.J.Epoch
			if op.F.Epoch > g.fe && op.SinkFail == 0 {
				g.fe = op.F.Epoch
				g.finRoot = op.F.Root
				var keep []int
				for _, r := range g.order {
					if g.isDesc(g.blocks[r], g.finRoot) {
						keep = append(keep, r)
					}
				}
				for _, r := range g.order {
					if !g.isDesc(g.blocks[r], g.finRoot) {
						defer delete(g.blocks, r)
					}
				}
				g.order = keep
			}
		}
	}
}

// gapForkMotif: two blocks on one parent root R, X exactly at an epoch start slot c and Y after it, most votes on X,
// then the checkpoint (epoch of c, R) - a gap-slot node on Y's chain - is justified and, half of the time, finalized.
// X is not below that checkpoint although it sits at the checkpoint's slot on the checkpoint's root.
func (g *gen) gapForkMotif() []*Op {
	p := g.pickBlock(false)
	c := (max(p.lastSlot, p.slot)/g.spe + 1) * g.spe
	if g.rng.Intn(3) == 0 && p.lastSlot >= (p.slot/g.spe+1)*g.spe {
		c = (p.slot/g.spe + 1) * g.spe // the gap node <<R, c>> exists already
	}
	e := c / g.spe
	if e <= p.je {
		return nil
	}
	var ops []*Op
	x := &gblock{root: g.newRoot(), parent: p.root, slot: c, je: p.je, fe: p.fe, jcp: p.jcp, fcp: p.fcp, lastSlot: c}
	y := &gblock{root: g.newRoot(), parent: p.root, slot: c + 1 + g.rng.Intn(2), je: e, fe: p.fe, fcp: p.fcp}
	y.lastSlot = y.slot
	y.jcp = CP{Epoch: e, Root: p.root}
	fin := g.rng.Intn(2) == 0
	if fin {
		y.fe, y.fcp = e, y.jcp
	}
	if g.rng.Intn(4) != 0 {
		// X's own state claims the same epochs (its checkpoint of epoch e is X itself), so it stays viable for head
		x.je, x.fe, x.jcp = y.je, y.fe, CP{Epoch: e, Root: x.root}
		if fin {
			x.fcp = x.jcp
		}
	}
	order := []*gblock{x, y}
	if g.rng.Intn(2) == 0 {
		order = []*gblock{y, x}
	}
	for _, b := range order {
		g.blocks[b.root] = b
		g.order = append(g.order, b.root)
		if b.slot > p.lastSlot {
			p.lastSlot = b.slot
		}
		ops = append(ops, &Op{Ev: "ProcessBlock", H: g.h, ObsHead: 1, Parent: p.root, Root: b.root, Slot: b.slot, JE: b.je, FE: b.fe})
	}
	for v := 0; v < g.nvals; v++ {
		t := x
		if v == g.nvals-1 && g.nvals > 1 && g.rng.Intn(3) != 0 {
			t = y
		}
		ops = append(ops, &Op{Ev: "ProcessAttestation", H: g.h, ObsHead: 1, V: v, Root: t.root, Slot: t.slot})
	}
	ops = append(ops, &Op{Ev: "Query", H: g.h, Q: "Head"})
	uj := &Op{Ev: "UpdateJustified", H: g.h, ObsHead: 1, Trigger: y.root, J: y.jcp, F: y.fcp, Bal: g.bals()}
	g.shadowUJ(uj, y)
	ops = append(ops, uj, &Op{Ev: "Query", H: g.h, Q: "Head"})
	return ops
}

func (g *gen) opPin() *Op {
	b := g.pickBlock(false)
	op := &Op{Ev: "SetPin", H: g.h, ObsHead: 1, Root: b.root, Slot: b.slot + g.rng.Intn(b.lastSlot-b.slot+1)}
	if g.rng.Intn(4) == 0 {
		op.Slot = b.lastSlot + 1
	}
	if g.rng.Intn(8) == 0 {
		op.Root = 70 + g.rng.Intn(5)
	}
	return op
}

func (g *gen) anyRoot() int {
	if g.rng.Intn(8) == 0 {
		return 70 + g.rng.Intn(5)
	}
	if g.rng.Intn(10) == 0 { // possibly pruned or never used
		return 1 + g.rng.Intn(62)
	}
	return g.pickBlock(false).root
}

func (g *gen) opQuery() *Op {
	op := &Op{Ev: "Query", H: g.h}
	qs := []string{"Head", "FindHead", "CanonicalChain", "InSubtree", "ClosestToSlot", "CanonAtSlot", "GetSlot", "Search"}
	op.Q = qs[g.rng.Intn(len(qs))]
	op.Anchor = g.anyRoot()
	op.Root = g.anyRoot()
	if b, ok := g.blocks[op.Anchor]; ok {
		op.Slot = b.slot + g.rng.Intn(b.lastSlot-b.slot+1)
		if g.rng.Intn(5) == 0 {
			op.Slot = max(0, b.slot-1+g.rng.Intn(b.lastSlot-b.slot+4))
		}
	} else {
		op.Slot = g.rng.Intn(8)
	}
	switch op.Q {
	case "ClosestToSlot", "CanonAtSlot":
		if b, ok := g.blocks[op.Anchor]; ok {
			op.Slot = max(0, b.slot-1+g.rng.Intn(8))
		}
		op.WithBlock = g.rng.Intn(2)
	case "Search":
		op.UsePar = g.rng.Intn(2)
		op.UseSlot = g.rng.Intn(2)
		op.Parent = g.anyRoot()
		op.FE = g.rng.Intn(10)
	}
	return op
}

func genHistory(rng *rand.Rand, h int, nops int, profile string, spe int) []*Op {
	g := &gen{rng: rng, h: h, blocks: map[int]*gblock{}, usedRoot: map[int]bool{1: true}}
	g.spe = spe
	g.nvals = 1 + rng.Intn(4)
	init := &Op{Ev: "Init", H: h, SPE: g.spe, Root: 1, Parent: rng.Intn(2), Slot: 0, ObsHead: 1}
	if profile != "prune" && rng.Intn(5) == 0 {
		// a later anchor (checkpoint start): epoch e, anchor at the epoch start slot
		e := 1 + rng.Intn(2)
		init.Slot = e * g.spe
		init.J, init.F = CP{Epoch: e, Root: 1}, CP{Epoch: e, Root: 1}
		g.je, g.fe = e, e
		if rng.Intn(2) == 0 {
			// justified checkpoint ahead of the finalized one, still on the anchor root (its epoch start slot is a gap
			// slot that later ProcessSlot calls fill in): the two epochs handed to the constructor differ
			init.J.Epoch = e + 1 + rng.Intn(2)
			g.je = init.J.Epoch
		}
	} else {
		init.J, init.F = CP{Epoch: 0, Root: 1}, CP{Epoch: 0, Root: 1}
	}
	if rng.Intn(10) == 0 {
		init.NilSink = 1
	}
	init.Bal = g.bals()
	g.finRoot = 1
	a := &gblock{root: 1, parent: init.Parent, slot: init.Slot, je: g.je, fe: g.fe, jcp: init.J, fcp: init.F, lastSlot: init.Slot}
	g.blocks[1] = a
	g.order = []int{1}
	ops := []*Op{init}
	for i := 0; i < nops; i++ {
		// cumulative weights: block, slot, attestation, update-justified, pin, query
		w := map[string][6]int{
			"mixed":   {30, 38, 58, 70, 74, 100},
			"votes":   {25, 32, 67, 75, 77, 100},
			"prune":   {33, 41, 56, 82, 87, 100},
			"queries": {28, 38, 48, 58, 60, 100},
		}[profile]
		if w[5] == 0 {
			w = [6]int{30, 38, 58, 70, 74, 100}
		}
		if rng.Intn(40) == 0 {
			if m := g.gapForkMotif(); m != nil {
				ops = append(ops, m...)
				i += len(m) - 1
				continue
			}
		}
		x := rng.Intn(100)
		var op *Op
		switch {
		case x < w[0]:
			op = g.opBlock()
		case x < w[1]:
			op = g.opSlot()
		case x < w[2]:
			op = g.opAtt()
		case x < w[3]:
			op = g.opUJ(profile == "prune")
		case x < w[4]:
			op = g.opPin()
		default:
			op = g.opQuery()
			if profile == "votes" && rng.Intn(2) == 0 {
				op.Q = []string{"Head", "FindHead"}[rng.Intn(2)]
			}
		}
		ops = append(ops, op)
	}
	_ = sort.Ints
	return ops
}
